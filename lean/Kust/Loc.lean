/-
  Kust.Loc — `kustomize localize` of a local target as a program over a file system with injected failures
  (api/internal/localizer: Run, localize, localizeNativeFields, localizeFile[WithContent], localizeRoot,
  localizeResource, createNewDir; locloader.go: the scope / destination guards).
  * a file system is a function from cleaned absolute paths (component lists) to entries;
  * the mutating operations (Mkdir, MkdirAll, WriteFile, RemoveAll) are numbered in execution order and the `F`-th
    fails without effect (`F` beyond the run = no failure); a failing READ is the `bad` predicate on paths;
  * parsing a kustomization (YAML) is third-party: the references of each root, in processing order, are an input;
    `isRes` says which file contents parse as resources;
  * path resolution is `Path.cleanSegs` (the loader's cleaning, C05) — symbolic links are outside the model.
  This is the code AFTER the repair C18-F1 (both early error paths clean up).
-/
import Kust.Path
namespace Kust
namespace Loc
open Path

abbrev P := List String

inductive Ent where
  | dir
  | file (content : String)
  deriving DecidableEq, Repr

abbrev FS := P → Option Ent

def isDirB (fs : FS) (p : P) : Bool := p = [] || fs p = some .dir

/-- no proper-or-equal prefix of `p` is a file -/
def noFileOnPath (fs : FS) (p : P) : Bool :=
  (List.range (p.length + 1)).all fun n => match fs (p.take n) with
    | some (.file _) => false
    | _ => true

inductive Mut where
  | mkdir (p : P)
  | mkdirAll (p : P)
  | write (p : P) (c : String)
  | removeAll (p : P)
  deriving DecidableEq, Repr

def Mut.path : Mut → P
  | .mkdir p => p
  | .mkdirAll p => p
  | .write p _ => p
  | .removeAll p => p

/-- the effect of a mutating operation; `none` = the operation is refused by the file system -/
def applyMut (fs : FS) : Mut → Option FS
  | .mkdir p =>
    if fs p = none ∧ p ≠ [] ∧ isDirB fs p.dropLast then some (fun x => if x = p then some .dir else fs x) else none
  | .mkdirAll p =>
    if noFileOnPath fs p then some (fun x => if x.isPrefixOf p ∧ fs x = none then some .dir else fs x) else none
  | .write p c =>
    if p ≠ [] ∧ isDirB fs p.dropLast ∧ fs p ≠ some .dir then some (fun x => if x = p then some (.file c) else fs x) else none
  | .removeAll p => some (fun x => if p.isPrefixOf x then none else fs x)

structure St where
  fs : FS
  k : Nat := 0                 -- mutating operations attempted so far
  trace : List Mut := []

/-- attempt a mutating operation: the `F`-th one fails (and has no effect) -/
def doMut (F : Nat) (s : St) (m : Mut) : St × Bool :=
  let s1 : St := { s with k := s.k + 1, trace := s.trace ++ [m] }
  if s.k = F then (s1, false)
  else match applyMut s.fs m with
    | some fs' => ({ s1 with fs := fs' }, true)
    | none => (s1, false)

inductive Ref where
  | file (raw : String)        -- a file-typed field (patch path, generator source, configuration, …)
  | root (raw : String)        -- a directory-typed field (bases, components)
  | res (raw : String)         -- a `resources` entry: a file holding resources, else a root
  deriving DecidableEq, Repr

structure Env where
  scope : P
  newDir : P
  /-- the references of the kustomization in a root directory, in processing order, with the file name it was found under -/
  kust : P → Option (String × List Ref)
  isRes : String → Bool
  /-- reading / cleaning this path fails (injected read failure) -/
  bad : P → Bool
  kustContent : String := "<localized kustomization>"

def resolve (root : P) (raw : String) : P := cleanSegs true root.reverse (segments raw)

/-- the checks of `Loader.Load` (locloader.go) on the cleaned path `p` -/
def loadFileAt (E : Env) (fs : FS) (root p : P) : Option (P × String × String) :=
  if E.bad p then none
  else match fs p with
    | some (.file c) =>
      if root.isPrefixOf p ∧ !(E.newDir.isPrefixOf p.dropLast) then
        match (p.drop root.length).reverse with
        | [] => none
        | name :: dr => some (dr.reverse, name, c)
      else none
    | _ => none

/-- `Loader.Load` of locloader.go on a local path: the file as (directory below the root, name, content),
    or `none` for every rejection; an absolute spelling is accepted as long as it stays inside the root -/
def loadFile (E : Env) (fs : FS) (root : P) (raw : String) : Option (P × String × String) :=
  loadFileAt E fs root (if isAbs raw then resolve [] raw else resolve root raw)

/-- `Loader.New`: the new root, inside the scope, outside the destination, not at or above a root in use -/
def newRoot (E : Env) (fs : FS) (stack : List P) (root : P) (raw : String) : Option P :=
  if isAbs raw then none
  else
    let r := resolve root raw
    if E.bad r then none
    else if fs r = some .dir ∧ !(stack.any fun s => r.isPrefixOf s) ∧
        E.scope.isPrefixOf r ∧ !(E.newDir.isPrefixOf r) then some r
    else none

def dstOf (E : Env) (r : P) : P := E.newDir ++ r.drop E.scope.length

/-- `localizeFileWithContent`: MkdirAll of the parent, WriteFile -/
def copyFile (E : Env) (F : Nat) (s : St) (root : P) (dirRel : P) (name c : String) : St × Bool :=
  let (s1, ok1) := doMut F s (.mkdirAll (dstOf E root ++ dirRel))
  if !ok1 then (s1, false) else doMut F s1 (.write (dstOf E root ++ dirRel ++ [name]) c)

/-- one entry of a kustomization; `rootFn` localizes a directory-typed entry -/
def localizeOne (E : Env) (F : Nat) (rootFn : St → List P → P → String → St × Bool)
    (s : St) (stack : List P) (root : P) : Ref → St × Bool
  | .file raw =>
    if raw = "" then (s, true)
    else match loadFile E s.fs root raw with
      | some (d, n, c) => copyFile E F s root d n c
      | none => (s, false)
  | .root raw =>
    if raw = "" then (s, true) else rootFn s stack root raw
  | .res raw =>
    match loadFile E s.fs root raw with
    | some (d, n, c) =>
      if E.isRes c then copyFile E F s root d n c
      else rootFn s stack root raw
    | none => rootFn s stack root raw

/-- the entries of one kustomization, in order: the first failure stops the run -/
def localizeRefs (E : Env) (F : Nat) (rootFn : St → List P → P → String → St × Bool) :
    St → List P → P → List Ref → St × Bool
  | s, _, _, [] => (s, true)
  | s, stack, root, ref :: rest =>
    let r := localizeOne E F rootFn s stack root ref
    if !r.2 then (r.1, false) else localizeRefs E F rootFn r.1 stack root rest

/-- `localizeRoot`: MkdirAll of the mirror directory, then localize it with `rec` -/
def localizeRootWith (E : Env) (F : Nat) (rec : St → List P → P → St × Bool) (s : St) (stack : List P) (root : P)
    (raw : String) : St × Bool :=
  match newRoot E s.fs stack root raw with
  | none => (s, false)
  | some r =>
    let (s1, ok) := doMut F s (.mkdirAll (dstOf E r))
    if !ok then (s1, false) else rec s1 stack r

/-- `localizer.localize` at `root` (on the loader stack `stack`), with fuel for the recursion through roots -/
def localize (E : Env) (F : Nat) : Nat → St → List P → P → St × Bool
  | 0, s, _, _ => (s, false)
  | fuel + 1, s, stack, root =>
    match E.kust root with
    | none => (s, false)
    | some (name, refs) =>
      if E.bad (root ++ [name]) then (s, false)
      else
        let (s1, ok) := localizeRefs E F (localizeRootWith E F (localize E F fuel)) s (root :: stack) root refs
        if !ok then (s1, false)
        else doMut F s1 (.write (dstOf E root ++ [name]) E.kustContent)

/-- `Run` for a local target (arguments already established: the target is a directory inside the scope) -/
def run (E : Env) (F : Nat) (fuel : Nat) (fs0 : FS) (target : P) : St × Bool :=
  let s0 : St := { fs := fs0 }
  if fs0 E.newDir ≠ none then (s0, false)                       -- destination already exists
  else
    let (s1, ok1) := doMut F s0 (.mkdir E.newDir)
    if !ok1 then (s1, false)                                     -- nothing was created
    else
      let cleanup (s : St) : St × Bool := ((doMut F s (.removeAll E.newDir)).1, false)
      if E.bad E.newDir then cleanup s1                          -- ConfirmDir of the new directory fails
      else
        let (s2, ok2) := doMut F s1 (.mkdirAll (dstOf E target))
        if !ok2 then cleanup s2
        else
          let (s3, ok3) := localize E F fuel s2 [] target
          if !ok3 then cleanup s3 else (s3, true)

end Loc
end Kust
