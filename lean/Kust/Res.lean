/-
  Kust.Res — resource identity and the bookkeeping of the renaming transformers.

  Transliterates: kyaml/resid (ResId.Equals / EffectiveNamespace), api/resource/resource.go (CurId, StorePreviousId,
  PrevIds, OrgId, appendCsvAnnotation), api/internal/utils/makeResIds.go (PrevIds), api/resmap/reswrangler.go (Append),
  api/internal/builtins/{Prefix,Suffix,Namespace}Transformer.go (who records what, who is skipped).

  The real code keeps previous ids in three parallel comma-joined annotations; the model keeps the three lists
  (`appendCsv` skips empty values exactly like `appendCsvAnnotation`), so a length mismatch — the `panic(err)` of
  `Resource.PrevIds` — is expressible.
  `cs : Gvk → Bool` is `IsClusterScoped` (regenerated scope table ⊕ schema view), a parameter.
-/
import Kust.Node
namespace Kust
namespace Res

structure Gvk where
  group : String
  version : String
  kind : String
  deriving DecidableEq, Repr, Inhabited

structure ResId where
  gvk : Gvk
  name : String
  ns : String
  deriving DecidableEq, Repr, Inhabited

/-- `ResId.EffectiveNamespace` -/
def effNs (cs : Gvk → Bool) (id : ResId) : String :=
  if cs id.gvk then "_non_namespaceable_"
  else if id.ns = "" ∨ id.ns = "default" then "default"
  else id.ns

/-- `ResId.Equals` -/
def idEquals (cs : Gvk → Bool) (a b : ResId) : Bool :=
  effNs cs a = effNs cs b ∧ a.name = b.name ∧ a.gvk = b.gvk

theorem idEquals_symm (cs : Gvk → Bool) (a b : ResId) : idEquals cs a b = idEquals cs b a := by
  unfold idEquals
  by_cases h1 : effNs cs a = effNs cs b <;> by_cases h2 : a.name = b.name <;> by_cases h3 : a.gvk = b.gvk <;>
    simp [h1, h2, h3, eq_comm]

theorem idEquals_refl (cs : Gvk → Bool) (a : ResId) : idEquals cs a a = true := by simp [idEquals]

/-! ### ResMap.Append -/

/-- `resWrangler.Append`: refuses an id that is already registered. -/
def append (cs : Gvk → Bool) (m : List ResId) (r : ResId) : Out (List ResId) :=
  if m.any (fun x => idEquals cs x r) then .err "conflict" else .ok (m ++ [r])

def appendAll (cs : Gvk → Bool) : List ResId → List ResId → Out (List ResId)
  | m, [] => .ok m
  | m, r :: rs =>
    match append cs m r with
    | .ok m' => appendAll cs m' rs
    | .err c => .err c
    | .panic c => .panic c

/-- no two registered ids are `Equals` -/
def IdsUnique (cs : Gvk → Bool) (m : List ResId) : Prop :=
  m.Pairwise (fun a b => idEquals cs a b = false)

theorem append_unique (cs : Gvk → Bool) (m m' : List ResId) (r : ResId)
    (hu : IdsUnique cs m) (h : append cs m r = .ok m') : IdsUnique cs m' := by
  unfold append at h
  split at h
  · simp at h
  · rename_i hn
    simp at h; subst h
    unfold IdsUnique
    rw [List.pairwise_append]
    refine ⟨hu, List.pairwise_singleton _ _, ?_⟩
    intro a ha b hb
    simp at hb; subst hb
    simp only [List.any_eq_true, not_exists, not_and, Bool.not_eq_true] at hn
    exact hn a ha

theorem appendAll_unique (cs : Gvk → Bool) : ∀ (rs m m' : List ResId),
    IdsUnique cs m → appendAll cs m rs = .ok m' → IdsUnique cs m'
  | [], m, m', hu, h => by simp [appendAll] at h; subst h; exact hu
  | r :: rs, m, m', hu, h => by
    unfold appendAll at h
    split at h
    · rename_i m1 h1
      exact appendAll_unique cs rs m1 m' (append_unique cs m m1 r hu h1) h
    · simp at h
    · simp at h

/-- **every resource map built by successful `Append`s has pairwise distinct ids** (any number of resources). -/
theorem built_by_append_unique (cs : Gvk → Bool) (rs m : List ResId)
    (h : appendAll cs [] rs = .ok m) : IdsUnique cs m :=
  appendAll_unique cs rs [] m List.Pairwise.nil h

/-! ### previous-id bookkeeping -/

structure R where
  gvk : Gvk
  name : String
  ns : String
  pNames : List String := []
  pNss : List String := []
  pKinds : List String := []
  prefixes : List String := []
  suffixes : List String := []
  deriving DecidableEq, Repr, Inhabited

/-- `appendCsvAnnotation`: an empty value is skipped -/
def appendCsv (l : List String) (v : String) : List String := if v = "" then l else l ++ [v]

def R.curId (r : R) : ResId := ⟨r.gvk, r.name, r.ns⟩

/-- `StorePreviousId` -/
def R.storePrev (cs : Gvk → Bool) (r : R) : R :=
  { r with pNames := appendCsv r.pNames r.name,
           pNss := appendCsv r.pNss (effNs cs r.curId),
           pKinds := appendCsv r.pKinds r.gvk.kind }

def zip3 (gvk : Gvk) : List String → List String → List String → List ResId
  | n :: ns, s :: ss, k :: ks => ⟨{ gvk with kind := k }, n, s⟩ :: zip3 gvk ns ss ks
  | _, _, _ => []

/-- `Resource.PrevIds`: `panic(err)` when the three lists differ in length -/
def R.prevIds (r : R) : Out (List ResId) :=
  if r.pNames = [] then .ok []
  else if r.pNames.length = r.pNss.length ∧ r.pNames.length = r.pKinds.length then
    .ok (zip3 r.gvk r.pNames r.pNss r.pKinds)
  else .panic "PrevIds: number of previous names, namespaces, kinds not equal"

/-- `OrgId` -/
def R.orgId (r : R) : Out ResId :=
  match r.prevIds with
  | .ok [] => .ok r.curId
  | .ok (i :: _) => .ok i
  | .err c => .err c
  | .panic c => .panic c

/-- the three lists are aligned -/
def R.Aligned (r : R) : Prop := r.pNames.length = r.pNss.length ∧ r.pNames.length = r.pKinds.length

/-- the resource has a name and a kind (what `GetValidatedMetadata` checks at load) -/
def R.Named (r : R) : Prop := r.name ≠ "" ∧ r.gvk.kind ≠ ""

theorem effNs_ne_empty (cs : Gvk → Bool) (id : ResId) : effNs cs id ≠ "" := by
  unfold effNs
  split
  · decide
  · split
    · decide
    · rename_i h; intro he; apply h; left; exact he

theorem storePrev_aligned (cs : Gvk → Bool) (r : R) (ha : r.Aligned) (hn : r.Named) :
    (r.storePrev cs).Aligned := by
  obtain ⟨h1, h2⟩ := ha
  obtain ⟨n1, n2⟩ := hn
  simp [R.storePrev, R.Aligned, appendCsv, n1, n2, effNs_ne_empty, h1.symm, h2.symm]

/-- **no panic on an aligned resource** -/
theorem prevIds_no_panic (r : R) (ha : r.Aligned) : r.prevIds.isPanic = false := by
  unfold R.prevIds
  split
  · rfl
  · have ha' : r.pNames.length = r.pNss.length ∧ r.pNames.length = r.pKinds.length := ha
    rw [if_pos ha']; rfl

/-- finding C12-K1: a resource whose name was removed (JSON patch `remove /metadata/name`) loses alignment at
    the next `StorePreviousId`, and `PrevIds` panics. -/
theorem Witness.nameless_prevIds_panics :
    let r0 : R := { gvk := ⟨"", "v1", "ConfigMap"⟩, name := "a", ns := "" }
    let r1 := r0.storePrev (fun _ => false)          -- e.g. namePrefix of an inner layer
    let r2 := { r1 with name := "" }                  -- JSON patch: remove /metadata/name
    (r2.storePrev (fun _ => false)).prevIds.isPanic = true := by decide

/-! ### renaming transformers -/

/-- `PrefixTransformerPlugin.Transform` on one resource (field spec `metadata/name`, no GVK);
    `skip` = kinds of `prefixFieldSpecsToSkip` matched against the ORIGINAL id. -/
def prefixStep (cs : Gvk → Bool) (skip : String → Bool) (p : String) (r : R) : Out R :=
  match r.orgId with
  | .ok oid =>
    if skip oid.gvk.kind then .ok r
    else
      let r1 := { r with prefixes := appendCsv r.prefixes p }
      let r2 := if p ≠ "" then r1.storePrev cs else r1
      .ok { r2 with name := p ++ r2.name }
  | .err c => .err c
  | .panic c => .panic c

def suffixStep (cs : Gvk → Bool) (skip : String → Bool) (s : String) (r : R) : Out R :=
  match r.orgId with
  | .ok oid =>
    if skip oid.gvk.kind then .ok r
    else
      let r1 := { r with suffixes := appendCsv r.suffixes s }
      let r2 := if s ≠ "" then r1.storePrev cs else r1
      .ok { r2 with name := r2.name ++ s }
  | .err c => .err c
  | .panic c => .panic c

/-- `NamespaceTransformerPlugin.Transform` on one resource (default field specs, `UnsetOnly = false`):
    records the previous id, then sets `metadata.namespace` unless the kind is certainly cluster-scoped;
    a `v1 Namespace` object is renamed. -/
def nsStep (cs : Gvk → Bool) (n : String) (r : R) : R :=
  if n = "" then r
  else
    let r1 := r.storePrev cs
    let r2 := if cs r1.gvk then r1 else { r1 with ns := n }
    if r2.gvk.kind = "Namespace" ∧ r2.gvk.group = "" ∧ r2.gvk.version = "v1" then { r2 with name := n } else r2

/-- one layer = optional namespace, prefix, suffix (the regenerated transformer order: namespace, prefix, suffix) -/
structure Layer where
  ns : String := ""
  pre : String := ""
  suf : String := ""
  deriving Repr, DecidableEq

def layerStep (cs : Gvk → Bool) (skip : String → Bool) (l : Layer) (r : R) : Out R :=
  match prefixStep cs skip l.pre (nsStep cs l.ns r) with
  | .ok r1 => suffixStep cs skip l.suf r1
  | .err c => .err c
  | .panic c => .panic c

def layers (cs : Gvk → Bool) (skip : String → Bool) : List Layer → R → Out R
  | [], r => .ok r
  | l :: ls, r =>
    match layerStep cs skip l r with
    | .ok r1 => layers cs skip ls r1
    | .err c => .err c
    | .panic c => .panic c

/-! ### legacy order (SortOrderTransformer) -/

def gvkString (g : Gvk) : String :=
  (if g.group = "" then "~G" else g.group) ++ "_" ++ (if g.version = "" then "~V" else g.version) ++ "_" ++
    (if g.kind = "" then "~K" else g.kind)

/-- `resid.Gvk.String()` as used inside `legacyResIDSortString` -/
def gvkDisplay (g : Gvk) : String :=
  let k := if g.kind = "" then "[noKind]" else g.kind
  let v := if g.version = "" then "[noVer]" else g.version
  let gr := if g.group = "" then "[noGrp]" else g.group
  k ++ "." ++ v ++ "." ++ gr

def idSortString (id : ResId) : String :=
  gvkDisplay id.gvk ++ "|" ++ (if id.ns = "" then "~X" else id.ns) ++ "|" ++ (if id.name = "" then "~N" else id.name)

def indexOf? (xs : List String) (x : String) : Option Nat :=
  match xs with
  | [] => none
  | y :: ys => if y = x then some 0 else (indexOf? ys x).map (· + 1)

/-- `typeOrders[kind]` over the regenerated `orderFirst` / `orderLast` lists (0 for kinds in neither) -/
def typeOrder (first last : List String) (kind : String) : Int :=
  match indexOf? last kind with
  | some i => 1 + i
  | none =>
    match indexOf? first kind with
    | some i => (i : Int) - first.length
    | none => 0

def gvkLess (first last : List String) (g1 g2 : Gvk) : Bool :=
  let i1 := typeOrder first last g1.kind
  let i2 := typeOrder first last g2.kind
  if i1 ≠ i2 then i1 < i2
  else if (g1.kind = "Namespace" ∧ g2.kind = "Namespace") ∧ (g1.group = "" ∨ g2.group = "") then
    gvkString g2 < gvkString g1
  else gvkString g1 < gvkString g2

/-- `legacyIDSorter.Less` -/
def legacyLess (first last : List String) (a b : ResId) : Bool :=
  if a.gvk ≠ b.gvk then gvkLess first last a.gvk b.gvk
  else idSortString a < idSortString b

/-- the non-strict comparator handed to a sorting function -/
def legacyLe (first last : List String) (a b : ResId) : Bool := !legacyLess first last b a

end Res
end Kust
