/-
  Model of `yaml.PathMatcher` (kyaml/yaml/match.go): the path walk used by replacement targets.  Unlike `PathGetter`
  it fans out — `[k=v]` selects EVERY element whose field matches the regular expression `v`, `*` selects every element
  — and returns the matched nodes.  In this functional model a matched node is reported by its POSITION in the
  (possibly extended) document, and the document is returned alongside.

  `hit pat n` stands for `regexp.MustCompile(pat).MatchString(strings.TrimSpace(n.String()))` (Go regexp and the YAML
  encoder are third-party): a parameter of every definition and theorem.  `ns` is `IsValueNonString` as elsewhere.
  `create` uses the wire encoding of `Fns.partKind` (0 none, 1 scalar, 2 map, 3 seq).

  Follows the code after fix C12-F16: the search repeated after creating an element reports an error when it finds
  nothing (before the fix it created another element, for ever).
-/
import Kust.Fns
namespace Kust.Match
open Kust Node Fns

inductive Step where
  | key (k : String)
  | idx (i : Nat)
deriving DecidableEq, Repr, Inhabited

abbrev Pos := List Step

/-- the node at a position (first occurrence of a key, as every kyaml field lookup) -/
def getAt : Pos → Node → Option Node
  | [], n => some n
  | .key k :: p, .map _ fs => (fieldGet k fs).bind (getAt p)
  | .idx i :: p, .seq _ is => is[i]?.bind (getAt p)
  | _, _ => none

/-- `rn.Elements()`: a sequence's items; a null node has none; any other kind is an error -/
def elementsOf (rn : Node) : Out (List Node) :=
  match rn with
  | .seq _ is => .ok is
  | n => if n.isNull then .ok [] else .err "kind"

def withItems (rn : Node) (is : List Node) : Node :=
  match rn with
  | .seq s _ => .seq s is
  | n => n

/-- `rn.PipeE(Append(elem))`: appending to a null node (content hung on a scalar) is outside the tree model -/
def appendElem (rn : Node) (e : Node) : Out Node :=
  match rn with
  | .seq s is => .ok (.seq s (is ++ [e]))
  | _ => .err "unmodelled"

/-- `VisitElements`: left to right, the first error aborts; positions are prefixed with the element's index -/
def visit (f : Nat → Node → Out (Node × List Pos)) : Nat → List Node → Out (List Node × List Pos)
  | _, [] => .ok ([], [])
  | i, e :: es =>
    match f i e with
    | .ok (e', ps) =>
      match visit f (i + 1) es with
      | .ok (es', qs) => .ok (e' :: es', ps.map (Step.idx i :: ·) ++ qs)
      | .err c => .err c
      | .panic c => .panic c
    | .err c => .err c
    | .panic c => .panic c

section
variable (hit : String → Node → Out Bool) (ns : String → Bool)

/-- `visitPrimitiveElem`: the element itself is matched; the rest of the path is NOT walked -/
def primElem (pat : String) (_ : Nat) (e : Node) : Out (Node × List Pos) :=
  match hit pat e with
  | .ok true => .ok (e, [[]])
  | .ok false => .ok (e, [])
  | .err c => .err c
  | .panic c => .panic c

/-- `visitElem`: the element's field `k` is matched, then the rest of the path is walked inside the element -/
def fieldElem (rec : Node → Out (Node × List Pos)) (k pat : String) (_ : Nat) (e : Node) : Out (Node × List Pos) :=
  match e with
  | .map _ fs =>
    match fieldGet k fs with
    | none => .ok (e, [])
    | some x =>
      match hit pat x with
      | .ok true => rec e
      | .ok false => .ok (e, [])
      | .err c => .err c
      | .panic c => .panic c
  | _ => .ok (e, [])

/-- `doIndexSeq`; `rec` is the walk of the rest of the path, `next` the following part ("" at the end) -/
def matchIdx (rec : Node → Out (Node × List Pos)) (create : Nat) (next part : String) (rn : Node) : Out (Node × List Pos) :=
  match atoi? part with
  | none => .err "arg"
  | some i =>
    let idx := i.toNat
    match elementsOf rn with
    | .ok is =>
      let grown : Out (Node × List Node) :=
        if is.length = idx ∧ create ≠ 0 then
          let e := emptyOfKind (partKind next create) 0
          match appendElem rn e with
          | .ok rn' => .ok (rn', is ++ [e])
          | .err c => .err c
          | .panic c => .panic c
        else .ok (rn, is)
      match grown with
      | .ok (rn1, is1) =>
        match is1[idx]? with
        | none => .err "index"
        | some e =>
          match rec e with
          | .ok (e', ps) => .ok (withItems rn1 (is1.set idx e'), ps.map (Step.idx idx :: ·))
          | .err c => .err c
          | .panic c => .panic c
      | .err c => .err c
      | .panic c => .panic c
    | .err c => .err c
    | .panic c => .panic c

/-- `doSeq` -/
def matchSel (rec : Node → Out (Node × List Pos)) (create : Nat) (part : String) (rn : Node) : Out (Node × List Pos) :=
  match splitIndexNameValue part with
  | none => .err "arg"
  | some (k, pat) =>
    let f : Nat → Node → Out (Node × List Pos) :=
      if k = "" then primElem hit pat else fieldElem hit rec k pat
    match elementsOf rn with
    | .ok is =>
      match visit f 0 is with
      | .ok (is', ps) =>
        if create = 0 ∨ ps ≠ [] then .ok (withItems rn is', ps)
        else
          let v : Node := .scalar "" pat 0
          let e : Node := if k = "" then v else .map 0 [(k, v)]
          match appendElem (withItems rn is') e with
          | .ok rn1 =>
            -- the search is repeated once over the extended list
            match visit f 0 (is' ++ [e]) with
            | .ok (is2, ps2) => if ps2 = [] then .err "create-loop" else .ok (withItems rn1 is2, ps2)
            | .err c => .err c
            | .panic c => .panic c
          | .err c => .err c
          | .panic c => .panic c
      | .err c => .err c
      | .panic c => .panic c
    | .err c => .err c
    | .panic c => .panic c

/-- `doMatchEvery` -/
def matchStar (rec : Node → Out (Node × List Pos)) (rn : Node) : Out (Node × List Pos) :=
  match elementsOf rn with
  | .ok is =>
    match visit (fun _ e => rec e) 0 is with
    | .ok (is', ps) => .ok (withItems rn is', ps)
    | .err c => .err c
    | .panic c => .panic c
  | .err c => .err c
  | .panic c => .panic c

/-- `doField` with an empty name: `Get("")` yields the receiver ITSELF when it is a scalar with empty text -/
def matchEmpty (rec : Node → Out (Node × List Pos)) (create : Nat) (rn : Node) : Out (Node × List Pos) :=
  match fieldMatcher "" none (some rn) with
  | .ok (some _) => rec rn
  | .ok none =>
    if create = 0 then .ok (rn, [])
    else .err "unmodelled"   -- SetField("", fresh) overwrites the scalar in place and the walk continues in a detached node
  | .err c => .err c
  | .panic c => .panic c

/-- `doField` -/
def matchField (rec : Node → Out (Node × List Pos)) (create : Nat) (next part : String) (rn : Node) : Out (Node × List Pos) :=
  match fieldMatcher part none (some rn) with
  | .ok (some x) =>
    match rec x with
    | .ok (x', ps) =>
      match rn with
      | .map s fs => .ok (.map s (fieldReplace part x' fs), ps.map (Step.key part :: ·))
      | _ => .ok (rn, ps.map (Step.key part :: ·))
    | .err c => .err c
    | .panic c => .panic c
  | .ok none =>
    if create = 0 then .ok (rn, [])
    else
      let x := emptyOfKind (partKind next create) 0
      match fieldSetter ns part (some x) false false rn with
      | .ok (rn1, _) =>
        match rec x with
        | .ok (x', ps) =>
          match rn1 with
          | .map s fs => .ok (.map s (fieldReplace part x' fs), ps.map (Step.key part :: ·))
          | _ => .ok (rn1, ps.map (Step.key part :: ·))
        | .err c => .err c
        | .panic c => .panic c
      | .err c => .err c
      | .panic c => .panic c
  | .err c => .err c
  | .panic c => .panic c

/-- `PathMatcher.filter` -/
def pathMatch (create : Nat) : List String → Node → Out (Node × List Pos)
  | [], rn => .ok (rn, [[]])
  | part :: rest, rn =>
    let next := rest.head?.getD ""
    if isIdxNumber part then matchIdx (pathMatch create rest) create next part rn
    else if isListIndex part then matchSel hit (pathMatch create rest) create part rn
    else if part = "*" then matchStar (pathMatch create rest) rn
    else if part = "" then matchEmpty (pathMatch create rest) create rn
    else matchField ns (pathMatch create rest) create next part rn

end

/-! ### the reference interpretation: which nodes does a path denote? (no creation, no errors) -/

/-- positions of the list elements selected by `sel`, each extended by `sub` -/
def denoteElems (sel : Node → Bool) (sub : Node → List Pos) : Nat → List Node → List Pos
  | _, [] => []
  | i, e :: es => (if sel e then (sub e).map (Step.idx i :: ·) else []) ++ denoteElems sel sub (i + 1) es

def denoteIdx (sub : Node → List Pos) (part : String) (rn : Node) : List Pos :=
  match atoi? part, rn with
  | some i, .seq _ is =>
    match is[i.toNat]? with
    | some e => (sub e).map (Step.idx i.toNat :: ·)
    | none => []
  | _, _ => []

def denoteSel (hitB : String → Node → Bool) (sub : Node → List Pos) (part : String) (rn : Node) : List Pos :=
  match splitIndexNameValue part, rn with
  | some (k, pat), .seq _ is =>
    if k = "" then denoteElems (hitB pat) (fun _ => [[]]) 0 is
    else denoteElems (fun e => match e with
        | .map _ fs => match fieldGet k fs with | some x => hitB pat x | none => false
        | _ => false) sub 0 is
  | _, _ => []

def denoteStar (sub : Node → List Pos) (rn : Node) : List Pos :=
  match rn with
  | .seq _ is => denoteElems (fun _ => true) sub 0 is
  | _ => []

def denoteField (sub : Node → List Pos) (part : String) (rn : Node) : List Pos :=
  match rn with
  | .map _ fs =>
    match fieldGet part fs with
    | some x => (sub x).map (Step.key part :: ·)
    | none => []
  | _ => []

/-- the ten-line reference: fields descend, an index picks one element, `[k=v]` filters by the field, `[=v]` by the
    element itself (and stops there), `*` takes every element -/
def denote (hitB : String → Node → Bool) : List String → Node → List Pos
  | [], _ => [[]]
  | part :: rest, rn =>
    if isIdxNumber part then denoteIdx (denote hitB rest) part rn
    else if isListIndex part then denoteSel hitB (denote hitB rest) part rn
    else if part = "*" then denoteStar (denote hitB rest) rn
    else denoteField (denote hitB rest) part rn

end Kust.Match
