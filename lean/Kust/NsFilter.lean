/-
  Kust.NsFilter — api/filters/namespace/namespace.go: the namespace transformer on ONE resource tree
  (`Filter.run`: metaNamespaceHack, roleBindingHack with its three subject modes, then the remaining field specs).
  `q` is the "looks like a non-string" predicate of FieldSetter (a parameter, as everywhere); `cluster` is
  `gvk.IsClusterScoped()` and group/version/kind are `resid.GvkFromNode`, computed by the caller.
-/
import Kust.FieldSpec
namespace Kust
namespace NsFilter
open Node Fns

structure Cfg where
  ns : String
  unsetOnly : Bool
  /-- `SetRoleBindingSubjects`: 0 unspecified / defaultOnly, 1 none, 2 allServiceAccounts, 3 anything else -/
  mode : Nat
  specs : List Gen.FieldSpec

/-- `IsYNodeNilOrEmpty` on a non-nil node -/
def nilOrEmpty : Node → Bool
  | .scalar t _ _ => t == "!!null"
  | .map _ fs => fs.isEmpty
  | .seq _ is => is.isEmpty

/-- `hasExistingValue(node, "")` -/
def hasExisting (n : Node) : Bool :=
  if nilOrEmpty n then false
  else match n with
    | .scalar _ v _ => v != ""
    | .map _ fs => (match fieldGet "" fs with
      | none => false
      | some e => !nilOrEmpty e && e.valueText != "")
    | .seq .. => false

def dropSnd {α β} : Out (α × β) → Out α
  | .ok (a, _) => .ok a
  | .err c => .err c
  | .panic c => .panic c

/-- `ns.fieldSetter()`: SetEntry("", ns, !!str), or SetEntryIfEmpty under `unsetOnly` -/
def setFn (q : String → Bool) (c : Cfg) (n : Node) : Out Node :=
  if c.unsetOnly && hasExisting n then .ok n
  else dropSnd (scalarSetter q (some (.scalar "!!str" c.ns 0)) false n)

/-- `setNamespaceField`: LookupCreate(ScalarNode, "namespace") on the subject, then the setter on what was found -/
def setNamespaceField (q : String → Bool) (c : Cfg) (o : Node) : Out Node :=
  match lookup q 1 0 ["namespace"] o with
  | .err e => .err e
  | .panic e => .panic e
  | .ok (_, none) => .err "unmodelled"
  | .ok (o', some f) =>
    match setFn q c f with
    | .err e => .err e
    | .panic e => .panic e
    | .ok f' =>
      match o' with
      | .map s fs => .ok (.map s (fieldReplace "namespace" f' fs))
      | _ => .err "unmodelled"

/-- `o.Pipe(Lookup(field), Match(want))`: does the subject carry `field: want`? -/
def subjectHas (q : String → Bool) (field want : String) (o : Node) : Out Bool :=
  match lookup q 0 0 [field] o with
  | .err e => .err e
  | .panic e => .panic e
  | .ok (_, x) =>
    match fieldMatcher "" (some want) x with
    | .err e => .err e
    | .panic e => .panic e
    | .ok r => .ok (!isMissingOrNull r)

/-- the visitor of one subject (`setSubjectsNamedDefault` / `setServiceAccountNamespaces`) -/
def visitSubject (q : String → Bool) (c : Cfg) (o : Node) : Out Node :=
  let test := if c.mode = 2 then subjectHas q "kind" "ServiceAccount" o else subjectHas q "name" "default" o
  match test with
  | .err e => .err e
  | .panic e => .panic e
  | .ok false => .ok o
  | .ok true => setNamespaceField q c o

def visitAll (f : Node → Out Node) : List Node → Out (List Node)
  | [] => .ok []
  | e :: es =>
    match f e with
    | .err c => .err c
    | .panic c => .panic c
    | .ok e' =>
      match visitAll f es with
      | .err c => .err c
      | .panic c => .panic c
      | .ok r => .ok (e' :: r)

/-- `roleBindingHack` -/
def roleBindingHack (q : String → Bool) (c : Cfg) (obj : Node) : Out Node :=
  if c.mode = 1 then .ok obj
  else if c.mode ≥ 3 then .err "mode"
  else match lookup q 0 0 ["subjects"] obj with
    | .err e => .err e
    | .panic e => .panic e
    | .ok (_, none) => .ok obj
    | .ok (_, some subj) =>
      if subj.isNull then .ok obj
      else match subj with
        | .seq s is =>
          (match visitAll (visitSubject q c) is with
            | .err e => .err e
            | .panic e => .panic e
            | .ok is' =>
              match obj with
              | .map ms fs => .ok (.map ms (fieldReplace "subjects" (.seq s is') fs))
              | _ => .err "unmodelled")
        | _ => .err "kind"

def isRoleBinding (kind : String) : Bool := kind = "RoleBinding" || kind = "ClusterRoleBinding"

/-- `removeUnneededMetaFieldSpecs` -/
def dropMeta (apiVersion : String) (fs : List Gen.FieldSpec) : List Gen.FieldSpec :=
  fs.filter fun f => !(f.path = "metadata/namespace") && !(apiVersion ≠ "v1" && f.path = "metadata/name")

/-- `removeRoleBindingSubjectFieldSpecs` -/
def dropSubjects (fs : List Gen.FieldSpec) : List Gen.FieldSpec :=
  fs.filter fun f => !(isRoleBinding f.kind && f.path = "subjects/namespace")

/-- `metaNamespaceHack` -/
def metaHack (q : String → Bool) (c : Cfg) (cluster : Bool) (group version kind : String) (obj : Node) : Out Node :=
  if cluster then .ok obj
  else FieldSpec.apply q (setFn q c) ⟨"", "", "", "metadata/namespace", true⟩ { kind := 1, tag := "" } group version kind obj

/-- `fsslice.Filter`: the specs in order -/
def applySpecs (q : String → Bool) (c : Cfg) (group version kind : String) : List Gen.FieldSpec → Node → Out Node
  | [], obj => .ok obj
  | f :: fs, obj =>
    match FieldSpec.apply q (setFn q c) f { kind := 1, tag := "!!str" } group version kind obj with
    | .err e => .err e
    | .panic e => .panic e
    | .ok obj' => applySpecs q c group version kind fs obj'

/-- `Filter.run` -/
def run (q : String → Bool) (c : Cfg) (cluster : Bool) (apiVersion group version kind : String) (obj : Node) : Out Node :=
  let specs := dropMeta apiVersion c.specs
  match metaHack q c cluster group version kind obj with
  | .err e => .err e
  | .panic e => .panic e
  | .ok obj1 =>
    if isRoleBinding kind then
      match roleBindingHack q c obj1 with
      | .err e => .err e
      | .panic e => .panic e
      | .ok obj2 => applySpecs q c group version kind (dropSubjects specs) obj2
    else applySpecs q c group version kind specs obj1

end NsFilter
end Kust
