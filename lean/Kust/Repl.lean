/-
  Model of the replacement filter (api/filters/replacement/replacement.go) on resources whose replaceable
  fields are scalars: `metadata.name`, `metadata.labels.<k>`, `data.<k>`.

  What is modelled (each clause names the Go it follows):
    * Filter            — replacements are applied strictly one after the other; each one resolves its source in the
                          state its predecessors left (`applyAll` is a fold).
    * getReplacement    — `sourceValue` xor `source`; source selection must be unique (`selectSourceNode`);
                          missing field ⇒ error; `getRefinedValue` (delimiter / index; out of bounds ⇒ error).
                          Without a delimiter the value is the LIVE source node (`Val.live`), with one it is a
                          detached copy (`Val.const`).
    * applyReplacement  — per target selector, per resource in order: label selector of `select`, label selectors of
                          `reject`, id selection, id rejection (`containsRejectId`: empty ids are skipped).
    * copyValueToTarget — per field path: find (or create) the field; absent and not creating ⇒ error.
    * setFieldValue     — delimiter/index on the target: prefix (index < 0), suffix (index ≥ #pieces), replace.
  Not modelled: non-scalar values, list-element paths (`[k=v]`, indices, `*`), annotation selectors, group/version/
  namespace in selectors, previous-id annotations.  The correspondence generator stays inside this fragment.
-/
import Kust.Node
import Kust.Str
namespace Kust.Repl
open Kust

abbrev KV := List (String × String)

structure Res where
  kind : String
  name : String
  labels : Option KV
  data : Option KV
deriving DecidableEq, Repr, Inhabited

inductive FRef where
  | name
  | label (k : String)
  | data (k : String)
deriving DecidableEq, Repr, Inhabited

structure Sel where
  kind : String := ""
  name : String := ""
  label : Option (String × String) := none
deriving DecidableEq, Repr, Inhabited

structure Opts where
  delim : String := ""
  index : Int := 0
  create : Bool := false
deriving DecidableEq, Repr, Inhabited

structure Target where
  select : Sel
  reject : List Sel := []
  fields : List FRef := []
  opts : Option Opts := none
deriving DecidableEq, Repr, Inhabited

inductive Src where
  | value (s : String)
  | field (sel : Sel) (f : Option FRef) (opts : Option Opts)
  | both            -- sourceValue and source given
  | neither         -- no source at all
deriving DecidableEq, Repr, Inhabited

structure Repl where
  src : Src
  targets : List Target
deriving DecidableEq, Repr, Inhabited

abbrev State := List Res

/-! ### strings.Split / strings.Join on `List Char` (structural) -/

/-- `strings.Split(s, d)` for a non-empty `d`: leftmost non-overlapping occurrences. `skip` counts the characters of
    an occurrence still to be stepped over. -/
def splitL (d : List Char) : List Char → Nat → List Char → List (List Char)
  | [], _, cur => [cur.reverse]
  | _ :: cs, skip + 1, cur => splitL d cs skip cur
  | c :: cs, 0, cur =>
    if Str.isPrefixL d (c :: cs) then cur.reverse :: splitL d cs (d.length - 1) []
    else splitL d cs 0 (c :: cur)

def split (d s : String) : List String := (splitL d.toList s.toList 0 []).map String.ofList

def joinL (d : List Char) : List (List Char) → List Char
  | [] => []
  | [p] => p
  | p :: q :: ps => p ++ d ++ joinL d (q :: ps)

def join (d : String) (ps : List String) : String := String.ofList (joinL d.toList (ps.map String.toList))

/-! ### selection -/

def kvGet (k : String) : KV → Option String
  | [] => none
  | (k', v) :: m => if k' = k then some v else kvGet k m

def kvSet (k v : String) : KV → KV
  | [] => [(k, v)]
  | (k', v') :: m => if k' = k then (k', v) :: m else (k', v') :: kvSet k v m

/-- `ResId.IsSelectedBy` restricted to kind and name (empty pattern field = any) -/
def idSel (s : Sel) (r : Res) : Bool :=
  (s.name = "" || s.name = r.name) && (s.kind = "" || s.kind = r.kind)

/-- `MatchesLabelSelector("k=v")`; no selector matches everything -/
def labelSel (l : Option (String × String)) (r : Res) : Bool :=
  match l with
  | none => true
  | some (k, v) => (r.labels.bind (kvGet k)) = some v

/-- `ResId.IsEmpty` of a reject entry -/
def Sel.idEmpty (s : Sel) : Bool := s.kind = "" && s.name = ""

/-- `selectByAnnoAndLabel` -/
def selByLabel (t : Target) (r : Res) : Bool :=
  labelSel t.select.label r && t.reject.all fun rj => rj.label.isNone || !labelSel rj.label r

/-- `containsRejectId` -/
def rejectedById (t : Target) (r : Res) : Bool :=
  t.reject.any fun rj => !rj.idEmpty && idSel rj r

/-- the resource is a target of `t` -/
def selected (t : Target) (r : Res) : Bool :=
  selByLabel t r && idSel t.select r && !rejectedById t r

/-! ### field access -/

def getF (r : Res) : FRef → Option String
  | .name => some r.name
  | .label k => r.labels.bind (kvGet k)
  | .data k => r.data.bind (kvGet k)

/-- write `v` to the field; `none` when the field is absent and `create` is off -/
def setF (create : Bool) (r : Res) (f : FRef) (v : String) : Option Res :=
  match f with
  | .name => some { r with name := v }
  | .label k =>
    match r.labels with
    | none => if create then some { r with labels := some [(k, v)] } else none
    | some m => if (kvGet k m).isSome || create then some { r with labels := some (kvSet k v m) } else none
  | .data k =>
    match r.data with
    | none => if create then some { r with data := some [(k, v)] } else none
    | some m => if (kvGet k m).isSome || create then some { r with data := some (kvSet k v m) } else none

/-! ### values -/

inductive Val where
  | const (s : String)
  | live (i : Nat) (f : FRef)
deriving DecidableEq, Repr, Inhabited

def readVal (st : State) : Val → Out String
  | .const s => .ok s
  | .live i f =>
    match st[i]? with
    | none => .err "internal"
    | some r => match getF r f with
      | some v => .ok v
      | none => .err "internal"

/-- `getRefinedValue` -/
def refine (o : Option Opts) (i : Nat) (f : FRef) (v : String) : Out Val :=
  match o with
  | none => .ok (.live i f)
  | some o =>
    if o.delim = "" then .ok (.live i f)
    else
      let ps := split o.delim v
      if o.index < 0 || o.index ≥ ps.length then .err "index"
      else match ps[o.index.toNat]? with
        | some p => .ok (.const p)
        | none => .err "index"

/-- indices of the resources selected by a source selector -/
def srcMatches (s : Sel) : State → Nat → List Nat
  | [], _ => []
  | r :: rs, i => if idSel s r then i :: srcMatches s rs (i + 1) else srcMatches s rs (i + 1)

/-- `getReplacement` -/
def resolve (st : State) : Src → Out Val
  | .both => .err "exclusive"
  | .neither => .err "nosource"
  | .value s => .ok (.const s)
  | .field sel f o =>
    match srcMatches sel st 0 with
    | [] => .err "nothing"
    | [i] =>
      let f := f.getD .name
      match st[i]? with
      | none => .err "internal"
      | some r =>
        match getF r f with
        | none => .err "missing"
        | some v => refine o i f v
    | _ => .err "multiple"

/-- the pieces after `setFieldValue`'s switch -/
def setPieces (idx : Int) (v : String) (tv : List String) : List String :=
  if idx < 0 then v :: tv
  else if idx ≥ tv.length then tv ++ [v]
  else tv.set idx.toNat v

/-- `setFieldValue` on a scalar target holding `old` -/
def newValue (o : Option Opts) (old v : String) : String :=
  match o with
  | none => v
  | some o => if o.delim = "" then v else join o.delim (setPieces o.index v (split o.delim old))

def createOf (o : Option Opts) : Bool := match o with | some o => o.create | none => false

/-- `copyValueToTarget` for one field path of resource `j` -/
def copyField (st : State) (val : Val) (t : Target) (j : Nat) (f : FRef) : Out State :=
  match st[j]? with
  | none => .err "internal"
  | some r =>
    match readVal st val with
    | .ok v =>
      let create := createOf t.opts
      match getF r f with
      | some old =>
        match setF create r f (newValue t.opts old v) with
        | some r' => .ok (st.set j r')
        | none => .err "find"
      | none =>
        if create then
          match setF true r f (newValue t.opts "" v) with
          | some r' => .ok (st.set j r')
          | none => .err "find"
        else .err "find"
    | .err c => .err c
    | .panic c => .panic c

def fieldsOf (t : Target) : List FRef := if t.fields = [] then [.name] else t.fields

def copyFields (val : Val) (t : Target) (j : Nat) : List FRef → State → Out State
  | [], st => .ok st
  | f :: fs, st =>
    match copyField st val t j f with
    | .ok st' => copyFields val t j fs st'
    | .err c => .err c
    | .panic c => .panic c

/-- the per-resource loop of `applyReplacement` for one target selector; `k` resources remain, `j` is the next index -/
def applyTargetFrom (val : Val) (t : Target) : Nat → Nat → State → Out State
  | 0, _, st => .ok st
  | k + 1, j, st =>
    match st[j]? with
    | none => .ok st
    | some r =>
      if selected t r then
        match copyFields val t j (fieldsOf t) st with
        | .ok st' => applyTargetFrom val t k (j + 1) st'
        | .err c => .err c
        | .panic c => .panic c
      else applyTargetFrom val t k (j + 1) st

def applyTarget (val : Val) (t : Target) (st : State) : Out State := applyTargetFrom val t st.length 0 st

def applyTargets (val : Val) : List Target → State → Out State
  | [], st => .ok st
  | t :: ts, st =>
    match applyTarget val t st with
    | .ok st' => applyTargets val ts st'
    | .err c => .err c
    | .panic c => .panic c

/-- one replacement: resolve the source in the current state, then write the targets -/
def applyRepl (r : Repl) (st : State) : Out State :=
  if r.targets = [] then .err "nosource"
  else match r.src with
    | .neither => .err "nosource"
    | src =>
      match resolve st src with
      | .ok val => applyTargets val r.targets st
      | .err c => .err c
      | .panic c => .panic c

/-- `Filter.Filter`: strictly sequential -/
def applyAll : List Repl → State → Out State
  | [], st => .ok st
  | r :: rs, st =>
    match applyRepl r st with
    | .ok st' => applyAll rs st'
    | .err c => .err c
    | .panic c => .panic c

end Kust.Repl
