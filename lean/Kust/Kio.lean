/-
  Kust.Kio — the logic around go-yaml in kyaml/kio:
  * `splitDocs`: ByteReader's manual document splitting on the regular expression `\n---.*\n`
    (hand-modelled fixed pattern: leftmost, non-overlapping; `.` does not match a newline), with the
    "only blanks or a comment after ---" check;
  * `pkgPathOk` / `pkgTarget`: LocalPackageWriter.indexByFilePath's path checks and the file a resource is written
    to (`filepath.Join(PackagePath, path)`).
-/
import Kust.Path
namespace Kust
namespace Kio

/-- text up to (excluding) the first newline, and the rest after it; `none` if there is no newline -/
def untilNewline : List Char → Option (List Char × List Char)
  | [] => none
  | '\n' :: r => some ([], r)
  | c :: r => (untilNewline r).map fun (a, b) => (c :: a, b)

/-- pieces of a stream: document text alternating with separator text (`\n---…\n`) -/
inductive Piece where
  | doc (s : List Char)
  | sep (s : List Char)
  deriving Repr, DecidableEq

/-- does the text start with `\n---`?  returns what follows -/
def startsSep : List Char → Option (List Char)
  | '\n' :: '-' :: '-' :: '-' :: r => some r
  | _ => none

/-- scan for `\n---.*\n`; `cur` is the current document in reverse -/
def scan : Nat → List Char → List Char → List Piece
  | 0, cs, cur => [.doc (cur.reverse ++ cs)]
  | _ + 1, [], cur => [.doc cur.reverse]
  | f + 1, c :: r, cur =>
    match startsSep (c :: r) with
    | some r' =>
      match untilNewline r' with
      | some (line, rest) => .doc cur.reverse :: .sep ('\n' :: '-' :: '-' :: '-' :: (line ++ ['\n'])) :: scan f rest []
      | none => scan f r (c :: cur)
    | none => scan f r (c :: cur)

def pieces (s : List Char) : List Piece := scan (s.length + 1) s []

def flatten : List Piece → List Char
  | [] => []
  | .doc s :: r => s ++ flatten r
  | .sep s :: r => s ++ flatten r

/-- what may follow `---` on a separator line: blanks, optionally a comment -/
def sepOk (sep : List Char) : Bool :=
  let after := (sep.drop 4).dropWhile Char.isWhitespace
  after = [] || after.head? = some '#'

/-- `splitDocuments` -/
def splitDocs (s : String) : Out (List String) :=
  if s = "" then .ok []
  else
    let ps := pieces s.toList
    if ps.any (fun p => match p with | .sep x => !sepOk x | _ => false) then .err "separator"
    else .ok (ps.filterMap fun p => match p with | .doc d => some (String.ofList d) | _ => none)

/-! ### the writers' side -/

/-- `resWrangler.AsYaml` (and the multi-document encoder behind `ByteWriter.Write`): every document ends in a line break,
    documents after the first are preceded by a `---` line.  `bs` are the document texts WITHOUT their final line break. -/
def emit : List (List Char) → List Char
  | [] => []
  | [b] => b ++ ['\n']
  | b :: c :: r => b ++ '\n' :: '-' :: '-' :: '-' :: '\n' :: emit (c :: r)

/-- no `\n---` inside the text -/
def noSep : List Char → Bool
  | [] => true
  | c :: r => (startsSep (c :: r)).isNone && noSep r

def docsOf : List Piece → List (List Char)
  | [] => []
  | .doc d :: r => d :: docsOf r
  | .sep _ :: r => docsOf r

/-- what the reader's splitter makes of an emitted stream: the documents, the last one with its final line break -/
def readBack : List (List Char) → List (List Char)
  | [] => []
  | [b] => [b ++ ['\n']]
  | b :: c :: r => b :: readBack (c :: r)

/-! ### package writer -/

/-- `strings.Contains(s, "..")` -/
def containsDotDot : List Char → Bool
  | '.' :: '.' :: _ => true
  | _ :: r => containsDotDot r
  | [] => false

/-- the checks of `indexByFilePath` on a path annotation value: not absolute, and `filepath.Clean(path)` does not
    contain ".." as a substring.  The cleaned text is the cleaned segments joined by `/`, and a segment holds no
    `/`, so the substring test is a test on the segments (validated by component kio.pkgpath). -/
def pkgPathOk (path : String) : Bool :=
  !Path.isAbs path && !(Path.cleanSegs false [] (Path.segments path)).any (fun s => containsDotDot s.toList)

/-- the file a resource with path annotation `path` is written to, for a package at cleaned absolute `pkg` -/
def pkgTarget (pkg : List String) (path : String) : List String :=
  Path.cleanSegs true pkg.reverse (Path.segments path)

end Kio
end Kust
