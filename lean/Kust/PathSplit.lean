/-
  `utils.PathSplitter` / `utils.SmarterPathSplitter` (kyaml/utils/pathsplitter.go): field-spec paths are split at `/`,
  replacement and variable field paths at `.`; a delimiter preceded by a backslash belongs to the element; a leading
  delimiter is allowed; the smarter splitter keeps a bracketed `[key=some.value]` together.
-/
import Kust.Str
namespace Kust.PathSplit
open Kust

def merge (d : Char) : List String → List String → List String
  | acc, [] => acc.reverse
  | [], p :: r => merge d [p] r
  | last :: acc, p :: r =>
    if Str.hasSuffix last "\\" then merge d ((Str.dropRight last 1 ++ String.singleton d ++ p) :: acc) r
    else merge d (p :: last :: acc) r

/-- "allow path to start with forward slash": an empty first piece is dropped when more pieces follow -/
def dropLead : List String → List String
  | "" :: a :: b => a :: b
  | l => l

/-- `PathSplitter(path, d)` -/
def split (d : Char) (path : String) : List String := merge d [] (dropLead (Str.splitChar d path))

/-- character-level view of the same function: scan the path; at a delimiter, an open piece that ends in a backslash
    swallows it (the backslash is dropped), otherwise the piece is closed.  `cur` is the open piece, reversed. -/
def scan (d : Char) : List Char → List Char → List (List Char)
  | [], cur => [cur.reverse]
  | c :: cs, cur =>
    if c = d then
      (match cur with
       | '\\' :: cur' => scan d cs (d :: cur')
       | _ => cur.reverse :: scan d cs [])
    else scan d cs (c :: cur)

/-- `PathSplitter(path, d)` once more, by scanning (a leading delimiter is skipped) — validated against the Go function
    by the same correspondence as `split` -/
def skipLead (d : Char) : List Char → List Char
  | c :: r => if c = d then r else c :: r
  | [] => []

def splitScan (d : Char) (path : String) : List String :=
  (scan d (skipLead d path.toList) []).map String.ofList

def joinD (d : Char) : List String → String
  | [] => ""
  | [p] => p
  | p :: q :: r => p ++ String.singleton d ++ joinD d (q :: r)

/-- `strings.Trim(s, "[]")` -/
def trimBrackets (s : String) : String :=
  let isB := fun c => c == '[' || c == ']'
  String.ofList (((s.toList.dropWhile isB).reverse.dropWhile isB).reverse)

def finish (d : Char) (parts : List String) : String :=
  let s := joinD d parts
  if s.toList.contains '=' then s else trimBrackets s

/-- the loop of `SmarterPathSplitter`: `some acc` = inside a bracketed element that has not been closed yet -/
def smarterGo (d : Char) : Option (List String) → List String → List String
  | none, [] => []
  | some acc, [] => [finish d acc]
  | none, e :: rest =>
    if Str.hasPrefix e "[" && !Str.hasSuffix e "]" then smarterGo d (some [e]) rest else e :: smarterGo d none rest
  | some acc, e :: rest =>
    if Str.hasSuffix e "]" then finish d (acc ++ [e]) :: smarterGo d none rest else smarterGo d (some (acc ++ [e])) rest

/-- `SmarterPathSplitter(path, d)` -/
def smarter (d : Char) (path : String) : List String := smarterGo d none (split d path)

end Kust.PathSplit
