/-
  Kust.Sort — what any sorting function guarantees.  Go's `sort.Sort`/`sort.Slice` (pdqsort) is third-party
  code: it is never modelled, only specified: the result is ordered by the comparator and is a permutation
  of the input (`SortSpec`).  `List.mergeSort` of Lean core is one function meeting the spec (used by the driver).
-/
namespace Kust

def SortSpec {α} (le : α → α → Bool) (sort : List α → List α) : Prop :=
  ∀ l, (sort l).Pairwise (fun a b => le a b = true) ∧ (sort l).Perm l

/-- the comparator is antisymmetric on the elements of `l` (distinct elements have distinct sort keys) -/
def AntisymmOn {α} (le : α → α → Bool) (l : List α) : Prop :=
  ∀ a b, a ∈ l → b ∈ l → le a b = true → le b a = true → a = b

/-- **order independence**: with an antisymmetric comparator every sorting function returns the same list for
    every permutation of its input. -/
theorem sort_perm_invariant {α} {le : α → α → Bool} {sort : List α → List α} (hs : SortSpec le sort)
    {l₁ l₂ : List α} (anti : AntisymmOn le l₁) (h : l₁.Perm l₂) : sort l₁ = sort l₂ := by
  obtain ⟨p1, q1⟩ := hs l₁
  obtain ⟨p2, q2⟩ := hs l₂
  refine List.Perm.eq_of_pairwise (le := fun a b => le a b = true) ?_ p1 p2 (q1.trans (h.trans q2.symm))
  intro a b ha hb hab hba
  exact anti a b (q1.subset ha) (h.symm.subset (q2.subset hb)) hab hba

/-- **idempotence**: sorting a sorted list changes nothing (antisymmetric comparator). -/
theorem sort_idem {α} {le : α → α → Bool} {sort : List α → List α} (hs : SortSpec le sort)
    {l : List α} (anti : AntisymmOn le l) : sort (sort l) = sort l := by
  obtain ⟨p1, q1⟩ := hs l
  obtain ⟨p2, q2⟩ := hs (sort l)
  refine List.Perm.eq_of_pairwise (le := fun a b => le a b = true) ?_ p2 p1 q2
  intro a b ha hb hab hba
  exact anti a b (q1.subset (q2.subset ha)) (q1.subset hb) hab hba

/-- core's merge sort meets the spec for a transitive, total comparator -/
theorem mergeSort_spec {α} (le : α → α → Bool)
    (trans : ∀ a b c, le a b = true → le b c = true → le a c = true)
    (total : ∀ a b, (le a b || le b a) = true) : SortSpec le (fun l => l.mergeSort le) := by
  intro l
  exact ⟨List.pairwise_mergeSort trans total l, List.mergeSort_perm l le⟩

end Kust
