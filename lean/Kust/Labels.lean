/-
  Kust.Labels — what a `labels` / `commonLabels` entry does to the label-bearing locations of one resource:
  the field-spec list chosen by the configurator (`C08.labelFieldSpecs`), GVK matching of a spec
  (fieldspec.isMatchGVK: empty selector parts match anything), create-if-absent, and dictionary override.
-/
import Kust.GenMap
import Kust.Tables
namespace Kust.Labels
open Kust GenMap Gen

def specMatches (f : FieldSpec) (group version kind : String) : Bool :=
  (f.group = "" || f.group = group) && (f.version = "" || f.version = version) && (f.kind = "" || f.kind = kind)

/-- one location (slash path as in the tables) with its current label map (`none` = absent) -/
abbrev Loc := String × Option Dict

def applyAt (specs : List FieldSpec) (group version kind : String) (L : Dict) (loc : Loc) : Loc :=
  -- every spec that names this location and matches the resource is applied, in order (`fsslice`): an existing map is
  -- overridden (idempotently), an absent one is created as soon as one of them has `create`
  let ms := specs.filter (fun f => f.path = loc.1 && specMatches f group version kind)
  if ms.isEmpty then loc
  else match loc.2 with
    | some cur => (loc.1, some (over cur L))
    | none => if ms.any (·.create) then (loc.1, some (over [] L)) else loc

def applyLabels (specs : List FieldSpec) (group version kind : String) (L : Dict) (locs : List Loc) : List Loc :=
  locs.map (applyAt specs group version kind L)

/-! ### `labels` entries with their own field specs (the LabelTransformer configurator of kusttarget_configplugin.go) -/

structure Entry where
  pairs : Dict
  includeSelectors : Bool
  includeTemplates : Bool
  /-- the entry's own `fields` -/
  fields : List FieldSpec

/-- `FieldSpec.effectivelyEquals`: the EXISTING spec `y` "is" the incoming `x` when `y`'s GVK is selected by `x`'s (empty parts
    of the INCOMING spec are wild cards) and the paths are equal — not a symmetric relation -/
def sameSpot (y x : FieldSpec) : Bool :=
  (x.group = "" || y.group = x.group) && (x.version = "" || y.version = x.version) && (x.kind = "" || y.kind = x.kind) && y.path = x.path

/-- `FsSlice.MergeOne`: a spec already present is kept, unless its create flag differs -/
def mergeOne (s : List FieldSpec) (x : FieldSpec) : Out (List FieldSpec) :=
  match s.find? (fun y => sameSpot y x) with
  | some y => if y.create = x.create then .ok s else .err "conflict"
  | none => .ok (s ++ [x])

/-- `FsSlice.MergeAll` -/
def mergeAll : List FieldSpec → List FieldSpec → Out (List FieldSpec)
  | s, [] => .ok s
  | s, x :: r =>
    match mergeOne s x with
    | .ok s' => mergeAll s' r
    | .err e => .err e
    | .panic e => .panic e

def metaLabels : FieldSpec := ⟨"", "", "", "metadata/labels", true⟩

/-- the field specs one entry is applied with: its OWN `fields`, then the configured tables its flags ask for.  The
    tables are arguments and the result is a new list: nothing an entry brings reaches another entry. -/
def entrySpecs (common tmpl : List FieldSpec) (e : Entry) : Out (List FieldSpec) :=
  if e.includeSelectors then mergeAll e.fields common
  else
    match (if e.includeTemplates then mergeAll e.fields tmpl else .ok e.fields) with
    | .ok s => mergeOne s metaLabels
    | .err c => .err c
    | .panic c => .panic c

/-- the entries of one kustomization file, in order -/
def applyEntries (common tmpl : List FieldSpec) (group version kind : String) : List Entry → List Loc → Out (List Loc)
  | [], locs => .ok locs
  | e :: es, locs =>
    match entrySpecs common tmpl e with
    | .ok specs => applyEntries common tmpl group version kind es (applyLabels specs group version kind e.pairs locs)
    | .err c => .err c
    | .panic c => .panic c

end Kust.Labels
