/-
  Kust.Labels — what a `labels` / `commonLabels` entry does to the label-bearing locations of one resource:
  the field-spec list chosen by the configurator (`C08.labelFieldSpecs`), GVK matching of a spec
  (fieldspec.isMatchGVK: empty selector parts match anything), create-if-absent, and dictionary override.
-/
import Kust.GenMap
import Kust.Tables
namespace Kust.Labels
open Kust GenMap Gen

def specMatches (f : FieldSpec) (group version kind : String) : Bool :=
  (f.group = "" || f.group = group) && (f.version = "" || f.version = version) && (f.kind = "" || f.kind = kind)

/-- one location (slash path as in the tables) with its current label map (`none` = absent) -/
abbrev Loc := String × Option Dict

def applyAt (specs : List FieldSpec) (group version kind : String) (L : Dict) (loc : Loc) : Loc :=
  match specs.find? (fun f => f.path = loc.1 && specMatches f group version kind) with
  | some f =>
    match loc.2 with
    | some cur => (loc.1, some (over cur L))
    | none => if f.create then (loc.1, some (over [] L)) else loc
  | none => loc

def applyLabels (specs : List FieldSpec) (group version kind : String) (L : Dict) (locs : List Loc) : List Loc :=
  locs.map (applyAt specs group version kind L)

end Kust.Labels
