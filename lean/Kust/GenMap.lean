/-
  Kust.GenMap — ConfigMap/Secret generators as dictionaries.
  Transliterates: api/kv/kv.go (parseLiteralSource, removeQuotes), api/internal/generators/utils.go
  (makeValidatedDataMap: duplicate keys rejected), api/resmap/reswrangler.go appendReplaceOrMerge (absorb),
  api/resource/resource.go MergeDataMapFrom / mergeStringMaps (right-biased), CopyMergeMetaDataFieldsFrom
  (needs-hash = AND over the chain), api/hasher/hasher.go (encodeConfigMap/encodeSecret, encode with the
  REGENERATED digit substitution; SHA-256 and Go's JSON escaping are third-party parameters of the theorems).
-/
import Kust.Node
namespace Kust
namespace GenMap

abbrev Dict := List (String × String)

def dget (k : String) : Dict → Option String
  | [] => none
  | (k', v) :: r => if k' = k then some v else dget k r

/-- `mergeStringMaps(old, new)`: every key of `new` wins; keys only in `old` stay. As a key-ordered list the
    result keeps `old`'s order and appends the new keys (the emitted map is sorted by key anyway). -/
def over (old new : Dict) : Dict :=
  (old.map fun (k, v) => (k, (dget k new).getD v)) ++ new.filter (fun (k, _) => (dget k old).isNone)

/-- `removeQuotes` -/
def removeQuotes (s : String) : String :=
  let cs := s.toList
  match cs, cs.getLast? with
  | a :: _ :: _, some b =>
    if a = b ∧ (a = '"' ∨ a = '\'') then String.ofList ((cs.drop 1).dropLast) else s
  | _, _ => s

/-- `parseLiteralSource`: `key=value`, split at the first `=`, a leading `=` is invalid -/
def parseLiteral (src : String) : Out (String × String) :=
  let cs := src.toList
  if cs.head? = some '=' then .err "literal"
  else if !cs.contains '=' then .err "literal"
  else .ok (String.ofList (cs.takeWhile (· ≠ '=')), removeQuotes (String.ofList ((cs.dropWhile (· ≠ '=')).drop 1)))

/-- `kvLoader.Load` on literals: every literal is parsed first (the first malformed one is the error) -/
def parseAll : List String → Out Dict
  | [] => .ok []
  | s :: r =>
    match parseLiteral s with
    | .ok kv => (match parseAll r with
      | .ok d => .ok (kv :: d)
      | .err c => .err c
      | .panic c => .panic c)
    | .err c => .err c
    | .panic c => .panic c

def checkDup : Dict → Dict → Out Dict
  | [], acc => .ok acc
  | (k, v) :: r, acc => if (dget k acc).isSome then .err "dupkey" else checkDup r (acc ++ [(k, v)])

/-- `makeValidatedDataMap` on literals: then duplicate keys are an error -/
def dataOfLiterals (ls : List String) (_acc : Dict) : Out Dict :=
  match parseAll ls with
  | .ok d => checkDup d []
  | .err c => .err c
  | .panic c => .panic c

inductive Behavior where
  | unspecified | create | merge | replace
  deriving DecidableEq, Repr

/-- the generated object as far as layering and hashing look at it -/
structure GObj where
  data : Dict
  needsHash : Bool
  /-- `binaryData`: the entries whose value is not valid UTF-8 (base64 text) -/
  bin : Dict := []
  deriving Repr, DecidableEq

/-- `appendReplaceOrMerge` for one (kind,name): `cur` is what the accumulator holds -/
def absorb (cur : Option GObj) (b : Behavior) (new : GObj) : Out GObj :=
  match cur, b with
  | none, .merge => .err "absent"
  | none, .replace => .err "absent"
  | none, _ => .ok new
  | some old, .merge => .ok { data := over old.data new.data, needsHash := old.needsHash && new.needsHash,
                              bin := over old.bin new.bin }
  | some old, .replace => .ok { data := new.data, needsHash := old.needsHash && new.needsHash, bin := new.bin }
  | some _, _ => .err "exists"

def absorbAll : Option GObj → List (Behavior × GObj) → Out (Option GObj)
  | cur, [] => .ok cur
  | cur, (b, g) :: r =>
    match absorb cur b g with
    | .ok x => absorbAll (some x) r
    | .err c => .err c
    | .panic c => .panic c

/-! ### hash suffix -/

/-- `hasher.encode`: first ten hex digits with the regenerated substitution -/
def encodeDigits (subst : List (Char × Char)) (hex : String) : Out String :=
  if hex.length < 10 then .err "short"
  else .ok (String.ofList ((hex.toList.take 10).map fun c => ((subst.find? (·.1 = c)).map (·.2)).getD c))

/-- Go `encoding/json` string escaping for the characters the generators can produce (HTML-safe mode) -/
def jsonEscape (s : String) : String :=
  String.join (s.toList.map fun c =>
    if c = '"' then "\\\"" else if c = '\\' then "\\\\" else if c = '\n' then "\\n" else if c = '\r' then "\\r"
    else if c = '\t' then "\\t" else if c = '<' then "\\u003c" else if c = '>' then "\\u003e"
    else if c = '&' then "\\u0026" else String.singleton c)

def jsonStr (s : String) : String := "\"" ++ jsonEscape s ++ "\""

def insertKV (x : String × String) : Dict → Dict
  | [] => [x]
  | y :: ys => if x.1 < y.1 then x :: y :: ys else y :: insertKV x ys

def sortDict (d : Dict) : Dict := d.foldl (fun acc x => insertKV x acc) []

def jsonDict (d : Dict) : String :=
  "{" ++ ",".intercalate ((sortDict d).map fun (k, v) => jsonStr k ++ ":" ++ jsonStr v) ++ "}"

/-- `encodeConfigMap`: {"data":…,"kind":"ConfigMap","name":""} (keys sorted; the name slot is always empty because
    the lookup path "metadata/name" is passed as ONE path element and finds nothing) -/
def encodeConfigMap (data : Option Dict) : String :=
  "{\"data\":" ++ (match data with | some d => jsonDict d | none => "\"\"") ++ ",\"kind\":\"ConfigMap\",\"name\":\"\"}"

def encodeSecret (data : Option Dict) (type : String) : String :=
  "{\"data\":" ++ (match data with | some d => jsonDict d | none => "\"\"") ++ ",\"kind\":\"Secret\",\"name\":\"\",\"type\":" ++ jsonStr type ++ "}"

end GenMap
end Kust
