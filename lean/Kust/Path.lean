/-
  Kust.Path — paths as the loader sees them.
  * `clean`  : Go `filepath.Clean` (Unix) on the segment list of a path
  * `hasPrefix` : `filesys.ConfirmedDir.HasPrefix` AS WRITTEN ON STRINGS (here: on `List Char`)
  * `Fs`, `cleanedAbs`, `restrictRootOnly`, `loaderNew`, `loaderLoad` : kyaml/filesys fsNode.CleanedAbs,
    api/internal/loader RestrictionRootOnly, FileLoader.New / errIfArgEqualOrHigher / Load on the in-memory file
    system (no symbolic links there; the on-disk variant resolves links through the OS and is covered by the
    oracle only).
-/
import Kust.Str
import Kust.Node
namespace Kust
namespace Path

abbrev Comp := List Char

/-- a directory or file path in cleaned absolute form = its list of components; `[]` is `/` -/
def render : List Comp → List Char
  | [] => ['/']
  | cs => cs.flatMap fun c => '/' :: c

/-- `ConfirmedDir.HasPrefix`: `path == "/" || path == d || strings.HasPrefix(d, path + "/")` -/
def hasPrefix (d p : List Char) : Bool :=
  p == ['/'] || p == d || Str.isPrefixL (p ++ ['/']) d

/-- a well-formed component: non-empty, no separator inside -/
def CompOk (c : Comp) : Prop := c ≠ [] ∧ '/' ∉ c

/-! ### filepath.Clean -/

/-- split a path string at `/` -/
def segments (p : String) : List String := Str.splitChar '/' p

def isAbs (p : String) : Bool := Str.hasPrefix p "/"

/-- the stack discipline of `filepath.Clean`: `.` and empty segments vanish, `..` pops (at the root of an
    absolute path it vanishes, in a relative path it is kept when nothing is left to pop) -/
def cleanSegs (abs : Bool) : List String → List String → List String
  | acc, [] => acc.reverse
  | acc, s :: r =>
    if s = "" ∨ s = "." then cleanSegs abs acc r
    else if s = ".." then
      match acc with
      | [] => if abs then cleanSegs abs [] r else cleanSegs abs [".."] r
      | a :: acc' => if a = ".." then cleanSegs abs (".." :: a :: acc') r else cleanSegs abs acc' r
    else cleanSegs abs (s :: acc) r

/-- `filepath.Clean` -/
def clean (p : String) : String :=
  if p = "" then "."
  else
    let abs := isAbs p
    let cs := cleanSegs abs [] (segments p)
    if abs then "/" ++ "/".intercalate cs
    else if cs = [] then "." else "/".intercalate cs

/-- `filepath.Join(a, b)` -/
def join (a b : String) : String :=
  if a = "" ∧ b = "" then ""
  else if a = "" then clean b
  else if b = "" then clean a
  else clean (a ++ "/" ++ b)

/-- components of a cleaned absolute path -/
def compsOf (p : String) : List String := (segments p).filter (· ≠ "")

/-! ### in-memory file system, CleanedAbs, load restriction, loader stack -/

inductive Entry where
  | dir
  | file (content : String)
  deriving DecidableEq, Repr

/-- a file system: cleaned absolute paths (as component lists) to entries; `[]` (the root) is a directory -/
abbrev Fs := List (List String × Entry)

def lookup (fs : Fs) (p : List String) : Option Entry :=
  if p = [] then some .dir else (fs.find? (·.1 = p)).map (·.2)

def isDir (fs : Fs) (p : List String) : Bool := lookup fs p = some .dir

/-- a relative path is taken from the root of the in-memory file system -/
def absOf (path : String) : String := if isAbs path then path else "/" ++ path

/-- `fsNode.CleanedAbs`: (directory, file name) of an existing path -/
def cleanedAbs (fs : Fs) (path : String) : Out (List String × String) :=
  -- `cleanQueryPath` drops the leading separator and cleans the rest as a RELATIVE path: a spelling that climbs
  -- above the root (`/../x`) keeps its `..` and is simply not found
  let cs := cleanSegs false [] (segments path)
  if cs.head? = some ".." then .err "notfound" else
  -- quirk of the in-memory file system: the root itself is only found under its exact spelling "/"
  if cs = [] ∧ path ≠ "/" then .err "notfound" else
  match lookup fs cs with
  | some .dir => .ok (cs, "")
  | some (.file _) => .ok (cs.dropLast, cs.getLast?.getD "")
  | none => .err "notfound"

def isPrefixC : List String → List String → Bool
  | [], _ => true
  | _ :: _, [] => false
  | a :: p, b :: d => a == b && isPrefixC p d

/-- `RestrictionRootOnly` (the containment test on components; `hasPrefix_iff` relates it to the string test) -/
def restrictRootOnly (fs : Fs) (root : List String) (path : String) : Out (List String) :=
  match cleanedAbs fs path with
  | .ok (d, f) =>
    if f = "" then .err "notfile"
    else if !isPrefixC root d then .err "security"
    else .ok (d ++ [f])
  | .err c => .err c
  | .panic c => .panic c

/-- `FileLoader.Load` (local paths): join with the root unless absolute, restrict, read -/
def fullOf (root : List String) (path : String) : String :=
  if isAbs path then path else clean ("/" ++ "/".intercalate root ++ "/" ++ path)

def loaderLoad (fs : Fs) (root : List String) (path : String) : Out String :=
  match restrictRootOnly fs root (fullOf root path) with
  | .ok p => (match lookup fs p with
    | some (.file c) => .ok c
    | _ => .err "notfound")
  | .err c => .err c
  | .panic c => .panic c

/-- `FileLoader.New` (local paths): relative only, must be a directory, neither equal to nor above any root on
    the referrer chain (`stack`: innermost loader first). Returns the new root. -/
def loaderNew (fs : Fs) (stack : List (List String)) (path : String) : Out (List String) :=
  if path = "" then .err "empty"
  else if isAbs path then .err "absolute"
  else
    match stack with
    | [] => .err "nostack"
    | root :: _ =>
      let cand := compsOf (clean ("/" ++ "/".intercalate root ++ "/" ++ path))
      if !isDir fs cand then .err "notdir"
      else if stack.any (fun r => isPrefixC cand r) then .err "cycle"
      else .ok cand

end Path
end Kust
