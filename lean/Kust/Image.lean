/-
  Kust.Image — api/internal/image/image.go (IsImageMatched after the repair: the name is quoted, i.e. literal;
  Split) and api/filters/imagetag/updater.go (imageTagUpdater.SetImageValue).
  The fixed-shape regular expression `^<name>(:[a-zA-Z0-9_.{}-]*)?(@sha256:[a-zA-Z0-9_.{}-]*)?$` is modelled as a
  string function (a hand-modelled fixed pattern, validated by the correspondence component image.update).
-/
namespace Kust
namespace Image

def tagChar (c : Char) : Bool := c.isAlphanum || c = '_' || c = '.' || c = '{' || c = '}' || c = '-'

def stripPrefix : List Char → List Char → Option (List Char)
  | [], s => some s
  | _ :: _, [] => none
  | a :: p, b :: s => if a = b then stripPrefix p s else none

/-- `(@sha256:[…]*)?$` -/
def matchDigest (cs : List Char) : Bool :=
  cs = [] ||
  match stripPrefix "@sha256:".toList cs with
  | some r => r.all tagChar
  | none => false

/-- `(:[…]*)?(@sha256:[…]*)?$` — `:` and `@` are not tag characters, so the greedy split is the only one -/
def matchRest (cs : List Char) : Bool :=
  matchDigest cs ||
  match cs with
  | ':' :: r => matchDigest (r.dropWhile tagChar)
  | _ => false

/-- `IsImageMatched(s, t)` -/
def isImageMatched (s t : String) : Bool :=
  match stripPrefix t.toList s.toList with
  | some r => matchRest r
  | none => false

def indexOf (c : Char) : List Char → Option Nat
  | [] => none
  | x :: xs => if x = c then some 0 else (indexOf c xs).map (· + 1)

/-- `Split`: name, tag, digest; the first path component may hold a port, so `:` is searched after the first `/` -/
def split (image : String) : String × String × String :=
  let cs := image.toList
  let slash := match indexOf '/' cs with
    | some i => if i > 0 then i else 0
    | none => 0
  let search := cs.drop slash
  let id := indexOf '@' search
  let ic := indexOf ':' search
  let str := String.ofList
  match ic, id with
  | none, none => (image, "", "")
  | _, some d =>
    match ic with
    | some c =>
      if d < c then (str (cs.take (d + slash)), "", str (cs.drop (d + slash + 1)))
      else (str (cs.take (c + slash)), str ((cs.drop (c + slash + 1)).take (d - c - 1)), str (cs.drop (d + slash + 1)))
    | none => (str (cs.take (d + slash)), "", str (cs.drop (d + slash + 1)))
  | some c, none => (str (cs.take (c + slash)), str (cs.drop (c + slash + 1)), "")

structure Entry where
  name : String
  newName : String := ""
  newTag : String := ""
  digest : String := ""
  tagSuffix : String := ""
  deriving Repr

/-- `imageTagUpdater.SetImageValue` on the scalar's text -/
def update (e : Entry) (value : String) : String :=
  if !isImageMatched value e.name then value
  else
    let (name, tag, digest) := split value
    let name := if e.newName ≠ "" then e.newName else name
    let (tag, digest) :=
      if e.newTag ≠ "" ∧ e.digest ≠ "" then (e.newTag, e.digest)
      else if e.newTag ≠ "" then (e.newTag, "")
      else if e.digest ≠ "" then ("", e.digest)
      else if e.tagSuffix ≠ "" then (tag ++ e.tagSuffix, "")
      else (tag, digest)
    name ++ (if tag ≠ "" then ":" ++ tag else "") ++ (if digest ≠ "" then "@" ++ digest else "")

end Image
end Kust
