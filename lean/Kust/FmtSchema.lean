/-
  Model of `yaml.FormatNonStringStyle` (kyaml/yaml/compatibility.go): the schema-aware quoting step of the formatter
  (`FormatFilter{UseSchema: true}`).  `ns` is `IsValueNonString` (does the text parse as a non-string under YAML 1.1
  when unquoted) — third-party (go-yaml v2), a parameter.  Styles are go-yaml's bit mask (2 double-quoted,
  4 single-quoted); a scalar is a (tag, value, style) triple.
-/
import Kust.Node
namespace Kust.FmtSchema
open Kust

structure Scalar where
  tag : String
  value : String
  style : Nat
deriving DecidableEq, Repr, Inhabited

def dqBit : Nat := 2
def sqBit : Nat := 4

/-- `node.Style & (DoubleQuotedStyle | SingleQuotedStyle) != 0` -/
def quoted (s : Nat) : Bool := s &&& dqBit != 0 || s &&& sqBit != 0

/-- `typeToTag` -/
def typeTag : String → Option String
  | "string" => some "!!str"
  | "integer" => some "!!int"
  | "boolean" => some "!!bool"
  | "number" => some "!!float"
  | _ => none

/-- the tail of `FormatNonStringStyle`: a null keeps its tag and loses any quotes, otherwise the schema's tag is set -/
def finish (t : String) (m : Scalar) : Scalar :=
  if m.tag = "!!null" then { m with style := 0 }
  else match typeTag t with
    | some tg => { m with tag := tg }
    | none => m

/-- `FormatNonStringStyle(node, schema)`; `types` is `schema.Type`, `format` is `schema.Format` -/
def format (ns : String → Bool) (types : List String) (fmt : String) (n : Scalar) : Scalar :=
  match types with
  | [t] =>
    if !ns n.value then n
    else if t = "string" ∧ fmt ≠ "int-or-string" then
      finish t (if quoted n.style then n else { n with style := dqBit })
    else if t = "boolean" ∨ t = "integer" ∨ t = "number" then
      finish t (if quoted n.style then { n with style := 0 } else n)
    else n
  | _ => n

/-- how a YAML 1.1 reader (the API server) types the scalar: a string iff it is quoted or its text is not a
    non-string keyword/number -/
def readsAsString (ns : String → Bool) (n : Scalar) : Bool := quoted n.style || !ns n.value

end Kust.FmtSchema
