/-
  Kust.Select — `resWrangler.Select` (api/resmap/reswrangler.go) with `types.SelectorRegex`: which resources a
  selector (the `target:` of patches, replacement `select`/`reject`, …) designates.
  `hit p v` is Go's regexp `^(?:p)$` against `v` (a parameter); `bad` are the patterns that do not compile;
  `cs` is IsClusterScoped.  Label / annotation selectors are given parsed (requirements), `none` = unparsable text.
-/
import Kust.Nameref
namespace Kust
namespace Select
open Res

inductive Op where
  | eq | neq | isin | notin | has | hasnot
  deriving DecidableEq, Repr

structure Req where
  key : String
  op : Op
  vals : List String
  deriving Repr

structure Sel where
  group : String
  version : String
  kind : String
  name : String
  ns : String
  /-- `none`: the selector text does not parse -/
  lsel : Option (List Req)
  asel : Option (List Req)

structure SRes where
  c : Nameref.C
  labels : List (String × String)
  annos : List (String × String)
  deriving DecidableEq, Repr, Inhabited

def lookupKV (m : List (String × String)) (k : String) : Option String := (m.find? (·.1 = k)).map (·.2)

/-- `labels.Requirement.Matches` -/
def reqMatches (m : List (String × String)) (q : Req) : Bool :=
  match q.op with
  | .eq | .isin => (match lookupKV m q.key with | some v => q.vals.contains v | none => false)
  | .neq | .notin => (match lookupKV m q.key with | some v => !q.vals.contains v | none => true)
  | .has => (lookupKV m q.key).isSome
  | .hasnot => (lookupKV m q.key).isNone

/-- `MatchName` / `MatchNamespace` / one component of `MatchGvk`: an empty pattern matches everything -/
def pat (hit : String → String → Bool) (p v : String) : Bool := p = "" || hit p v

def C.org (c : Nameref.C) : ResId := c.prev.headD c.cur

/-- the sieves that come before the label selector: namespace (original OR current), name (original OR current), GVK -/
def idSelected (cs : Gvk → Bool) (hit : String → String → Bool) (s : Sel) (c : Nameref.C) : Bool :=
  (pat hit s.ns (effNs cs (C.org c)) || pat hit s.ns (effNs cs c.cur)) &&
  (pat hit s.name (C.org c).name || pat hit s.name c.cur.name) &&
  (pat hit s.group c.cur.gvk.group && pat hit s.version c.cur.gvk.version && pat hit s.kind c.cur.gvk.kind)

/-- the loop of `Select`: an unparsable label (annotation) selector is an error only when a resource gets that far -/
def loop (cs : Gvk → Bool) (hit : String → String → Bool) (s : Sel) : List SRes → Out (List SRes)
  | [] => .ok []
  | x :: xs =>
    if !idSelected cs hit s x.c then loop cs hit s xs
    else match s.lsel with
      | none => .err "selector"
      | some lq =>
        if !lq.all (reqMatches x.labels) then loop cs hit s xs
        else match s.asel with
          | none => .err "selector"
          | some aq =>
            if !aq.all (reqMatches x.annos) then loop cs hit s xs
            else match loop cs hit s xs with
              | .ok r => .ok (x :: r)
              | .err e => .err e
              | .panic e => .panic e

/-- `Select`: the patterns are compiled first (group, version, kind, name, namespace) -/
def select (cs : Gvk → Bool) (hit : String → String → Bool) (bad : String → Bool) (s : Sel) (rs : List SRes) : Out (List SRes) :=
  if [s.group, s.version, s.kind, s.name, s.ns].any (fun p => p ≠ "" && bad p) then .err "regex"
  else loop cs hit s rs

/-- the plain reading: what a selector designates -/
def designated (cs : Gvk → Bool) (hit : String → String → Bool) (s : Sel) (lq aq : List Req) (x : SRes) : Bool :=
  idSelected cs hit s x.c && lq.all (reqMatches x.labels) && aq.all (reqMatches x.annos)

end Select
end Kust
