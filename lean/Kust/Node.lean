/-
  Kust.Node — the image of go-yaml's `yaml.Node` / kyaml's `*RNode` used by every kyaml-level model.

  * `Node`            a non-nil node (scalar / mapping / sequence)
  * `Option Node`     Go's possibly-nil `*RNode`
  * `Out α`           result of a Go call: value, error value, or panic (kept explicit so that
                      "never panics" is a statement and not an artefact of totalisation)

  Mapping nodes are association *lists*: key order and duplicate keys are kept, because the Go code
  appends new fields at the end and always takes the first match.  Keys are compared by their
  `Value` text only, exactly as `visitMappingNodeFields` does, so a key is a `String`.
  Tags are the raw `Tag` field in short form ("" for programmatically created nodes).
  Styles: scalars 0 plain, 1 double-quoted, 2 single-quoted, 3 literal, 4 folded;
          collections 0 block, 1 flow.
-/
namespace Kust

inductive Node where
  | scalar (tag : String) (value : String) (style : Nat)
  | map (style : Nat) (fields : List (String × Node))
  | seq (style : Nat) (items : List Node)
  deriving Repr, Inhabited

abbrev Fields := List (String × Node)

inductive Out (α : Type) where
  | ok (a : α)
  | err (cls : String)
  | panic (site : String)
  deriving Repr, DecidableEq

namespace Out
def bind {α β} (x : Out α) (f : α → Out β) : Out β :=
  match x with
  | ok a => f a
  | err c => err c
  | panic s => panic s
instance : Monad Out where
  pure := Out.ok
  bind := Out.bind
def isPanic {α} : Out α → Bool
  | panic _ => true
  | _ => false
@[simp] theorem bind_ok {α β} (a : α) (f : α → Out β) : (Out.ok a >>= f) = f a := rfl
@[simp] theorem bind_err {α β} (c : String) (f : α → Out β) : (Out.err c >>= f) = Out.err c := rfl
@[simp] theorem bind_panic {α β} (c : String) (f : α → Out β) : (Out.panic c >>= f) = Out.panic c := rfl
@[simp] theorem pure_eq {α} (a : α) : (pure a : Out α) = Out.ok a := rfl
end Out

namespace Node

-- structural boolean equality (`deriving DecidableEq` fails on the nested type).
mutual
def beq : Node → Node → Bool
  | .scalar t v s, .scalar t' v' s' => t == t' && v == v' && s == s'
  | .map s fs, .map s' fs' => s == s' && beqFields fs fs'
  | .seq s is, .seq s' is' => s == s' && beqItems is is'
  | _, _ => false
def beqFields : List (String × Node) → List (String × Node) → Bool
  | [], [] => true
  | (k, n) :: fs, (k', n') :: fs' => k == k' && beq n n' && beqFields fs fs'
  | _, _ => false
def beqItems : List Node → List Node → Bool
  | [], [] => true
  | n :: is, n' :: is' => beq n n' && beqItems is is'
  | _, _ => false
end

mutual
theorem beq_sound : ∀ (a b : Node), beq a b = true → a = b
  | .scalar t v s, .scalar t' v' s', h => by
      simp [beq] at h; obtain ⟨⟨h1, h2⟩, h3⟩ := h; subst h1 h2 h3; rfl
  | .map s fs, .map s' fs', h => by
      simp [beq] at h; obtain ⟨h1, h2⟩ := h; subst h1
      rw [beqFields_sound fs fs' h2]
  | .seq s is, .seq s' is', h => by
      simp [beq] at h; obtain ⟨h1, h2⟩ := h; subst h1
      rw [beqItems_sound is is' h2]
  | .scalar .., .map .., h => by simp [beq] at h
  | .scalar .., .seq .., h => by simp [beq] at h
  | .map .., .scalar .., h => by simp [beq] at h
  | .map .., .seq .., h => by simp [beq] at h
  | .seq .., .scalar .., h => by simp [beq] at h
  | .seq .., .map .., h => by simp [beq] at h
theorem beqFields_sound : ∀ (a b : List (String × Node)), beqFields a b = true → a = b
  | [], [], _ => rfl
  | (k, n) :: fs, (k', n') :: fs', h => by
      simp [beqFields] at h; obtain ⟨⟨h1, h2⟩, h3⟩ := h; subst h1
      rw [beq_sound n n' h2, beqFields_sound fs fs' h3]
  | [], _ :: _, h => by simp [beqFields] at h
  | _ :: _, [], h => by simp [beqFields] at h
theorem beqItems_sound : ∀ (a b : List Node), beqItems a b = true → a = b
  | [], [], _ => rfl
  | n :: is, n' :: is', h => by
      simp [beqItems] at h; obtain ⟨h2, h3⟩ := h
      rw [beq_sound n n' h2, beqItems_sound is is' h3]
  | [], _ :: _, h => by simp [beqItems] at h
  | _ :: _, [], h => by simp [beqItems] at h
end

mutual
theorem beq_refl : ∀ (a : Node), beq a a = true
  | .scalar t v s => by simp [beq]
  | .map s fs => by simp [beq, beqFields_refl fs]
  | .seq s is => by simp [beq, beqItems_refl is]
theorem beqFields_refl : ∀ (a : List (String × Node)), beqFields a a = true
  | [] => rfl
  | (k, n) :: fs => by simp [beqFields, beq_refl n, beqFields_refl fs]
theorem beqItems_refl : ∀ (a : List Node), beqItems a a = true
  | [] => rfl
  | n :: is => by simp [beqItems, beq_refl n, beqItems_refl is]
end

instance : DecidableEq Node := fun a b =>
  if h : beq a b = true then isTrue (beq_sound a b h)
  else isFalse (fun e => h (e ▸ beq_refl a))

/-- `IsMissingOrNull` on a non-nil node: the raw tag is `!!null`. -/
def isNull : Node → Bool
  | .scalar t _ _ => t == "!!null"
  | .map .. => false   -- go-yaml never tags collections `!!null`; the harness does not either
  | .seq .. => false

def isEmptyMap : Node → Bool
  | .map _ [] => true
  | _ => false

/-- `len(node.Content)` (a map counts key and value nodes). -/
def contentLen : Node → Nat
  | .scalar .. => 0
  | .map _ fs => 2 * fs.length
  | .seq _ is => is.length

/-- text of the `Value` field (empty for collections). -/
def valueText : Node → String
  | .scalar _ v _ => v
  | _ => ""

def style : Node → Nat
  | .scalar _ _ s => s
  | .map s _ => s
  | .seq s _ => s

def withStyle (n : Node) (s : Nat) : Node :=
  match n with
  | .scalar t v _ => .scalar t v s
  | .map _ fs => .map s fs
  | .seq _ is => .seq s is

mutual
def size : Node → Nat
  | .scalar .. => 1
  | .map _ fs => 1 + sizeFields fs
  | .seq _ is => 1 + sizeItems is
def sizeFields : List (String × Node) → Nat
  | [] => 0
  | (_, n) :: fs => size n + sizeFields fs
def sizeItems : List Node → Nat
  | [] => 0
  | n :: is => size n + sizeItems is
end

end Node

/-- `IsMissingOrNull(*RNode)` -/
def isMissingOrNull : Option Node → Bool
  | none => true
  | some n => n.isNull

end Kust
