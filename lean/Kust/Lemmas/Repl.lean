/- Lemmas about the replacement model (`Kust.Repl`): association-list updates and single-field writes. -/
import Kust.Repl
namespace Kust.Repl
open Kust

/-! ### maps -/
theorem kvGet_kvSet_same (k v : String) (m : KV) : kvGet k (kvSet k v m) = some v := by
  induction m with
  | nil => simp [kvSet, kvGet]
  | cons p m ih =>
    obtain ⟨k', v'⟩ := p
    by_cases h : k' = k
    · simp [kvSet, kvGet, h]
    · simp [kvSet, kvGet, h, ih]

theorem kvGet_kvSet_other (k k' v : String) (m : KV) (h : k' ≠ k) : kvGet k' (kvSet k v m) = kvGet k' m := by
  induction m with
  | nil => simp [kvSet, kvGet, Ne.symm h]
  | cons p m ih =>
    obtain ⟨k2, v2⟩ := p
    by_cases h2 : k2 = k
    · subst h2; simp [kvSet, kvGet, Ne.symm h]
    · simp only [kvSet, h2, if_false, kvGet, ih]

/-! ### one field -/
theorem setF_get_same (c : Bool) (r r' : Res) (f : FRef) (v : String) (h : setF c r f v = some r') :
    getF r' f = some v := by
  cases f with
  | name => simp [setF] at h; subst h; simp [getF]
  | label k =>
    simp only [setF] at h
    cases hl : r.labels with
    | none => rw [hl] at h; simp only at h; split at h <;> simp at h; subst h; simp [getF, kvGet]
    | some m =>
      rw [hl] at h; simp only at h; split at h <;> simp at h; subst h
      simp [getF, kvGet_kvSet_same]
  | data k =>
    simp only [setF] at h
    cases hl : r.data with
    | none => rw [hl] at h; simp only at h; split at h <;> simp at h; subst h; simp [getF, kvGet]
    | some m =>
      rw [hl] at h; simp only at h; split at h <;> simp at h; subst h
      simp [getF, kvGet_kvSet_same]

theorem setF_get_other (c : Bool) (r r' : Res) (f g : FRef) (v : String) (h : setF c r f v = some r')
    (hg : g ≠ f) : getF r' g = getF r g := by
  cases f with
  | name =>
    simp [setF] at h; subst h
    cases g <;> simp_all [getF]
  | label k =>
    simp only [setF] at h
    cases hl : r.labels with
    | none =>
      rw [hl] at h; simp only at h; split at h <;> simp at h; subst h
      cases g with
      | name => simp [getF]
      | data k' => simp [getF]
      | label k' =>
        have : k' ≠ k := fun e => hg (by rw [e])
        simp [getF, kvGet, hl, Ne.symm this]
    | some m =>
      rw [hl] at h; simp only at h; split at h <;> simp at h; subst h
      cases g with
      | name => simp [getF]
      | data k' => simp [getF]
      | label k' =>
        have : k' ≠ k := fun e => hg (by rw [e])
        simp [getF, hl, kvGet_kvSet_other k k' _ m this]
  | data k =>
    simp only [setF] at h
    cases hl : r.data with
    | none =>
      rw [hl] at h; simp only at h; split at h <;> simp at h; subst h
      cases g with
      | name => simp [getF]
      | label k' => simp [getF]
      | data k' =>
        have : k' ≠ k := fun e => hg (by rw [e])
        simp [getF, kvGet, hl, Ne.symm this]
    | some m =>
      rw [hl] at h; simp only at h; split at h <;> simp at h; subst h
      cases g with
      | name => simp [getF]
      | label k' => simp [getF]
      | data k' =>
        have : k' ≠ k := fun e => hg (by rw [e])
        simp [getF, hl, kvGet_kvSet_other k k' _ m this]

theorem setF_kind (c : Bool) (r r' : Res) (f : FRef) (v : String) (h : setF c r f v = some r') : r'.kind = r.kind := by
  cases f with
  | name => simp [setF] at h; subst h; rfl
  | label k =>
    simp only [setF] at h
    cases hl : r.labels <;> rw [hl] at h <;> simp only at h <;> split at h <;> simp at h <;> subst h <;> rfl
  | data k =>
    simp only [setF] at h
    cases hl : r.data <;> rw [hl] at h <;> simp only at h <;> split at h <;> simp at h <;> subst h <;> rfl

end Kust.Repl
