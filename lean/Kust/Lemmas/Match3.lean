/- Lemmas about the PathMatcher model: reported positions resolve, branch by branch, creation included. -/
import Kust.Lemmas.Match2
namespace Kust.Match
open Kust Node Fns

section
variable (hit : String → Node → Out Bool) (ns : String → Bool)
variable (rec : Node → Out (Node × List Pos))

theorem visit_nil_ps (f : Nat → Node → Out (Node × List Pos)) (i : Nat) (is' : List Node) (ps : List Pos)
    (h : visit f i [] = .ok (is', ps)) : ps = [] := by
  simp [visit] at h; exact h.2

theorem matchSel_resolves (hrec : ∀ e e' ps, rec e = .ok (e', ps) → ∀ q ∈ ps, (getAt q e').isSome)
    (c : Nat) (part : String) (rn d' : Node) (ps : List Pos)
    (h : matchSel hit rec c part rn = .ok (d', ps)) : ∀ pos ∈ ps, (getAt pos d').isSome := by
  unfold matchSel at h
  split at h
  · simp at h
  · rename_i k pat hsp
    have hf : ∀ j e e' qs, (if k = "" then primElem hit pat else fieldElem hit rec k pat) j e = .ok (e', qs) →
        ∀ q ∈ qs, (getAt q e').isSome := by
      intro j e e' qs hf
      split at hf
      · exact primElem_resolves hit _ _ _ _ _ hf
      · exact fieldElem_resolves hit rec hrec _ _ _ _ _ _ hf
    generalize (if k = "" then primElem hit pat else fieldElem hit rec k pat) = f at h hf
    simp only at h
    split at h
    · rename_i is his
      split at h
      · rename_i is' ps' hv
        split at h
        · simp at h
          intro pos hp
          rw [← h.2] at hp
          rw [← h.1]
          rcases elementsOf_cases _ _ his with ⟨s, e1⟩ | ⟨_, e2⟩
          · subst e1
            exact getAt_seq_of_visit s is' pos (visit_resolves f hf is 0 is' ps' hv pos hp)
          · subst e2
            rw [visit_nil_ps f 0 is' ps' hv] at hp; simp at hp
        · split at h
          · rename_i rn1 ha
            obtain ⟨s, js, e1, e2⟩ := appendElem_spec _ _ _ ha
            split at h
            · rename_i is2 ps2 hv2
              split at h
              · simp at h
              · simp at h
                intro pos hp
                rw [← h.2] at hp
                rw [← h.1, e2]
                exact getAt_seq_of_visit s is2 pos (visit_resolves f hf _ 0 is2 ps2 hv2 pos hp)
            · simp at h
            · simp at h
          · simp at h
          · simp at h
      · simp at h
      · simp at h
    · simp at h
    · simp at h

theorem matchStar_resolves (hrec : ∀ e e' ps, rec e = .ok (e', ps) → ∀ q ∈ ps, (getAt q e').isSome)
    (rn d' : Node) (ps : List Pos) (h : matchStar rec rn = .ok (d', ps)) : ∀ pos ∈ ps, (getAt pos d').isSome := by
  unfold matchStar at h
  split at h
  · rename_i is his
    split at h
    · rename_i is' ps' hv
      simp at h
      intro pos hp
      rw [← h.2] at hp
      rw [← h.1]
      have hf : ∀ j e e' qs, (fun (_ : Nat) e => rec e) j e = .ok (e', qs) → ∀ q ∈ qs, (getAt q e').isSome :=
        fun j e e' qs hh => hrec e e' qs hh
      rcases elementsOf_cases _ _ his with ⟨s, e1⟩ | ⟨_, e2⟩
      · subst e1
        exact getAt_seq_of_visit s is' pos (visit_resolves _ hf is 0 is' ps' hv pos hp)
      · subst e2
        rw [visit_nil_ps _ 0 is' ps' hv] at hp; simp at hp
    · simp at h
    · simp at h
  · simp at h
  · simp at h

theorem matchEmpty_resolves (hrec : ∀ e e' ps, rec e = .ok (e', ps) → ∀ q ∈ ps, (getAt q e').isSome)
    (c : Nat) (rn d' : Node) (ps : List Pos) (h : matchEmpty rec c rn = .ok (d', ps)) :
    ∀ pos ∈ ps, (getAt pos d').isSome := by
  unfold matchEmpty at h
  split at h
  · exact hrec _ _ _ h
  · split at h
    · simp at h; intro pos hp; rw [h.2] at hp; simp at hp
    · simp at h
  · simp at h
  · simp at h

theorem emptyOfKind_not_null (k st : Nat) : (emptyOfKind k st).isNull = false := by
  unfold emptyOfKind; split <;> simp [Node.isNull]

theorem quoteIfNonString_isNull' (ovr : Bool) (v : Node) : (quoteIfNonString ns ovr v).isNull = v.isNull := by
  cases v with
  | scalar t x s => simp only [quoteIfNonString]; split <;> simp [Node.isNull]
  | map s fs => rfl
  | seq s is => rfl

theorem matchField_resolves (hrec : ∀ e e' ps, rec e = .ok (e', ps) → ∀ q ∈ ps, (getAt q e').isSome)
    (c : Nat) (next part : String) (hne : part ≠ "") (rn d' : Node) (ps : List Pos)
    (h : matchField ns rec c next part rn = .ok (d', ps)) : ∀ pos ∈ ps, (getAt pos d').isSome := by
  unfold matchField at h
  split at h
  · rename_i x hx
    obtain ⟨s, fs, hrn, hg⟩ := fieldMatcher_some_spec _ _ _ hne hx
    subst hrn
    split at h
    · rename_i x' ps' hr
      simp at h
      intro pos hp
      rw [← h.2] at hp
      simp at hp
      obtain ⟨q, hq, e1⟩ := hp
      subst e1
      rw [← h.1]
      simp only [getAt, fieldGet_replace_same part x' fs x hg, Option.bind_some]
      exact hrec _ _ _ hr q hq
    · simp at h
    · simp at h
  · rename_i hx
    split at h
    · simp at h; intro pos hp; rw [h.2] at hp; simp at hp
    · simp only at h
      split at h
      · rename_i rn1 r hs
        split at h
        · rename_i x' ps' hr
          rcases fieldMatcher_none_spec _ _ hne hx with ⟨t, v, st, e⟩ | ⟨s, fs, e, hg⟩
          · -- a scalar receiver: the setter refuses (non-null) or is outside the model (null)
            subst e
            simp only [fieldSetter, Option.map_some, quoteIfNonString_isNull', emptyOfKind_not_null,
              Bool.false_eq_true, false_and, if_false] at hs
            split at hs <;> simp at hs
          · subst e
            simp only [fieldSetter, Option.map_some, quoteIfNonString_isNull', emptyOfKind_not_null,
              Bool.false_eq_true, false_and, if_false, hg] at hs
            simp at hs
            rw [← hs.1] at h
            simp at h
            intro pos hp
            rw [← h.2] at hp
            simp at hp
            obtain ⟨q, hq, e1⟩ := hp
            subst e1
            rw [← h.1]
            have hga := fieldGet_append_absent part (quoteIfNonString ns false (emptyOfKind (partKind next c) 0)) fs hg
            simp only [getAt, fieldGet_replace_same part x' _ _ hga, Option.bind_some]
            exact hrec _ _ _ hr q hq
        · simp at h
        · simp at h
      · simp at h
      · simp at h
  · simp at h
  · simp at h

end

/-- **every position the matcher reports addresses a node of the document it returns** — with or without creation,
    for every path without empty parts, every document and every behaviour of the regular-expression test -/
theorem pathMatch_resolves (hit : String → Node → Out Bool) (ns : String → Bool) (c : Nat) :
    ∀ (p : List String), "" ∉ p → ∀ (d d' : Node) (ps : List Pos),
      pathMatch hit ns c p d = .ok (d', ps) → ∀ pos ∈ ps, (getAt pos d').isSome := by
  intro p
  induction p with
  | nil => intro _ d d' ps h pos hp; simp [pathMatch] at h; rw [← h.2] at hp; simp at hp; subst hp; simp [getAt]
  | cons part rest ih =>
    intro hp d d' ps h
    have hpart : part ≠ "" := fun e => hp (by simp [e])
    have hrest : "" ∉ rest := fun e => hp (by simp [e])
    have hrec : ∀ e e' qs, pathMatch hit ns c rest e = .ok (e', qs) → ∀ q ∈ qs, (getAt q e').isSome :=
      fun e e' qs hh => ih hrest e e' qs hh
    unfold pathMatch at h
    simp only at h
    split at h
    · exact matchIdx_resolves _ hrec _ _ _ _ _ _ h
    · split at h
      · exact matchSel_resolves hit _ hrec _ _ _ _ _ h
      · split at h
        · exact matchStar_resolves _ hrec _ _ _ h
        · exact matchField_resolves ns _ hrec _ _ _ hpart _ _ _ h

end Kust.Match
