/- Lemmas about the renaming transformers of `Kust.Res`. -/
import Kust.Res
namespace Kust.Res

theorem append_ne_empty_right (p n : String) (h : n ≠ "") : p ++ n ≠ "" := by
  intro he
  have := congrArg String.length he
  simp at this
  exact h this.2

theorem append_ne_empty_left (n s : String) (h : n ≠ "") : n ++ s ≠ "" := by
  intro he
  have := congrArg String.length he
  simp at this
  exact h this.1

theorem storePrev_named (cs : Gvk → Bool) (r : R) (h : r.Named) : (r.storePrev cs).Named := h
theorem storePrev_name (cs : Gvk → Bool) (r : R) : (r.storePrev cs).name = r.name := rfl
theorem storePrev_gvk (cs : Gvk → Bool) (r : R) : (r.storePrev cs).gvk = r.gvk := rfl
theorem storePrev_ns (cs : Gvk → Bool) (r : R) : (r.storePrev cs).ns = r.ns := rfl

theorem orgId_no_panic (r : R) (ha : r.Aligned) : r.orgId.isPanic = false := by
  have := prevIds_no_panic r ha
  unfold R.orgId
  split <;> simp_all [Out.isPanic]

/-- invariant of the renaming steps -/
def R.Good (r : R) : Prop := r.Aligned ∧ r.Named

theorem nsStep_good (cs : Gvk → Bool) (n : String) (r : R) (h : r.Good) : (nsStep cs n r).Good := by
  unfold nsStep
  split
  · exact h
  · rename_i hn
    have h1 : (r.storePrev cs).Good := ⟨storePrev_aligned cs r h.1 h.2, storePrev_named cs r h.2⟩
    dsimp only
    split
    · split
      · exact ⟨h1.1, hn, h1.2.2⟩
      · exact h1
    · split
      · exact ⟨h1.1, hn, h1.2.2⟩
      · exact ⟨h1.1, h1.2⟩

theorem prefixStep_good (cs : Gvk → Bool) (skip : String → Bool) (p : String) (r r' : R) (h : r.Good)
    (he : prefixStep cs skip p r = .ok r') : r'.Good := by
  unfold prefixStep at he
  split at he
  · split at he
    · simp at he; subst he; exact h
    · simp at he; subst he
      by_cases hp : p = ""
      · subst hp
        simp only [ne_eq, not_true_eq_false, if_false]
        exact ⟨h.1, by simpa [R.Named] using h.2⟩
      · simp only [ne_eq, hp, not_false_eq_true, if_true]
        have h0 : ({ r with prefixes := appendCsv r.prefixes p } : R).Good := ⟨h.1, h.2⟩
        have h1 := storePrev_aligned cs _ h0.1 h0.2
        exact ⟨h1, append_ne_empty_right p _ h.2.1, h.2.2⟩
  · simp at he
  · simp at he

theorem suffixStep_good (cs : Gvk → Bool) (skip : String → Bool) (s : String) (r r' : R) (h : r.Good)
    (he : suffixStep cs skip s r = .ok r') : r'.Good := by
  unfold suffixStep at he
  split at he
  · split at he
    · simp at he; subst he; exact h
    · simp at he; subst he
      by_cases hp : s = ""
      · subst hp
        simp only [ne_eq, not_true_eq_false, if_false]
        exact ⟨h.1, by simpa [R.Named] using h.2⟩
      · simp only [ne_eq, hp, not_false_eq_true, if_true]
        have h0 : ({ r with suffixes := appendCsv r.suffixes s } : R).Good := ⟨h.1, h.2⟩
        have h1 := storePrev_aligned cs _ h0.1 h0.2
        exact ⟨h1, append_ne_empty_left _ s h.2.1, h.2.2⟩
  · simp at he
  · simp at he

theorem prefixStep_no_panic (cs : Gvk → Bool) (skip : String → Bool) (p : String) (r : R) (h : r.Good) :
    (prefixStep cs skip p r).isPanic = false := by
  have := orgId_no_panic r h.1
  unfold prefixStep
  split
  · split <;> rfl
  · rfl
  · rename_i c hc; rw [hc] at this; simp [Out.isPanic] at this

theorem suffixStep_no_panic (cs : Gvk → Bool) (skip : String → Bool) (s : String) (r : R) (h : r.Good) :
    (suffixStep cs skip s r).isPanic = false := by
  have := orgId_no_panic r h.1
  unfold suffixStep
  split
  · split <;> rfl
  · rfl
  · rename_i c hc; rw [hc] at this; simp [Out.isPanic] at this

theorem layerStep_good (cs : Gvk → Bool) (skip : String → Bool) (l : Layer) (r r' : R) (h : r.Good)
    (he : layerStep cs skip l r = .ok r') : r'.Good := by
  unfold layerStep at he
  split at he
  · rename_i r1 h1
    exact suffixStep_good cs skip l.suf r1 r' (prefixStep_good cs skip l.pre _ r1 (nsStep_good cs l.ns r h) h1) he
  · simp at he
  · simp at he

theorem layerStep_no_panic (cs : Gvk → Bool) (skip : String → Bool) (l : Layer) (r : R) (h : r.Good) :
    (layerStep cs skip l r).isPanic = false := by
  unfold layerStep
  have hp := prefixStep_no_panic cs skip l.pre (nsStep cs l.ns r) (nsStep_good cs l.ns r h)
  split
  · rename_i r1 h1
    exact suffixStep_no_panic cs skip l.suf r1 (prefixStep_good cs skip l.pre _ r1 (nsStep_good cs l.ns r h) h1)
  · rfl
  · rename_i c hc; rw [hc] at hp; exact hp

theorem layers_no_panic (cs : Gvk → Bool) (skip : String → Bool) :
    ∀ (ls : List Layer) (r : R), r.Good → (layers cs skip ls r).isPanic = false
  | [], r, _ => rfl
  | l :: ls, r, h => by
    unfold layers
    have hp := layerStep_no_panic cs skip l r h
    split
    · rename_i r1 h1
      exact layers_no_panic cs skip ls r1 (layerStep_good cs skip l r r1 h h1)
    · rfl
    · rename_i c hc; rw [hc] at hp; exact hp

theorem layers_good (cs : Gvk → Bool) (skip : String → Bool) :
    ∀ (ls : List Layer) (r r' : R), r.Good → layers cs skip ls r = .ok r' → r'.Good
  | [], r, r', h, he => by simp [layers] at he; subst he; exact h
  | l :: ls, r, r', h, he => by
    unfold layers at he
    split at he
    · rename_i r1 h1
      exact layers_good cs skip ls r1 r' (layerStep_good cs skip l r r1 h h1) he
    · simp at he
    · simp at he

end Kust.Res
