/- Association-list lemmas for mapping-node fields (first-match semantics, duplicate keys allowed). -/
import Kust.Fns
namespace Kust.Fns
open Kust Node

@[simp] theorem fieldGet_nil (n : String) : fieldGet n [] = none := rfl

theorem fieldGet_cons (n k : String) (v : Node) (fs : Fields) :
    fieldGet n ((k, v) :: fs) = if k = n then some v else fieldGet n fs := rfl

theorem fieldGet_replace_same (n : String) (v : Node) (fs : Fields) (x : Node)
    (h : fieldGet n fs = some x) : fieldGet n (fieldReplace n v fs) = some v := by
  induction fs with
  | nil => simp at h
  | cons p fs ih =>
    obtain ⟨k, y⟩ := p
    by_cases hk : k = n
    · simp [fieldReplace, fieldGet_cons, hk]
    · simp [fieldReplace, fieldGet_cons, hk] at h ⊢; exact ih h

theorem fieldGet_replace_other (n m : String) (v : Node) (fs : Fields) (hm : m ≠ n) :
    fieldGet m (fieldReplace n v fs) = fieldGet m fs := by
  induction fs with
  | nil => rfl
  | cons p fs ih =>
    obtain ⟨k, y⟩ := p
    by_cases hk : k = n
    · subst hk; simp [fieldReplace, fieldGet_cons, Ne.symm hm]
    · simp [fieldReplace, fieldGet_cons, hk, ih]

theorem fieldReplace_self (n : String) (fs : Fields) (x : Node) (h : fieldGet n fs = some x) :
    fieldReplace n x fs = fs := by
  induction fs with
  | nil => rfl
  | cons p fs ih =>
    obtain ⟨k, y⟩ := p
    by_cases hk : k = n
    · simp [fieldGet_cons, hk] at h; simp [fieldReplace, hk, h]
    · simp [fieldGet_cons, hk] at h; simp [fieldReplace, hk, ih h]

theorem fieldReplace_replace (n : String) (v w : Node) (fs : Fields) :
    fieldReplace n w (fieldReplace n v fs) = fieldReplace n w fs := by
  induction fs with
  | nil => rfl
  | cons p fs ih =>
    obtain ⟨k, y⟩ := p
    by_cases hk : k = n
    · simp [fieldReplace, hk]
    · simp [fieldReplace, hk, ih]

theorem fieldReplace_absent (n : String) (v : Node) (fs : Fields) (h : fieldGet n fs = none) :
    fieldReplace n v fs = fs := by
  induction fs with
  | nil => rfl
  | cons p fs ih =>
    obtain ⟨k, y⟩ := p
    by_cases hk : k = n
    · simp [fieldGet_cons, hk] at h
    · simp [fieldGet_cons, hk] at h; simp [fieldReplace, hk, ih h]

theorem fieldGet_append_absent (n : String) (v : Node) (fs : Fields) (h : fieldGet n fs = none) :
    fieldGet n (fs ++ [(n, v)]) = some v := by
  induction fs with
  | nil => simp [fieldGet_cons]
  | cons p fs ih =>
    obtain ⟨k, y⟩ := p
    by_cases hk : k = n
    · simp [fieldGet_cons, hk] at h
    · simp [fieldGet_cons, hk] at h ⊢; exact ih h

theorem fieldGet_append_other (n m : String) (v : Node) (fs : Fields) (hm : m ≠ n) :
    fieldGet m (fs ++ [(n, v)]) = fieldGet m fs := by
  induction fs with
  | nil => simp [fieldGet_cons, Ne.symm hm]
  | cons p fs ih =>
    obtain ⟨k, y⟩ := p
    by_cases hk : k = m
    · simp [fieldGet_cons, hk]
    · simp [fieldGet_cons, hk, ih]

theorem fieldErase_absent (n : String) (fs : Fields) (h : fieldGet n fs = none) :
    fieldErase n fs = fs := by
  induction fs with
  | nil => rfl
  | cons p fs ih =>
    obtain ⟨k, y⟩ := p
    by_cases hk : k = n
    · simp [fieldGet_cons, hk] at h
    · simp [fieldGet_cons, hk] at h; simp [fieldErase, hk, ih h]

theorem fieldGet_erase_other (n m : String) (fs : Fields) (hm : m ≠ n) :
    fieldGet m (fieldErase n fs) = fieldGet m fs := by
  induction fs with
  | nil => rfl
  | cons p fs ih =>
    obtain ⟨k, y⟩ := p
    by_cases hk : k = n
    · subst hk; simp [fieldErase, fieldGet_cons, Ne.symm hm]
    · simp [fieldErase, fieldGet_cons, hk, ih]

end Kust.Fns
