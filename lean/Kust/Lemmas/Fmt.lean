/- Order lemmas for the formatter's comparators. -/
import Kust.Fmt
namespace Kust.Fmt
open Kust Node

theorem lessKey_asymm (order : List String) (a b : String) : lessKey order a b = true → lessKey order b a = false := by
  unfold lessKey
  cases orderIdx order a <;> cases orderIdx order b <;> simp
  · intro h; exact String.not_lt.mp (String.lt_asymm h) |> String.not_lt.mpr
  · omega

/-- negative transitivity of `lessKey` -/
theorem lessKey_negtrans (order : List String) (a b c : String) :
    lessKey order b a = false → lessKey order c b = false → lessKey order c a = false := by
  unfold lessKey
  cases orderIdx order a <;> cases orderIdx order b <;> cases orderIdx order c <;> simp
  · intro h1 h2
    exact String.not_lt.mpr (String.le_trans (String.not_lt.mp h1) (String.not_lt.mp h2))
  · omega

theorem leField_trans (order : List String) (a b c : String × Node) :
    leField order a b = true → leField order b c = true → leField order a c = true := by
  unfold leField
  simp only [Bool.not_eq_true']
  exact lessKey_negtrans order a.1 b.1 c.1

theorem leField_total (order : List String) (a b : String × Node) :
    (leField order a b || leField order b a) = true := by
  unfold leField
  cases h : lessKey order b.1 a.1
  · simp
  · simp [lessKey_asymm order _ _ h]

theorem leSeq_trans (sf : String) (a b c : Node) :
    leSeq sf a b = true → leSeq sf b c = true → leSeq sf a c = true := by
  unfold leSeq
  simp only [Bool.not_eq_true', decide_eq_false_iff_not]
  intro h1 h2
  exact String.not_lt.mpr (String.le_trans (String.not_lt.mp h1) (String.not_lt.mp h2))

theorem leSeq_total (sf : String) (a b : Node) : (leSeq sf a b || leSeq sf b a) = true := by
  unfold leSeq
  by_cases h : seqKey sf b < seqKey sf a
  · simp [h, String.lt_asymm h]
  · simp [h]

/-- comparators only look at keys -/
theorem leField_congr (order : List String) (a b a' b' : String × Node) (ha : a'.1 = a.1) (hb : b'.1 = b.1) :
    leField order a' b' = leField order a b := by
  unfold leField; rw [ha, hb]

end Kust.Fmt
