/- Lemmas about the PathMatcher model: reported positions resolve (creation included). -/
import Kust.Lemmas.Match
namespace Kust.Match
open Kust Node Fns

/-- positions collected by a visit address the visited (possibly rewritten) elements -/
theorem visit_resolves (f : Nat → Node → Out (Node × List Pos))
    (hf : ∀ j e e' qs, f j e = .ok (e', qs) → ∀ q ∈ qs, (getAt q e').isSome) :
    ∀ (is : List Node) (i : Nat) (is' : List Node) (ps : List Pos), visit f i is = .ok (is', ps) →
      ∀ pos ∈ ps, ∃ k q e', pos = Step.idx (i + k) :: q ∧ is'[k]? = some e' ∧ (getAt q e').isSome := by
  intro is
  induction is with
  | nil => intro i is' ps h pos hp; simp [visit] at h; rw [h.2] at hp; simp at hp
  | cons e es ih =>
    intro i is' ps h pos hp
    simp only [visit] at h
    split at h
    · rename_i e' ps1 h1
      split at h
      · rename_i es' qs h2
        simp at h
        rw [← h.2] at hp
        rw [← h.1]
        simp only [List.mem_append, List.mem_map] at hp
        rcases hp with ⟨q, hq, e1⟩ | hp
        · exact ⟨0, q, e', by simp [← e1], by simp, hf _ _ _ _ h1 q hq⟩
        · obtain ⟨k, q, e'', e1, e2, e3⟩ := ih (i + 1) es' qs h2 pos hp
          refine ⟨k + 1, q, e'', ?_, by simpa using e2, e3⟩
          rw [e1]; congr 2; omega
      · simp at h
      · simp at h
    · simp at h
    · simp at h

theorem getAt_seq_of_visit (s : Nat) (is' : List Node) (pos : Pos)
    (h : ∃ k q e', pos = Step.idx (0 + k) :: q ∧ is'[k]? = some e' ∧ (getAt q e').isSome) :
    (getAt pos (.seq s is')).isSome := by
  obtain ⟨k, q, e', e1, e2, e3⟩ := h
  subst e1
  simp only [Nat.zero_add, getAt, e2, Option.bind_some]
  exact e3

section
variable (hit : String → Node → Out Bool) (ns : String → Bool)
variable (rec : Node → Out (Node × List Pos))

theorem primElem_resolves (pat : String) (j : Nat) (e e' : Node) (qs : List Pos)
    (h : primElem hit pat j e = .ok (e', qs)) : ∀ q ∈ qs, (getAt q e').isSome := by
  unfold primElem at h
  split at h <;> simp at h
  · intro q hq; rw [← h.2] at hq; simp at hq; subst hq; simp [getAt]
  · intro q hq; rw [h.2] at hq; simp at hq

theorem fieldElem_resolves (hrec : ∀ e e' ps, rec e = .ok (e', ps) → ∀ q ∈ ps, (getAt q e').isSome)
    (k pat : String) (j : Nat) (e e' : Node) (qs : List Pos)
    (h : fieldElem hit rec k pat j e = .ok (e', qs)) : ∀ q ∈ qs, (getAt q e').isSome := by
  unfold fieldElem at h
  split at h
  · split at h
    · simp at h; intro q hq; rw [h.2] at hq; simp at hq
    · split at h
      · exact hrec _ _ _ h
      · simp at h; intro q hq; rw [h.2] at hq; simp at hq
      · simp at h
      · simp at h
  · simp at h; intro q hq; rw [h.2] at hq; simp at hq

theorem appendElem_spec (rn e rn' : Node) (h : appendElem rn e = .ok rn') :
    ∃ s is, rn = .seq s is ∧ rn' = .seq s (is ++ [e]) := by
  cases rn with
  | seq s is => simp [appendElem] at h; exact ⟨s, is, rfl, h.symm⟩
  | scalar t v st => simp [appendElem] at h
  | map s fs => simp [appendElem] at h

theorem matchIdx_resolves (hrec : ∀ e e' ps, rec e = .ok (e', ps) → ∀ q ∈ ps, (getAt q e').isSome)
    (c : Nat) (next part : String) (rn d' : Node) (ps : List Pos)
    (h : matchIdx rec c next part rn = .ok (d', ps)) : ∀ pos ∈ ps, (getAt pos d').isSome := by
  unfold matchIdx at h
  split at h
  · simp at h
  · rename_i i hi
    split at h
    · rename_i is his
      simp only at h
      split at h
      · rename_i rn1 is1 hg
        split at h
        · simp at h
        · rename_i e he
          split at h
          · rename_i e' ps' hr
            simp at h
            intro pos hp
            rw [← h.2] at hp
            simp at hp
            obtain ⟨q, hq, e1⟩ := hp
            subst e1
            rw [← h.1]
            have hlt : i.toNat < is1.length := by
              rw [List.getElem?_eq_some_iff] at he; exact he.1
            -- rn1 is a sequence holding is1
            have hseq : ∃ s, rn1 = .seq s is1 := by
              split at hg
              · split at hg
                · rename_i rn' ha
                  simp at hg
                  obtain ⟨s, js, e1, e2⟩ := appendElem_spec _ _ _ ha
                  subst e1
                  simp [elementsOf] at his
                  subst his
                  exact ⟨s, by rw [← hg.1, ← hg.2, e2]⟩
                · simp at hg
                · simp at hg
              · simp at hg
                rcases elementsOf_cases _ _ his with ⟨s, e1⟩ | ⟨_, e2⟩
                · exact ⟨s, by rw [← hg.1, ← hg.2]; exact e1⟩
                · rw [← hg.2, e2] at hlt; simp at hlt
            obtain ⟨s, e1⟩ := hseq
            subst e1
            simp only [withItems, getAt]
            rw [List.getElem?_set_self (by simpa using hlt)]
            simp only [Option.bind_some]
            exact hrec _ _ _ hr q hq
          · simp at h
          · simp at h
      · simp at h
      · simp at h
    · simp at h
    · simp at h

theorem withItems_seq_resolves (rn : Node) (is is' : List Node) (his : elementsOf rn = .ok is) (pos : Pos)
    (hne : is' ≠ [] ∨ ∃ s, rn = .seq s is)
    (h : ∃ k q e', pos = Step.idx (0 + k) :: q ∧ is'[k]? = some e' ∧ (getAt q e').isSome) :
    (is.length = is'.length) → (getAt pos (withItems rn is')).isSome := by
  intro hlen
  rcases elementsOf_cases _ _ his with ⟨s, e1⟩ | ⟨_, e2⟩
  · subst e1; exact getAt_seq_of_visit s is' pos h
  · subst e2
    obtain ⟨k, q, e', _, e2, _⟩ := h
    have : is' = [] := by
      cases is' with
      | nil => rfl
      | cons a b => simp at hlen
    subst this; simp at e2

end
end Kust.Match
