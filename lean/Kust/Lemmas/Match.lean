/- Lemmas about the PathMatcher model, branch by branch: without creation the document is left alone and the reported
   positions are those of the reference interpretation. -/
import Kust.Match
import Kust.Lemmas.Fields
namespace Kust.Match
open Kust Node Fns

theorem fieldMatcher_some_spec (name : String) (rn x : Node) (hn : name ≠ "")
    (h : fieldMatcher name none (some rn) = .ok (some x)) :
    ∃ s fs, rn = .map s fs ∧ fieldGet name fs = some x := by
  cases rn with
  | scalar t v st =>
    simp only [fieldMatcher, hn, if_false] at h
    split at h <;> simp at h
  | seq s is => simp [fieldMatcher, hn, Node.isNull] at h
  | map s fs =>
    simp only [fieldMatcher, hn, if_false, Node.isNull, Bool.false_eq_true] at h
    cases hg : fieldGet name fs with
    | none => rw [hg] at h; simp at h
    | some y => rw [hg] at h; simp at h; subst h; exact ⟨s, fs, rfl, hg⟩

theorem fieldMatcher_none_spec (name : String) (rn : Node) (hn : name ≠ "")
    (h : fieldMatcher name none (some rn) = .ok none) :
    (∃ t v st, rn = .scalar t v st) ∨ ∃ s fs, rn = .map s fs ∧ fieldGet name fs = none := by
  cases rn with
  | scalar t v st => exact Or.inl ⟨t, v, st, rfl⟩
  | seq s is => simp [fieldMatcher, hn, Node.isNull] at h
  | map s fs =>
    simp only [fieldMatcher, hn, if_false, Node.isNull, Bool.false_eq_true] at h
    cases hg : fieldGet name fs with
    | none => exact Or.inr ⟨s, fs, rfl, hg⟩
    | some y => rw [hg] at h; simp at h

theorem elementsOf_spec (rn : Node) (is : List Node) (h : elementsOf rn = .ok is) :
    withItems rn is = rn := by
  unfold elementsOf at h
  cases rn with
  | seq s js => simp at h; subst h; rfl
  | scalar t v st => rfl
  | map s fs => rfl

/-- `elementsOf` succeeds on sequences (their items) and on null scalars (no items) only -/
theorem elementsOf_cases (rn : Node) (is : List Node) (h : elementsOf rn = .ok is) :
    (∃ s, rn = .seq s is) ∨ ((∃ t v st, rn = .scalar t v st) ∧ is = []) := by
  cases rn with
  | seq s js => simp [elementsOf] at h; subst h; exact Or.inl ⟨s, rfl⟩
  | scalar t v st =>
    simp only [elementsOf] at h
    split at h <;> simp at h
    exact Or.inr ⟨⟨t, v, st, rfl⟩, by simpa [eq_comm] using h⟩
  | map s fs => simp [elementsOf, Node.isNull] at h

/-- a visit whose element function never changes an element never changes the list -/
theorem visit_id (f : Nat → Node → Out (Node × List Pos))
    (hf : ∀ i e e' ps, f i e = .ok (e', ps) → e' = e) :
    ∀ (is : List Node) (i : Nat) (is' : List Node) (ps : List Pos), visit f i is = .ok (is', ps) → is' = is := by
  intro is
  induction is with
  | nil => intro i is' ps h; simp [visit] at h; exact h.1
  | cons e es ih =>
    intro i is' ps h
    simp only [visit] at h
    split at h
    · rename_i e' ps1 h1
      split at h
      · rename_i es' qs h2
        simp at h
        have := hf _ _ _ _ h1
        have := ih _ _ _ h2
        rw [← h.1]; simp [*]
      · simp at h
      · simp at h
    · simp at h
    · simp at h

theorem visit_denote (f : Nat → Node → Out (Node × List Pos)) (sel : Node → Bool) (sub : Node → List Pos)
    (hf : ∀ j e e' qs, f j e = .ok (e', qs) → qs = if sel e then sub e else []) :
    ∀ (is : List Node) (i : Nat) (is' : List Node) (ps : List Pos),
      visit f i is = .ok (is', ps) → ps = denoteElems sel sub i is := by
  intro is
  induction is with
  | nil => intro i is' ps h; simp [visit] at h; simp [denoteElems, h.2]
  | cons e es ih =>
    intro i is' ps h
    simp only [visit] at h
    split at h
    · rename_i e' ps1 h1
      split at h
      · rename_i es' qs h2
        simp at h
        have e1 := hf _ _ _ _ h1
        have e2 := ih _ _ _ h2
        rw [← h.2, e1, e2]
        simp only [denoteElems]
        split <;> simp
      · simp at h
      · simp at h
    · simp at h
    · simp at h

section
variable (hit : String → Node → Out Bool) (ns : String → Bool)
variable (rec : Node → Out (Node × List Pos))

theorem primElem_id (pat : String) (i : Nat) (e e' : Node) (ps : List Pos)
    (h : primElem hit pat i e = .ok (e', ps)) : e' = e := by
  unfold primElem at h
  split at h <;> simp at h <;> exact h.1.symm

theorem fieldElem_id (hrec : ∀ e e' ps, rec e = .ok (e', ps) → e' = e)
    (k pat : String) (i : Nat) (e e' : Node) (ps : List Pos)
    (h : fieldElem hit rec k pat i e = .ok (e', ps)) : e' = e := by
  unfold fieldElem at h
  split at h
  · split at h
    · simp at h; exact h.1.symm
    · split at h
      · exact hrec _ _ _ h
      · simp at h; exact h.1.symm
      · simp at h
      · simp at h
  · simp at h; exact h.1.symm

/-! #### without creation, each branch leaves the node alone -/

theorem matchIdx_id (hrec : ∀ e e' ps, rec e = .ok (e', ps) → e' = e) (next part : String) (rn d' : Node) (ps : List Pos)
    (h : matchIdx rec 0 next part rn = .ok (d', ps)) : d' = rn := by
  unfold matchIdx at h
  split at h
  · simp at h
  · rename_i i hi
    split at h
    · rename_i is his
      simp only [ne_eq, not_true_eq_false, and_false, if_false] at h
      split at h
      · simp at h
      · rename_i e he
        split at h
        · rename_i e' ps' hr
          have := hrec _ _ _ hr; subst this
          simp at h
          rw [← h.1]
          have hset : is.set i.toNat e' = is := by
            rw [List.getElem?_eq_some_iff] at he
            obtain ⟨hlt, hv⟩ := he
            rw [← hv]; exact List.set_getElem_self hlt
          rw [hset]; exact elementsOf_spec _ _ his
        · simp at h
        · simp at h
    · simp at h
    · simp at h

theorem matchSel_id (hrec : ∀ e e' ps, rec e = .ok (e', ps) → e' = e) (part : String) (rn d' : Node) (ps : List Pos)
    (h : matchSel hit rec 0 part rn = .ok (d', ps)) : d' = rn := by
  unfold matchSel at h
  split at h
  · simp at h
  · rename_i k pat hsp
    have hf : ∀ i e e' qs, (if k = "" then primElem hit pat else fieldElem hit rec k pat) i e = .ok (e', qs) → e' = e := by
      intro i e e' qs hf
      split at hf
      · exact primElem_id hit _ _ _ _ _ hf
      · exact fieldElem_id hit rec hrec _ _ _ _ _ _ hf
    generalize (if k = "" then primElem hit pat else fieldElem hit rec k pat) = f at h hf
    simp only at h
    split at h
    · rename_i is his
      split at h
      · rename_i is' ps' hv
        simp only [true_or, if_true] at h
        simp at h
        have hid : is' = is := visit_id f hf is 0 is' ps' hv
        rw [← h.1, hid]; exact elementsOf_spec _ _ his
      · simp at h
      · simp at h
    · simp at h
    · simp at h

theorem matchStar_id (hrec : ∀ e e' ps, rec e = .ok (e', ps) → e' = e) (rn d' : Node) (ps : List Pos)
    (h : matchStar rec rn = .ok (d', ps)) : d' = rn := by
  unfold matchStar at h
  split at h
  · rename_i is his
    split at h
    · rename_i is' ps' hv
      simp at h
      have hid : is' = is := by
        apply visit_id _ _ is 0 is' ps' hv
        intro i e e' qs hf
        exact hrec _ _ _ hf
      rw [← h.1, hid]; exact elementsOf_spec _ _ his
    · simp at h
    · simp at h
  · simp at h
  · simp at h

theorem matchEmpty_id (hrec : ∀ e e' ps, rec e = .ok (e', ps) → e' = e) (rn d' : Node) (ps : List Pos)
    (h : matchEmpty rec 0 rn = .ok (d', ps)) : d' = rn := by
  unfold matchEmpty at h
  split at h
  · exact hrec _ _ _ h
  · simp at h; exact h.1.symm
  · simp at h
  · simp at h

theorem matchField_id (hrec : ∀ e e' ps, rec e = .ok (e', ps) → e' = e) (next part : String) (hne : part ≠ "")
    (rn d' : Node) (ps : List Pos) (h : matchField ns rec 0 next part rn = .ok (d', ps)) : d' = rn := by
  unfold matchField at h
  split at h
  · rename_i x hx
    obtain ⟨s, fs, hrn, hg⟩ := fieldMatcher_some_spec _ _ _ hne hx
    subst hrn
    split at h
    · rename_i x' ps' hr
      have := hrec _ _ _ hr; subst this
      simp at h
      rw [← h.1, fieldReplace_self part fs x' hg]
    · simp at h
    · simp at h
  · simp at h; exact h.1.symm
  · simp at h
  · simp at h

/-! #### without creation, each branch reports the positions of the reference interpretation -/

theorem matchIdx_den (sub : Node → List Pos) (hrec : ∀ e e' ps, rec e = .ok (e', ps) → ps = sub e)
    (next part : String) (rn d' : Node) (ps : List Pos)
    (h : matchIdx rec 0 next part rn = .ok (d', ps)) : ps = denoteIdx sub part rn := by
  unfold matchIdx at h
  unfold denoteIdx
  split at h
  · simp at h
  · rename_i i hi
    split at h
    · rename_i is his
      simp only [ne_eq, not_true_eq_false, and_false, if_false] at h
      split at h
      · simp at h
      · rename_i e he
        split at h
        · rename_i e' ps' hr
          have := hrec _ _ _ hr
          simp at h
          rcases elementsOf_cases _ _ his with ⟨s, e1⟩ | ⟨_, e2⟩
          · subst e1; simp only [hi, he]; rw [← h.2, this]
          · subst e2; simp at he
        · simp at h
        · simp at h
    · simp at h
    · simp at h

theorem matchStar_den (sub : Node → List Pos) (hrec : ∀ e e' ps, rec e = .ok (e', ps) → ps = sub e)
    (rn d' : Node) (ps : List Pos) (h : matchStar rec rn = .ok (d', ps)) : ps = denoteStar sub rn := by
  unfold matchStar at h
  unfold denoteStar
  split at h
  · rename_i is his
    split at h
    · rename_i is' ps' hv
      simp at h
      rw [← h.2]
      have hden : ps' = denoteElems (fun _ => true) sub 0 is := by
        apply visit_denote _ _ _ _ is 0 is' ps' hv
        intro j e e' qs hf
        simp only [if_true]
        exact hrec _ _ _ hf
      rcases elementsOf_cases _ _ his with ⟨s, e1⟩ | ⟨⟨t, v, st, e1⟩, e2⟩
      · subst e1; exact hden
      · subst e1; subst e2; rw [hden]; simp [denoteElems]
    · simp at h
    · simp at h
  · simp at h
  · simp at h

theorem matchField_den (sub : Node → List Pos) (hrec : ∀ e e' ps, rec e = .ok (e', ps) → ps = sub e)
    (next part : String) (hne : part ≠ "") (rn d' : Node) (ps : List Pos)
    (h : matchField ns rec 0 next part rn = .ok (d', ps)) : ps = denoteField sub part rn := by
  unfold matchField at h
  unfold denoteField
  split at h
  · rename_i x hx
    obtain ⟨s, fs, hrn, hg⟩ := fieldMatcher_some_spec _ _ _ hne hx
    subst hrn
    split at h
    · rename_i x' ps' hr
      have := hrec _ _ _ hr
      simp at h
      simp only [hg]
      rw [← h.2, this]
    · simp at h
    · simp at h
  · rename_i hx
    simp at h
    rw [← h.2]
    rcases fieldMatcher_none_spec _ _ hne hx with ⟨t, v, st, e⟩ | ⟨s, fs, e, hg⟩
    · subst e; rfl
    · subst e; simp [hg]
  · simp at h
  · simp at h

end

theorem matchSel_den (hitB : String → Node → Bool) (rec : Node → Out (Node × List Pos)) (sub : Node → List Pos)
    (hrec : ∀ e e' ps, rec e = .ok (e', ps) → ps = sub e) (part : String) (rn d' : Node) (ps : List Pos)
    (h : matchSel (fun a b => .ok (hitB a b)) rec 0 part rn = .ok (d', ps)) : ps = denoteSel hitB sub part rn := by
  unfold matchSel at h
  unfold denoteSel
  split at h
  · simp at h
  · rename_i k pat hsp
    by_cases hk : k = ""
    · simp only [hk, if_true] at h
      split at h
      · rename_i is his
        split at h
        · rename_i is' ps' hv
          simp only [true_or, if_true] at h
          simp at h
          rw [← h.2]
          have hden : ps' = denoteElems (hitB pat) (fun _ => [[]]) 0 is := by
            apply visit_denote _ _ _ _ is 0 is' ps' hv
            intro j e e' qs hf
            simp only [primElem] at hf
            cases hb : hitB pat e <;> simp [hb] at hf <;> simp [hf.2]
          rcases elementsOf_cases _ _ his with ⟨s, e1⟩ | ⟨⟨t, v, st, e1⟩, e2⟩
          · subst e1; simp only [hsp, hk, if_true]; exact hden
          · subst e1; subst e2; rw [hden]; simp only [hsp]; simp [denoteElems]
        · simp at h
        · simp at h
      · simp at h
      · simp at h
    · simp only [hk, if_false] at h
      split at h
      · rename_i is his
        split at h
        · rename_i is' ps' hv
          simp only [true_or, if_true] at h
          simp at h
          rw [← h.2]
          have hden : ps' = denoteElems (fun e => match e with
                | .map _ fs => match fieldGet k fs with | some x => hitB pat x | none => false
                | _ => false) sub 0 is := by
            apply visit_denote _ _ _ _ is 0 is' ps' hv
            intro j e e' qs hf
            unfold fieldElem at hf
            split at hf
            · rename_i s fs
              split at hf
              · rename_i hg; simp at hf; simp [hg, hf.2]
              · rename_i x hg
                simp only [hg]
                cases hb : hitB pat x
                · simp [hb] at hf; simp [hf.2]
                · simp only [hb] at hf
                  simp only [if_true]
                  exact hrec _ _ _ hf
            · rename_i hnm
              simp at hf
              rw [← hf.2]
              cases e with
              | map s fs => exact absurd rfl (hnm s fs)
              | scalar t v st => simp
              | seq s js => simp
          rcases elementsOf_cases _ _ his with ⟨s, e1⟩ | ⟨⟨t, v, st, e1⟩, e2⟩
          · subst e1; simp only [hsp, hk, if_false]; exact hden
          · subst e1; subst e2; rw [hden]; simp only [hsp]; simp [denoteElems]
        · simp at h
        · simp at h
      · simp at h
      · simp at h

end Kust.Match
