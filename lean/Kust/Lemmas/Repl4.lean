/- `strings.Split` / `strings.Join` facts for the replacement model. -/
import Kust.Repl
namespace Kust.Repl
open Kust

/-! ### `strings.Split` / `strings.Join` with a one-character delimiter are mutually inverse on delimiter-free pieces -/

theorem isPrefixL_single (c x : Char) (cs : List Char) : Str.isPrefixL [c] (x :: cs) = (c == x) := by
  simp [Str.isPrefixL]

theorem splitL_noDelim (c : Char) : ∀ (p cur : List Char), c ∉ p → splitL [c] p 0 cur = [cur.reverse ++ p] := by
  intro p
  induction p with
  | nil => intro cur _; simp [splitL]
  | cons x p ih =>
    intro cur h
    have hx : c ≠ x := fun e => h (by simp [e])
    have hp : c ∉ p := fun e => h (by simp [e])
    simp only [splitL, isPrefixL_single]
    have : (c == x) = false := by simp [hx]
    rw [this]
    simp only [Bool.false_eq_true, if_false]
    rw [ih _ hp]; simp

theorem splitL_at_delim (c : Char) : ∀ (p cur rest : List Char), c ∉ p →
    splitL [c] (p ++ c :: rest) 0 cur = (cur.reverse ++ p) :: splitL [c] rest 0 [] := by
  intro p
  induction p with
  | nil => intro cur rest _; simp [splitL, isPrefixL_single]
  | cons x p ih =>
    intro cur rest h
    have hx : c ≠ x := fun e => h (by simp [e])
    have hp : c ∉ p := fun e => h (by simp [e])
    simp only [List.cons_append, splitL, isPrefixL_single]
    have : (c == x) = false := by simp [hx]
    rw [this]
    simp only [Bool.false_eq_true, if_false]
    rw [ih _ _ hp]; simp

theorem splitL_joinL (c : Char) : ∀ (ps : List (List Char)), ps ≠ [] → (∀ p ∈ ps, c ∉ p) →
    splitL [c] (joinL [c] ps) 0 [] = ps := by
  intro ps
  induction ps with
  | nil => intro h; exact absurd rfl h
  | cons p ps ih =>
    intro _ hall
    cases ps with
    | nil => simp [joinL, splitL_noDelim c p [] (hall p (by simp))]
    | cons q ps =>
      have : joinL [c] (p :: q :: ps) = p ++ c :: joinL [c] (q :: ps) := by simp [joinL]
      rw [this, splitL_at_delim c p [] _ (hall p (by simp))]
      rw [ih (by simp) (fun p' hp' => hall p' (by simp [hp']))]
      simp

theorem splitL_pieces_free (c : Char) : ∀ (s cur : List Char), c ∉ cur → ∀ p ∈ splitL [c] s 0 cur, c ∉ p := by
  intro s
  induction s with
  | nil => intro cur hc p hp; simp [splitL] at hp; subst hp; simpa using hc
  | cons x s ih =>
    intro cur hc p hp
    simp only [splitL, isPrefixL_single] at hp
    by_cases hx : c = x
    · subst hx
      simp at hp
      rcases hp with e | hp
      · subst e; simpa using hc
      · exact ih [] (by simp) p hp
    · have : (c == x) = false := by simp [hx]
      rw [this] at hp
      simp only [Bool.false_eq_true, if_false] at hp
      exact ih (x :: cur) (by simp [hx, hc]) p hp

theorem splitL_ne_nil (d : List Char) : ∀ (s : List Char) (k : Nat) (cur : List Char), splitL d s k cur ≠ [] := by
  intro s
  induction s with
  | nil => intro k cur; simp [splitL]
  | cons x s ih =>
    intro k cur
    cases k with
    | succ k => simp only [splitL]; exact ih _ _
    | zero =>
      simp only [splitL]
      split
      · simp
      · exact ih _ _

/-- string level: splitting what was joined gives the pieces back -/
theorem split_join_char (c : Char) (ps : List String) (hne : ps ≠ []) (h : ∀ p ∈ ps, c ∉ p.toList) :
    split (String.singleton c) (join (String.singleton c) ps) = ps := by
  unfold split join
  have hd : (String.singleton c).toList = [c] := by simp
  rw [hd]
  simp only [String.toList_ofList]
  rw [splitL_joinL c _ (by simpa using hne) (by
    intro p hp; simp at hp; obtain ⟨a, ha, e⟩ := hp; subst e; exact h a ha)]
  simp [List.map_map, Function.comp_def]

theorem split_pieces_free (c : Char) (s : String) : ∀ p ∈ split (String.singleton c) s, c ∉ p.toList := by
  intro p hp
  unfold split at hp
  have hd : (String.singleton c).toList = [c] := by simp
  rw [hd] at hp
  simp at hp
  obtain ⟨a, ha, e⟩ := hp
  subst e
  simpa using splitL_pieces_free c _ [] (by simp) a ha

theorem split_ne_nil (d s : String) : split d s ≠ [] := by
  unfold split
  simp [splitL_ne_nil]

end Kust.Repl
