/- Lemmas about the per-target loop of the replacement model. -/
import Kust.Lemmas.Repl2
namespace Kust.Repl
open Kust

/-- the per-resource loop of one target selector: every resource keeps its kind and every field the target does not
    name; a resource that is not selected (or lies outside the range still to be visited) is left exactly as it was -/
theorem applyTargetFrom_frame (val : Val) (t : Target) :
    ∀ (k j : Nat) (st st' : State), applyTargetFrom val t k j st = .ok st' →
      st'.length = st.length ∧
      ∀ i r, st[i]? = some r → ∃ r', st'[i]? = some r' ∧ r'.kind = r.kind ∧
        (∀ g, g ∉ fieldsOf t → getF r' g = getF r g) ∧
        ((i < j ∨ j + k ≤ i ∨ selected t r = false) → r' = r) := by
  intro k
  induction k with
  | zero =>
    intro j st st' h
    simp [applyTargetFrom] at h; subst h
    exact ⟨rfl, fun i r hr => ⟨r, hr, rfl, fun _ _ => rfl, fun _ => rfl⟩⟩
  | succ k ih =>
    intro j st st' h
    simp only [applyTargetFrom] at h
    split at h
    · simp at h; subst h
      exact ⟨rfl, fun i r hr => ⟨r, hr, rfl, fun _ _ => rfl, fun _ => rfl⟩⟩
    · rename_i rj hrj
      split at h
      · rename_i hsel
        split at h
        · rename_i st1 h1
          obtain ⟨l1, f1⟩ := copyFields_frame _ _ _ _ _ _ h1
          obtain ⟨r1, hr1, hk1, hf1⟩ := copyFields_field_frame _ _ _ _ _ _ h1 rj hrj
          obtain ⟨l2, f2⟩ := ih (j + 1) st1 st' h
          refine ⟨l2.trans l1, fun i r hr => ?_⟩
          by_cases hij : i = j
          · subst hij
            rw [hrj] at hr; cases hr
            obtain ⟨r', hr', hk', hf', hsame⟩ := f2 i r1 hr1
            have : r' = r1 := hsame (Or.inl (Nat.lt_succ_self i))
            subst this
            refine ⟨r', hr', hk1, hf1, fun hc => ?_⟩
            rcases hc with hc | hc | hc
            · exact absurd hc (Nat.lt_irrefl i)
            · omega
            · rw [hsel] at hc; cases hc
          · have hr1' : st1[i]? = some r := by rw [f1 i hij]; exact hr
            obtain ⟨r', hr', hk', hf', hsame⟩ := f2 i r hr1'
            refine ⟨r', hr', hk', hf', fun hc => hsame ?_⟩
            rcases hc with hc | hc | hc
            · exact Or.inl (by omega)
            · exact Or.inr (Or.inl (by omega))
            · exact Or.inr (Or.inr hc)
        · simp at h
        · simp at h
      · rename_i hsel
        obtain ⟨l2, f2⟩ := ih (j + 1) st st' h
        refine ⟨l2, fun i r hr => ?_⟩
        obtain ⟨r', hr', hk', hf', hsame⟩ := f2 i r hr
        refine ⟨r', hr', hk', hf', fun hc => ?_⟩
        by_cases hij : i = j
        · exact hsame (Or.inl (by omega))
        · apply hsame
          rcases hc with hc | hc | hc
          · exact Or.inl (by omega)
          · exact Or.inr (Or.inl (by omega))
          · exact Or.inr (Or.inr hc)

/-- a target without a delimiter option -/
def NoDelim (t : Target) : Prop := ∀ o, t.opts = some o → o.delim = ""

theorem newValue_noDelim (t : Target) (h : NoDelim t) (old v : String) : newValue t.opts old v = v := by
  unfold newValue
  cases ho : t.opts with
  | none => rfl
  | some o => simp [h o ho]

theorem copyFields_writes (v : String) (t : Target) (hnd : NoDelim t) (j : Nat) :
    ∀ (fs : List FRef) (st st' : State), copyFields (.const v) t j fs st = .ok st' →
      ∀ r, st[j]? = some r → ∃ r', st'[j]? = some r' ∧ (∀ f ∈ fs, getF r' f = some v) ∧
        ∀ g, getF r g = some v → getF r' g = some v := by
  intro fs
  induction fs with
  | nil => intro st st' h r hr; simp [copyFields] at h; subst h; exact ⟨r, hr, by simp, fun _ h => h⟩
  | cons f fs ih =>
    intro st st' h r hr
    simp only [copyFields] at h
    split at h
    · rename_i st1 h1
      obtain ⟨r0, r1, v0, hr0, hv0, hst, _, hnew, hfr⟩ := copyField_spec _ _ _ _ _ _ h1
      rw [hr] at hr0; cases hr0
      simp [readVal] at hv0; subst hv0
      rw [newValue_noDelim t hnd] at hnew
      have hj : st1[j]? = some r1 := by
        subst hst
        have : j < st.length := by
          rcases Nat.lt_or_ge j st.length with hlt | hge
          · exact hlt
          · rw [List.getElem?_eq_none hge] at hr; cases hr
        simp [this]
      have hpres : ∀ g, getF r g = some v → getF r1 g = some v := fun g hg => by
        by_cases hgf : g = f
        · subst hgf; exact hnew
        · rw [hfr g hgf]; exact hg
      obtain ⟨r', hr', hall, hpres'⟩ := ih _ _ h r1 hj
      refine ⟨r', hr', fun f' hf' => ?_, fun g hg => hpres' g (hpres g hg)⟩
      simp at hf'
      rcases hf' with e | hmem
      · subst e; exact hpres' _ hnew
      · exact hall f' hmem
    · simp at h
    · simp at h

/-- every selected resource ends up holding the value in every field the target names -/
theorem applyTargetFrom_writes (v : String) (t : Target) (hnd : NoDelim t) :
    ∀ (k j : Nat) (st st' : State), applyTargetFrom (.const v) t k j st = .ok st' →
      ∀ i r, st[i]? = some r → j ≤ i → i < j + k → selected t r = true →
        ∃ r', st'[i]? = some r' ∧ ∀ f ∈ fieldsOf t, getF r' f = some v := by
  intro k
  induction k with
  | zero => intro j st st' _ i r _ h1 h2; omega
  | succ k ih =>
    intro j st st' h i r hr hji hik hsel
    simp only [applyTargetFrom] at h
    split at h
    · rename_i hnone
      have : i < st.length := by
        rcases Nat.lt_or_ge i st.length with hlt | hge
        · exact hlt
        · rw [List.getElem?_eq_none hge] at hr; cases hr
      have : st.length ≤ j := by
        rcases Nat.lt_or_ge j st.length with hlt | hge
        · rw [List.getElem?_eq_getElem hlt] at hnone; cases hnone
        · exact hge
      have hij : i = j := by omega
      subst hij; omega
    · rename_i rj hrj
      by_cases hij : i = j
      · subst hij
        rw [hrj] at hr; cases hr
        rw [if_pos hsel] at h
        split at h
        · rename_i st1 h1
          obtain ⟨r1, hr1, hall, _⟩ := copyFields_writes v t hnd i _ _ _ h1 r hrj
          obtain ⟨_, f2⟩ := applyTargetFrom_frame _ t k (i + 1) st1 st' h
          obtain ⟨r', hr', _, _, hsame⟩ := f2 i r1 hr1
          have : r' = r1 := hsame (Or.inl (Nat.lt_succ_self i))
          subst this
          exact ⟨r', hr', hall⟩
        · simp at h
        · simp at h
      · split at h
        · split at h
          · rename_i st1 h1
            obtain ⟨_, f1⟩ := copyFields_frame _ _ _ _ _ _ h1
            have hr1 : st1[i]? = some r := by rw [f1 i hij]; exact hr
            exact ih (j + 1) st1 st' h i r hr1 (by omega) (by omega) hsel
          · simp at h
          · simp at h
        · exact ih (j + 1) st st' h i r hr (by omega) (by omega) hsel

end Kust.Repl
