/- Lemmas about `copyField` / `copyFields` of the replacement model. -/
import Kust.Lemmas.Repl
namespace Kust.Repl
open Kust

/-- what one `copyField` does: it replaces exactly the resource at `j` by a resource that differs in field `f` only -/
theorem copyField_spec (st st' : State) (val : Val) (t : Target) (j : Nat) (f : FRef)
    (h : copyField st val t j f = .ok st') :
    ∃ r r' v, st[j]? = some r ∧ readVal st val = .ok v ∧ st' = st.set j r' ∧ r'.kind = r.kind ∧
      getF r' f = some (newValue t.opts ((getF r f).getD "") v) ∧ ∀ g, g ≠ f → getF r' g = getF r g := by
  unfold copyField at h
  split at h
  · simp at h
  · rename_i r hr
    split at h
    · rename_i v hv
      simp only at h
      split at h
      · rename_i old hold
        split at h
        · rename_i r' hs
          simp at h
          exact ⟨r, r', v, hr, hv, h.symm, setF_kind _ _ _ _ _ hs, by rw [hold]; exact setF_get_same _ _ _ _ _ hs,
            fun g hg => setF_get_other _ _ _ _ g _ hs hg⟩
        · simp at h
      · rename_i hold
        split at h
        · split at h
          · rename_i r' hs
            simp at h
            exact ⟨r, r', v, hr, hv, h.symm, setF_kind _ _ _ _ _ hs, by rw [hold]; exact setF_get_same _ _ _ _ _ hs,
              fun g hg => setF_get_other _ _ _ _ g _ hs hg⟩
          · simp at h
        · simp at h
    · simp at h
    · simp at h

theorem copyField_frame (st st' : State) (val : Val) (t : Target) (j : Nat) (f : FRef)
    (h : copyField st val t j f = .ok st') :
    st'.length = st.length ∧ ∀ i, i ≠ j → st'[i]? = st[i]? := by
  obtain ⟨r, r', v, _, _, hst, _⟩ := copyField_spec _ _ _ _ _ _ h
  subst hst
  refine ⟨by simp, fun i hi => ?_⟩
  simp [Ne.symm hi]

theorem copyFields_frame (val : Val) (t : Target) (j : Nat) :
    ∀ (fs : List FRef) (st st' : State), copyFields val t j fs st = .ok st' →
      st'.length = st.length ∧ ∀ i, i ≠ j → st'[i]? = st[i]? := by
  intro fs
  induction fs with
  | nil => intro st st' h; simp [copyFields] at h; subst h; simp
  | cons f fs ih =>
    intro st st' h
    simp only [copyFields] at h
    split at h
    · rename_i st1 h1
      obtain ⟨l1, f1⟩ := copyField_frame _ _ _ _ _ _ h1
      obtain ⟨l2, f2⟩ := ih _ _ h
      exact ⟨l2.trans l1, fun i hi => (f2 i hi).trans (f1 i hi)⟩
    · simp at h
    · simp at h

/-- fields not named by the target keep their value, and the kind is never touched -/
theorem copyFields_field_frame (val : Val) (t : Target) (j : Nat) :
    ∀ (fs : List FRef) (st st' : State), copyFields val t j fs st = .ok st' →
      ∀ r, st[j]? = some r → ∃ r', st'[j]? = some r' ∧ r'.kind = r.kind ∧ ∀ g, g ∉ fs → getF r' g = getF r g := by
  intro fs
  induction fs with
  | nil => intro st st' h r hr; simp [copyFields] at h; subst h; exact ⟨r, hr, rfl, fun _ _ => rfl⟩
  | cons f fs ih =>
    intro st st' h r hr
    simp only [copyFields] at h
    split at h
    · rename_i st1 h1
      obtain ⟨r0, r1, v, hr0, _, hst, hk, _, hfr⟩ := copyField_spec _ _ _ _ _ _ h1
      rw [hr] at hr0; cases hr0
      have hj : st1[j]? = some r1 := by
        subst hst
        have : j < st.length := by
          rcases Nat.lt_or_ge j st.length with hlt | hge
          · exact hlt
          · rw [List.getElem?_eq_none hge] at hr; cases hr
        simp [this]
      obtain ⟨r', hr', hk', hfr'⟩ := ih _ _ h r1 hj
      refine ⟨r', hr', hk'.trans hk, fun g hg => ?_⟩
      have hg1 : g ≠ f := fun e => hg (by simp [e])
      have hg2 : g ∉ fs := fun e => hg (by simp [e])
      rw [hfr' g hg2, hfr g hg1]
    · simp at h
    · simp at h

end Kust.Repl
