/- Lemmas about `pathGet` (PathGetter): a plain lookup never changes the document. -/
import Kust.Lemmas.Fields
namespace Kust.Fns
open Kust Node

theorem setAt_self (is : List Node) (j : Nat) (e : Node) (h : is[j]? = some e) : setAt is j e = is := by
  unfold setAt
  induction is generalizing j with
  | nil => rfl
  | cons x xs ih =>
    cases j with
    | zero => simp at h; simp [h]
    | succ j => simp at h; simp [ih j h]

theorem elementIndexer_some_spec (idx : Option Nat) (rn : Node) (j : Nat) (e : Node)
    (h : elementIndexer idx rn = .ok (some (j, e))) : ∃ s is, rn = .seq s is ∧ is[j]? = some e := by
  unfold elementIndexer at h
  cases rn with
  | scalar t v s =>
    simp only at h
    split at h
    · cases idx <;> simp at h
    · simp at h
  | map s fs =>
    simp only at h
    split at h
    · cases idx <;> simp at h
    · simp at h
  | seq s is =>
    refine ⟨s, is, rfl, ?_⟩
    simp only at h
    cases idx with
    | none =>
      simp only at h
      cases hl : is.getLast? with
      | none => simp [hl] at h
      | some x =>
        simp [hl] at h
        obtain ⟨h1, h2⟩ := h
        subst h1 h2
        rw [List.getLast?_eq_getElem?] at hl
        exact hl
    | some i =>
      simp only at h
      cases hi : is[i]? with
      | none => simp [hi] at h
      | some x =>
        simp [hi] at h
        obtain ⟨h1, h2⟩ := h
        subst h1 h2
        exact hi

theorem elementMatcher_nocreate_spec (k v : String) (rn rn' : Node) (j : Nat) (e : Node)
    (h : elementMatcher k v none rn = .ok (rn', some (j, e))) :
    rn' = rn ∧ ∃ s is, rn = .seq s is ∧ is[j]? = some e := by
  unfold elementMatcher at h
  cases rn with
  | scalar t x s =>
    simp only at h
    split at h <;> simp at h
  | map s fs =>
    simp only at h
    split at h <;> simp at h
  | seq s is =>
    simp only at h
    split at h
    · rename_i i hi
      split at h
      · rename_i e' he
        simp at h
        obtain ⟨h1, h2, h3⟩ := h
        subst h1 h2 h3
        exact ⟨rfl, s, is, rfl, he⟩
      · simp at h
    · simp at h

theorem elementMatcher_nocreate_doc (k v : String) (rn rn' : Node) (r : Option (Nat × Node))
    (h : elementMatcher k v none rn = .ok (rn', r)) : rn' = rn := by
  unfold elementMatcher at h
  cases rn with
  | scalar t x s =>
    simp only at h
    split at h
    · simp at h; exact h.1.symm
    · simp at h
  | map s fs =>
    simp only at h
    split at h
    · simp at h; exact h.1.symm
    · simp at h
  | seq s is =>
    simp only at h
    split at h
    · split at h <;> (simp at h; exact h.1.symm)
    · simp at h; exact h.1.symm

/-- **lookup is read-only**: `PathGetter` without `Create` returns the receiver unchanged. -/
theorem pathGet_nocreate_doc (ns : String → Bool) (style : Nat) :
    ∀ (p : List String) (d d' : Node) (r : Option Node),
      pathGet ns 0 style p d = .ok (d', r) → d' = d := by
  intro p
  induction p with
  | nil => intro d d' r h; simp [pathGet] at h; exact h.1.symm
  | cons part rest ih =>
    intro d d' r h
    unfold pathGet at h
    split at h
    · simp at h
    · simp at h
    · -- index
      split at h
      · rename_i j e hidx
        obtain ⟨s, is, hrn, hje⟩ := elementIndexer_some_spec _ _ _ _ hidx
        split at h
        · rename_i e' r' hrec
          have := ih _ _ _ hrec; subst this
          subst hrn
          simp at h
          rw [setAt_self is j e' hje] at h
          exact h.1.symm
        · simp at h
        · simp at h
      · simp at h; exact h.1.symm
      · simp at h
      · simp at h
    · -- last
      split at h
      · rename_i j e hidx
        obtain ⟨s, is, hrn, hje⟩ := elementIndexer_some_spec _ _ _ _ hidx
        split at h
        · rename_i e' r' hrec
          have := ih _ _ _ hrec; subst this
          subst hrn
          simp at h
          rw [setAt_self is j e' hje] at h
          exact h.1.symm
        · simp at h
        · simp at h
      · simp at h; exact h.1.symm
      · simp at h
      · simp at h
    · -- [k=v]
      simp only [if_true] at h
      split at h
      · rename_i rn' j e hm
        obtain ⟨h1, s, is, hrn, hje⟩ := elementMatcher_nocreate_spec _ _ _ _ _ _ hm
        subst h1
        split at h
        · rename_i e' r' hrec
          have := ih _ _ _ hrec; subst this
          subst hrn
          simp at h
          rw [setAt_self is j e' hje] at h
          exact h.1.symm
        · simp at h
        · simp at h
      · rename_i rn' hm
        have := elementMatcher_nocreate_doc _ _ _ _ _ hm
        simp at h; rw [← h.1]; exact this
      · simp at h
      · simp at h
    · -- field
      split at h
      · simp at h; exact h.1.symm
      · split at h
        · rename_i s fs hnn
          split at h
          · rename_i x hx
            split at h
            · rename_i x' r' hrec
              have := ih _ _ _ hrec; subst this
              simp at h
              rw [fieldReplace_self _ fs x' hx] at h
              exact h.1.symm
            · simp at h
            · simp at h
          · simp at h; exact h.1.symm
        · simp at h

end Kust.Fns
