/-
  Lemmas about `Kust.NsFilter` (the namespace transformer's filter): single-field lookups, the subject visitor,
  the frame of `roleBindingHack`.
-/
import Kust.NsFilter
import Kust.Lemmas.Fields
namespace Kust.NsFilter
open Kust Node Fns

/-- a plain field name: survives `cleanPath`, is classified as a field -/
structure Plain (name : String) : Prop where
  clean : cleanPath [name] = [name]
  field : classify name = .ok (.field name)

theorem plain_namespace : Plain "namespace" := ⟨by decide, by decide⟩
theorem plain_name : Plain "name" := ⟨by decide, by decide⟩
theorem plain_kind : Plain "kind" := ⟨by decide, by decide⟩
theorem plain_subjects : Plain "subjects" := ⟨by decide, by decide⟩

theorem lookup_plain_nocreate (q : String → Bool) (name : String) (hp : Plain name) (s : Nat) (fs : Fields) :
    lookup q 0 0 [name] (.map s fs) = .ok (.map s fs, fieldGet name fs) := by
  unfold lookup
  rw [hp.clean]
  simp only [pathGet, hp.field, isNull, Bool.false_eq_true, if_false]
  cases h : fieldGet name fs with
  | none => simp
  | some x => simp [fieldReplace_self name fs x h]

theorem lookup_plain_create (q : String → Bool) (name : String) (hp : Plain name) (s : Nat) (fs : Fields) :
    lookup q 1 0 [name] (.map s fs) =
      match fieldGet name fs with
      | some x => .ok (.map s fs, some x)
      | none => .ok (.map s (fs ++ [(name, .scalar "" "" 0)]), some (.scalar "" "" 0)) := by
  unfold lookup
  rw [hp.clean]
  simp only [pathGet, hp.field, isNull, Bool.false_eq_true, if_false]
  cases h : fieldGet name fs with
  | none =>
    have : partKind "" 1 = 1 := by decide
    simp [this, emptyOfKind]
  | some x => simp [fieldReplace_self name fs x h]

/-- what the setter stores on a scalar (null or not): the namespace as text -/
theorem setFn_scalar (q : String → Bool) (c : Cfg) (t v : String) (st : Nat)
    (h : c.unsetOnly = false ∨ hasExisting (.scalar t v st) = false) :
    ∃ t' st', setFn q c (.scalar t v st) = .ok (.scalar t' c.ns st') := by
  unfold setFn
  have hc : (c.unsetOnly && hasExisting (.scalar t v st)) = false := by
    rcases h with h | h <;> simp [h]
  rw [hc]
  simp only [Bool.false_eq_true, if_false]
  have hn : (Node.scalar "!!str" c.ns 0).isNull = false := by simp [isNull]
  unfold scalarSetter
  simp only [Option.map, quoteIfNonString]
  cases hq : q c.ns <;> cases hnull : (t == "!!null") <;>
    simp [hnull, isNull, inheritStyleScalar, withStyle, dropSnd, dq]

/-- under `unsetOnly` a scalar that has a value is left alone -/
theorem setFn_keeps (q : String → Bool) (c : Cfg) (n : Node) (hu : c.unsetOnly = true) (he : hasExisting n = true) :
    setFn q c n = .ok n := by
  simp [setFn, hu, he]

theorem visitAll_spec (f : Node → Out Node) : ∀ (is is' : List Node), visitAll f is = .ok is' →
    is'.length = is.length ∧ ∀ (i : Nat) (e : Node), is[i]? = some e → ∃ e', is'[i]? = some e' ∧ f e = .ok e' := by
  intro is
  induction is with
  | nil => intro is' h; simp [visitAll] at h; subst h; simp
  | cons x xs ih =>
    intro is' h
    simp only [visitAll] at h
    cases hx : f x with
    | err c => simp [hx] at h
    | panic c => simp [hx] at h
    | ok x' =>
      simp only [hx] at h
      cases hr : visitAll f xs with
      | err c => simp [hr] at h
      | panic c => simp [hr] at h
      | ok r =>
        simp only [hr] at h
        simp at h
        subst h
        obtain ⟨l, hi⟩ := ih r hr
        refine ⟨by simp [l], ?_⟩
        intro i e he
        cases i with
        | zero => simp at he; subst he; exact ⟨x', by simp, hx⟩
        | succ j => simp at he ⊢; exact hi j e he

theorem lookup_plain_exists (q : String → Bool) (cr : Nat) (name : String) (hp : Plain name) (s : Nat) (fs : Fields) (x : Node)
    (h : fieldGet name fs = some x) : lookup q cr 0 [name] (.map s fs) = .ok (.map s fs, some x) := by
  unfold lookup
  rw [hp.clean]
  simp only [pathGet, hp.field, isNull, Bool.false_eq_true, if_false, h]
  simp [fieldReplace_self name fs x h]

theorem plain_metadata : Plain "metadata" := ⟨by decide, by decide⟩


/-- one step of the field-spec traversal through an existing plain field of a mapping -/
theorem filter_step (q : String → Bool) (set : Node → Out Node) (create : Bool) (cr : FieldSpec.Create) (f : Nat)
    (seg : String) (rest : List String) (s : Nat) (fs : Fields) (x : Node)
    (hsf : FieldSpec.seqField seg = (seg, false)) (hne : seg ≠ "") (hp : Plain seg)
    (hc : classify (trimSpace seg) = .ok (.field seg)) (hx : fieldGet seg fs = some x) :
    FieldSpec.filter q set create cr (f + 1) (seg :: rest) (.map s fs) =
      match FieldSpec.filter q set create cr f rest
          (FieldSpec.retype (if !create || cr.kind = 0 then 0 else if rest = [] then cr.kind else 2)
             (if !create || cr.kind = 0 then "" else if rest = [] then cr.tag else "!!map") x) with
      | .ok x' => .ok (.map s (fieldReplace seg x' fs))
      | .err e => .err e
      | .panic e => .panic e := by
  rw [FieldSpec.filter]
  simp only [isNull, Bool.false_eq_true, if_false, hsf, hne]
  have hl : ∀ ck, pathGet q ck 0 (cleanPath [seg]) (.map s fs) = .ok (.map s fs, some x) := by
    intro ck
    have := lookup_plain_exists q ck seg hp s fs x hx
    unfold lookup at this
    exact this
  by_cases h1 : (!create || cr.kind = 0) = true
  · simp only [h1, Bool.or_false, if_true, hl]
    simp only [hc]
    split <;> simp_all
  · simp only [h1, Bool.or_false]
    by_cases h2 : rest = []
    · simp only [h2, if_true, hl, hc]
      split <;> simp_all
    · simp only [h2, if_false, hl, hc]
      split <;> simp_all

theorem filter_nil (q : String → Bool) (set : Node → Out Node) (create : Bool) (cr : FieldSpec.Create) (f : Nat) (x : Node) :
    FieldSpec.filter q set create cr (f + 1) [] x = set x := by
  rw [FieldSpec.filter]

/-- the last step when the field is absent and a scalar is to be created -/
theorem filter_create_last (q : String → Bool) (set : Node → Out Node) (tag : String) (f : Nat)
    (seg : String) (s : Nat) (fs : Fields)
    (hsf : FieldSpec.seqField seg = (seg, false)) (hne : seg ≠ "") (hp : Plain seg)
    (hc : classify (trimSpace seg) = .ok (.field seg)) (hx : fieldGet seg fs = none) :
    FieldSpec.filter q set true ⟨1, tag⟩ (f + 2) [seg] (.map s fs) =
      match set (.scalar "" "" 0) with
      | .ok x' => .ok (.map s (fieldReplace seg x' (fs ++ [(seg, .scalar "" "" 0)])))
      | .err e => .err e
      | .panic e => .panic e := by
  rw [FieldSpec.filter]
  simp only [isNull, Bool.false_eq_true, if_false, hsf, hne]
  have hl : pathGet q 1 0 (cleanPath [seg]) (.map s fs) = .ok (.map s (fs ++ [(seg, .scalar "" "" 0)]), some (.scalar "" "" 0)) := by
    have := lookup_plain_create q seg hp s fs
    rw [hx] at this
    unfold lookup at this
    exact this
  have hr : FieldSpec.retype 1 tag (.scalar "" "" 0) = .scalar "" "" 0 := by
    simp [FieldSpec.retype, isNull]
  simp only [Bool.not_true, Bool.false_or, show ((1 : Nat) = 0) = False by simp, decide_false, Bool.false_eq_true, if_false, if_true, hl, hr, filter_nil, hc]
  split <;> simp_all


end Kust.NsFilter
