/-
  `PathSplit.split` (the model shaped like the Go code: strings.Split, then re-join pieces whose predecessor ends in a
  backslash) and `PathSplit.splitScan` (one left-to-right scan) are the same function.
-/
import Kust.PathSplit
namespace Kust.PathSplit
open Kust

/-- the re-joining loop with the open piece made explicit -/
def mergeR (d : Char) : String → List String → List String
  | op, [] => [op]
  | op, p :: r =>
    if Str.hasSuffix op "\\" then mergeR d (Str.dropRight op 1 ++ String.singleton d ++ p) r else op :: mergeR d p r

/-- … started on a list of raw pieces whose first piece continues the open one -/
def mergeS (d : Char) (op : String) : List String → List String
  | [] => [op]
  | p :: r => mergeR d (op ++ p) r

theorem merge_cons (d : Char) : ∀ (r : List String) (last : String) (acc : List String),
    merge d (last :: acc) r = acc.reverse ++ mergeR d last r := by
  intro r
  induction r with
  | nil => intro last acc; simp [merge, mergeR]
  | cons p r ih =>
    intro last acc
    simp only [merge, mergeR]
    split
    · rw [ih]
    · rw [ih]; simp

theorem merge_nil (d : Char) (p : String) (r : List String) : merge d [] (p :: r) = mergeR d p r := by
  simp [merge, merge_cons]

theorem empty_append (p : String) : "" ++ p = p := by
  apply String.toList_inj.mp; simp

theorem mergeR_step (d : Char) (op : String) (l : List String) (hl : l ≠ []) :
    mergeR d op l = if Str.hasSuffix op "\\" then mergeS d (Str.dropRight op 1 ++ String.singleton d) l
                    else op :: mergeS d "" l := by
  cases l with
  | nil => exact absurd rfl hl
  | cons p r => simp only [mergeR, mergeS, empty_append]

theorem go_ne (d : Char) : ∀ (cs cur : List Char), Str.splitChar.go d cs cur ≠ [] := by
  intro cs
  induction cs with
  | nil => intro cur; simp [Str.splitChar.go]
  | cons c cs ih =>
    intro cur
    simp only [Str.splitChar.go]
    split
    · simp
    · exact ih _

theorem hasSuffix_bs (x : List Char) : Str.hasSuffix (String.ofList x) "\\" = true ↔ ∃ y, x.reverse = '\\' :: y := by
  unfold Str.hasSuffix
  have hb : "\\".toList.reverse = ['\\'] := by decide
  rw [hb, String.toList_ofList]
  cases x.reverse with
  | nil => simp [Str.isPrefixL]
  | cons c y =>
    simp [Str.isPrefixL]
    exact ⟨fun h => h.symm, fun h => h.symm⟩

/-- the scan is the re-joining loop run over the raw pieces: `cur0` is the part of the open piece that was joined
    already, `cur` the raw piece being read (both reversed) -/
theorem scan_mergeS (d : Char) : ∀ (cs cur cur0 : List Char),
    (scan d cs (cur ++ cur0)).map String.ofList = mergeS d (String.ofList cur0.reverse) (Str.splitChar.go d cs cur) := by
  intro cs
  induction cs with
  | nil =>
    intro cur cur0
    simp only [scan, Str.splitChar.go, mergeS, mergeR, List.map]
    congr 1
    apply String.toList_inj.mp; simp
  | cons c cs ih =>
    intro cur cur0
    by_cases hc : c = d
    · subst hc
      simp only [scan, Str.splitChar.go, if_true, mergeS]
      have happ : String.ofList cur0.reverse ++ String.ofList cur.reverse = String.ofList (cur ++ cur0).reverse := by
        apply String.toList_inj.mp; simp
      rw [happ, mergeR_step c _ _ (go_ne c cs [])]
      cases hcc : cur ++ cur0 with
      | nil =>
        have hs : Str.hasSuffix (String.ofList ([] : List Char).reverse) "\\" = false := by decide
        rw [hs]
        simp only [Bool.false_eq_true, if_false, List.map]
        have := ih [] []
        simp only [List.append_nil, List.reverse_nil] at this
        rw [this]
      | cons x xs =>
        by_cases hx : x = '\\'
        · subst hx
          have hs : Str.hasSuffix (String.ofList ('\\' :: xs).reverse) "\\" = true :=
            (hasSuffix_bs _).mpr ⟨xs, by simp⟩
          rw [hs]
          simp only [if_true]
          have := ih [] (c :: xs)
          simp only [List.nil_append] at this
          rw [this]
          congr 1
          apply String.toList_inj.mp
          simp [Str.dropRight]
        · have hs : Str.hasSuffix (String.ofList (x :: xs).reverse) "\\" = false := by
            cases h : Str.hasSuffix (String.ofList (x :: xs).reverse) "\\" with
            | false => rfl
            | true =>
              obtain ⟨y, hy⟩ := (hasSuffix_bs _).mp h
              simp at hy
              exact absurd hy.1 hx
          rw [hs]
          simp only [Bool.false_eq_true, if_false]
          have := ih [] []
          simp only [List.append_nil, List.reverse_nil] at this
          split
          · rename_i cur' heq; simp at heq; exact absurd heq.1 hx
          · simp only [List.map]
            rw [this]
    · simp only [scan, Str.splitChar.go, hc, if_false]
      have := ih (c :: cur) cur0
      simpa using this

theorem go_head (d : Char) : ∀ (cs cur : List Char), ∃ w rest,
    Str.splitChar.go d cs cur = String.ofList (cur.reverse ++ w) :: rest := by
  intro cs
  induction cs with
  | nil => intro cur; exact ⟨[], [], by simp [Str.splitChar.go]⟩
  | cons c cs ih =>
    intro cur
    simp only [Str.splitChar.go]
    split
    · exact ⟨[], Str.splitChar.go d cs [], by simp⟩
    · obtain ⟨w, rest, h⟩ := ih (c :: cur)
      exact ⟨c :: w, rest, by rw [h]; simp⟩

/-- **the two readings of the splitter agree on every path and every delimiter** -/
theorem split_eq_splitScan (d : Char) (path : String) : split d path = splitScan d path := by
  unfold split splitScan Str.splitChar
  cases hp : path.toList with
  | nil => simp [Str.splitChar.go, dropLead, merge, skipLead, scan]
  | cons c r =>
    by_cases hc : c = d
    · subst hc
      simp only [Str.splitChar.go, if_true, skipLead]
      obtain ⟨w, rest, h⟩ := go_head c r []
      have hd : dropLead (String.ofList ([] : List Char).reverse :: Str.splitChar.go c r []) = Str.splitChar.go c r [] := by
        rw [h]; rfl
      rw [hd]
      have := scan_mergeS c r [] []
      simp only [List.append_nil, List.reverse_nil] at this
      rw [this, h, merge_nil]
      simp only [mergeS]
      congr 1
    · simp only [Str.splitChar.go, skipLead, hc, if_false]
      obtain ⟨w, rest, h⟩ := go_head d r [c]
      have hd : dropLead (Str.splitChar.go d r [c]) = Str.splitChar.go d r [c] := by
        rw [h]
        unfold dropLead
        split
        · rename_i a b heq
          simp at heq
        · rfl
      rw [hd]
      have := scan_mergeS d r [c] []
      simp only [List.append_nil, List.reverse_nil] at this
      have hs : scan d (c :: r) [] = scan d r [c] := by simp [scan, hc]
      rw [hs, this, h, merge_nil]
      simp only [mergeS]
      congr 1

end Kust.PathSplit
