/-
  Kust.FieldSpec — api/filters/fieldspec/fieldspec.go (Filter.filter / handleMap / handleSequence / isMatchGVK,
  kyaml/utils PathSplitter).  `set` is the caller's SetFn (a parameter); recursion carries fuel.
-/
import Kust.Fns
import Kust.Str
import Kust.Tables
namespace Kust
namespace FieldSpec
open Node Fns

/-- `utils.PathSplitter(path, "/")`: a leading slash is allowed, `\/` escapes the delimiter -/
def pathSplit (path : String) : List String :=
  let ps := Str.splitChar '/' path
  let ps := match ps with
    | "" :: r@(_ :: _) => r
    | l => l
  let rec merge : List String → List String → List String
    | acc, [] => acc.reverse
    | [], p :: r => merge [p] r
    | last :: acc, p :: r =>
      if Str.hasSuffix last "\\" then merge ((Str.dropRight last 1 ++ "/" ++ p) :: acc) r else merge (p :: last :: acc) r
  merge [] ps

/-- `isSequenceField`: trims a `[]` suffix -/
def seqField (name : String) : String × Bool :=
  if Str.hasSuffix name "[]" then (Str.dropRight name 2, true) else (name, false)

/-- `isMatchGVK` -/
def matchGVK (f : Gen.FieldSpec) (group version kind : String) : Bool :=
  (f.kind = "" || f.kind = kind) && (f.group = "" || f.group = group) && (f.version = "" || f.version = version)

/-- creation request: 0 = none, else the node kind (1 scalar, 2 map, 3 seq) and the tag given to a retyped null -/
structure Create where
  kind : Nat
  tag : String

def retype (kind : Nat) (tag : String) (n : Node) : Node :=
  if n.isNull ∧ kind ≠ 0 then
    match kind with
    | 2 => .map 0 []
    | 3 => .seq 0 []
    | _ => .scalar tag n.valueText n.style
  else n

def filterItems (rec : Node → Out Node) : List Node → Out (List Node)
  | [] => .ok []
  | e :: es =>
    match rec e with
    | .ok e' => (match filterItems rec es with
      | .ok r => .ok (e' :: r)
      | .err c => .err c
      | .panic c => .panic c)
    | .err c => .err c
    | .panic c => .panic c

/-- `Filter.filter` -/
def filter (ns : String → Bool) (set : Node → Out Node) (create : Bool) (cr : Create) :
    Nat → List String → Node → Out Node
  | 0, _, _ => .err "fuel"
  | _ + 1, [], obj => set obj
  | f + 1, seg :: rest, obj =>
    if obj.isNull then .ok obj
    else match obj with
    | .scalar .. => .err "expected"
    | .seq s is =>
      match filterItems (filter ns set create cr f (seg :: rest)) is with
      | .ok is' => .ok (.seq s is')
      | .err c => .err c
      | .panic c => .panic c
    | .map _ _ =>
      let (fieldName, isSeq) := seqField seg
      if fieldName = "" then .err "emptyfield"
      else
        let (ck, kind, tag) : Nat × Nat × String :=
          if !create || cr.kind = 0 || isSeq then (0, if isSeq then 3 else 0, "")
          else if rest = [] then (cr.kind, cr.kind, cr.tag)
          else (2, 2, "!!map")
        match pathGet ns ck 0 (cleanPath [fieldName]) obj with
        | .err c => .err c
        | .panic c => .panic c
        | .ok (_, none) => .ok obj
        | .ok (obj', some field) =>
          let field := retype kind tag field
          match filter ns set create cr f rest field with
          | .err c => .err c
          | .panic c => .panic c
          | .ok field' =>
            -- put the (possibly created, retyped, edited) field back where Lookup found it
            match obj' with
            | .map s fs =>
              (match classify (trimSpace fieldName) with
                | .ok (.field nm) => .ok (.map s (fieldReplace nm field' fs))
                | _ => .err "unmodelled")
            | _ => .err "unmodelled"

/-- `fieldspec.Filter.Filter` -/
def apply (ns : String → Bool) (set : Node → Out Node) (spec : Gen.FieldSpec) (cr : Create)
    (group version kind : String) (obj : Node) : Out Node :=
  if !matchGVK spec group version kind then .ok obj
  else filter ns set spec.create cr (obj.size + (pathSplit spec.path).length + 2) (pathSplit spec.path) obj

end FieldSpec
end Kust
