/-
  Kust.Fmt — the canonical formatter (kyaml/kio/filters/fmtr.go: FormatFilter / formatter.fmtNode,
  sortedMapContents.Less, sortedSeqContents.Less) with `UseSchema = false`.

  Go's `sort.Sort` is third-party: a `Sorter` is ANY function that returns a permutation ordered by the comparator
  and leaves an ordered list unchanged.  (pdqsort returns sorted input untouched; sampled by the correspondence.)
  The field precedence table and the list whitelists are the REGENERATED `Gen.fieldSortOrder`, `Gen.whitelist*`.
  Recursion uses fuel (structural, kernel-evaluable); the real recursion is fuel = depth.
-/
import Kust.Node
namespace Kust
namespace Fmt
open Node

structure Sorter where
  sort : {α : Type} → (α → α → Bool) → List α → List α
  perm : ∀ {α : Type} (le : α → α → Bool) (l : List α), (sort le l).Perm l
  sorted : ∀ {α : Type} (le : α → α → Bool) (l : List α),
    (∀ a b c, le a b = true → le b c = true → le a c = true) → (∀ a b, (le a b || le b a) = true) →
    (sort le l).Pairwise (fun a b => le a b = true)
  fix : ∀ {α : Type} (le : α → α → Bool) (l : List α), l.Pairwise (fun a b => le a b = true) → sort le l = l

/-- `yaml.FieldOrder[k]`: 1 + index of the LAST occurrence in `fieldSortOrder` (later entries overwrite) -/
def orderIdx (order : List String) (k : String) : Option Nat :=
  let rec go (i : Nat) : List String → Option Nat → Option Nat
    | [], acc => acc
    | x :: xs, acc => go (i + 1) xs (if x = k then some (i + 1) else acc)
  go 0 order none

/-- `sortedMapContents.Less` on field names -/
def lessKey (order : List String) (a b : String) : Bool :=
  match orderIdx order a, orderIdx order b with
  | some i, some j => i < j
  | some _, none => true
  | none, some _ => false
  | none, none => a < b

def leField (order : List String) (x y : String × Node) : Bool := !lessKey order y.1 x.1

/-- text of the LAST field named `name` (the loop in `sortedSeqContents.Less` does not break) -/
def lastFieldText (name : String) : Fields → String
  | [] => ""
  | (k, v) :: fs =>
    let r := lastFieldText name fs
    if k = name ∧ ¬ fs.any (fun kv => kv.1 = name) then v.valueText else r

/-- sort key of a sequence element (`sortField = ""`: primitive list) -/
def seqKey (sortField : String) (n : Node) : String :=
  if sortField = "" then n.valueText
  else match n with
    | .map _ fs => lastFieldText sortField fs
    | _ => ""

def leSeq (sortField : String) (x y : Node) : Bool := !(seqKey sortField y < seqKey sortField x)

structure Cfg where
  order : List String                 -- fieldSortOrder
  wl : Bool                           -- kind ∈ WhitelistedListSortKinds ∧ apiVersion ∈ WhitelistedListSortApis
  wlFields : List (String × String)   -- WhitelistedListSortFields

def wlLookup (c : Cfg) (path : String) : Option String :=
  if c.wl then (c.wlFields.find? (fun p => p.1 = path)).map (·.2) else none

/-- `formatter.fmtNode` -/
def fmtN (S : Sorter) (c : Cfg) : Nat → String → Node → Node
  | 0, _, n => n
  | _ + 1, _, .scalar t v s => .scalar t v s
  | f + 1, path, .map s fs =>
    .map s ((S.sort (leField c.order) fs).map fun kv => (kv.1, fmtN S c f (path ++ "." ++ kv.1) kv.2))
  | f + 1, path, .seq s is =>
    let is' := match wlLookup c path with
      | some sf => S.sort (leSeq sf) is
      | none => is
    .seq s (is'.map (fmtN S c f path))

/-- depth of a tree (fuel that suffices) -/
def mergeSorter : Sorter where
  sort := fun le l => l.mergeSort le
  perm := fun le l => List.mergeSort_perm l le
  sorted := fun le l tr to => List.pairwise_mergeSort tr to l
  fix := fun _ _ h => List.mergeSort_of_pairwise h

end Fmt
end Kust
