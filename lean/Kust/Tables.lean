/- Types of the regenerated tables (`Kust/Gen/*.lean`). -/
namespace Kust.Gen

/-- `types.FieldSpec` -/
structure FieldSpec where
  group : String
  version : String
  kind : String
  path : String
  create : Bool
  deriving Repr, DecidableEq

/-- `builtinconfig.NameBackReferences`: referent gvk and the fields of referrers that hold its name -/
structure NameBackRefs where
  group : String
  version : String
  kind : String
  fieldSpecs : List FieldSpec
  deriving Repr, DecidableEq

end Kust.Gen
