/-
  Key/value sources of a generator (api/kv/kv.go `loader.Load` + api/internal/generators/utils.go
  `makeValidatedDataMap`, `ParseFileSource`): env files, literals and file sources are loaded IN THAT ORDER into one list
  of pairs; then every key is validated and a key that appears twice — in whatever kinds of source — is an error.
  The validators (`IsEnvVarName`, `ErrIfInvalidKey`: k8s validation regexps) are parameters.
-/
import Kust.GenMap
import Kust.Str
namespace Kust.Kv
open Kust GenMap

abbrev Pair := String × String

/-- `bufio.ScanLines`: split at line feeds, drop a trailing carriage return of each line, no final empty line -/
def scanLines (content : String) : List String :=
  let ls := Str.splitChar '\n' content
  let ls := if ls.getLast? = some "" then ls.dropLast else ls
  ls.map fun l => if Str.hasSuffix l "\r" then Str.dropRight l 1 else l

/-- `keyValuesFromLine`: `none` for a blank line or a comment -/
def envLine (envOk : String → Bool) (idx : Nat) (line : String) : Out (Option Pair) :=
  let cs := line.toList
  let cs := if idx = 0 ∧ cs.head? = some '﻿' then cs.drop 1 else cs
  let cs := cs.dropWhile Char.isWhitespace
  if cs = [] ∨ cs.head? = some '#' then .ok none
  else
    let key := String.ofList (cs.takeWhile (· ≠ '='))
    let value := String.ofList ((cs.dropWhile (· ≠ '=')).drop 1)
    if !envOk key then .err "envname"
    else if key = "" then .ok none   -- `keyValuesFromLines` takes an empty key for "blank line or comment" and skips the pair
    else .ok (some (key, value))

def envLines (envOk : String → Bool) : Nat → List String → Out (List Pair)
  | _, [] => .ok []
  | i, l :: ls =>
    match envLine envOk i l with
    | .ok o =>
      match envLines envOk (i + 1) ls with
      | .ok ps => .ok (match o with | some p => p :: ps | none => ps)
      | .err c => .err c
      | .panic c => .panic c
    | .err c => .err c
    | .panic c => .panic c

/-- env files: `none` = the file cannot be loaded -/
def envFiles (envOk : String → Bool) : List (Option String) → Out (List Pair)
  | [] => .ok []
  | none :: _ => .err "notfound"
  | some c :: fs =>
    match envLines envOk 0 (scanLines c) with
    | .ok ps =>
      match envFiles envOk fs with
      | .ok qs => .ok (ps ++ qs)
      | .err c => .err c
      | .panic c => .panic c
    | .err c => .err c
    | .panic c => .panic c

def literals : List String → Out (List Pair)
  | [] => .ok []
  | s :: ss =>
    match parseLiteral s with
    | .ok p =>
      match literals ss with
      | .ok ps => .ok (p :: ps)
      | .err c => .err c
      | .panic c => .panic c
    | .err c => .err c
    | .panic c => .panic c

/-- `path.Base` for the simple spellings the generator produces -/
def baseName (p : String) : String :=
  let segs := (Str.splitChar '/' p).filter (· ≠ "")
  segs.getLast?.getD (if p = "" then "." else "/")

/-- `ParseFileSource`: (key, path) -/
def parseFileSource (s : String) : Out (String × String) :=
  let n := (s.toList.filter (· = '=')).length
  if n = 0 then .ok (baseName s, s)
  else if n = 1 ∧ Str.hasPrefix s "=" then .err "filesrc"
  else if n = 1 ∧ Str.hasSuffix s "=" then .err "filesrc"
  else if n > 1 then .err "filesrc"
  else
    let cs := s.toList
    .ok (String.ofList (cs.takeWhile (· ≠ '=')), String.ofList ((cs.dropWhile (· ≠ '=')).drop 1))

/-- file sources: the spec and, for its path, the content the loader returns (`none` = not loadable) -/
def fileSources (content : String → Option String) : List String → Out (List Pair)
  | [] => .ok []
  | s :: ss =>
    match parseFileSource s with
    | .ok (k, p) =>
      match content p with
      | none => .err "notfound"
      | some c =>
        match fileSources content ss with
        | .ok ps => .ok ((k, c) :: ps)
        | .err c => .err c
        | .panic c => .panic c
    | .err c => .err c
    | .panic c => .panic c

/-- `loader.Load`: env files, then literals, then files -/
def load (envOk : String → Bool) (content : String → Option String) (envs : List (Option String)) (lits files : List String) :
    Out (List Pair) :=
  match envFiles envOk envs with
  | .ok a =>
    match literals lits with
    | .ok b =>
      match fileSources content files with
      | .ok c => .ok (a ++ b ++ c)
      | .err e => .err e
      | .panic e => .panic e
    | .err e => .err e
    | .panic e => .panic e
  | .err e => .err e
  | .panic e => .panic e

/-- the loop of `makeValidatedDataMap`: `seen` are the keys accepted so far -/
def validate (keyOk : String → Bool) : List String → List Pair → Out (List Pair)
  | _, [] => .ok []
  | seen, (k, v) :: ps =>
    if !keyOk k then .err "badkey"
    else if seen.contains k then .err "dupkey"
    else match validate keyOk (k :: seen) ps with
      | .ok qs => .ok ((k, v) :: qs)
      | .err c => .err c
      | .panic c => .panic c

def validated (envOk keyOk : String → Bool) (content : String → Option String) (envs : List (Option String))
    (lits files : List String) : Out (List Pair) :=
  match load envOk content envs lits files with
  | .ok ps => validate keyOk [] ps
  | .err e => .err e
  | .panic e => .panic e

end Kust.Kv
