/-
  Kust.Walk — transliteration of kyaml/yaml/walk (Walker.Walk, walkMap, walkScalar, walkAssociativeSequence,
  walkNonAssociativeSequence, setAssociativeSequenceElements, appendListNode, elementValues, …) and of the two
  visitors built on it: merge2.Merger (strategic merge patch, with `$patch` directive detection AND elision) and
  merge3.Visitor (three-way merge).

  * Sources are `List (Option Node)`, destination first.  Go mutates the destination in place and replaces
    `Sources[0]` by the visitor's result; here the walk threads the new destination as a value.
  * The OpenAPI schema is a parameter `Schema := path → Option SchInfo` (field path from the document root; list
    elements do not extend the path).  `none` = "no schema here".
  * Recursion into children found by lookups is not structural: fuel (kernel-evaluable).
  * Merge-key lists with more than one key are modelled (`mergeValues`, `validateKeys`, `setAssocLoopN`), except when
    `mergeValues` makes two rows equal (an element lacking every key next to a keyed one): `.err "unmodelled"`.
  * merge3 compares serialised text (`RNode.String()` with a forced style); `ser` is that third-party function,
    a parameter (the driver uses structural equality up to the top-level style, validated by the correspondence).
-/
import Kust.Fns
namespace Kust
namespace Walk
open Node Fns

abbrev Sources := List (Option Node)

structure SchInfo where
  strategy : String
  keys : List String
  deriving Repr, DecidableEq

abbrev Schema := List String → Option SchInfo

/-- what a visitor returns: the new destination (`none` = `walk.ClearNode`), the `ShouldKeep` flag of a
    persistent null, and the sources after the call (directive elision edits the patch). -/
structure VRes where
  node : Option Node
  keep : Bool
  srcs : Sources
  /-- the result IS the destination node (Go returns the same pointer): `FieldSetter` then copies a node onto
      itself — the YAML-1.1 quoting sticks and no style is inherited from an "old" value. -/
  alias : Bool := false
  /-- the result is the ORIGIN node (the patch): destination and origin are then the same object, and so are
      their children during the rest of this walk -/
  fromOrigin : Bool := false

/-- result of a walk: new destination, `ShouldKeep`, aliases-the-old-destination -/
structure WRes where
  node : Option Node
  keep : Bool := false
  alias : Bool := false

/-- `dest.Pipe(FieldSetter{Name, Value})` as the walker uses it -/
def setChild (ns : String → Bool) (name : String) (w : WRes) (d : Node) : Out Node :=
  if w.alias ∧ w.node.isSome then
    match w.node, d with
    | some x, .map s fs =>
      if x.isNull ∧ !w.keep then .ok (.map s (fieldErase name fs))
      else .ok (.map s (fieldReplace name (quoteIfNonString ns false x) fs))
    | _, _ => .err "unmodelled"
  else
    match fieldSetter ns name w.node w.keep false d with
    | .ok (d', _) => .ok d'
    | .err c => .err c
    | .panic c => .panic c

/-- the first argument of each visitor function: destination and origin are the same object -/
structure Visitor where
  visitMap : Bool → Sources → Out VRes
  visitScalar : Bool → Sources → Out VRes
  visitList : Bool → Sources → Bool → Out VRes

structure Opts where
  infer : Bool
  prepend : Bool
  ns : String → Bool

inductive K where
  | none | scalar | map | seq
  deriving DecidableEq, Repr

def kindOfNode : Node → K
  | .scalar .. => .scalar
  | .map .. => .map
  | .seq .. => .seq

/-- `Walker.Kind()`: kind of the first non-null source -/
def kindOf : Sources → K
  | [] => .none
  | none :: r => kindOf r
  | some n :: r => if n.isNull then kindOf r else kindOfNode n

/-- `ErrorIfAnyInvalidAndNonNull` -/
def allValid (k : K) (srcs : Sources) : Bool :=
  srcs.all fun s => match s with
    | none => true
    | some n => n.isNull || kindOfNode n = k

def insertStr (x : String) : List String → List String
  | [] => [x]
  | y :: ys => if x = y then y :: ys else if x < y then x :: y :: ys else y :: insertStr x ys

/-- sorted, duplicate-free union (`sets.String` + `sort.Strings`) -/
def sortStrs (xs : List String) : List String := xs.foldl (fun acc x => insertStr x acc) []

def keysOf : Option Node → List String
  | some (.map _ fs) => fs.map Prod.fst
  | _ => []

/-- `Walker.fieldNames` -/
def fieldNames (srcs : Sources) : List String := sortStrs (srcs.flatMap keysOf)

/-- `Sources[i].Field(key)` value -/
def fieldOf (key : String) : Option Node → Option Node
  | some (.map _ fs) => fieldGet key fs
  | _ => none

def itemsOf : Option Node → List Node
  | some (.seq _ is) => is
  | _ => []

/-- rotate so that with `prepend` the destination comes last (`(i+beginIdx) % len`) -/
def orderedSources (prepend : Bool) (srcs : Sources) : Sources :=
  if prepend then srcs.tail ++ srcs.take 1 else srcs

def dedup (xs : List String) : List String :=
  xs.foldl (fun acc x => if acc.contains x then acc else acc ++ [x]) []

/-- `ElementValuesList([key])` of one element: text of the first field `key` ("" if absent / not a map / empty) -/
def elemKeyText (key : String) : Node → String
  | .map _ fs =>
    match fieldGet key fs with
    | some v => if v.isNull || v.isEmptyMap || (match v with | .seq _ [] => true | _ => false) then "" else v.valueText
    | none => ""
  | _ => ""

/-- `elementValues([key])` -/
def elementValues1 (prepend : Bool) (key : String) (srcs : Sources) : List String :=
  dedup ((orderedSources prepend srcs).flatMap fun s => (itemsOf s).map (elemKeyText key))

/-- `elementPrimitiveValues` -/
def elementPrimitiveValues (prepend : Bool) (srcs : Sources) : List String :=
  dedup ((orderedSources prepend srcs).flatMap fun s => (itemsOf s).map Node.valueText)

/-- `Sources[i].ElementList([key],[value])` -/
def elementOf (key value : String) : Option Node → Option Node
  | some (.seq _ is) =>
    if key = "" then is.find? (fun e => e.valueText = value)
    else is.find? fun e => match e with
      | .map _ fs => (match fieldGet key fs with | some x => x.valueText = value | none => false)
      | _ => false
  | _ => none

def elemMatches (key value : String) (e : Node) : Bool :=
  if key = "" then e.valueText = value
  else match e with
    | .map _ fs => (match fieldGet key fs with | some x => x.valueText = value | none => false)
    | _ => false

/-- replace the first element matching (key,value): the in-place effect of walking an element that IS the
    destination's own node -/
def replaceElem (key value : String) (n : Node) : List Node → List Node
  | [] => []
  | e :: es => if elemMatches key value e then n :: es else e :: replaceElem key value n es

/-- `GetAssociativeKey` restricted to the single inferable key `name`: every element has the field -/
def assocKeyOf (keysTbl : List String) : Option Node → String
  | some (.seq _ is) =>
    match keysTbl.find? (fun k => is.all fun e => match e with | .map _ fs => (fieldGet k fs).isSome | _ => false) with
    | some k => k
    | none => ""
  | _ => ""

/-- `strings.Split(s, ",")`, structurally (kernel-evaluable) -/
def splitComma (s : String) : List String :=
  let rec go : List Char → List Char → List String
    | [], cur => [String.ofList cur.reverse]
    | c :: cs, cur => if c = ',' then String.ofList cur.reverse :: go cs [] else go cs (c :: cur)
  go s.toList []

/-- `schema.IsAssociative` -/
def isAssociative (keysTbl : List String) (si : Option SchInfo) (srcs : Sources) (infer : Bool) : Bool :=
  match si with
  | some i => (splitComma i.strategy).contains "merge"
  | none => infer && srcs.any fun s => match s with
      | some n => !n.isNull && assocKeyOf keysTbl (some n) ≠ ""
      | none => false

/-- `Walker.elementKey` -/
def elementKey (keysTbl : List String) : Sources → String → Out String
  | [], key => if key = "" then .err "nokey" else .ok key
  | s :: rest, key =>
    if (itemsOf s).length > 0 then
      let nk := assocKeyOf keysTbl s
      if key ≠ "" ∧ key ≠ nk then .err "conflictkeys" else elementKey keysTbl rest nk
    else elementKey keysTbl rest key

/-- `appendListNode(dst, src, [key])` on item lists (single key or primitive). -/
def appendListItems (key : String) (dst : List Node) : List Node → Out (List Node)
  | [] => .ok dst
  | e :: es =>
    if key = "" then
      match elementSetter [""] [e.valueText] (some e) (.seq 0 dst) with
      | .ok (.seq _ d', _) => appendListItems key d' es
      | .ok _ => .err "unmodelled"
      | .err c => .err c
      | .panic c => .panic c
    else
      -- valueNode := elem.Pipe(Get(key))
      match fieldMatcher key none (some e) with
      | .ok (some v) =>
        match elementSetter [key] [v.valueText] (some e) (.seq 0 dst) with
        | .ok (.seq _ d', _) => appendListItems key d' es
        | .ok _ => .err "unmodelled"
        | .err c => .err c
        | .panic c => .panic c
      | .ok none =>
        -- no key: Append, then ElementSetter with EMPTY Values (drops every element that does not match)
        match elementSetter [key] [] (some e) (.seq 0 (dst ++ [e])) with
        | .ok (.seq _ d', _) => appendListItems key d' es
        | .ok _ => .err "unmodelled"
        | .err c => .err c
        | .panic c => .panic c
      | .err c => .err c
      | .panic c => .panic c

/-- the loop of `setAssociativeSequenceElements` for one key; `rec` walks one element's sources. -/
def setAssocLoop (o : Opts) (same : Bool) (rec : Sources → Out WRes) (key : String) (srcs : Sources) :
    List String → List Node → List Node → Out (List Node × List Node)
  | [], dest, added => .ok (dest, added)
  | v :: vs, dest, added =>
    -- the destination is mutated in place by earlier iterations: look the element up in its CURRENT state
    -- (and when destination and origin are the same list object, the origin has been mutated as well)
    let others := if same then some (.seq 0 dest) :: srcs.tail.tail else srcs.tail
    match rec (elementOf key v (some (.seq 0 dest)) :: others.map (elementOf key v)) with
    | .err c => .err c
    | .panic c => .panic c
    | .ok w =>
      let val := w.node
      if isMissingOrNull val || (match val with | some n => n.isEmptyMap | none => true) then
        -- delete the element from dest
        match elementSetter [key] [v] none (.seq 0 dest) with
        | .ok (.seq _ d', _) => setAssocLoop o same rec key srcs vs d' added
        | .ok _ => .err "unmodelled"
        | .err c => .err c
        | .panic c => .panic c
      else
        match val with
        | none => .err "unmodelled"
        | some n =>
          -- make sure the key is set on the value
          let fixed : Out Node :=
            if v = "" then .ok n
            else match n with
              | .map _ fs =>
                if (fieldGet key fs).isSome then .ok n
                else (match fieldSetter o.ns key (some (.scalar "" v 0)) false false n with
                  | .ok (n', _) => .ok n'
                  | .err c => .err c
                  | .panic c => .panic c)
              | _ =>
                -- val.Field(key) == nil for a non-map: SetField on it
                if key = "" then
                  (match scalarSetter o.ns (some (.scalar "" v 0)) false n with
                    | .ok (n', _) => .ok n'
                    | .err c => .err c
                    | .panic c => .panic c)
                else (match fieldSetter o.ns key (some (.scalar "" v 0)) false false n with
                  | .ok (n', _) => .ok n'
                  | .err c => .err c
                  | .panic c => .panic c)
          match fixed with
          | .err c => .err c
          | .panic c => .panic c
          | .ok n' =>
            -- Go walked / fixed the destination's own element node in place
            let dest := if w.alias then replaceElem key v n' dest else dest
            match elementSetter [key] [v] (some n') (.seq 0 added) with
            | .ok (.seq _ a', _) => setAssocLoop o same rec key srcs vs dest a'
            | .ok _ => .err "unmodelled"
            | .err c => .err c
            | .panic c => .panic c

/-! ### lists with several merge keys (`x-kubernetes-list-map-keys: [containerPort, protocol]`) -/

def elemKeyTexts (keys : List String) (e : Node) : List String := keys.map fun k => elemKeyText k e

def dedupL (xs : List (List String)) : List (List String) :=
  xs.foldl (fun acc x => if acc.contains x then acc else acc ++ [x]) []

/-- `elementValues(keys)` -/
def elementValuesN (prepend : Bool) (keys : List String) (srcs : Sources) : List (List String) :=
  dedupL ((orderedSources prepend srcs).flatMap fun s => (itemsOf s).map (elemKeyTexts keys))

/-- `match`: equal length, no position where both are set and differ; `common` = some position is equal -/
def matchVals (v1 v2 : List String) : Bool × List String :=
  if v1.length ≠ v2.length then (false, [])
  else
    let ps := v1.zip v2
    if ps.any (fun p => p.1 ≠ p.2 ∧ p.1 ≠ "" ∧ p.2 ≠ "") then (false, [])
    else (ps.any (fun p => p.1 = p.2), ps.map fun p => if p.1 = p.2 then p.1 else if p.1 ≠ "" then p.1 else p.2)

/-- `mergeValues`: the two nested `range` loops with their in-place updates (`values1` is read when iteration `i`
    starts, `values2` when iteration `j` is reached) -/
def mergeValues (vl : List (List String)) : List (List String) :=
  let n := vl.length
  (List.range n).foldl (fun vl i =>
    let v1 := vl.getD i []
    (List.range n).foldl (fun vl j =>
      match matchVals v1 (vl.getD j []) with
      | (true, res) => (vl.set i res).set j res
      | _ => vl) vl) vl

/-- `validateKeys`: only the keys for which SOME row has a value count -/
def validateKeys (vl : List (List String)) (values keys : List String) : List String × List String :=
  let has (k : String) : Bool := vl.any fun row => (keys.zip row).any fun p => p.1 = k ∧ p.2 ≠ ""
  if !(keys.any has) then (keys, values)
  else (keys.filter has, ((keys.zip values).filter fun p => p.2 ≠ "" || has p.1).map (·.2))

def elemMatchesN (ks vs : List String) (e : Node) : Bool :=
  match e with
  | .map _ fs => ks.length = vs.length && (ks.zip vs).all fun p =>
      (match fieldGet p.1 fs with | some x => x.valueText = p.2 | none => false)
  | _ => false

/-- `Sources[i].ElementList(keys, values)` -/
def elementOfN (ks vs : List String) : Option Node → Option Node
  | some (.seq _ is) => is.find? (elemMatchesN ks vs)
  | _ => none

def replaceElemN (ks vs : List String) (n : Node) : List Node → List Node
  | [] => []
  | e :: es => if elemMatchesN ks vs e then n :: es else e :: replaceElemN ks vs n es

/-- `appendListNode(dst, src, keys)` with two or more keys -/
def appendListItemsN (keys : List String) (dst : List Node) : List Node → Out (List Node)
  | [] => .ok dst
  | e :: es =>
    -- collect the key values; a missing key appends the element at once and the loop goes on
    let step (acc : Out (List Node × List String)) (key : String) : Out (List Node × List String) :=
      match acc with
      | .ok (d, v) =>
        (match fieldMatcher key none (some e) with
          | .ok (some x) => .ok (d, v ++ [x.valueText])
          | .ok none => .ok (d ++ [e], v)
          | .err c => .err c
          | .panic c => .panic c)
      | o => o
    match keys.foldl step (.ok (dst, [])) with
    | .err c => .err c
    | .panic c => .panic c
    | .ok (d, v) =>
      match elementSetter keys v none (.seq 0 d) with
      | .ok (.seq _ d1, _) =>
        (match elementSetter keys v (some e) (.seq 0 d1) with
          | .ok (.seq _ d2, _) => appendListItemsN keys d2 es
          | .ok _ => .err "unmodelled"
          | .err c => .err c
          | .panic c => .panic c)
      | .ok _ => .err "unmodelled"
      | .err c => .err c
      | .panic c => .panic c

/-- the loop of `setAssociativeSequenceElements` for several keys; returns dest, added and the LAST valid keys -/
def setAssocLoopN (o : Opts) (same : Bool) (rec : Sources → Out WRes) (keys : List String) (srcs : Sources)
    (all : List (List String)) :
    List (List String) → List Node → List Node → List String → Out (List Node × List Node × List String)
  | [], dest, added, lastKeys => .ok (dest, added, lastKeys)
  | values :: vs, dest, added, _ =>
    let (vKeys, vVals) := validateKeys all values keys
    -- elementValueList validates once more against this row alone
    let (k2, v2) := validateKeys [vVals] vVals vKeys
    let others := if same then some (.seq 0 dest) :: srcs.tail.tail else srcs.tail
    match rec (elementOfN k2 v2 (some (.seq 0 dest)) :: others.map (elementOfN k2 v2)) with
    | .err c => .err c
    | .panic c => .panic c
    | .ok w =>
      let val := w.node
      if isMissingOrNull val || (match val with | some n => n.isEmptyMap | none => true) then
        match elementSetter vKeys vVals none (.seq 0 dest) with
        | .ok (.seq _ d', _) => setAssocLoopN o same rec keys srcs all vs d' added vKeys
        | .ok _ => .err "unmodelled"
        | .err c => .err c
        | .panic c => .panic c
      else
        match val with
        | none => .err "unmodelled"
        | some n =>
          let fix (acc : Out Node) (kv : String × String) : Out Node :=
            match acc with
            | .ok (.map s fs) =>
              if kv.2 = "" ∨ (fieldGet kv.1 fs).isSome then .ok (.map s fs)
              else (match fieldSetter o.ns kv.1 (some (.scalar "" kv.2 0)) false false (.map s fs) with
                | .ok (n', _) => .ok n'
                | .err c => .err c
                | .panic c => .panic c)
            | .ok _ => .err "unmodelled"
            | e => e
          match (vKeys.zip vVals).foldl fix (.ok n) with
          | .err c => .err c
          | .panic c => .panic c
          | .ok n' =>
            let dest := if w.alias then replaceElemN k2 v2 n' dest else dest
            match elementSetter vKeys vVals (some n') (.seq 0 added) with
            | .ok (.seq _ a', _) => setAssocLoopN o same rec keys srcs all vs dest a' vKeys
            | .ok _ => .err "unmodelled"
            | .err c => .err c
            | .panic c => .panic c

def bindO {α β} (x : Out α) (f : α → Out β) : Out β := x.bind f

/-- `Walker.Walk` -/
def walk (V : Visitor) (o : Opts) (keysTbl : List String) (sch : Schema) :
    Nat → Bool → List String → Sources → Out WRes
  | 0, _, _, _ => .err "fuel"
  | f + 1, same, path, srcs =>
    let rec' := fun (sm : Bool) => walk V o keysTbl sch f sm
    let walkMap : Out WRes :=
      match V.visitMap same srcs with
      | .err c => .err c
      | .panic c => .panic c
      | .ok r =>
        match r.node with
        | none => .ok {node := none}
        | some dest0 =>
          let rest := r.srcs.tail
          let same' := same || r.fromOrigin
          let keys := fieldNames (some dest0 :: rest)
          let step (acc : Out Node) (key : String) : Out Node :=
            match acc with
            | .ok d =>
              match rec' same' (path ++ [key]) (fieldOf key (some d) :: rest.map (fieldOf key)) with
              | .ok w =>
                if d.isNull then .err "unmodelled"
                else setChild o.ns key w d
              | .err c => .err c
              | .panic c => .panic c
            | e => e
          match keys.foldl step (.ok dest0) with
          | .ok d => .ok {node := some d, keep := r.keep, alias := r.alias || (same && !r.keep)}
          | .err c => .err c
          | .panic c => .panic c
    match kindOf srcs with
    | .none => walkMap
    | .map => if allValid .map srcs then walkMap else .err "kind"
    | .scalar =>
      if allValid .scalar srcs then
        match V.visitScalar same srcs with
        | .ok r => .ok {node := r.node, keep := r.keep, alias := r.alias || (same && r.node.isSome)}
        | .err c => .err c
        | .panic c => .panic c
      else .err "kind"
    | .seq =>
      if !allValid .seq srcs then .err "kind"
      else
        let si := sch path
        if !isAssociative keysTbl si srcs o.infer then
          match V.visitList same srcs false with
          | .ok r => .ok {node := r.node, keep := r.keep, alias := r.alias || (same && r.node.isSome)}
          | .err c => .err c
          | .panic c => .panic c
        else
          match V.visitList same srcs true with
          | .err c => .err c
          | .panic c => .panic c
          | .ok r =>
            match r.node with
            | none => .ok {node := none}
            | some dest0 =>
              let srcs' : Sources := some dest0 :: r.srcs.tail
              let same' := same || r.fromOrigin
              let strategy := (si.map (·.strategy)).getD ""
              let skeys := (si.map (·.keys)).getD []
              let keysO : Out (List String) :=
                if strategy = "" ∧ skeys = [] then
                  match elementKey keysTbl srcs' "" with
                  | .ok k => .ok (if k = "" then [] else [k])
                  | .err c => .err c
                  | .panic c => .panic c
                else .ok skeys
              match keysO with
              | .err c => .err c
              | .panic c => .panic c
              | .ok keys =>
                match keys with
                | _ :: _ :: _ =>
                  let all := mergeValues (elementValuesN o.prepend keys srcs')
                  let destItems := itemsOf (some dest0)
                  -- two rows made equal by `mergeValues` are walked twice, and the second walk sees the patch element
                  -- as the first one left it (directive elided IN PLACE): that aliasing is outside the tree model
                  if (dedupL all).length ≠ all.length then .err "unmodelled" else
                  match setAssocLoopN o same' (rec' same' path) keys srcs' all all destItems [] keys with
                  | .err c => .err c
                  | .panic c => .panic c
                  | .ok (d1, added, lastKeys) =>
                    let app (a b : List Node) : Out (List Node) :=
                      match lastKeys with
                      | [k] => appendListItems k a b
                      | _ => appendListItemsN lastKeys a b
                    let fin : Out (List Node × Nat) :=
                      if all = [] then .ok (d1, dest0.style)
                      else if o.prepend then
                        (match app added d1 with
                          | .ok l => .ok (l, 0)
                          | .err c => .err c
                          | .panic c => .panic c)
                      else
                        (match app d1 added with
                          | .ok l => .ok (l, dest0.style)
                          | .err c => .err c
                          | .panic c => .panic c)
                    match fin with
                    | .ok (l, st) => .ok {node := some (.seq st l), alias := (r.alias || same) && !(o.prepend && all ≠ [])}
                    | .err c => .err c
                    | .panic c => .panic c
                | _ =>
                  let key := keys.headD ""
                  let values :=
                    if keys = [] then elementPrimitiveValues o.prepend srcs'
                    else elementValues1 o.prepend key srcs'
                  -- with a key, elements whose key text is empty produce the value "" (kept, as in Go:
                  -- `len(s) == 0` tests the slice, not the string)
                  let destItems := itemsOf (some dest0)
                  match setAssocLoop o same' (rec' same' path) key srcs' values destItems [] with
                  | .err c => .err c
                  | .panic c => .panic c
                  | .ok (d1, added) =>
                    let fin : Out (List Node × Nat) :=
                      if values = [] then .ok (d1, dest0.style)
                      else if o.prepend then
                        (match appendListItems key added d1 with
                          | .ok l => .ok (l, 0)
                          | .err c => .err c
                          | .panic c => .panic c)
                      else
                        (match appendListItems key d1 added with
                          | .ok l => .ok (l, dest0.style)
                          | .err c => .err c
                          | .panic c => .panic c)
                    match fin with
                    | .ok (l, st) => .ok {node := some (.seq st l), alias := (r.alias || same) && !(o.prepend && values ≠ [])}
                    | .err c => .err c
                    | .panic c => .panic c

/-! ### merge2.Merger -/

inductive Smp where
  | merge | replace | delete
  deriving DecidableEq, Repr

/-- `determineSmpDirective` with elision: returns the directive and the elided patch -/
def smpDirective : Option Node → Out (Smp × Option Node)
  | none => .ok (.merge, none)
  | some (.map s fs) =>
    match fieldGet "$patch" fs with
    | none => .ok (.merge, some (.map s fs))
    | some v =>
      if v.isNull then .ok (.merge, some (.map s fs))  -- FieldMatcher returns the null node; its Value decides below
      else
        let el := some (Node.map s (fieldErase "$patch" fs))
        if v.valueText = "delete" then .ok (.delete, el)
        else if v.valueText = "replace" then .ok (.replace, el)
        else if v.valueText = "merge" then .ok (.merge, el)
        else .err "directive"
  | some (.seq s is) =>
    -- first map element having a `$patch` field; it is the list's directive only if it has a single pair
    match is.find? (fun e => match e with | .map _ fs => (fieldGet "$patch" fs).isSome && !e.isNull | _ => false) with
    | some (.map _ fs) =>
      if fs.length > 1 then .ok (.merge, some (.seq s is))
      else
        match fieldGet "$patch" fs with
        | some v =>
          if v.isNull then .ok (.merge, some (.seq s is)) else
          let v := v.valueText
          let elide : Out (Option Node) :=
            match elementSetter ["$patch"] [v] none (.seq s is) with
            | .ok (n, _) => .ok (some n)
            | .err c => .err c
            | .panic c => .panic c
          if v = "delete" then (match elide with | .ok p => .ok (.delete, p) | .err c => .err c | .panic c => .panic c)
          else if v = "replace" then (match elide with | .ok p => .ok (.replace, p) | .err c => .err c | .panic c => .panic c)
          else if v = "merge" then (match elide with | .ok p => .ok (.merge, p) | .err c => .err c | .panic c => .panic c)
          else .err "directive"
        | none => .ok (.merge, some (.seq s is))
    | _ => .ok (.merge, some (.seq s is))
  | some (.scalar ..) => .err "directive"

/-- `Merger.SetStyle`: an EMPTY destination collection takes the patch's style -/
def setStyle (dest origin : Option Node) : Option Node :=
  match dest, origin with
  | some d, some og =>
    match d with
    | .scalar .. => some d
    | _ => if d.contentLen = 0 then some (d.withStyle og.style) else some d
  | d, _ => d

def src1 (s : Sources) : Option Node := (s.drop 1).headD none
def src2 (s : Sources) : Option Node := (s.drop 2).headD none
def dst (s : Sources) : Option Node := s.headD none

def withOrigin (s : Sources) (og : Option Node) : Sources := (s.take 1) ++ [og] ++ s.drop 2

def merger : Visitor where
  visitMap := fun same s =>
    let d := setStyle (dst s) (src1 s)
    let s := d :: s.tail
    let og := src1 s
    if isMissingOrNull d then
      match smpDirective og with
      | .ok (.delete, og') => .ok ⟨none, false, withOrigin s og', false, false⟩
      | .ok (_, og') =>
        match og, d with
        | none, some dn => if dn.valueText.length > 0 then .ok ⟨some (.scalar "!!null" dn.valueText 0), true, withOrigin s og', false, false⟩
                           else .ok ⟨og', false, withOrigin s og', false, true⟩
        | _, _ => .ok ⟨og', false, withOrigin s og', false, true⟩
      | .err _ => .ok ⟨og, false, s, false, false⟩     -- `ps, _ :=` discards the error
      | .panic c => .panic c
    else if (match og with | some n => n.isNull | none => false) then .ok ⟨none, false, s, false, false⟩
    else
      match smpDirective og with
      | .ok (.delete, og') => .ok ⟨none, false, withOrigin s og', false, false⟩
      | .ok (.replace, og') => .ok ⟨og', false, withOrigin s og', false, true⟩
      | .ok (.merge, og') => .ok ⟨if same then og' else d, false, withOrigin s og', true, false⟩
      | .err c => .err c
      | .panic c => .panic c
  visitScalar := fun _ s =>
    match src1 s with
    | some og => .ok ⟨some og, false, s, false, false⟩
    | none => .ok ⟨dst s, false, s, true, false⟩
  visitList := fun same s assoc =>
    let d := setStyle (dst s) (src1 s)
    let s := d :: s.tail
    let og := src1 s
    if !assoc then
      match og with
      | some n => .ok ⟨some n, false, s, false, false⟩
      | none => .ok ⟨d, false, s, true, false⟩
    else if isMissingOrNull d then .ok ⟨og, false, s, false, true⟩
    else if (match og with | some n => n.isNull | none => false) then .ok ⟨none, false, s, false, false⟩
    else
      match smpDirective og with
      | .ok (.delete, og') => .ok ⟨none, false, withOrigin s og', false, false⟩
      | .ok (.replace, og') => .ok ⟨og', false, withOrigin s og', false, true⟩
      | .ok (.merge, og') => .ok ⟨if same then og' else d, false, withOrigin s og', true, false⟩
      | .err c => .err c
      | .panic c => .panic c

/-- `merge2.Merge(src, dest, opts)` -/
def merge2 (o : Opts) (keysTbl : List String) (sch : Schema) (fuel : Nat) (patch dest : Option Node) :
    Out (Option Node) :=
  match walk merger o keysTbl sch fuel false [] [dest, patch] with
  | .ok w => .ok w.node
  | .err c => .err c
  | .panic c => .panic c

/-! ### merge3.Visitor -/

def isTaggedNull : Option Node → Bool
  | some n => n.isNull
  | none => false

/-- merge3 visitor; `ser a b` = "the serialised texts of a and b are equal" (third-party emitter) -/
def visitor3 (ser : Option Node → Option Node → Bool) : Visitor where
  visitMap := fun _ s =>
    if isTaggedNull (src2 s) || isTaggedNull (dst s) then .ok ⟨none, false, s, false, false⟩
    else if (dst s).isNone && (src2 s).isNone then .ok ⟨none, false, s, false, false⟩
    else if (dst s).isNone then .ok ⟨some (.map 0 []), false, s, false, false⟩
    else .ok ⟨dst s, false, s, true, false⟩
  visitScalar := fun _ s =>
    let d := dst s; let og := src1 s; let u := src2 s
    if isTaggedNull u || isTaggedNull d then .ok ⟨none, false, s, false, false⟩
    else if isMissingOrNull u != isMissingOrNull og then .ok ⟨u, false, s, false, false⟩
    else if isMissingOrNull u && isMissingOrNull og then .ok ⟨d, false, s, true, false⟩
    else if (d.isNone || ser d og) && !ser og u then .ok ⟨u, false, s, false, false⟩
    else if (u.map Node.valueText) != (og.map Node.valueText) then .ok ⟨u, false, s, false, false⟩
    else .ok ⟨d, false, s, true, false⟩
  visitList := fun _ s assoc =>
    let d := dst s; let og := src1 s; let u := src2 s
    if assoc then
      if isMissingOrNull u && !isMissingOrNull og then .ok ⟨none, false, s, false, false⟩
      else if isMissingOrNull d then .ok ⟨some (.seq 0 []), false, s, false, false⟩
      else .ok ⟨d, false, s, true, false⟩
    else
      if isTaggedNull u || isTaggedNull d then .ok ⟨none, false, s, false, false⟩
      else if isMissingOrNull u != isMissingOrNull og then .ok ⟨u, false, s, false, false⟩
      else if isMissingOrNull u && isMissingOrNull og then .ok ⟨d, false, s, true, false⟩
      else if !ser u og then .ok ⟨u, false, s, false, false⟩
      else .ok ⟨d, false, s, true, false⟩

/-- `merge3.Merge(dest, original, update)` -/
def merge3 (ser : Option Node → Option Node → Bool) (o : Opts) (keysTbl : List String) (fuel : Nat)
    (dest orig upd : Option Node) : Out (Option Node) :=
  match walk (visitor3 ser) o keysTbl (fun _ => none) fuel false [] [dest, orig, upd] with
  | .ok w => .ok w.node
  | .err c => .err c
  | .panic c => .panic c

end Walk
end Kust
