/-
  C14 (PathMatcher clause) — "the slash-separated field-spec paths … visit exactly the nodes that a reference
  interpretation of the path denotes", for the fanning-out matcher of kyaml/yaml/match.go (replacement targets).
  Theorems about the model `Kust.Match.pathMatch`, tied to `yaml.PathMatcher` by the correspondence `match.path`.
  `hit` (Go regexp on the serialised scalar) and `ns` are parameters of every statement.
-/
import Kust.Lemmas.Match3
namespace Kust.C14
open Kust Node Fns Kust.Match

/-- **a matcher that does not create never changes the document** — for every path (selectors, indices, `*`, empty
    parts included), every document and every behaviour of the regular-expression test -/
theorem match_nocreate_doc (hit : String → Node → Out Bool) (ns : String → Bool) :
    ∀ (p : List String) (d d' : Node) (ps : List Pos), pathMatch hit ns 0 p d = .ok (d', ps) → d' = d := by
  intro p
  induction p with
  | nil => intro d d' ps h; simp [pathMatch] at h; exact h.1.symm
  | cons part rest ih =>
    intro d d' ps h
    have hrec : ∀ e e' qs, pathMatch hit ns 0 rest e = .ok (e', qs) → e' = e := fun e e' qs hh => ih e e' qs hh
    unfold pathMatch at h
    simp only at h
    split at h
    · exact matchIdx_id _ hrec _ _ _ _ _ h
    · split at h
      · exact matchSel_id hit _ hrec _ _ _ _ h
      · split at h
        · exact matchStar_id _ hrec _ _ _ h
        · split at h
          · exact matchEmpty_id _ hrec _ _ _ h
          · rename_i hne
            exact matchField_id ns _ hrec _ _ hne _ _ _ h

/-- **the matcher visits exactly the nodes the reference interpretation denotes.** Without creation, for every path
    free of empty parts and every document: when `PathMatcher` returns, the positions it reports — in order — are
    those of `Match.denote`, the plain reading of the path (fields descend, an index picks one element, `[k=v]`
    filters by the field, `[=v]` by the element itself, `*` takes every element). -/
theorem match_denotes (hitB : String → Node → Bool) (ns : String → Bool) :
    ∀ (p : List String), "" ∉ p → ∀ (d d' : Node) (ps : List Pos),
      pathMatch (fun a b => .ok (hitB a b)) ns 0 p d = .ok (d', ps) → ps = denote hitB p d := by
  intro p
  induction p with
  | nil => intro _ d d' ps h; simp [pathMatch] at h; simp [denote, h.2]
  | cons part rest ih =>
    intro hp d d' ps h
    have hpart : part ≠ "" := fun e => hp (by simp [e])
    have hrest : "" ∉ rest := fun e => hp (by simp [e])
    have hrec : ∀ e e' qs, pathMatch (fun a b => .ok (hitB a b)) ns 0 rest e = .ok (e', qs) → qs = denote hitB rest e :=
      fun e e' qs hh => ih hrest e e' qs hh
    unfold pathMatch at h
    unfold denote
    simp only at h
    split at h
    · rename_i h1; rw [if_pos h1]; exact matchIdx_den _ _ hrec _ _ _ _ _ h
    · rename_i h1; rw [if_neg h1]
      split at h
      · rename_i h2; rw [if_pos h2]; exact matchSel_den hitB _ _ hrec _ _ _ _ h
      · rename_i h2; rw [if_neg h2]
        split at h
        · rename_i h3; rw [if_pos h3]; exact matchStar_den _ _ hrec _ _ _ h
        · rename_i h3; rw [if_neg h3]
          exact matchField_den ns _ _ hrec _ _ hpart _ _ _ h

theorem denoteElems_resolves (sel : Node → Bool) (sub : Node → List Pos)
    (hsub : ∀ e, ∀ q ∈ sub e, (getAt q e).isSome) (s : Nat) (js : List Node) :
    ∀ (is : List Node) (i : Nat), (∀ k, is[k]? = js[i + k]?) →
      ∀ pos ∈ denoteElems sel sub i is, (getAt pos (.seq s js)).isSome := by
  intro is
  induction is with
  | nil => intro i _ pos h; simp [denoteElems] at h
  | cons e es ihe =>
    intro i hk pos h
    simp only [denoteElems, List.mem_append] at h
    rcases h with h | h
    · split at h
      · simp at h
        obtain ⟨q, hq, e1⟩ := h
        subst e1
        have := hk 0
        simp at this
        simp only [getAt, ← this, Option.bind_some]
        exact hsub e q hq
      · simp at h
    · apply ihe (i + 1) _ pos h
      intro k
      have := hk (k + 1)
      simp at this
      rw [this]; congr 1; omega

/-- positions reported without creation resolve in the document: every denoted position addresses a node -/
theorem denote_resolves (hitB : String → Node → Bool) :
    ∀ (p : List String) (d : Node), ∀ pos ∈ denote hitB p d, (getAt pos d).isSome := by
  intro p
  induction p with
  | nil => intro d pos h; simp [denote] at h; subst h; simp [getAt]
  | cons part rest ih =>
    intro d pos h
    unfold denote at h
    split at h
    · -- index
      cases d with
      | seq s is =>
        cases hi : atoi? part with
        | none => simp [denoteIdx, hi] at h
        | some i =>
          simp only [denoteIdx, hi] at h
          cases he : is[i.toNat]? with
          | none => simp [he] at h
          | some e =>
            simp [he] at h
            obtain ⟨q, hq, e1⟩ := h
            subst e1
            simp only [getAt, he, Option.bind_some]
            exact ih e q hq
      | scalar t v st => cases hi : atoi? part <;> simp [denoteIdx, hi] at h
      | map s fs => cases hi : atoi? part <;> simp [denoteIdx, hi] at h
    · split at h
      · -- selector
        unfold denoteSel at h
        split at h
        · rename_i _ k pat s is _
          split at h
          · exact denoteElems_resolves _ _ (by intro e q hq; simp at hq; subst hq; simp [getAt]) s is is 0 (by simp) pos h
          · exact denoteElems_resolves _ _ (fun e q hq => ih e q hq) s is is 0 (by simp) pos h
        · simp at h
      · split at h
        · -- star
          cases d with
          | seq s is =>
            simp only [denoteStar] at h
            exact denoteElems_resolves _ _ (fun e q hq => ih e q hq) s is is 0 (by simp) pos h
          | scalar t v st => simp [denoteStar] at h
          | map s fs => simp [denoteStar] at h
        · -- field
          cases d with
          | map s fs =>
            simp only [denoteField] at h
            cases hx : fieldGet part fs with
            | none => simp [hx] at h
            | some x =>
              simp [hx] at h
              obtain ⟨q, hq, e1⟩ := h
              subst e1
              simp only [getAt, hx, Option.bind_some]
              exact ih x q hq
          | scalar t v st => simp [denoteField] at h
          | seq s is => simp [denoteField] at h

/-- … hence so do the positions the matcher reports (no creation, no empty parts) -/
theorem match_positions_resolve (hitB : String → Node → Bool) (ns : String → Bool) (p : List String) (hp : "" ∉ p)
    (d d' : Node) (ps : List Pos) (h : pathMatch (fun a b => .ok (hitB a b)) ns 0 p d = .ok (d', ps)) :
    ∀ pos ∈ ps, (getAt pos d').isSome := by
  have h1 := match_nocreate_doc _ ns p d d' ps h
  have h2 := match_denotes hitB ns p hp d d' ps h
  subst h1; subst h2
  exact denote_resolves hitB p d'

/-- the premises are satisfiable, the fan-out is real: `[name=a]` selects both `a` and `ab` (the pattern is an
    unanchored test), `*` every element -/
example :
    let hitB : String → Node → Bool := fun pat n => match n with
      | .scalar _ v _ => (v = pat) || (v = "ab" && pat = "a")
      | _ => false
    let doc : Node := .map 0 [("items", .seq 0 [
      .map 0 [("name", .scalar "!!str" "a" 0), ("v", .scalar "!!int" "1" 0)],
      .map 0 [("name", .scalar "!!str" "b" 0), ("v", .scalar "!!int" "2" 0)],
      .map 0 [("name", .scalar "!!str" "ab" 0), ("v", .scalar "!!int" "3" 0)]])]
    pathMatch (fun a b => .ok (hitB a b)) (fun _ => false) 0 ["items", "[name=a]", "v"] doc
        = .ok (doc, [[.key "items", .idx 0, .key "v"], [.key "items", .idx 2, .key "v"]]) ∧
      denote hitB ["items", "*", "v"] doc
        = [[.key "items", .idx 0, .key "v"], [.key "items", .idx 1, .key "v"], [.key "items", .idx 2, .key "v"]] := by
  decide


/-- **every position the matcher reports addresses a node of the document it returns** — with creation or without,
    for every path without empty parts, every document, every creation kind and every behaviour of the
    regular-expression test (the replacement filter then writes at exactly these positions) -/
theorem match_positions_resolve_create (hit : String → Node → Out Bool) (ns : String → Bool) (c : Nat)
    (p : List String) (hp : "" ∉ p) (d d' : Node) (ps : List Pos) (h : pathMatch hit ns c p d = .ok (d', ps)) :
    ∀ pos ∈ ps, (getAt pos d').isSome :=
  pathMatch_resolves hit ns c p hp d d' ps h

/-- creation is exercised: `[name=new]` on a list without such an element appends `{name: new}` and reports it -/
example : pathMatch (fun pat n => .ok (match n with | .scalar _ v _ => v = pat | _ => false)) (fun _ => false) 1
    ["items", "[name=new]", "v"] (.map 0 [("items", .seq 0 [.map 0 [("name", .scalar "!!str" "a" 0)]])])
    = .ok (.map 0 [("items", .seq 0 [.map 0 [("name", .scalar "!!str" "a" 0)],
              .map 0 [("name", .scalar "" "new" 0), ("v", .scalar "" "" 0)]])],
           [[.key "items", .idx 1, .key "v"]]) := by decide

end Kust.C14
