/-
  C14 (put-get with creation, field-spec filter) — "a field-spec path … with create: after the write, the path resolves to
  the written value".  Theorem about `Kust.FieldSpec.filter` with creation of a scalar along a path of plain field names
  through mappings; tied by the correspondences `fieldspec.apply` and `ns.filter`.
-/
import Kust.Lemmas.NsFilter
namespace Kust.C14
open Kust Node Fns NsFilter

/-- a plain path segment: no `[]` hint, not empty, survives cleaning, is classified as a field -/
structure PlainSeg (seg : String) : Prop where
  noHint : FieldSpec.seqField seg = (seg, false)
  nonEmpty : seg ≠ ""
  plain : Plain seg
  field : classify (trimSpace seg) = .ok (.field seg)

/-- read along field names -/
def getP : List String → Node → Option Node
  | [], n => some n
  | k :: r, .map _ fs => (fieldGet k fs).bind (getP r)
  | _ :: _, _ => none

/-- the document is made of mappings along the part of the path that exists -/
def MapsAlong : List String → Node → Prop
  | [], _ => True
  | [_], .map _ _ => True
  | k :: k2 :: r, .map _ fs =>
    match fieldGet k fs with
    | none => True
    | some x => (∃ s' fs', x = .map s' fs') ∧ MapsAlong (k2 :: r) x
  | _ :: _, _ => False

theorem lookup_create_map (q : String → Bool) (name : String) (hp : Plain name) (s : Nat) (fs : Fields)
    (h : fieldGet name fs = none) :
    lookup q 2 0 [name] (.map s fs) = .ok (.map s (fs ++ [(name, .map 0 [])]), some (.map 0 [])) := by
  unfold lookup
  rw [hp.clean]
  simp only [pathGet, hp.field, isNull, Bool.false_eq_true, if_false, h]
  have : partKind "" 2 = 2 := by decide
  simp [this, emptyOfKind]

/-- an intermediate step through an absent field: an empty mapping is created and the traversal goes on inside it -/
theorem filter_create_mid (q : String → Bool) (set : Node → Out Node) (tag : String) (f : Nat)
    (seg k2 : String) (rest : List String) (s : Nat) (fs : Fields) (hs : PlainSeg seg) (hx : fieldGet seg fs = none) :
    FieldSpec.filter q set true ⟨1, tag⟩ (f + 1) (seg :: k2 :: rest) (.map s fs) =
      match FieldSpec.filter q set true ⟨1, tag⟩ f (k2 :: rest) (.map 0 []) with
      | .ok x' => .ok (.map s (fieldReplace seg x' (fs ++ [(seg, .map 0 [])])))
      | .err e => .err e
      | .panic e => .panic e := by
  rw [FieldSpec.filter]
  simp only [isNull, Bool.false_eq_true, if_false, hs.noHint, hs.nonEmpty]
  have hl : pathGet q 2 0 (cleanPath [seg]) (.map s fs) = .ok (.map s (fs ++ [(seg, .map 0 [])]), some (.map 0 [])) := by
    have := lookup_create_map q seg hs.plain s fs hx
    unfold lookup at this
    exact this
  have hr : FieldSpec.retype 2 "!!map" (.map 0 []) = .map 0 [] := by simp [FieldSpec.retype, isNull]
  simp only [Bool.not_true, Bool.false_or, show ((1 : Nat) = 0) = False by simp, decide_false, Bool.false_eq_true, if_false,
    show ((k2 :: rest) = ([] : List String)) = False by simp, hl, hr, hs.field]
  split <;> simp_all

/-- **put-get with creation**: for every path of plain field names, every document made of mappings along the existing part
    of the path and every setter — when the filter with `create` returns, the setter was applied to ONE node (the existing
    field, or a fresh empty scalar below freshly created mappings) and reading the path in the result yields what it returned -/
theorem filter_create_get (q : String → Bool) (set : Node → Out Node) (tag : String) :
    ∀ (path : List String), path ≠ [] → (∀ seg ∈ path, PlainSeg seg) → ∀ (doc doc' : Node) (f : Nat), f ≥ path.length + 1 →
      MapsAlong path doc → FieldSpec.filter q set true ⟨1, tag⟩ f path doc = .ok doc' →
      ∃ n0 v, set n0 = .ok v ∧ getP path doc' = some v := by
  intro path
  induction path with
  | nil => intro h; exact absurd rfl h
  | cons k r ih =>
    intro _ hall doc doc' f hf hm h
    have hk : PlainSeg k := hall k (by simp)
    obtain ⟨f', rfl⟩ : ∃ f', f = f' + 1 := ⟨f - 1, by simp at hf; omega⟩
    cases r with
    | nil =>
      -- last segment
      cases doc with
      | scalar t v st => simp [MapsAlong] at hm
      | seq s is => simp [MapsAlong] at hm
      | map s fs =>
        cases hx : fieldGet k fs with
        | some x =>
          rw [filter_step q set true ⟨1, tag⟩ f' k [] s fs x hk.noHint hk.nonEmpty hk.plain hk.field hx] at h
          obtain ⟨f'', rfl⟩ : ∃ f'', f' = f'' + 1 := ⟨f' - 1, by simp at hf; omega⟩
          rw [filter_nil] at h
          simp only [Bool.not_true, Bool.false_or, show ((1 : Nat) = 0) = False by simp, decide_false, Bool.false_eq_true, if_false, if_true] at h
          cases hs : set (FieldSpec.retype 1 tag x) with
          | ok v =>
            simp only [hs] at h
            simp at h; subst h
            refine ⟨_, v, hs, ?_⟩
            simp [getP, fieldGet_replace_same k v fs x hx]
          | err e => simp [hs] at h
          | panic e => simp [hs] at h
        | none =>
          obtain ⟨f'', rfl⟩ : ∃ f'', f' = f'' + 1 := ⟨f' - 1, by simp at hf; omega⟩
          rw [filter_create_last q set tag f'' k s fs hk.noHint hk.nonEmpty hk.plain hk.field hx] at h
          cases hs : set (.scalar "" "" 0) with
          | ok v =>
            simp only [hs] at h
            simp at h; subst h
            refine ⟨_, v, hs, ?_⟩
            simp [getP, fieldGet_replace_same k v _ _ (fieldGet_append_absent k (.scalar "" "" 0) fs hx)]
          | err e => simp [hs] at h
          | panic e => simp [hs] at h
    | cons k2 r' =>
      have hall' : ∀ seg ∈ k2 :: r', PlainSeg seg := fun seg hseg => hall seg (by simp [hseg])
      cases doc with
      | scalar t v st => simp [MapsAlong] at hm
      | seq s is => simp [MapsAlong] at hm
      | map s fs =>
        cases hx : fieldGet k fs with
        | some x =>
          simp only [MapsAlong, hx] at hm
          obtain ⟨⟨s', fs', ex⟩, hm'⟩ := hm
          rw [filter_step q set true ⟨1, tag⟩ f' k (k2 :: r') s fs x hk.noHint hk.nonEmpty hk.plain hk.field hx] at h
          simp only [Bool.not_true, Bool.false_or, show ((1 : Nat) = 0) = False by simp, decide_false, Bool.false_eq_true, if_false,
            show ((k2 :: r') = ([] : List String)) = False by simp] at h
          have hrt : FieldSpec.retype 2 "!!map" x = x := by
            subst ex
            simp [FieldSpec.retype, isNull]
          rw [hrt] at h
          cases hi : FieldSpec.filter q set true ⟨1, tag⟩ f' (k2 :: r') x with
          | ok x' =>
            simp only [hi] at h
            simp at h; subst h
            obtain ⟨n0, v, h1, h2⟩ := ih (by simp) hall' x x' f' (by simp at hf ⊢; omega) hm' hi
            refine ⟨n0, v, h1, ?_⟩
            simp [getP, fieldGet_replace_same k x' fs x hx, h2]
          | err e => simp [hi] at h
          | panic e => simp [hi] at h
        | none =>
          rw [filter_create_mid q set tag f' k k2 r' s fs hk hx] at h
          cases hi : FieldSpec.filter q set true ⟨1, tag⟩ f' (k2 :: r') (.map 0 []) with
          | ok x' =>
            simp only [hi] at h
            simp at h; subst h
            have hm0 : MapsAlong (k2 :: r') (.map 0 []) := by
              cases r' with
              | nil => simp [MapsAlong]
              | cons a b => simp [MapsAlong]
            obtain ⟨n0, v, h1, h2⟩ := ih (by simp) hall' (.map 0 []) x' f' (by simp at hf ⊢; omega) hm0 hi
            refine ⟨n0, v, h1, ?_⟩
            simp [getP, fieldGet_replace_same k x' _ _ (fieldGet_append_absent k (.map 0 []) fs hx), h2]
          | err e => simp [hi] at h
          | panic e => simp [hi] at h

/-- the premises are satisfiable: `metadata`, `namespace`, `spec`, `replicas` are plain segments … -/
theorem plainSeg_examples : PlainSeg "metadata" ∧ PlainSeg "namespace" ∧ PlainSeg "spec" ∧ PlainSeg "replicas" := by
  refine ⟨⟨?_, ?_, ⟨?_, ?_⟩, ?_⟩, ⟨?_, ?_, ⟨?_, ?_⟩, ?_⟩, ⟨?_, ?_, ⟨?_, ?_⟩, ?_⟩, ⟨?_, ?_, ⟨?_, ?_⟩, ?_⟩⟩ <;> decide

/-- … and creation through two absent levels is exercised -/
example : FieldSpec.filter (fun _ => false) (fun _ => .ok (.scalar "!!str" "prod" 0)) true ⟨1, ""⟩ 5 ["metadata", "namespace"]
    (.map 0 [("kind", .scalar "!!str" "X" 0)])
    = .ok (.map 0 [("kind", .scalar "!!str" "X" 0), ("metadata", .map 0 [("namespace", .scalar "!!str" "prod" 0)])]) := by decide

end Kust.C14
