/-
  C10 (selector clause) — "A patch with a target selector is applied to precisely the resources whose group, version,
  kind, name and namespace fully match the selector's patterns and whose labels/annotations satisfy its selectors".
  Theorems about `Kust.Select.select`, the model of resWrangler.Select + SelectorRegex, tied by the correspondence
  `resmap.select`.  `hit` (Go's regexp on the anchored pattern), `bad` (patterns that do not compile) and `cs`
  (cluster scope) are parameters of every statement.
-/
import Kust.Select
namespace Kust.C10
open Kust Res Select

theorem loop_filter (cs : Gvk → Bool) (hit : String → String → Bool) (s : Sel) (lq aq : List Req)
    (hl : s.lsel = some lq) (ha : s.asel = some aq) :
    ∀ rs : List SRes, loop cs hit s rs = .ok (rs.filter (designated cs hit s lq aq)) := by
  intro rs
  induction rs with
  | nil => rfl
  | cons x xs ih =>
    simp only [loop, hl, ha, List.filter, designated]
    cases h1 : idSelected cs hit s x.c with
    | false => simp [ih]
    | true =>
      cases h2 : lq.all (reqMatches x.labels) with
      | false => simp [ih]
      | true =>
        cases h3 : aq.all (reqMatches x.annos) with
        | false => simp [ih]
        | true => simp [ih]

/-- **a selector designates precisely the matching resources, in their order**: with patterns that compile and
    selectors that parse, `Select` returns exactly the resources that pass all sieves — namespace, name, group,
    version, kind, label requirements, annotation requirements — and keeps the order of the resource map -/
theorem select_designates (cs : Gvk → Bool) (hit : String → String → Bool) (bad : String → Bool) (s : Sel) (lq aq : List Req)
    (hl : s.lsel = some lq) (ha : s.asel = some aq)
    (hb : ∀ p ∈ [s.group, s.version, s.kind, s.name, s.ns], p ≠ "" → bad p = false) (rs : List SRes) :
    select cs hit bad s rs = .ok (rs.filter (designated cs hit s lq aq)) := by
  unfold select
  have : [s.group, s.version, s.kind, s.name, s.ns].any (fun p => p ≠ "" && bad p) = false := by
    apply List.any_eq_false.mpr
    intro p hp
    by_cases he : p = ""
    · simp [he]
    · simp [he, hb p hp he]
  rw [this]
  exact loop_filter cs hit s lq aq hl ha rs

theorem select_mem (cs : Gvk → Bool) (hit : String → String → Bool) (bad : String → Bool) (s : Sel) (lq aq : List Req)
    (hl : s.lsel = some lq) (ha : s.asel = some aq)
    (hb : ∀ p ∈ [s.group, s.version, s.kind, s.name, s.ns], p ≠ "" → bad p = false) (rs out : List SRes)
    (h : select cs hit bad s rs = .ok out) (x : SRes) :
    x ∈ out ↔ x ∈ rs ∧ designated cs hit s lq aq x = true := by
  rw [select_designates cs hit bad s lq aq hl ha hb rs] at h
  simp at h; subst h
  simp [List.mem_filter]

theorem select_sublist (cs : Gvk → Bool) (hit : String → String → Bool) (bad : String → Bool) (s : Sel) (lq aq : List Req)
    (hl : s.lsel = some lq) (ha : s.asel = some aq)
    (hb : ∀ p ∈ [s.group, s.version, s.kind, s.name, s.ns], p ≠ "" → bad p = false) (rs out : List SRes)
    (h : select cs hit bad s rs = .ok out) : out.Sublist rs := by
  rw [select_designates cs hit bad s lq aq hl ha hb rs] at h
  simp at h; subst h
  exact List.filter_sublist

/-- **name and namespace are matched independently, each against the original OR the current value**: a resource that
    a lower layer renamed and moved is designated by a selector that spells its ORIGINAL name and its CURRENT namespace
    (or the other way round) -/
theorem mixed_original_and_current (cs : Gvk → Bool) (hit : String → String → Bool) (s : Sel) (c : Nameref.C)
    (hname : pat hit s.name (C.org c).name = true ∨ pat hit s.name c.cur.name = true)
    (hns : pat hit s.ns (effNs cs (C.org c)) = true ∨ pat hit s.ns (effNs cs c.cur) = true)
    (hg : pat hit s.group c.cur.gvk.group = true) (hv : pat hit s.version c.cur.gvk.version = true)
    (hk : pat hit s.kind c.cur.gvk.kind = true) : idSelected cs hit s c = true := by
  unfold idSelected
  have h1 : (pat hit s.ns (effNs cs (C.org c)) || pat hit s.ns (effNs cs c.cur)) = true := by
    rcases hns with h | h <;> simp [h]
  have h2 : (pat hit s.name (C.org c).name || pat hit s.name c.cur.name) = true := by
    rcases hname with h | h <;> simp [h]
  simp [h1, h2, hg, hv, hk]

/-- … and a resource none of whose names the pattern matches is never designated -/
theorem name_mismatch_excluded (cs : Gvk → Bool) (hit : String → String → Bool) (s : Sel) (lq aq : List Req) (x : SRes)
    (h1 : pat hit s.name (C.org x.c).name = false) (h2 : pat hit s.name x.c.cur.name = false) :
    designated cs hit s lq aq x = false := by
  simp [designated, idSelected, h1, h2]

theorem kind_mismatch_excluded (cs : Gvk → Bool) (hit : String → String → Bool) (s : Sel) (lq aq : List Req) (x : SRes)
    (h : pat hit s.kind x.c.cur.gvk.kind = false) : designated cs hit s lq aq x = false := by
  simp [designated, idSelected, h]

/-- the empty selector designates everything -/
theorem empty_selector_selects_all (cs : Gvk → Bool) (hit : String → String → Bool) (x : SRes) :
    designated cs hit ⟨"", "", "", "", "", some [], some []⟩ [] [] x = true := by
  simp [designated, idSelected, pat]

/-- a pattern that does not compile is an error before any resource is looked at -/
theorem bad_pattern_is_error (cs : Gvk → Bool) (hit : String → String → Bool) (bad : String → Bool) (s : Sel) (rs : List SRes)
    (p : String) (hp : p ∈ [s.group, s.version, s.kind, s.name, s.ns]) (hne : p ≠ "") (hb : bad p = true) :
    select cs hit bad s rs = .err "regex" := by
  unfold select
  have : [s.group, s.version, s.kind, s.name, s.ns].any (fun p => p ≠ "" && bad p) = true := by
    apply List.any_eq_true.mpr
    exact ⟨p, hp, by simp [hne, hb]⟩
  rw [this]; rfl

/-- a label selector that does not parse is an error exactly when some resource passes the identity sieves -/
theorem unparsable_selector_error_iff_reached (cs : Gvk → Bool) (hit : String → String → Bool) (s : Sel) (hl : s.lsel = none) :
    ∀ rs : List SRes, (loop cs hit s rs = .err "selector" ↔ ∃ x ∈ rs, idSelected cs hit s x.c = true) ∧
      (loop cs hit s rs = .ok [] ↔ ∀ x ∈ rs, idSelected cs hit s x.c = false) := by
  intro rs
  induction rs with
  | nil => simp [loop]
  | cons x xs ih =>
    cases h : idSelected cs hit s x.c with
    | false => simp [loop, h, ih.1, ih.2]
    | true => simp [loop, h, hl]

/-- the premises are satisfiable and the sieves are real: a renamed-and-moved Deployment is designated by its original
    name with its current namespace, a same-named ConfigMap is not (kind), a Deployment of another tier is not (label) -/
example :
    let hit : String → String → Bool := fun p v => p = v
    let dep (n ns : String) : Nameref.C := { cur := ⟨⟨"apps", "v1", "Deployment"⟩, "pre-" ++ n, ns⟩, prev := [⟨⟨"apps", "v1", "Deployment"⟩, n, "default"⟩] }
    let rs : List SRes := [⟨dep "web" "prod", [("tier", "fe")], []⟩, ⟨{ cur := ⟨⟨"", "v1", "ConfigMap"⟩, "web", "prod"⟩ }, [("tier", "fe")], []⟩,
      ⟨dep "web2" "prod", [("tier", "be")], []⟩]
    let s : Sel := ⟨"", "", "Deployment", "web", "prod", some [⟨"tier", .eq, ["fe"]⟩], some []⟩
    select (fun _ => false) hit (fun _ => false) s rs = .ok (rs.take 1) := by
  decide

end Kust.C10
