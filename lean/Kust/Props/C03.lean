/-
  C03 — name references follow every rename.
  What is proved here is the bookkeeping half the reference fixer depends on: every renaming step records the
  previous id BEFORE it renames, so the original name stays findable for any number of layers; the bookkeeping
  never panics on named resources; and the regenerated rule table still contains the rules the property names
  and writes no identity field.  The sieve (`selectReferral`) is exercised by the whole-build edge oracle.
-/
import Kust.Lemmas.Res
import Kust.Gen.FieldSpecs
namespace Kust.C03
open Kust Res

/-- the name under which a resource was loaded, as the reference fixer can recover it -/
def origName (r : R) : String := r.pNames.head?.getD r.name

theorem storePrev_origName (cs : Gvk → Bool) (r : R) (hn : r.name ≠ "") :
    origName (r.storePrev cs) = origName r := by
  unfold origName R.storePrev appendCsv
  simp only [hn, if_false]
  cases r.pNames <;> simp

theorem nsStep_origName (cs : Gvk → Bool) (n : String) (r : R) (h : r.Good) :
    origName (nsStep cs n r) = origName r := by
  have hs := storePrev_origName cs r h.2.1
  have hne : (r.storePrev cs).pNames ≠ [] := by
    simp [R.storePrev, appendCsv, h.2.1]
  unfold nsStep
  split
  · rfl
  · dsimp only
    have key : ∀ (x : R), x.pNames = (r.storePrev cs).pNames → origName x = origName r := by
      intro x hx
      rw [← hs]
      unfold origName
      rw [hx]
      cases hp : (r.storePrev cs).pNames with
      | nil => exact absurd hp hne
      | cons a as => rfl
    split <;> (split <;> exact key _ rfl)

theorem prefixStep_origName (cs : Gvk → Bool) (skip : String → Bool) (p : String) (r r' : R) (h : r.Good)
    (he : prefixStep cs skip p r = .ok r') : origName r' = origName r := by
  unfold prefixStep at he
  split at he
  · split at he
    · simp at he; subst he; rfl
    · simp at he; subst he
      by_cases hp : p = ""
      · subst hp; simp [origName]
      · simp only [ne_eq, hp, not_false_eq_true, if_true]
        have hs := storePrev_origName cs { r with prefixes := appendCsv r.prefixes p } h.2.1
        have hne : (R.storePrev cs { r with prefixes := appendCsv r.prefixes p }).pNames ≠ [] := by
          simp [R.storePrev, appendCsv, h.2.1]
        rw [show origName r = origName { r with prefixes := appendCsv r.prefixes p } from rfl, ← hs]
        unfold origName
        cases hq : (R.storePrev cs { r with prefixes := appendCsv r.prefixes p }).pNames with
        | nil => exact absurd hq hne
        | cons a as => simp [hq]
  · simp at he
  · simp at he

theorem suffixStep_origName (cs : Gvk → Bool) (skip : String → Bool) (s : String) (r r' : R) (h : r.Good)
    (he : suffixStep cs skip s r = .ok r') : origName r' = origName r := by
  unfold suffixStep at he
  split at he
  · split at he
    · simp at he; subst he; rfl
    · simp at he; subst he
      by_cases hp : s = ""
      · subst hp; simp [origName]
      · simp only [ne_eq, hp, not_false_eq_true, if_true]
        have hs := storePrev_origName cs { r with suffixes := appendCsv r.suffixes s } h.2.1
        have hne : (R.storePrev cs { r with suffixes := appendCsv r.suffixes s }).pNames ≠ [] := by
          simp [R.storePrev, appendCsv, h.2.1]
        rw [show origName r = origName { r with suffixes := appendCsv r.suffixes s } from rfl, ← hs]
        unfold origName
        cases hq : (R.storePrev cs { r with suffixes := appendCsv r.suffixes s }).pNames with
        | nil => exact absurd hq hne
        | cons a as => simp [hq]
  · simp at he
  · simp at he

/-- **rename_records**: through any number of layers of namespace / prefix / suffix directives the name under
    which the resource was loaded remains the first recorded name — the reference fixer can always match the
    referrer's (original) field value against it. -/
theorem rename_records (cs : Gvk → Bool) (skip : String → Bool) :
    ∀ (ls : List Layer) (r r' : R), r.Good → layers cs skip ls r = .ok r' → origName r' = origName r
  | [], r, r', _, he => by simp [layers] at he; subst he; rfl
  | l :: ls, r, r', h, he => by
    unfold layers at he
    split at he
    · rename_i r1 h1
      have g1 := layerStep_good cs skip l r r1 h h1
      rw [rename_records cs skip ls r1 r' g1 he]
      unfold layerStep at h1
      split at h1
      · rename_i r0 h0
        have g0 := nsStep_good cs l.ns r h
        rw [suffixStep_origName cs skip l.suf r0 r1 (prefixStep_good cs skip l.pre _ r0 g0 h0) h1,
          prefixStep_origName cs skip l.pre _ r0 g0 h0, nsStep_origName cs l.ns r h]
      · simp at h1
      · simp at h1
    · simp at he
    · simp at he

/-- a freshly loaded resource: its original name is its name -/
theorem fresh_origName (g : Gvk) (n ns : String) : origName { gvk := g, name := n, ns := ns } = n := rfl

/-! ### the regenerated rule table -/

open Gen in
/-- no rule writes an identity field (so fixing one referrer never changes what another one looks up) -/
theorem rules_write_no_identity :
    nameReference.all (fun r => r.fieldSpecs.all (fun f =>
      f.path != "" && f.path != "metadata/name" && f.path != "metadata/namespace" && f.path != "kind" &&
      f.path != "apiVersion")) = true := by decide

open Gen in
def hasRule (referent referrer path : String) : Bool :=
  nameReference.any (fun r => r.kind == referent && r.fieldSpecs.any (fun f => f.kind == referrer && f.path == path))

/-- the rules the property names are in the table the code uses now (pod-spec ConfigMap/Secret references,
    service accounts, volume claims, autoscaler targets, ingress backends, role bindings, StatefulSet services) -/
theorem essential_rules_present :
    ([("ConfigMap", "Deployment", "spec/template/spec/volumes/configMap/name"),
      ("ConfigMap", "Deployment", "spec/template/spec/containers/env/valueFrom/configMapKeyRef/name"),
      ("ConfigMap", "Deployment", "spec/template/spec/containers/envFrom/configMapRef/name"),
      ("ConfigMap", "StatefulSet", "spec/template/spec/volumes/configMap/name"),
      ("ConfigMap", "DaemonSet", "spec/template/spec/volumes/configMap/name"),
      ("ConfigMap", "Job", "spec/template/spec/volumes/configMap/name"),
      ("ConfigMap", "CronJob", "spec/jobTemplate/spec/template/spec/volumes/configMap/name"),
      ("ConfigMap", "Pod", "spec/volumes/configMap/name"),
      ("ConfigMap", "Pod", "spec/containers/env/valueFrom/configMapKeyRef/name"),
      ("Secret", "Deployment", "spec/template/spec/volumes/secret/secretName"),
      ("Secret", "Deployment", "spec/template/spec/containers/env/valueFrom/secretKeyRef/name"),
      ("Secret", "Deployment", "spec/template/spec/containers/envFrom/secretRef/name"),
      ("Secret", "Deployment", "spec/template/spec/imagePullSecrets/name"),
      ("Secret", "StatefulSet", "spec/template/spec/volumes/secret/secretName"),
      ("Secret", "Pod", "spec/volumes/secret/secretName"),
      ("Secret", "CronJob", "spec/jobTemplate/spec/template/spec/volumes/secret/secretName"),
      ("ServiceAccount", "Deployment", "spec/template/spec/serviceAccountName"),
      ("ServiceAccount", "Pod", "spec/serviceAccountName"),
      ("ServiceAccount", "RoleBinding", "subjects"),
      ("ServiceAccount", "ClusterRoleBinding", "subjects"),
      ("PersistentVolumeClaim", "Deployment", "spec/template/spec/volumes/persistentVolumeClaim/claimName"),
      ("PersistentVolumeClaim", "StatefulSet", "spec/template/spec/volumes/persistentVolumeClaim/claimName"),
      ("PersistentVolumeClaim", "Pod", "spec/volumes/persistentVolumeClaim/claimName"),
      ("Deployment", "HorizontalPodAutoscaler", "spec/scaleTargetRef/name"),
      ("StatefulSet", "HorizontalPodAutoscaler", "spec/scaleTargetRef/name"),
      ("Service", "Ingress", "spec/rules/http/paths/backend/service/name"),
      ("Service", "StatefulSet", "spec/serviceName"),
      ("Role", "RoleBinding", "roleRef/name"),
      ("ClusterRole", "RoleBinding", "roleRef/name"),
      ("ClusterRole", "ClusterRoleBinding", "roleRef/name")] : List (String × String × String)).all
        (fun e => hasRule e.1 e.2.1 e.2.2) = true := by decide

end Kust.C03
