/-
  C10 — directives change exactly what they select (images part proved; selectors/replicas/replacements by oracle).
-/
import Kust.Image
namespace Kust.C10
open Kust Image

theorem stripPrefix_iff (p s r : List Char) : stripPrefix p s = some r ↔ s = p ++ r := by
  induction p generalizing s with
  | nil => simp [stripPrefix, eq_comm]
  | cons a p ih =>
    cases s with
    | nil => simp [stripPrefix]
    | cons b s =>
      by_cases h : a = b
      · subst h; simp [stripPrefix, ih]
      · simp [stripPrefix, h]
        intro hba; exact absurd hba.symm h

/-- **image_match_exact**: an image reference is matched by an entry named `t` exactly when it is `t` followed by
    an optional `:tag` and an optional `@sha256:digest` — `t` is compared literally, character by character. -/
theorem image_match_exact (s t : String) :
    isImageMatched s t = true ↔ ∃ r, s.toList = t.toList ++ r ∧ matchRest r = true := by
  unfold isImageMatched
  constructor
  · intro h
    cases hp : stripPrefix t.toList s.toList with
    | none => simp [hp] at h
    | some r => exact ⟨r, (stripPrefix_iff _ _ _).mp hp, by simpa [hp] using h⟩
  · rintro ⟨r, hs, hr⟩
    rw [(stripPrefix_iff _ _ _).mpr hs]
    exact hr

/-- **never a longer name**: whatever follows the name starts a tag or a digest — `nginx` never matches
    `nginx2`, `nginx-extra` or `nginx.io/x`. -/
theorem rest_starts_tag_or_digest (c : Char) (r : List Char) (h : matchRest (c :: r) = true) : c = ':' ∨ c = '@' := by
  by_cases hc1 : c = ':'
  · exact Or.inl hc1
  by_cases hc2 : c = '@'
  · exact Or.inr hc2
  exfalso
  have hd : matchDigest (c :: r) = false := by
    have hs : "@sha256:".toList = '@' :: "sha256:".toList := by decide
    unfold matchDigest
    rw [hs]
    simp [stripPrefix, Ne.symm hc2]
  unfold matchRest at h
  rw [hd] at h
  simp only [Bool.false_or] at h
  split at h
  · rename_i r' heq
    simp at heq
    exact hc1 heq.1
  · simp at h

/-- **never a shorter name**: a match begins with the whole entry name -/
theorem match_has_prefix (s t : String) (h : isImageMatched s t = true) : ∃ r, s.toList = t.toList ++ r :=
  let ⟨r, hr, _⟩ := (image_match_exact s t).mp h
  ⟨r, hr⟩

/-- an image that is not matched is left exactly as it is -/
theorem unmatched_untouched (e : Entry) (v : String) (h : isImageMatched v e.name = false) : update e v = v := by
  simp [update, h]

/-- kernel-evaluated instances: near misses are not matched, tag and digest are composed as documented -/
example : isImageMatched "nginx:1.0" "nginx" = true ∧ isImageMatched "nginx@sha256:abc" "nginx" = true ∧
    isImageMatched "nginx2:1" "nginx" = false ∧ isImageMatched "mynginx" "nginx" = false ∧
    isImageMatched "xzy" "x.y" = false ∧ isImageMatched "registry:5000/nginx:3" "registry:5000/nginx" = true ∧
    isImageMatched "nginx.io/x" "nginx" = false ∧ isImageMatched "a(" "a(" = true := by decide

example : split "registry:5000/nginx:3" = ("registry:5000/nginx", "3", "") ∧
    split "nginx:1.0@sha256:abcd" = ("nginx", "1.0", "sha256:abcd") ∧ split "busybox@sha256:abcd" = ("busybox", "", "sha256:abcd") := by
  decide

example : update { name := "nginx", newTag := "9.9" } "nginx:1.0@sha256:abcd" = "nginx:9.9" ∧
    update { name := "nginx", digest := "sha256:ffff" } "nginx:1.0" = "nginx@sha256:ffff" ∧
    update { name := "nginx", newName := "other/repo" } "nginx:1.0" = "other/repo:1.0" ∧
    update { name := "nginx", newName := "o", newTag := "t", digest := "sha256:d" } "nginx" = "o:t@sha256:d" ∧
    update { name := "nginx", newTag := "9" } "mynginx:1" = "mynginx:1" := by decide

/-! ### what a matched image becomes — the decision table of `SetImageValue`, for every image text -/

/-- the name part of the result: `newName` when given, else the name part of the image -/
def outName (e : Entry) (v : String) : String := if e.newName ≠ "" then e.newName else (split v).1

/-- **newTag and digest both given**: both are written, whatever tag/digest the image carried -/
theorem update_tag_and_digest (e : Entry) (v : String) (hm : isImageMatched v e.name = true)
    (ht : e.newTag ≠ "") (hd : e.digest ≠ "") :
    update e v = outName e v ++ ":" ++ e.newTag ++ "@" ++ e.digest := by
  simp [update, hm, ht, hd, outName, String.append_assoc]

/-- **newTag only**: the tag is replaced and an existing digest is DROPPED (a digest pins other content) -/
theorem update_tag_only (e : Entry) (v : String) (hm : isImageMatched v e.name = true)
    (ht : e.newTag ≠ "") (hd : e.digest = "") :
    update e v = outName e v ++ ":" ++ e.newTag := by
  simp [update, hm, ht, hd, outName, String.append_assoc]

/-- **digest only**: the digest is written and an existing tag is dropped -/
theorem update_digest_only (e : Entry) (v : String) (hm : isImageMatched v e.name = true)
    (ht : e.newTag = "") (hd : e.digest ≠ "") :
    update e v = outName e v ++ "@" ++ e.digest := by
  simp [update, hm, ht, hd, outName, String.append_assoc]

/-- **newName only**: tag and digest of the image are kept as they were split -/
theorem update_name_only (e : Entry) (v : String) (hm : isImageMatched v e.name = true)
    (ht : e.newTag = "") (hd : e.digest = "") (hs : e.tagSuffix = "") :
    update e v = outName e v ++ (if (split v).2.1 ≠ "" then ":" ++ (split v).2.1 else "") ++
      (if (split v).2.2 ≠ "" then "@" ++ (split v).2.2 else "") := by
  simp [update, hm, ht, hd, hs, outName]

/-- the hypotheses are met by ordinary entries -/
example : isImageMatched "nginx:1.0@sha256:abcd" "nginx" = true ∧
    update { name := "nginx", newTag := "2" } "nginx:1.0@sha256:abcd" = "nginx:2" := by decide

/-- the pre-repair matcher used the name as a regular expression: `x.y` matched `xzy` (witness for the fixed
    finding, stated on a one-wildcard model of the old behaviour) -/
def oldDotMatches (name img : List Char) : Bool :=
  name.length = img.length && (name.zip img).all fun (a, b) => a = '.' || a = b
theorem Witness.old_regex_name_matched_other_image : oldDotMatches "x.y".toList "xzy".toList = true := by decide

end Kust.C10
