/-
  C02 (identity clause) — a strategic-merge patch "differs from its input only at fields that some directive … targets":
  kind, name and namespace of the target are targeted only through the entry's options.  Theorems about
  `Kust.SmPatchId.apply`, the model of Resource.ApplySmPatch, tied by the correspondence `res.smpatch`.
-/
import Kust.SmPatchId
import Kust.Lemmas.Res
import Kust.Fns
namespace Kust.C02
open Kust Res SmPatchId

/-- **without options the identity is untouched**, whatever the patch body says — bookkeeping included -/
theorem no_options_identity_kept (cs : Gvk → Bool) (r : R) (m : String × String × String) :
    apply cs ⟨false, false⟩ r (some m) = some r := by
  obtain ⟨mk, mn, mns⟩ := m
  simp [apply]

/-- **each option frees its own field only**: the kind follows the patch exactly when `allowKindChange` is set, the name
    exactly when `allowNameChange` is set — neither option says anything about the other field -/
theorem options_are_independent (cs : Gvk → Bool) (o : Opts) (r r' : R) (mk mn mns : String)
    (h : apply cs o r (some (mk, mn, mns)) = some r') :
    r'.gvk.kind = (if o.allowKind then mk else r.gvk.kind) ∧ r'.name = (if o.allowName then mn else r.name) ∧
    r'.gvk.group = r.gvk.group ∧ r'.gvk.version = r.gvk.version := by
  simp only [apply, Option.some.injEq] at h
  subst h
  by_cases h1 : (o.allowName || o.allowKind) = true <;> simp [h1, R.storePrev]

/-- **the namespace is never the patch's** -/
theorem namespace_kept (cs : Gvk → Bool) (o : Opts) (r r' : R) (m : String × String × String)
    (h : apply cs o r (some m) = some r') : r'.ns = r.ns := by
  obtain ⟨mk, mn, mns⟩ := m
  simp only [apply, Option.some.injEq] at h
  subst h; rfl

/-- the previous id is recorded exactly when an option is set (so that references can follow the change), and recording
    keeps the three bookkeeping lists aligned -/
theorem previous_id_recorded (cs : Gvk → Bool) (o : Opts) (r r' : R) (m : String × String × String)
    (h : apply cs o r (some m) = some r') :
    r'.pNames = (if o.allowName || o.allowKind then appendCsv r.pNames r.name else r.pNames) := by
  obtain ⟨mk, mn, mns⟩ := m
  simp only [apply, Option.some.injEq] at h
  subst h
  by_cases h1 : (o.allowName || o.allowKind) = true <;> simp [h1, R.storePrev]

theorem smpatch_keeps_alignment (cs : Gvk → Bool) (o : Opts) (r r' : R) (m : String × String × String) (hg : r.Good)
    (h : apply cs o r (some m) = some r') : r'.Aligned := by
  obtain ⟨mk, mn, mns⟩ := m
  simp only [apply, Option.some.injEq] at h
  subst h
  by_cases h1 : (o.allowName || o.allowKind) = true
  · simp only [h1, if_true]
    exact storePrev_aligned cs r hg.1 hg.2
  · simp only [h1]
    exact hg.1

/-- the clause is not vacuous: with only `allowNameChange`, a patch that says `kind: Deployment, name: other` renames a
    StatefulSet and leaves its kind alone -/
example : (apply (fun _ => false) ⟨true, false⟩ { gvk := ⟨"apps", "v1", "StatefulSet"⟩, name := "web", ns := "" }
    (some ("Deployment", "other", "elsewhere"))).map (fun r => (r.gvk.kind, r.name, r.ns, r.pNames)) =
    some ("StatefulSet", "other", "", ["web"]) := by decide

/-- finding C02-K1 on the setter model: putting the name `123` back over a PLAIN scalar (what a patch that replaced the
    metadata left there) yields a plain `123` — the double quotes the setter had just given the number-like string are
    overwritten by the destination's style — although `123` reads as a number -/
theorem Witness.restored_numeric_name_unquoted :
    Fns.fieldSetter (fun v => v = "123") "name" (some (.scalar "" "123" 0)) false false
      (.map 0 [("name", .scalar "!!str" "whatever" 0)])
    = .ok (.map 0 [("name", .scalar "" "123" 0)], some (.scalar "" "123" 0)) ∧
    Fns.quoteIfNonString (fun v => v = "123") false (.scalar "" "123" 0) = .scalar "" "123" Fns.dq := by
  decide

end Kust.C02
