/-
  C12 — malformed input yields an error, never a panic.
  Every Go operation that can panic is an explicit `.panic` in the models; "never panics" is therefore a statement
  about the model, and totality of the Lean definitions is the termination argument for the modelled recursion.
  This file collects the `no_panic_*` theorems of the modelled partial functions; the whole-build search
  (structural + byte-level mutation in worker processes) is the oracle for everything not modelled.
-/
import Kust.Fns
import Kust.Gen.CodeFacts
import Kust.Reviewed
namespace Kust.C12
open Kust Node Fns

theorem elementIndexer_ne_panic (idx : Option Nat) (rn : Node) (c : String) :
    elementIndexer idx rn ≠ .panic c := by
  unfold elementIndexer
  repeat' split
  all_goals simp

theorem elementMatcher_ne_panic (k v : String) (cr : Option Node) (rn : Node) (c : String) :
    elementMatcher k v cr rn ≠ .panic c := by
  unfold elementMatcher
  repeat' split
  all_goals (try simp)
  all_goals (repeat' split)
  all_goals simp

theorem classify_ne_panic (p c : String) : classify p ≠ .panic c := by
  unfold classify
  repeat' split
  all_goals simp

/-- **PathGetter never panics** (all documents, all path spellings, lookup and create). Before the repair of
    finding 3a this was false: `Lookup("-")` on an empty list panicked (`Witness.elementIndexerOld_panics`
    below keeps the old behaviour as a definition and proves the panic). -/
theorem pathGet_ne_panic (ns : String → Bool) (create style : Nat) :
    ∀ (p : List String) (d : Node) (c : String), pathGet ns create style p d ≠ .panic c := by
  intro p
  induction p with
  | nil => intro d c; simp [pathGet]
  | cons part rest ih =>
    intro d c
    unfold pathGet
    repeat' (first | split | (dsimp only; split))
    all_goals first
      | (intro h; cases h; done)
      | (exfalso; first
          | exact classify_ne_panic _ _ ‹_›
          | exact elementIndexer_ne_panic _ _ _ ‹_›
          | exact elementMatcher_ne_panic _ _ _ _ _ ‹_›
          | exact ih _ _ ‹_›)

theorem pathGet_no_panic (ns : String → Bool) (create style : Nat) (p : List String) (d : Node) :
    (pathGet ns create style p d).isPanic = false := by
  cases h : pathGet ns create style p d with
  | ok a => rfl
  | err c => rfl
  | panic c => exact absurd h (pathGet_ne_panic ns create style p d c)

theorem lookup_no_panic (ns : String → Bool) (create style : Nat) (p : List String) (d : Node) :
    (lookup ns create style p d).isPanic = false :=
  pathGet_no_panic ns create style _ d

theorem fieldSetter_no_panic (ns : String → Bool) (name : String) (v : Option Node) (keep ovr : Bool) (rn : Node) :
    (fieldSetter ns name v keep ovr rn).isPanic = false := by
  unfold fieldSetter
  repeat' (first | split | (dsimp only; split))
  all_goals rfl

theorem fieldClearer_no_panic (name : String) (ife : Bool) (rn : Node) :
    (fieldClearer name ife rn).isPanic = false := by
  unfold fieldClearer
  repeat' (first | split | (dsimp only; split))
  all_goals rfl

/-- the pre-repair `ElementIndexer` ("last" of an empty list indexes `elems[-1]`) -/
def elementIndexerOld (idx : Option Nat) (rn : Node) : Out (Option (Nat × Node)) :=
  match rn, idx with
  | .seq _ [], none => .panic "index out of range [-1]"
  | rn, idx => elementIndexer idx rn

/-- witness of finding 3a (repaired): the old code panicked on `-` over an empty sequence. -/
theorem Witness.elementIndexerOld_panics :
    (elementIndexerOld none (.seq 0 [])).isPanic = true := by decide

/-- **panic_sites_covered**: the explicit `panic`s, unchecked type assertions and process exits reachable from
    a build (SSA + RTA, regenerated) are exactly the reviewed list, each entry guarded by construction, limited to
    embedded data, outside the domain, or a recorded finding.  A new site fails this `decide`. -/
theorem panic_sites_covered :
    Gen.panicSites = Reviewed.panicSites.map (fun e => (e.1, e.2.1, e.2.2.1)) := by decide +kernel

theorem panic_sites_all_reviewed : Reviewed.panicSites.all (fun e => e.2.2.2 != "UNREVIEWED") = true := by decide +kernel

end Kust.C12
