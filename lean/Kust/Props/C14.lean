/-
  C14 — field-path operations on YAML nodes obey get/set laws.
  Statements are about the transliterated kyaml primitives of `Kust.Fns` (tied to kyaml/yaml/fns.go by the
  correspondence components fns.lookup / fns.setfield / fns.clear / fns.setelem).
  `ns` (yaml.IsValueNonString) is an arbitrary parameter in every theorem.
-/
import Kust.Lemmas.Fields
namespace Kust.C14
open Kust Node Fns

variable (ns : String → Bool)

/-- what `FieldSetter` stores for value `v` over a possibly existing `old` -/
def stored (ovr : Bool) (old : Option Node) (v : Node) : Node :=
  match old with
  | some o => inheritStyle ovr o (quoteIfNonString ns ovr v)
  | none => quoteIfNonString ns ovr v

theorem quoteIfNonString_isNull (ovr : Bool) (v : Node) :
    (quoteIfNonString ns ovr v).isNull = v.isNull := by
  cases v with
  | scalar t x s =>
    simp only [quoteIfNonString]
    split <;> rfl
  | map s fs => rfl
  | seq s is => rfl

/-- **put-get (field).** Setting a non-null (or kept) value on a mapping node succeeds, and looking the
    field up afterwards returns exactly the node that was stored. -/
theorem setfield_get (name : String) (v : Node) (keep ovr : Bool) (s : Nat) (fs : Fields)
    (hv : v.isNull = false ∨ keep = true) :
    ∃ fs', fieldSetter ns name (some v) keep ovr (.map s fs)
        = .ok (.map s fs', some (stored ns ovr (fieldGet name fs) v))
      ∧ fieldGet name fs' = some (stored ns ovr (fieldGet name fs) v) := by
  have hn : ¬ ((quoteIfNonString ns ovr v).isNull = true ∧ (!keep) = true) := by
    rw [quoteIfNonString_isNull]; rcases hv with h | h <;> simp [h]
  cases hg : fieldGet name fs with
  | none =>
    refine ⟨fs ++ [(name, quoteIfNonString ns ovr v)], ?_, ?_⟩
    · simp only [fieldSetter, Option.map_some, if_neg hn, hg, stored]
    · simpa [stored] using fieldGet_append_absent name _ fs hg
  | some old =>
    refine ⟨fieldReplace name (inheritStyle ovr old (quoteIfNonString ns ovr v)) fs, ?_, ?_⟩
    · simp only [fieldSetter, Option.map_some, if_neg hn, hg, stored]
    · simpa [stored] using fieldGet_replace_same name _ fs old hg

/-- **frame (field).** Every other field of the mapping node is untouched by a set. -/
theorem setfield_frame (name other : String) (v : Option Node) (keep ovr : Bool) (s : Nat) (fs : Fields)
    (d' : Node) (r : Option Node) (hne : other ≠ name)
    (h : fieldSetter ns name v keep ovr (.map s fs) = .ok (d', r)) :
    ∃ fs', d' = .map s fs' ∧ fieldGet other fs' = fieldGet other fs := by
  unfold fieldSetter at h
  cases v with
  | none =>
    simp at h; obtain ⟨h1, _⟩ := h
    exact ⟨_, h1.symm, fieldGet_erase_other name other fs hne⟩
  | some v =>
    simp only [Option.map_some] at h
    split at h
    · simp at h; obtain ⟨h1, _⟩ := h
      exact ⟨_, h1.symm, fieldGet_erase_other name other fs hne⟩
    · split at h
      · simp at h; obtain ⟨h1, _⟩ := h
        exact ⟨_, h1.symm, fieldGet_replace_other name other _ fs hne⟩
      · simp at h; obtain ⟨h1, _⟩ := h
        exact ⟨_, h1.symm, fieldGet_append_other name other _ fs hne⟩

theorem withStyle_withStyle (n : Node) (a b : Nat) : (n.withStyle a).withStyle b = n.withStyle b := by
  cases n <;> rfl
theorem style_withStyle (n : Node) (a : Nat) : (n.withStyle a).style = a := by
  cases n <;> rfl
theorem withStyle_style (n : Node) : n.withStyle n.style = n := by
  cases n <;> rfl

theorem inheritStyle_idem (ovr : Bool) (old v : Node) :
    inheritStyle ovr (inheritStyle ovr old v) v = inheritStyle ovr old v := by
  cases ovr
  · simp [inheritStyle, style_withStyle]
  · simp only [inheritStyle, Bool.not_true, Bool.false_eq_true, false_or]
    by_cases h : old.style = 0
    · simp [h, style_withStyle, withStyle_withStyle]
    · simp only [h, if_false]
      by_cases h3 : v.style = 0
      · simp only [h3, if_true]; rw [← h3, withStyle_style]
      · simp [h3]

theorem inheritStyle_self (ovr : Bool) (v : Node) : inheritStyle ovr v v = v := by
  unfold inheritStyle; split
  · exact withStyle_style v
  · rfl

/-- **put-put (field).** Repeating the same set changes nothing further. -/
theorem setfield_idem (name : String) (v : Node) (keep ovr : Bool) (s : Nat) (fs : Fields)
    (hv : v.isNull = false ∨ keep = true) :
    ∀ d' r, fieldSetter ns name (some v) keep ovr (.map s fs) = .ok (d', r) →
      fieldSetter ns name (some v) keep ovr d' = .ok (d', r) := by
  intro d' r h
  obtain ⟨fs', h1, h2⟩ := setfield_get ns name v keep ovr s fs hv
  rw [h1] at h; simp at h; obtain ⟨hd, hr⟩ := h; subst hd hr
  obtain ⟨fs'', h3, _⟩ := setfield_get ns name v keep ovr s fs' hv
  rw [h3]
  -- the stored value is the same and replacing it by itself is the identity
  have hst : stored ns ovr (fieldGet name fs') v = stored ns ovr (fieldGet name fs) v := by
    rw [h2]
    cases hg : fieldGet name fs with
    | none => simp only [stored]; exact inheritStyle_self ovr _
    | some o => simp only [stored]; exact inheritStyle_idem ovr o _
  have hn : ¬ ((quoteIfNonString ns ovr v).isNull = true ∧ (!keep) = true) := by
    rw [quoteIfNonString_isNull]; rcases hv with h | h <;> simp [h]
  have : fs'' = fs' := by
    have h4 := h3
    simp only [fieldSetter, Option.map_some, hn, if_false, h2] at h4
    simp at h4
    rw [← h4.1]
    have := fieldReplace_self name fs' _ h2
    rw [show inheritStyle ovr (stored ns ovr (fieldGet name fs) v) (quoteIfNonString ns ovr v)
          = stored ns ovr (fieldGet name fs) v from by
            have := hst; rw [h2] at this; simpa [stored] using this]
    exact this
  rw [this, hst]

/-- **clear of an absent field is a no-op.** -/
theorem clear_absent_noop (name : String) (s : Nat) (fs : Fields) (h : fieldGet name fs = none) :
    fieldClearer name false (.map s fs) = .ok (.map s fs, none) := by
  simp [fieldClearer, fieldErase_absent name fs h, h]

/-- **get after clear.** After clearing, a lookup of the first occurrence is gone (a duplicate key, if
    any, becomes visible — duplicates are kept as the Go code keeps them). -/
theorem clear_frame (name other : String) (s : Nat) (fs : Fields) (hne : other ≠ name) :
    ∃ fs' r, fieldClearer name false (.map s fs) = .ok (.map s fs', r) ∧
      fieldGet other fs' = fieldGet other fs :=
  ⟨fieldErase name fs, fieldGet name fs, by simp [fieldClearer], fieldGet_erase_other name other fs hne⟩


/-! ### clear: what is gone, what is returned, how much is removed -/

/-- a lookup that misses means the key is not among the field names -/
theorem fieldGet_none_of_not_mem (name : String) (fs : Fields) (h : name ∉ fs.map (·.1)) : fieldGet name fs = none := by
  induction fs with
  | nil => rfl
  | cons kv r ih =>
    obtain ⟨k, v⟩ := kv
    simp only [List.map_cons, List.mem_cons, not_or] at h
    have hk : ¬ k = name := fun e => h.1 e.symm
    simp [fieldGet, hk, ih h.2]

theorem fieldGet_erase_same (name : String) (fs : Fields) (hnd : (fs.map (·.1)).Nodup) :
    fieldGet name (fieldErase name fs) = none := by
  induction fs with
  | nil => rfl
  | cons kv r ih =>
    obtain ⟨k, v⟩ := kv
    simp only [List.map_cons, List.nodup_cons] at hnd
    by_cases hk : k = name
    · subst hk; simpa [fieldErase] using fieldGet_none_of_not_mem k r hnd.1
    · simpa [fieldErase, fieldGet, hk] using ih hnd.2

/-- **get after clear**: in a mapping without duplicate keys (what every YAML parser output of a valid document
    is) the cleared field is gone, and what the clearer hands back is what a lookup found -/
theorem clear_get (name : String) (s : Nat) (fs : Fields) (hnd : (fs.map (·.1)).Nodup) :
    ∃ fs' r, fieldClearer name false (.map s fs) = .ok (.map s fs', r) ∧ fieldGet name fs' = none ∧ r = fieldGet name fs :=
  ⟨fieldErase name fs, fieldGet name fs, by simp [fieldClearer], fieldGet_erase_same name fs hnd, rfl⟩

/-- **clear removes exactly one entry** when the field is there (and none otherwise, `clear_absent_noop`) -/
theorem clear_length (name : String) (fs : Fields) (x : Node) (h : fieldGet name fs = some x) :
    (fieldErase name fs).length + 1 = fs.length := by
  induction fs with
  | nil => simp [fieldGet] at h
  | cons kv r ih =>
    obtain ⟨k, v⟩ := kv
    by_cases hk : k = name
    · simp [fieldErase, hk]
    · simp only [fieldGet, hk, if_false] at h
      simp [fieldErase, hk, ih h]

/-- **clear is idempotent** on mappings without duplicate keys -/
theorem clear_clear (name : String) (fs : Fields) (hnd : (fs.map (·.1)).Nodup) :
    fieldErase name (fieldErase name fs) = fieldErase name fs :=
  fieldErase_absent name _ (fieldGet_erase_same name fs hnd)

/-- the duplicate-key caveat is real: with a repeated key the second occurrence becomes visible -/
example : fieldGet "a" (fieldErase "a" [("a", .scalar "!!str" "1" 0), ("a", .scalar "!!str" "2" 0)]) = some (.scalar "!!str" "2" 0) := by
  simp [fieldErase, fieldGet]

/-- a path whose every part is a plain field name (no index, `-`, `*` or `[k=v]` part) -/
def FieldPath (p : List String) : Prop := ∀ part ∈ p, classify part = .ok (.field part)

/-- **put-get at path level.** Whatever `LookupCreate(kind, p…)` returns as the addressed node is
    exactly what a plain `Lookup(p…)` finds in the resulting document, and that lookup leaves the
    document as it is — for every field path, every document, every creation kind. -/
theorem create_then_lookup (ns : String → Bool) (c st : Nat) :
    ∀ (p : List String), FieldPath p → ∀ (d d' n : Node),
      pathGet ns c st p d = .ok (d', some n) → pathGet ns 0 0 p d' = .ok (d', some n) := by
  intro p
  induction p with
  | nil =>
    intro _ d d' n h
    simp [pathGet] at h
    obtain ⟨h1, h2⟩ := h
    subst h1; subst h2
    simp [pathGet]
  | cons part rest ih =>
    intro hp d d' n h
    have hc : classify part = .ok (.field part) := hp part (by simp)
    have hrest : FieldPath rest := fun q hq => hp q (by simp [hq])
    unfold pathGet at h
    rw [hc] at h
    simp only at h
    split at h
    · simp at h
    · split at h
      · rename_i s fs _hn
        split at h
        · rename_i x hg
          split at h
          · rename_i x' r hrec
            simp at h
            obtain ⟨h1, h2⟩ := h
            subst h1; subst h2
            have hi := ih hrest _ _ _ hrec
            unfold pathGet
            rw [hc]
            simp only
            have hnn : (Node.map s (fieldReplace part x' fs)).isNull = false := rfl
            rw [hnn]
            simp only [Bool.false_eq_true, if_false]
            rw [fieldGet_replace_same part x' fs x hg]
            simp only
            rw [hi]
            simp only
            rw [fieldReplace_replace]
          · simp at h
          · simp at h
        · rename_i hg
          split at h
          · simp at h
          · split at h
            · rename_i x' r hrec
              simp at h
              obtain ⟨h1, h2⟩ := h
              subst h1; subst h2
              have hi := ih hrest _ _ _ hrec
              have hg' := fieldGet_append_absent part x' fs hg
              unfold pathGet
              rw [hc]
              simp only
              have hnn : (Node.map s (fs ++ [(part, x')])).isNull = false := rfl
              rw [hnn]
              simp only [Bool.false_eq_true, if_false]
              rw [hg']
              simp only
              rw [hi]
              simp only
              rw [fieldReplace_self part _ x' hg']
            · simp at h
            · simp at h
      · simp at h

/-- the premise is satisfiable and the creation branch is exercised: `a.b.c` created in `{a: {}}` -/
example : FieldPath ["a", "b", "c"] ∧
    ∃ d' n, pathGet (fun _ => false) 1 0 ["a", "b", "c"] (.map 0 [("a", .map 0 [])]) = .ok (d', some n)
      ∧ pathGet (fun _ => false) 0 0 ["a", "b", "c"] d' = .ok (d', some n) := by
  refine ⟨by intro q hq; simp at hq; rcases hq with h | h | h <;> subst h <;> decide, ?_⟩
  exact ⟨.map 0 [("a", .map 0 [("b", .map 0 [("c", .scalar "" "" 0)])])], .scalar "" "" 0, by decide, by decide⟩

end Kust.C14
