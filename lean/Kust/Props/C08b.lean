/-
  C08 (labels entries) — "Labels declared without includeSelectors never alter a selector, and labels/annotations are
  written at exactly the metadata and template locations defined for each kind" — for `labels` entries that bring field
  specs of their own (`fields`).  Theorems about `Kust.Labels.entrySpecs` / `applyEntries`, the model of the
  LabelTransformer configurator, tied by the correspondence `labels.entries` (whole builds).
-/
import Kust.Labels
import Kust.Gen.FieldSpecs
namespace Kust.C08
open Kust Gen GenMap Labels

/-- a plain entry (no own fields, no flags) is applied with the metadata spec and nothing else — whatever tables are
    configured -/
theorem plain_entry_specs (common tmpl : List FieldSpec) (L : Dict) :
    entrySpecs common tmpl ⟨L, false, false, []⟩ = .ok [metaLabels] := by
  simp [entrySpecs, mergeOne]

/-- the metadata spec touches `metadata/labels` only -/
theorem meta_spec_frame (g v k : String) (L : Dict) (loc : Loc) (h : loc.1 ≠ "metadata/labels") :
    applyAt [metaLabels] g v k L loc = loc := by
  simp [applyAt, metaLabels, Ne.symm h]

/-- **an entry's own fields stay its own**: after ANY entry — whatever field specs it brought, e.g. a Service selector —
    a plain entry changes `metadata/labels` and no other location: selectors and templates are exactly what the first
    entry left -/
theorem own_fields_stay_own (common tmpl : List FieldSpec) (g v k : String) (e1 : Entry) (L2 : Dict) (locs out : List Loc)
    (s1 : List FieldSpec) (h1 : entrySpecs common tmpl e1 = .ok s1)
    (h : applyEntries common tmpl g v k [e1, ⟨L2, false, false, []⟩] locs = .ok out) :
    out = (applyLabels s1 g v k e1.pairs locs).map (applyAt [metaLabels] g v k L2) ∧
    ∀ loc ∈ applyLabels s1 g v k e1.pairs locs, loc.1 ≠ "metadata/labels" → applyAt [metaLabels] g v k L2 loc = loc := by
  simp only [applyEntries, h1, plain_entry_specs] at h
  simp at h
  refine ⟨h.symm, ?_⟩
  intro loc _ hne
  exact meta_spec_frame g v k L2 loc hne

theorem mergeOne_prefix (s : List FieldSpec) (x : FieldSpec) (r : List FieldSpec) (h : mergeOne s x = .ok r) : s <+: r := by
  unfold mergeOne at h
  split at h
  · split at h
    · simp at h; subst h; exact List.prefix_refl _
    · simp at h
  · simp at h; subst h; exact List.prefix_append _ _

/-- the entry's own specs come first in the merged list (they win where a table names the same field) -/
theorem own_fields_first : ∀ (extra s r : List FieldSpec), mergeAll s extra = .ok r → s <+: r := by
  intro extra
  induction extra with
  | nil => intro s r h; simp [mergeAll] at h; subst h; exact List.prefix_refl _
  | cons x xs ih =>
    intro s r h
    simp only [mergeAll] at h
    cases hm : mergeOne s x with
    | ok s' =>
      simp only [hm] at h
      exact List.IsPrefix.trans (mergeOne_prefix s x s' hm) (ih s' r h)
    | err e => simp [hm] at h
    | panic e => simp [hm] at h

/-- locations keep their number and their paths under any list of entries -/
theorem entries_keep_locations (common tmpl : List FieldSpec) (g v k : String) : ∀ (es : List Entry) (locs out : List Loc),
    applyEntries common tmpl g v k es locs = .ok out → out.map (·.1) = locs.map (·.1) := by
  intro es
  induction es with
  | nil => intro locs out h; simp [applyEntries] at h; subst h; rfl
  | cons e r ih =>
    intro locs out h
    simp only [applyEntries] at h
    cases hs : entrySpecs common tmpl e with
    | ok specs =>
      simp only [hs] at h
      rw [ih _ out h]
      simp only [applyLabels, List.map_map]
      apply List.map_congr_left
      intro loc _
      simp only [Function.comp, applyAt]
      split
      · rfl
      · cases loc.2 with
        | some cur => rfl
        | none => simp only []; split <;> rfl
    | err c => simp [hs] at h
    | panic c => simp [hs] at h

/-- the clause is real: a first entry that brings a Service-selector spec of its own (with includeTemplates) reaches the
    selector; the plain entry after it reaches metadata only -/
example :
    applyEntries commonLabelsSpecs templateLabelsSpecs "" "v1" "Service"
      [⟨[("viafields", "q")], false, true, [⟨"", "v1", "Service", "spec/selector", true⟩]⟩, ⟨[("team", "blue")], false, false, []⟩]
      [("metadata/labels", none), ("spec/selector", some [("app", "x")])]
    = .ok [("metadata/labels", some [("viafields", "q"), ("team", "blue")]), ("spec/selector", some [("app", "x"), ("viafields", "q")])] := by
  decide +kernel

/-- finding C08-K1, as the model (and the code) has it: an entry whose own field spec names `metadata/labels` for one
    kind is applied with that spec ALONE — the built-in `metadata/labels` spec counts as already present, because the
    test asks whether the existing spec is selected by the incoming one's (empty, hence wild-card) GVK — so a resource of
    any other kind gets no metadata label from the entry -/
theorem Witness.own_metadata_spec_shadows :
    entrySpecs commonLabelsSpecs templateLabelsSpecs ⟨[("shadow", "s")], false, false, [⟨"", "", "NoSuchKind", "metadata/labels", true⟩]⟩
      = .ok [⟨"", "", "NoSuchKind", "metadata/labels", true⟩] ∧
    applyEntries commonLabelsSpecs templateLabelsSpecs "apps" "v1" "Deployment"
      [⟨[("shadow", "s")], false, false, [⟨"", "", "NoSuchKind", "metadata/labels", true⟩]⟩] [("metadata/labels", some [("app", "x")])]
      = .ok [("metadata/labels", some [("app", "x")])] := by
  decide +kernel

end Kust.C08
