/-
  C07 — output is well-formed, identity-unique, free of bookkeeping.
  (a) ids: any resource map built by successful `Append`s is pairwise non-`Equals` (unbounded size);
  (b) kind/name: the renaming transformers keep every resource named (invariant `Good`), hence `PrevIds` cannot
      panic and no output lacks a name — under the explicit hypothesis that the resource is named when it enters
      (load-time `GetValidatedMetadata`); the excluded point (a patch removing metadata.name) is finding C12-K1;
  (c) bookkeeping: stripping with the REGENERATED `buildAnnotations` list removes exactly the listed keys, and every
      annotation-key constant the translator finds in the build code is in the stripped set (`decide` over the
      regenerated tables: a newly introduced internal annotation fails here).
-/
import Kust.Lemmas.Res
import Kust.Gen.Lists
import Kust.Gen.Facts
namespace Kust.C07
open Kust Res

/-- (a) -/
theorem out_ids_unique (cs : Gvk → Bool) (rs m : List ResId) (h : appendAll cs [] rs = .ok m) :
    IdsUnique cs m := built_by_append_unique cs rs m h

/-- (a') a duplicate is always refused -/
theorem append_refuses_duplicate (cs : Gvk → Bool) (m : List ResId) (r x : ResId) (hx : x ∈ m)
    (he : idEquals cs x r = true) : append cs m r = .err "conflict" := by
  unfold append
  have : (m.any fun y => idEquals cs y r) = true := List.any_eq_true.mpr ⟨x, hx, he⟩
  simp [this]

/-- (b) a named, aligned resource stays named and aligned through any number of layers of
    namespace / prefix / suffix directives, and the bookkeeping never panics. -/
theorem out_has_kind_name (cs : Gvk → Bool) (skip : String → Bool) (ls : List Layer) (r r' : R)
    (h : r.Good) (he : layers cs skip ls r = .ok r') : r'.name ≠ "" ∧ r'.gvk.kind ≠ "" :=
  (layers_good cs skip ls r r' h he).2

theorem renaming_never_panics (cs : Gvk → Bool) (skip : String → Bool) (ls : List Layer) (r : R) (h : r.Good) :
    (layers cs skip ls r).isPanic = false := layers_no_panic cs skip ls r h

/-- the hypotheses are satisfiable by a non-trivial resource (non-vacuity) -/
example : ({ gvk := ⟨"apps", "v1", "Deployment"⟩, name := "web", ns := "" } : R).Good := by
  refine ⟨⟨rfl, rfl⟩, ?_, ?_⟩ <;> decide

/-- (c) `RemoveBuildAnnotations` + origin/transformer removal, on the annotation map as an association list -/
def strip (stripped : List String) (annos : List (String × String)) : List (String × String) :=
  annos.filter fun kv => !stripped.contains kv.1

theorem strip_removes (stripped : List String) (annos : List (String × String)) (k v : String)
    (hk : k ∈ stripped) : (k, v) ∉ strip stripped annos := by
  simp [strip, List.mem_filter, hk]

theorem strip_keeps (stripped : List String) (annos : List (String × String)) (k v : String)
    (hk : k ∉ stripped) (h : (k, v) ∈ annos) : (k, v) ∈ strip stripped annos := by
  simp [strip, List.mem_filter, hk, h]

/-- **stripping is a fixpoint**: a second pass removes nothing (the (d) clause at the annotation level) -/
theorem strip_idem (stripped : List String) (annos : List (String × String)) :
    strip stripped (strip stripped annos) = strip stripped annos := by
  simp [strip, List.filter_filter]

/-- stripping only removes: what is left is a sub-list of the input, in the input's order -/
theorem strip_sublist (stripped : List String) (annos : List (String × String)) :
    (strip stripped annos).Sublist annos := by
  simp [strip]

/-- **free of bookkeeping**: after the strip no key of the stripped list is left, whatever the annotations were -/
theorem strip_clean (stripped : List String) (annos : List (String × String)) :
    ∀ kv ∈ strip stripped annos, kv.1 ∉ stripped := by
  intro kv h
  simp only [strip, List.mem_filter, Bool.not_eq_true', List.contains_eq_mem, decide_eq_false_iff_not] at h
  exact h.2

/-- annotations that carry no bookkeeping key pass through unchanged -/
theorem strip_id_of_clean (stripped : List String) (annos : List (String × String))
    (h : ∀ kv ∈ annos, kv.1 ∉ stripped) : strip stripped annos = annos := by
  simp only [strip, List.filter_eq_self]
  intro kv hkv
  simp [h kv hkv]

/-- keys removed at the end of `Kustomizer.Run` when no build metadata is requested -/
def strippedKeys : List String :=
  Gen.buildAnnotations ++ ["config.kubernetes.io/origin", "alpha.config.kubernetes.io/transformations"]

/-- keys that are user-facing configuration, not bookkeeping (reviewed list) -/
def userFacingKeys : List String :=
  ["config.kubernetes.io/local-config", "config.kubernetes.io/function", "config.k8s.io/function",
   "config.kubernetes.io/formatting", "kustomize.config.k8s.io/behavior", "kustomize.config.k8s.io/needs-hash",
   "config.kubernetes.io/merge-source", "kustomize.config.k8s.io/id",
   -- apiVersion strings, not annotation keys:
   "config.kubernetes.io/v1", "kustomize.config.k8s.io/v1alpha1", "kustomize.config.k8s.io/v1beta1"]

/-- **every annotation-key constant of the build code is stripped or reviewed as user-facing**
    (`Gen.annotationKeyConsts` is regenerated from the source on every run). -/
theorem annotation_keys_covered :
    Gen.annotationKeyConsts.all (fun k => strippedKeys.contains k || userFacingKeys.contains k) = true := by
  decide

/-- the stripped list still contains the bookkeeping keys the renaming model relies on -/
theorem core_keys_stripped :
    ["internal.config.kubernetes.io/previousKinds", "internal.config.kubernetes.io/previousNames",
     "internal.config.kubernetes.io/previousNamespaces", "internal.config.kubernetes.io/prefixes",
     "internal.config.kubernetes.io/suffixes", "internal.config.kubernetes.io/refBy",
     "internal.config.kubernetes.io/generatorBehavior", "internal.config.kubernetes.io/needsHashSuffix",
     "internal.config.kubernetes.io/allowNameChange", "internal.config.kubernetes.io/allowKindChange",
     "config.kubernetes.io/path", "config.kubernetes.io/index", "internal.config.kubernetes.io/path",
     "internal.config.kubernetes.io/index", "internal.config.kubernetes.io/seqindent", "internal.config.kubernetes.io/id",
     "config.k8s.io/id"].all (fun k => Gen.buildAnnotations.contains k) = true := by decide

end Kust.C07
