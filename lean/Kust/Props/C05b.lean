/-
  C05 (on-disk clause) — "paths are de-symlinked before the containment test; a base at or above a root in use is a
  cycle, judged after resolution".  Theorems about `Kust.PathDisk` (lexical cleaning, then physical link resolution),
  tied to the real loader on a real directory tree with symbolic links by the correspondence `path.disk`.
-/
import Kust.PathDisk
namespace Kust.C05
open Kust Kust.PathDisk

/-- every non-empty prefix of `p` (and `p` itself) is a real directory: no link lies on the way -/
def PhysDir (fs : Fs) (p : List String) : Prop := ∀ q, q <+: p → q ≠ [] → lookup fs q = some .dir

theorem physDir_nil (fs : Fs) : PhysDir fs [] := by
  intro q hq hne
  have : q = [] := List.prefix_nil.mp hq
  exact absurd this hne

theorem physDir_dropLast (fs : Fs) (p : List String) (h : PhysDir fs p) : PhysDir fs p.dropLast := by
  intro q hq hne
  exact h q (hq.trans (List.dropLast_prefix p)) hne

theorem physDir_snoc (fs : Fs) (p : List String) (c : String) (h : PhysDir fs p)
    (hc : lookup fs (p ++ [c]) = some .dir) : PhysDir fs (p ++ [c]) := by
  intro q hq hne
  rcases List.prefix_concat_iff.mp hq with e | hq'
  · subst e; exact hc
  · exact h q hq' hne

/-- what `EvalSymlinks` returns is a physical location: a directory reached through directories only, or a file in one -/
def Phys (fs : Fs) (q : List String) : Prop :=
  PhysDir fs q ∨ ∃ d c x, q = d ++ [c] ∧ PhysDir fs d ∧ lookup fs q = some (.file x)

theorem resolve_phys (fs : Fs) : ∀ (n : Nat) (cur rest q : List String), PhysDir fs cur →
    resolve fs n cur rest = .ok q → Phys fs q := by
  intro n
  induction n with
  | zero => intro cur rest q _ h; simp [resolve] at h
  | succ n ih =>
    intro cur rest q hcur h
    cases rest with
    | nil => simp [resolve] at h; subst h; exact Or.inl hcur
    | cons c rest =>
      simp only [resolve] at h
      split at h
      · exact ih _ _ _ hcur h
      · split at h
        · split at h
          · simp at h
          · exact ih _ _ _ (physDir_dropLast fs cur hcur) h
        · split at h
          · simp at h
          · rename_i hd
            exact ih _ _ _ (physDir_snoc fs cur c hcur hd) h
          · rename_i x hf
            split at h
            · simp at h; subst h
              exact Or.inr ⟨cur, c, x, rfl, hcur, hf⟩
            · simp at h
          · split at h
            · exact ih _ _ _ (physDir_nil fs) h
            · exact ih _ _ _ hcur h

theorem disk_cleanedAbs_spec (fs : Fs) (path : String) (d : List String) (f : String)
    (h : cleanedAbs fs path = .ok (d, f)) :
    PhysDir fs d ∧ (f ≠ "" → ∃ x, lookup fs (d ++ [f]) = some (.file x)) := by
  unfold cleanedAbs at h
  split at h
  · simp at h
  rename_i hclimb
  split at h
  · rename_i q hr
    have hphys := resolve_phys fs _ _ _ q (physDir_nil fs) hr
    split at h
    · rename_i hq
      simp at h
      obtain ⟨e1, e2⟩ := h
      subst e1; subst e2
      refine ⟨?_, fun hne => absurd rfl hne⟩
      rcases hphys with hp | ⟨d0, c0, x, e, _, hfile⟩
      · exact hp
      · rw [hq] at hfile; cases hfile
    · rename_i x hq
      simp at h
      obtain ⟨e1, e2⟩ := h
      rcases hphys with hp | ⟨d0, c0, x', e, hp, hfile⟩
      · by_cases hqe : q = []
        · subst hqe; simp [lookup] at hq
        · have := hp q (List.prefix_refl q) hqe
          rw [hq] at this; cases this
      · subst e
        simp at e1 e2
        subst e1; subst e2
        exact ⟨hp, fun _ => ⟨x', hfile⟩⟩
    · simp at h
  · simp at h
  · simp at h

/-- **a successful load reads inside the root, judged after link resolution.** Whatever the spelling of the path
    (relative, absolute, through links to anywhere, with `..` before or after links) and whatever links the tree
    holds: if `Load` returns a content, it is the content of a file whose directory is a real directory (no link on
    the way to it) at or below the loader's root. -/
theorem disk_load_confined (fs : Fs) (root : List String) (path c : String) (h : loaderLoad fs root path = .ok c) :
    ∃ d f, PhysDir fs d ∧ Path.isPrefixC root d = true ∧ lookup fs (d ++ [f]) = some (.file c) := by
  unfold loaderLoad at h
  simp only at h
  split at h
  · rename_i d f hca
    obtain ⟨hp, _⟩ := disk_cleanedAbs_spec fs _ d f hca
    split at h
    · simp at h
    · split at h
      · simp at h
      · rename_i hpre
        split at h
        · rename_i c' hl
          simp at h; subst h
          exact ⟨d, f, hp, by simpa using hpre, hl⟩
        · simp at h
  · simp at h
  · simp at h

/-- **a new root is a real directory that is neither a root in use nor above one**, judged after link resolution -/
theorem disk_new_root_checked (fs : Fs) (stack : List (List String)) (path : String) (d : List String)
    (h : loaderNew fs stack path = .ok d) :
    PhysDir fs d ∧ ∀ r ∈ stack, Path.isPrefixC d r = false := by
  unfold loaderNew at h
  split at h
  · simp at h
  · split at h
    · simp at h
    · split at h
      · simp at h
      · rename_i root rest
        split at h
        · rename_i d' f hca
          obtain ⟨hp, _⟩ := disk_cleanedAbs_spec fs _ d' f hca
          split at h
          · simp at h
          · split at h
            · simp at h
            · rename_i hf hany
              simp at h; subst h
              refine ⟨hp, ?_⟩
              intro r hr
              cases hb : Path.isPrefixC d' r
              · rfl
              · exfalso; apply hany
                simp only [List.any_eq_true]
                exact ⟨r, hr, hb⟩
        · split at h <;> simp at h
        · simp at h

/-- the premises are satisfiable, and links matter: `l1 -> ../outside` makes `l1/f.yaml` a file outside the root
    (refused), while `l1/../f.yaml` is cleaned lexically to `f.yaml` first (inside) -/
example :
    let fs : Fs := [(["top"], .dir), (["top", "root"], .dir), (["top", "outside"], .dir),
      (["top", "root", "f.yaml"], .file "ROOT"), (["top", "outside", "f.yaml"], .file "OUTSIDE"),
      (["top", "root", "l1"], .link "../outside"), (["top", "root", "up"], .link "..")]
    loaderLoad fs ["top", "root"] "l1/f.yaml" = .err "security" ∧
    loaderLoad fs ["top", "root"] "l1/../f.yaml" = .ok "ROOT" ∧
    loaderLoad fs ["top", "root"] "f.yaml" = .ok "ROOT" ∧
    loaderNew fs [["top", "root"]] "up" = .err "cycle" := by decide

end Kust.C05
