/-
  C13 (document order) — "Reading a YAML stream of mapping documents … preserves … the document order": theorems about
  `Kust.KioRead.read`, the model of the loop of ByteReader.Read, tied by the correspondence `kio.read`.
-/
import Kust.KioRead
namespace Kust.C13
open Kust KioRead

/-- what the reader keeps of a stream when nothing is unwrapped: the mapping documents, in order, numbered from `idx` -/
def kept : Nat → Nat → List Doc → List Node
  | _, _, [] => []
  | i, idx, .res _ _ _ :: r => Node.doc i idx :: kept (i + 1) (idx + 1) r
  | i, idx, _ :: r => kept (i + 1) idx r

theorem go_no_unwrap (d : Bool) (n : Nat) (h : d = true ∨ n ≠ 1) : ∀ (vs : List Doc) (i idx : Nat),
    go d n i idx vs = kept i idx vs := by
  intro vs
  induction vs with
  | nil => intro i idx; rfl
  | cons v r ih =>
    intro i idx
    cases v with
    | blank => simp [go, kept, ih]
    | null => simp [go, kept, ih]
    | res k it fc =>
      have : (!d && n == 1 && isWrapper k it fc) = false := by
        rcases h with h | h
        · simp [h]
        · have : (n == 1) = false := by simpa using h
          simp [this]
      simp [go, kept, this, ih]

/-- **a wrapper beside other documents is a document**: in a stream of two or more values — whatever their kinds, a
    `List` or `ResourceList` first, last or in the middle — nothing is unwrapped: every mapping document becomes one
    resource, in stream order, stamped 0, 1, 2, … -/
theorem multi_document_never_unwrapped (d : Bool) (vs : List Doc) (h : vs.length ≠ 1) : read d vs = kept 0 0 vs :=
  go_no_unwrap d vs.length (Or.inr h) vs 0 0

theorem disabled_never_unwrapped (vs : List Doc) : read true vs = kept 0 0 vs :=
  go_no_unwrap true vs.length (Or.inl rfl) vs 0 0

/-- the kept documents are in stream order with consecutive reader indexes -/
theorem kept_order : ∀ (vs : List Doc) (i idx : Nat), (kept i idx vs).Pairwise (fun a b =>
    match a, b with
    | .doc da ia, .doc db ib => da < db ∧ ia < ib
    | _, _ => False) := by
  intro vs
  induction vs with
  | nil => intro i idx; simp [kept]
  | cons v r ih =>
    intro i idx
    have hb : ∀ (vs : List Doc) (i idx : Nat), ∀ x ∈ kept i idx vs, ∃ dx ix, x = .doc dx ix ∧ i ≤ dx ∧ idx ≤ ix := by
      intro vs
      induction vs with
      | nil => intro i idx x hx; simp [kept] at hx
      | cons w s ihs =>
        intro i idx x hx
        cases w with
        | res k it fc =>
          simp only [kept, List.mem_cons] at hx
          rcases hx with e | hx
          · exact ⟨i, idx, e, Nat.le_refl _, Nat.le_refl _⟩
          · obtain ⟨dx, ix, e, h1, h2⟩ := ihs (i + 1) (idx + 1) x hx
            exact ⟨dx, ix, e, by omega, by omega⟩
        | blank =>
          simp only [kept] at hx
          obtain ⟨dx, ix, e, h1, h2⟩ := ihs (i + 1) idx x hx
          exact ⟨dx, ix, e, by omega, h2⟩
        | null =>
          simp only [kept] at hx
          obtain ⟨dx, ix, e, h1, h2⟩ := ihs (i + 1) idx x hx
          exact ⟨dx, ix, e, by omega, h2⟩
    cases v with
    | res k it fc =>
      simp only [kept, List.pairwise_cons]
      refine ⟨?_, ih (i + 1) (idx + 1)⟩
      intro x hx
      obtain ⟨dx, ix, e, h1, h2⟩ := hb r (i + 1) (idx + 1) x hx
      subst e
      exact ⟨by omega, by omega⟩
    | blank => simpa [kept] using ih (i + 1) idx
    | null => simpa [kept] using ih (i + 1) idx

/-- **the only stream that is unwrapped is the wrapper alone**: its items come out in order -/
theorem lone_wrapper_unwrapped (kind : String) (k : Nat) (fc : Bool) (hk : kind = "List" ∨ kind = "ResourceList") :
    read false [.res kind (some k) fc] = (List.range k).map (Node.item 0) := by
  rcases hk with h | h <;> subst h <;> simp [KioRead.read, go, isWrapper]

/-- a lone document of any other kind is a document -/
theorem lone_other_kind_kept (kind : String) (it : Option Nat) (fc : Bool) (h1 : kind ≠ "List") (h2 : kind ≠ "ResourceList") :
    read false [.res kind it fc] = [Node.doc 0 0] := by
  simp [KioRead.read, go, isWrapper, h1, h2]

example : read false [.res "List" (some 2) false, .blank, .res "ConfigMap" none false]
    = [Node.doc 0 0, Node.doc 2 1] := by decide

end Kust.C13
