/-
  C10 (replacement clause, on trees) — theorems about `Kust.ReplTree`, the field-level half of the replacement filter on
  YAML trees (tied to replacement.Filter by the correspondence `repl.tree`): a rewrite at a position changes that
  position only; without creation exactly the positions the path denotes are written and every position apart from
  them keeps its node; a scalar target keeps its tag and style and takes the value's text.
-/
import Kust.ReplTree
import Kust.Lemmas.Match3
import Kust.Props.C14b
namespace Kust.C10
open Kust Node Fns Match Kust.ReplTree

/-- neither position lies on the path to the other -/
def Apart (p q : Pos) : Prop := ¬ p <+: q ∧ ¬ q <+: p

theorem apart_cons (a : Step) (p q : Pos) (h : Apart (a :: p) (a :: q)) : Apart p q := by
  constructor
  · intro hp; exact h.1 (by simpa using hp)
  · intro hq; exact h.2 (by simpa using hq)

/-- what a rewrite at a position does there … -/
theorem modifyAt_same (f : Node → Out Node) : ∀ (p : Pos) (d d' : Node), modifyAt f p d = .ok d' →
    ∃ t t', getAt p d = some t ∧ f t = .ok t' ∧ getAt p d' = some t' := by
  intro p
  induction p with
  | nil => intro d d' h; simp [modifyAt] at h; exact ⟨d, d', rfl, h, rfl⟩
  | cons a p ih =>
    intro d d' h
    cases a with
    | key k =>
      cases d with
      | map s fs =>
        simp only [modifyAt] at h
        split at h
        · rename_i x hx
          split at h
          · rename_i x' hm
            simp at h; subst h
            obtain ⟨t, t', e1, e2, e3⟩ := ih _ _ hm
            refine ⟨t, t', by simp [getAt, hx, e1], e2, ?_⟩
            simp [getAt, fieldGet_replace_same k x' fs x hx, e3]
          · simp at h
          · simp at h
        · simp at h
      | scalar t v st => simp [modifyAt] at h
      | seq s is => simp [modifyAt] at h
    | idx i =>
      cases d with
      | seq s is =>
        simp only [modifyAt] at h
        split at h
        · rename_i x hx
          split at h
          · rename_i x' hm
            simp at h; subst h
            obtain ⟨t, t', e1, e2, e3⟩ := ih _ _ hm
            have hlt : i < is.length := by rw [List.getElem?_eq_some_iff] at hx; exact hx.1
            refine ⟨t, t', by simp [getAt, hx, e1], e2, ?_⟩
            simp [getAt, List.getElem?_set_self hlt, e3]
          · simp at h
          · simp at h
        · simp at h
      | scalar t v st => simp [modifyAt] at h
      | map s fs => simp [modifyAt] at h

/-- … and that it does nothing anywhere else: every position apart from it still holds the same node -/
theorem modifyAt_frame (f : Node → Out Node) : ∀ (p : Pos) (d d' : Node), modifyAt f p d = .ok d' →
    ∀ q, Apart p q → getAt q d' = getAt q d := by
  intro p
  induction p with
  | nil => intro d d' _ q hq; exact absurd (List.nil_prefix) hq.1
  | cons a p ih =>
    intro d d' h q hq
    cases q with
    | nil => exact absurd (List.nil_prefix) hq.2
    | cons b q =>
      cases a with
      | key k =>
        cases d with
        | map s fs =>
          simp only [modifyAt] at h
          split at h
          · rename_i x hx
            split at h
            · rename_i x' hm
              simp at h; subst h
              cases b with
              | key k' =>
                by_cases hk : k' = k
                · subst hk
                  simp only [getAt, fieldGet_replace_same k' x' fs x hx, hx, Option.bind_some]
                  exact ih _ _ hm q (apart_cons _ _ _ hq)
                · simp only [getAt, fieldGet_replace_other k k' x' fs hk]
              | idx j => simp [getAt]
            · simp at h
            · simp at h
          · simp at h
        | scalar t v st => simp [modifyAt] at h
        | seq s is => simp [modifyAt] at h
      | idx i =>
        cases d with
        | seq s is =>
          simp only [modifyAt] at h
          split at h
          · rename_i x hx
            split at h
            · rename_i x' hm
              simp at h; subst h
              have hlt : i < is.length := by rw [List.getElem?_eq_some_iff] at hx; exact hx.1
              cases b with
              | idx j =>
                by_cases hj : j = i
                · subst hj
                  simp only [getAt, List.getElem?_set_self hlt, hx, Option.bind_some]
                  exact ih _ _ hm q (apart_cons _ _ _ hq)
                · simp only [getAt, List.getElem?_set_ne (Ne.symm hj)]
              | key k' => simp [getAt]
            · simp at h
            · simp at h
          · simp at h
        | scalar t v st => simp [modifyAt] at h
        | map s fs => simp [modifyAt] at h

theorem writeAll_frame (o : Option Opts) (value : Node) : ∀ (ps : List Pos) (d d' : Node), writeAll o value ps d = .ok d' →
    ∀ q, (∀ p ∈ ps, Apart p q) → getAt q d' = getAt q d := by
  intro ps
  induction ps with
  | nil => intro d d' h q _; simp [writeAll] at h; subst h; rfl
  | cons p ps ih =>
    intro d d' h q hq
    simp only [writeAll] at h
    split at h
    · rename_i d1 h1
      rw [ih _ _ h q (fun p' hp' => hq p' (by simp [hp'])), modifyAt_frame _ p d d1 h1 q (hq p (by simp))]
    · simp at h
    · simp at h

/-- `setFieldValue` on a scalar target without a delimiter: only the TEXT changes — tag and style of the target stay -/
theorem setFieldValue_scalar (o : Option Opts) (hd : ∀ o', o = some o' → o'.delim = "") (t v : String) (s : Nat) (value : Node) :
    setFieldValue o (.scalar t v s) value = .ok (.scalar t value.valueText s) := by
  unfold setFieldValue
  cases o with
  | none => simp
  | some o' => simp [hd o' rfl]

/-- on a map or list target without a delimiter the target becomes the value -/
theorem setFieldValue_nonscalar (o : Option Opts) (hd : ∀ o', o = some o' → o'.delim = "") (target value : Node)
    (ht : ∀ t v s, target ≠ .scalar t v s) : setFieldValue o target value = .ok value := by
  unfold setFieldValue
  cases o with
  | none =>
    cases target with
    | scalar t v s => exact absurd rfl (ht t v s)
    | map s fs => simp
    | seq s is => simp
  | some o' =>
    have := hd o' rfl
    cases target with
    | scalar t v s => exact absurd rfl (ht t v s)
    | map s fs => simp [this]
    | seq s is => simp [this]

/-- **exactly the denoted fields are written.** One target field path without creation: when `copyValueToTarget`
    succeeds, every position of the target resource that is apart from all positions the path denotes still holds the
    node it held — whatever the value, the options and the document. -/
theorem copyOne_frame (hitB : String → Node → Bool) (ns : String → Bool) (o : Option Opts)
    (hc : ∀ o', o = some o' → o'.create = false) (value : Node) (path : List String) (hp : "" ∉ path) (doc d' : Node)
    (h : copyOne (fun a b => .ok (hitB a b)) ns o value path doc = .ok d') :
    ∀ q, (∀ p ∈ denote hitB path doc, Apart p q) → getAt q d' = getAt q doc := by
  unfold copyOne at h
  have hck : createKind o value = 0 := by
    cases o with
    | none => rfl
    | some o' => simp [createKind, hc o' rfl]
  rw [hck] at h
  split at h
  · rename_i dm ps hm
    have e1 := Kust.C14.match_nocreate_doc _ ns path doc dm ps hm
    have e2 := Kust.C14.match_denotes hitB ns path hp doc dm ps hm
    subst e1; subst e2
    split at h
    · simp at h
    · intro q hq
      exact writeAll_frame o value _ _ _ h q hq
  · split at h <;> simp at h
  · simp at h

/-- a single denoted scalar field, no delimiter: afterwards it holds the value's text, with its own tag and style -/
theorem copyOne_single_scalar (hitB : String → Node → Bool) (ns : String → Bool) (o : Option Opts)
    (hc : ∀ o', o = some o' → o'.create = false) (hd : ∀ o', o = some o' → o'.delim = "")
    (value : Node) (path : List String) (hp : "" ∉ path) (doc d' : Node) (p : Pos) (t v : String) (s : Nat)
    (hden : denote hitB path doc = [p]) (hat : getAt p doc = some (.scalar t v s))
    (h : copyOne (fun a b => .ok (hitB a b)) ns o value path doc = .ok d') :
    getAt p d' = some (.scalar t value.valueText s) := by
  unfold copyOne at h
  have hck : createKind o value = 0 := by
    cases o with
    | none => rfl
    | some o' => simp [createKind, hc o' rfl]
  rw [hck] at h
  split at h
  · rename_i dm ps hm
    have e1 := Kust.C14.match_nocreate_doc _ ns path doc dm ps hm
    have e2 := Kust.C14.match_denotes hitB ns path hp doc dm ps hm
    subst e1; subst e2
    rw [hden] at h
    simp only [List.cons_ne_self, if_false, writeAll] at h
    split at h
    · rename_i d1 h1
      simp at h; subst h
      obtain ⟨t0, t', e1, e2, e3⟩ := modifyAt_same _ p _ _ h1
      rw [hat] at e1; cases e1
      rw [setFieldValue_scalar o hd] at e2
      cases e2
      exact e3
    · simp at h
    · simp at h
  · split at h <;> simp at h
  · simp at h


theorem apart_of_head_ne (a b : Step) (p q : Pos) (h : a ≠ b) : Apart (a :: p) (b :: q) := by
  constructor
  · intro hp; simp at hp; exact h hp.1
  · intro hq; simp at hq; exact h hq.1.symm

theorem apart_cons_iff (a : Step) (p q : Pos) (h : Apart p q) : Apart (a :: p) (a :: q) := by
  constructor
  · intro hp; exact h.1 (by simpa using hp)
  · intro hq; exact h.2 (by simpa using hq)

theorem pairwise_map_cons (a : Step) (l : List Pos) (h : l.Pairwise Apart) :
    (l.map (a :: ·)).Pairwise Apart := by
  induction l with
  | nil => simp
  | cons x xs ih =>
    simp only [List.map_cons, List.pairwise_cons] at h ⊢
    refine ⟨?_, ih h.2⟩
    intro y hy
    simp at hy
    obtain ⟨z, hz, e⟩ := hy
    subst e
    exact apart_cons_iff a x z (h.1 z hz)

theorem denoteElems_heads (sel : Node → Bool) (sub : Node → List Pos) :
    ∀ (is : List Node) (i : Nat), ∀ p ∈ denoteElems sel sub i is, ∃ k q, i ≤ k ∧ p = Step.idx k :: q := by
  intro is
  induction is with
  | nil => intro i p h; simp [denoteElems] at h
  | cons e es ih =>
    intro i p h
    simp only [denoteElems, List.mem_append] at h
    rcases h with h | h
    · split at h
      · simp at h; obtain ⟨q, _, e1⟩ := h; exact ⟨i, q, Nat.le_refl _, e1.symm⟩
      · simp at h
    · obtain ⟨k, q, hk, e1⟩ := ih (i + 1) p h
      exact ⟨k, q, by omega, e1⟩

theorem denoteElems_pairwise (sel : Node → Bool) (sub : Node → List Pos) (hsub : ∀ e, (sub e).Pairwise Apart) :
    ∀ (is : List Node) (i : Nat), (denoteElems sel sub i is).Pairwise Apart := by
  intro is
  induction is with
  | nil => intro i; simp [denoteElems]
  | cons e es ih =>
    intro i
    simp only [denoteElems]
    rw [List.pairwise_append]
    refine ⟨?_, ih (i + 1), ?_⟩
    · split
      · exact pairwise_map_cons _ _ (hsub e)
      · simp
    · intro p hp q hq
      obtain ⟨k, q', hk, e2⟩ := denoteElems_heads sel sub es (i + 1) q hq
      split at hp
      · simp at hp
        obtain ⟨p', _, e1⟩ := hp
        subst e1; subst e2
        exact apart_of_head_ne _ _ _ _ (by intro e; cases e; omega)
      · simp at hp

/-- the positions a path denotes never lie on one another's way -/
theorem denote_pairwise (hitB : String → Node → Bool) : ∀ (p : List String) (d : Node), (denote hitB p d).Pairwise Apart := by
  intro p
  induction p with
  | nil => intro d; simp [denote]
  | cons part rest ih =>
    intro d
    unfold denote
    split
    · unfold denoteIdx
      split
      · split
        · exact pairwise_map_cons _ _ (ih _)
        · simp
      · simp
    · split
      · unfold denoteSel
        split
        · split
          · exact denoteElems_pairwise _ _ (by intro e; simp) _ _
          · exact denoteElems_pairwise _ _ (fun e => ih e) _ _
        · simp
      · split
        · unfold denoteStar
          split
          · exact denoteElems_pairwise _ _ (fun e => ih e) _ _
          · simp
        · unfold denoteField
          split
          · split
            · exact pairwise_map_cons _ _ (ih _)
            · simp
          · simp

/-- writing a list of mutually apart positions: each of them ends up holding what `setFieldValue` makes of the node
    that was there -/
theorem writeAll_each (o : Option Opts) (value : Node) : ∀ (ps : List Pos) (d d' : Node), ps.Pairwise Apart →
    writeAll o value ps d = .ok d' →
    ∀ p ∈ ps, ∃ t t', getAt p d = some t ∧ setFieldValue o t value = .ok t' ∧ getAt p d' = some t' := by
  intro ps
  induction ps with
  | nil => intro d d' _ _ p hp; simp at hp
  | cons q qs ih =>
    intro d d' hpw h p hp
    simp only [writeAll] at h
    simp only [List.pairwise_cons] at hpw
    split at h
    · rename_i d1 h1
      simp at hp
      rcases hp with e | hp
      · subst e
        obtain ⟨t, t', e1, e2, e3⟩ := modifyAt_same _ p d d1 h1
        refine ⟨t, t', e1, e2, ?_⟩
        rw [writeAll_frame o value qs d1 d' h p (fun q' hq' => by
          have := hpw.1 q' hq'; exact ⟨this.2, this.1⟩)]
        exact e3
      · obtain ⟨t, t', e1, e2, e3⟩ := ih d1 d' hpw.2 h p hp
        refine ⟨t, t', ?_, e2, e3⟩
        rw [← e1]
        exact (modifyAt_frame _ q d d1 h1 p (hpw.1 p hp)).symm
    · simp at h
    · simp at h

/-- **verbatim into exactly the selected fields.** One target field path, no creation, no delimiter: after
    `copyValueToTarget` EVERY scalar field the path denotes holds the value's text (with the field's own tag and style),
    and (by `copyOne_frame`) every position apart from the denoted ones is untouched. -/
theorem copyOne_every_scalar (hitB : String → Node → Bool) (ns : String → Bool) (o : Option Opts)
    (hc : ∀ o', o = some o' → o'.create = false) (hd : ∀ o', o = some o' → o'.delim = "")
    (value : Node) (path : List String) (hp : "" ∉ path) (doc d' : Node)
    (h : copyOne (fun a b => .ok (hitB a b)) ns o value path doc = .ok d') :
    ∀ p ∈ denote hitB path doc, ∀ t v s, getAt p doc = some (.scalar t v s) →
      getAt p d' = some (.scalar t value.valueText s) := by
  unfold copyOne at h
  have hck : createKind o value = 0 := by
    cases o with
    | none => rfl
    | some o' => simp [createKind, hc o' rfl]
  rw [hck] at h
  split at h
  · rename_i dm ps hm
    have e1 := Kust.C14.match_nocreate_doc _ ns path doc dm ps hm
    have e2 := Kust.C14.match_denotes hitB ns path hp doc dm ps hm
    subst e1; subst e2
    split at h
    · simp at h
    · intro p hpm t v s hat
      obtain ⟨t0, t', e1, e2, e3⟩ := writeAll_each o value _ _ _ (denote_pairwise hitB path dm) h p hpm
      rw [hat] at e1; cases e1
      rw [setFieldValue_scalar o hd] at e2
      cases e2
      exact e3
  · split at h <;> simp at h
  · simp at h

/-- the premises are satisfiable: `spec.containers.[name=a].image` in a two-container list denotes one scalar -/
example :
    let hitB : String → Node → Bool := fun pat n => match n with | .scalar _ v _ => v = pat | _ => false
    let doc : Node := .map 0 [("spec", .map 0 [("containers", .seq 0 [
      .map 0 [("name", .scalar "!!str" "a" 0), ("image", .scalar "!!str" "old" 2)],
      .map 0 [("name", .scalar "!!str" "b" 0), ("image", .scalar "!!str" "keep" 0)]])])]
    denote hitB ["spec", "containers", "[name=a]", "image"] doc = [[.key "spec", .key "containers", .idx 0, .key "image"]] ∧
    copyOne (fun a b => .ok (hitB a b)) (fun _ => false) none (.scalar "!!str" "new" 0) ["spec", "containers", "[name=a]", "image"] doc
      = .ok (.map 0 [("spec", .map 0 [("containers", .seq 0 [
          .map 0 [("name", .scalar "!!str" "a" 0), ("image", .scalar "!!str" "new" 2)],
          .map 0 [("name", .scalar "!!str" "b" 0), ("image", .scalar "!!str" "keep" 0)]])])]) := by decide

end Kust.C10
