/-
  C16 — independent builds may run concurrently without interfering.  PARTIAL by nature: the Go memory model,
  sync.RWMutex and goroutine-local state are assumed as modelled in `Kust.Sync`; the link to the code is the
  regenerated access table (SSA + RTA from (*Kustomizer).Run, syntactic lock-status propagation).
  * `Sync.lockset_drf`: lock discipline ⇒ no interleaving has two simultaneous conflicting accesses (proved).
  * `access_table_disciplined`: in the CURRENT source every access to a package-level variable that is written
    outside `init` is made by a function that takes a lock itself or is only called by such functions — the
    hypothesis of `lockset_drf` for the real code (decide over the regenerated table).  It was false before the
    repair of finding 10 (IsNamespaceScoped / SchemaForResourceType read the maps unlocked).
  * the default-schema view is confluent: `C01.observeAll_default` (any two default-selection states observe alike).
-/
import Kust.Sync
import Kust.Gen.CodeFacts
import Kust.Reviewed
import Kust.Props.C01
namespace Kust.C16
open Kust Sync

/-- the package-level variables written outside `init` on the build path are exactly the reviewed ones -/
theorem globals_reviewed : Gen.mutableGlobals.map (·.1) = Reviewed.mutableGlobals := by decide

/-- … and the only package-level variables handed BY REFERENCE to a call on the build path (their address, or the
    shared object a package-level pointer / map / channel designates) are the reviewed ones: the schema lock, a
    `sync.Once`, an immutable codec, a table that is copied before use.  A memo kept in a `sync.Map`, a cache object
    behind a package-level pointer, … shows up here. -/
theorem globals_byref_reviewed :
    Gen.globalsByRef.map (fun e => (e.1, e.2.1)) = Reviewed.globalsByRef.map (fun e => (e.1, e.2.1)) := by decide

/-- Go-plugin registry: outside the property's domain (builds with built-in transformers only) -/
def exempt (g : String) : Bool := g = "api/internal/plugins/loader.registry"

/-- **access_table_disciplined** -/
theorem access_table_disciplined :
    Gen.globalAccess.all (fun e => decide (1 ≤ e.2.2) || exempt e.1) = true := by decide

/-- every schema global is accessed by at least one locking function (the table is not vacuous) -/
theorem schema_accesses_present :
    (Gen.globalAccess.filter (fun e => e.1 == "kyaml/openapi.globalSchema" && e.2.2 == 2)).length ≥ 4 := by decide

/-- the shape the table establishes: each build's accesses to the schema state are bracketed by the schema lock -/
def buildThread : List Ev := [.acq 0, .wr 0, .rel 0, .acq 0, .rd 0, .rel 0, .acq 0, .rd 0, .wr 0, .rel 0]

theorem buildThread_disciplined : Disc (fun _ => 0) [] buildThread := by
  simp [buildThread, Disc]

/-- any number of such builds, any interleaving: never two simultaneous conflicting accesses -/
theorem concurrent_builds_race_free (n : Nat) (s : State)
    (hr : Reach (fun p => if p < n then ⟨[], buildThread⟩ else ⟨[], []⟩) s) : ¬ Racy s := by
  refine lockset_drf (fun _ => 0) _ s ⟨?_, ?_⟩ hr
  · intro p; by_cases hp : p < n <;> simp [hp, buildThread_disciplined, Disc]
  · intro p q l _ hl; by_cases hp : p < n <;> simp [hp] at hl

/-- concurrent default-schema builds observe what they observe alone (the order in which the lock-protected
    sections of other default builds ran does not matter): every state reached by default-selection operations
    satisfies `DefaultInv`, and any two such states give the same observations. -/
theorem default_view_confluent (a b : OpenApi.St) (ops : List OpenApi.Op) (ha : C01.DefaultInv a) (hb : C01.DefaultInv b) :
    OpenApi.observeAll a ops = OpenApi.observeAll b ops := C01.observeAll_default a b ops ha hb

end Kust.C16
