/-
  C11 — kustomizations compose transparently: legacy order is input-order independent; affixes accumulate as the
  nesting prescribes.
  `sort` is ANY function meeting `SortSpec` (Go's pdqsort is not modelled); the comparator is the transliterated
  `legacyIDSorter.Less` over the REGENERATED `orderFirst`/`orderLast` lists.
-/
import Kust.Sort
import Kust.Lemmas.Res
import Kust.Gen.Lists
namespace Kust.C11
open Kust Res

abbrev le := legacyLe Gen.orderFirst Gen.orderLast

/-- **legacy order is one fixed order, independent of input order**: for every sorting function and every two
    permutations of an id list on which the comparator is antisymmetric (distinct ids have distinct sort keys —
    hypothesis `AsciiIds` of DESIGN, forced by the `~G/~V/~K/~X/~N` placeholders and the string joins). -/
theorem legacy_order_input_independent (sort : List ResId → List ResId) (hs : SortSpec le sort)
    (l₁ l₂ : List ResId) (anti : AntisymmOn le l₁) (h : l₁.Perm l₂) : sort l₁ = sort l₂ :=
  sort_perm_invariant hs anti h

theorem legacy_sort_idempotent (sort : List ResId → List ResId) (hs : SortSpec le sort)
    (l : List ResId) (anti : AntisymmOn le l) : sort (sort l) = sort l :=
  sort_idem hs anti

/-- non-vacuity: the antisymmetry hypothesis holds on a concrete mixed list (kernel-evaluated comparator) -/
def sample : List ResId :=
  [⟨⟨"apps", "v1", "Deployment"⟩, "web", "ns1"⟩, ⟨⟨"", "v1", "Namespace"⟩, "ns1", ""⟩,
   ⟨⟨"", "v1", "ConfigMap"⟩, "cfg", ""⟩, ⟨⟨"", "v1", "ConfigMap"⟩, "cfg", "ns1"⟩,
   ⟨⟨"admissionregistration.k8s.io", "v1", "ValidatingWebhookConfiguration"⟩, "hook", ""⟩,
   ⟨⟨"example.com", "v1", "MyKind"⟩, "x", ""⟩]

example : sample.all (fun a => sample.all (fun b => !(le a b && le b a) || a == b)) = true := by decide

/-- … and the order is the documented one: Namespace first, webhook last, unknown kinds in between -/
example : [sample[1]!, sample[3]!, sample[2]!, sample[0]!, sample[5]!, sample[4]!].Pairwise
    (fun a b => le a b = true) := by decide

/-- the order lists have no duplicates and are disjoint (else `typeOrder` would be ambiguous) -/
theorem order_lists_wellformed :
    Gen.orderFirst.Nodup ∧ Gen.orderLast.Nodup ∧ Gen.orderFirst.all (fun k => !Gen.orderLast.contains k) = true := by
  decide

/-! ### affix accumulation -/

/-- the name the nesting prescribes: each layer wraps the name of the inner ones -/
def affixName : List Layer → String → String
  | [], n => n
  | l :: ls, n => affixName ls (l.pre ++ n ++ l.suf)

def prefixesOuterFirst (ls : List Layer) : String := (ls.reverse.map (·.pre)).foldr (· ++ ·) ""
def suffixesInnerFirst (ls : List Layer) : String := (ls.map (·.suf)).foldr (· ++ ·) ""

/-- `affixName` is "outer prefix outermost": P_outer … P_inner ++ name ++ S_inner … S_outer -/
theorem foldr_append_acc (xs : List String) (acc : String) :
    xs.foldr (· ++ ·) acc = xs.foldr (· ++ ·) "" ++ acc := by
  induction xs with
  | nil => simp
  | cons x xs ih => simp [List.foldr, ih, String.append_assoc]

theorem affixName_eq (ls : List Layer) (n : String) :
    affixName ls n = prefixesOuterFirst ls ++ n ++ suffixesInnerFirst ls := by
  induction ls generalizing n with
  | nil => simp [affixName, prefixesOuterFirst, suffixesInnerFirst]
  | cons l ls ih =>
    rw [affixName, ih]
    simp only [prefixesOuterFirst, suffixesInnerFirst, List.reverse_cons, List.map_append, List.map_cons,
      List.map_nil, List.foldr_append, List.foldr_cons, List.foldr_nil, String.append_empty]
    rw [foldr_append_acc _ l.pre]
    simp only [String.append_assoc]

theorem prefixStep_name (cs : Gvk → Bool) (p : String) (r r' : R)
    (he : prefixStep cs (fun _ => false) p r = .ok r') : r'.name = p ++ r.name ∧ r'.gvk = r.gvk := by
  unfold prefixStep at he
  split at he
  · simp at he; subst he
    by_cases hp : p = "" <;> simp [hp, R.storePrev]
  · simp at he
  · simp at he

theorem suffixStep_name (cs : Gvk → Bool) (s : String) (r r' : R)
    (he : suffixStep cs (fun _ => false) s r = .ok r') : r'.name = r.name ++ s ∧ r'.gvk = r.gvk := by
  unfold suffixStep at he
  split at he
  · simp at he; subst he
    by_cases hp : s = "" <;> simp [hp, R.storePrev]
  · simp at he
  · simp at he

theorem nsStep_name (cs : Gvk → Bool) (n : String) (r : R) (hk : r.gvk.kind ≠ "Namespace") :
    (nsStep cs n r).name = r.name ∧ (nsStep cs n r).gvk = r.gvk := by
  unfold nsStep
  split
  · exact ⟨rfl, rfl⟩
  · dsimp only
    split <;> (split <;> simp_all [R.storePrev])

/-- **affix_accumulation**: through any chain of layers a resource of a kind that is not skipped (and not a
    Namespace object, which the namespace directive renames) is named exactly as the nesting prescribes. -/
theorem affix_accumulation (cs : Gvk → Bool) :
    ∀ (ls : List Layer) (r r' : R), r.gvk.kind ≠ "Namespace" →
      layers cs (fun _ => false) ls r = .ok r' → r'.name = affixName ls r.name
  | [], r, r', _, he => by simp [layers] at he; subst he; rfl
  | l :: ls, r, r', hk, he => by
    unfold layers at he
    split at he
    · rename_i r1 h1
      unfold layerStep at h1
      split at h1
      · rename_i r0 h0
        obtain ⟨a1, a2⟩ := prefixStep_name cs l.pre _ r0 h0
        obtain ⟨b1, b2⟩ := suffixStep_name cs l.suf r0 r1 h1
        obtain ⟨c1, c2⟩ := nsStep_name cs l.ns r hk
        have hk1 : r1.gvk.kind ≠ "Namespace" := by rw [b2, a2, c2]; exact hk
        rw [affix_accumulation cs ls r1 r' hk1 he, b1, a1, c1, affixName]
      · simp at h1
      · simp at h1
    · simp at he
    · simp at he

/-- the kinds skipped by the prefix/suffix transformers are the regenerated list (reviewed value) -/
theorem skip_list_expected : Gen.prefixSkipKinds = ["CustomResourceDefinition", "APIService", "Namespace"] := by
  decide


/-! ### wrapping -/

theorem empty_append (s : String) : "" ++ s = s := by apply String.toList_inj.mp; simp
theorem append_empty (s : String) : s ++ "" = s := by apply String.toList_inj.mp; simp

theorem orgId_ok_of_aligned (r : R) (ha : r.Aligned) : ∃ i, r.orgId = .ok i := by
  have ha' : r.pNames.length = r.pNss.length ∧ r.pNames.length = r.pKinds.length := ha
  have hp : r.prevIds = .ok (if r.pNames = [] then [] else zip3 r.gvk r.pNames r.pNss r.pKinds) := by
    unfold R.prevIds
    by_cases h : r.pNames = []
    · simp [h]
    · rw [if_neg h, if_pos ha', if_neg h]
  unfold R.orgId
  rw [hp]
  cases (if r.pNames = [] then [] else zip3 r.gvk r.pNames r.pNss r.pKinds) with
  | nil => exact ⟨_, rfl⟩
  | cons i _ => exact ⟨i, rfl⟩

/-- **a layer without directives changes nothing** — not the name, not the namespace, not even the bookkeeping -/
theorem empty_layer_noop (cs : Gvk → Bool) (skip : String → Bool) (r : R) (ha : r.Aligned) :
    layerStep cs skip {} r = .ok r := by
  obtain ⟨i, hi⟩ := orgId_ok_of_aligned r ha
  have h1 : prefixStep cs skip "" r = .ok r := by
    unfold prefixStep
    rw [hi]
    by_cases hs : skip i.gvk.kind
    · simp [hs]
    · simp [hs, appendCsv]
  have h2 : suffixStep cs skip "" r = .ok r := by
    unfold suffixStep
    rw [hi]
    by_cases hs : skip i.gvk.kind
    · simp [hs]
    · simp [hs, appendCsv]
  simp [layerStep, nsStep, h1, h2]

theorem layers_append (cs : Gvk → Bool) (skip : String → Bool) : ∀ (l1 l2 : List Layer) (r r1 : R),
    layers cs skip l1 r = .ok r1 → layers cs skip (l1 ++ l2) r = layers cs skip l2 r1 := by
  intro l1
  induction l1 with
  | nil => intro l2 r r1 h; simp [layers] at h; subst h; rfl
  | cons l ls ih =>
    intro l2 r r1 h
    simp only [layers, List.cons_append] at h ⊢
    cases hl : layerStep cs skip l r with
    | ok r0 => simp only [hl] at h ⊢; exact ih l2 r0 r1 h
    | err c => simp [hl] at h
    | panic c => simp [hl] at h

/-- **wrapping is transparent**: listing a kustomization in an overlay that has no directives of its own — any number of
    such overlays — gives every resource exactly what the wrapped kustomization gives it -/
theorem wrap_transparent (cs : Gvk → Bool) (skip : String → Bool) (ls : List Layer) (n : Nat) (r r' : R) (h : r.Good)
    (he : layers cs skip ls r = .ok r') : layers cs skip (ls ++ List.replicate n ({} : Layer)) r = .ok r' := by
  have hg : r'.Good := layers_good cs skip ls r r' h he
  rw [layers_append cs skip ls _ r r' he]
  induction n with
  | zero => rfl
  | succ k ih =>
    have := empty_layer_noop cs skip r' hg.1
    simp only [List.replicate_succ, layers, this]
    exact ih

/-- … and a wrapper UNDER the directives (an inner layer without directives) is as transparent -/
theorem inner_wrap_transparent (cs : Gvk → Bool) (skip : String → Bool) (ls : List Layer) (r : R) (h : r.Good) :
    layers cs skip (({} : Layer) :: ls) r = layers cs skip ls r := by
  have := empty_layer_noop cs skip r h.1
  simp only [layers, this]


end Kust.C11
