/-
  C20 (schema clause) — "with schema use enabled, scalar types follow the schema and never change the parsed value of
  strings".  Theorems about `Kust.FmtSchema.format`, the model of `yaml.FormatNonStringStyle`, tied to the Go function
  by the correspondence component `fmt.nonstring`; `ns` (IsValueNonString, go-yaml v2) is a parameter.
-/
import Kust.FmtSchema
namespace Kust.C20
open Kust Kust.FmtSchema

variable (ns : String → Bool)

theorem finish_value (t : String) (m : Scalar) : (finish t m).value = m.value := by
  unfold finish; split
  · rfl
  · split <;> rfl

theorem finish_style (t : String) (m : Scalar) (hn : m.tag ≠ "!!null") : (finish t m).style = m.style := by
  unfold finish; rw [if_neg hn]; split <;> rfl

theorem quoted_dq : quoted dqBit = true := by decide
theorem quoted_zero : quoted 0 = false := by decide

/-- the text of a scalar is never touched -/
theorem schema_value_kept (types : List String) (fmt : String) (n : Scalar) :
    (format ns types fmt n).value = n.value := by
  unfold format
  split
  · split
    · rfl
    · split
      · rw [finish_value]; split <;> rfl
      · split
        · rw [finish_value]; split <;> rfl
        · rfl
  · rfl

/-- **int-or-string fields are left exactly as they are** (a quoted `"8080"` stays the string it is) -/
theorem int_or_string_untouched (n : Scalar) : format ns ["string"] "int-or-string" n = n := by
  simp [format]

/-- a field whose schema type the step does not know is left as it is -/
theorem unknown_type_untouched (t fmt : String) (n : Scalar)
    (h : t ≠ "string" ∧ t ≠ "boolean" ∧ t ≠ "integer" ∧ t ≠ "number") : format ns [t] fmt n = n := by
  simp [format, h.1, h.2.1, h.2.2.1, h.2.2.2]

/-- text that is not a YAML 1.1 non-string is never touched, whatever the schema says -/
theorem plain_text_untouched (types : List String) (fmt : String) (n : Scalar) (h : ns n.value = false) :
    format ns types fmt n = n := by
  unfold format
  split
  · simp [h]
  · rfl

/-- **strings stay strings.** Under a `string` schema a scalar that a YAML 1.1 reader takes for a string is still
    one afterwards — and one that it would have mis-typed (unquoted `on`, `123`) becomes one. -/
theorem string_schema_reads_as_string (fmt : String) (n : Scalar) (hf : fmt ≠ "int-or-string") (hn : n.tag ≠ "!!null") :
    readsAsString ns (format ns ["string"] fmt n) = true := by
  by_cases h : ns n.value
  · have hfmt : format ns ["string"] fmt n = finish "string" (if quoted n.style then n else { n with style := dqBit }) := by
      simp [format, h, hf]
    rw [hfmt]
    unfold readsAsString
    by_cases hq : quoted n.style
    · rw [if_pos hq, finish_style _ _ hn, hq]; rfl
    · rw [if_neg hq, finish_style _ _ (by simpa using hn)]
      simp [quoted_dq]
  · simp [format, readsAsString, h]

/-- a scalar that reads as a string keeps reading as a string unless the schema types the field boolean / integer /
    number — the only case in which the step removes quotes -/
theorem string_kept_unless_typed (t fmt : String) (n : Scalar) (hs : readsAsString ns n = true)
    (ht : t ≠ "boolean" ∧ t ≠ "integer" ∧ t ≠ "number") (hn : n.tag ≠ "!!null") :
    readsAsString ns (format ns [t] fmt n) = true := by
  by_cases hns : ns n.value
  · have hq : quoted n.style = true := by simpa [readsAsString, hns] using hs
    by_cases h1 : t = "string" ∧ fmt ≠ "int-or-string"
    · obtain ⟨rfl, hf⟩ := h1
      have hfmt : format ns ["string"] fmt n = finish "string" n := by simp [format, hns, hf, hq]
      rw [hfmt]; unfold readsAsString; rw [finish_style _ _ hn, hq]; rfl
    · simp only [format, hns, Bool.not_true, Bool.false_eq_true, if_false, h1, ht.1, ht.2.1, ht.2.2, or_self]
      exact hs
  · rw [plain_text_untouched ns [t] fmt n (by simpa using hns)]; exact hs

/-- **idempotent**: formatting the result again changes nothing -/
theorem schema_idempotent (types : List String) (fmt : String) (n : Scalar) :
    format ns types fmt (format ns types fmt n) = format ns types fmt n := by
  match types with
  | [] => simp [format]
  | _ :: _ :: _ => simp [format]
  | [t] =>
    by_cases hns : ns n.value
    · by_cases h1 : t = "string" ∧ fmt ≠ "int-or-string"
      · obtain ⟨rfl, hf⟩ := h1
        by_cases hq : quoted n.style <;> by_cases hn : n.tag = "!!null" <;>
          simp [format, finish, hns, hf, hq, hn, typeTag, quoted_dq, quoted_zero]
      · by_cases h2 : t = "boolean" ∨ t = "integer" ∨ t = "number"
        · by_cases hq : quoted n.style <;> by_cases hn : n.tag = "!!null" <;>
            rcases h2 with rfl | rfl | rfl <;>
            simp [format, finish, hns, hq, hn, typeTag, quoted_zero]
        · simp [format, hns, h1, h2]
    · have := plain_text_untouched ns [t] fmt n (by simpa using hns)
      rw [this, this]

/-- the premises are satisfiable: a quoted port number under an int-or-string and under an integer schema -/
example : format (fun v => v = "8080") ["string"] "int-or-string" ⟨"!!str", "8080", 2⟩ = ⟨"!!str", "8080", 2⟩ ∧
          format (fun v => v = "8080") ["integer"] "" ⟨"!!str", "8080", 2⟩ = ⟨"!!int", "8080", 0⟩ ∧
          format (fun v => v = "8080") ["string"] "" ⟨"!!int", "8080", 0⟩ = ⟨"!!str", "8080", 2⟩ := by decide

end Kust.C20
