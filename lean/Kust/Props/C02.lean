/-
  C02 — untargeted content passes through a build unchanged (frame / type fidelity).
  * the field-spec filter touches a resource only where its setter is called: with the identity setter it returns
    the resource unchanged (`filter_id`), a GVK mismatch returns it unchanged;
  * documented footprints: the REGENERATED tables of every built-in transformer mention only the documented
    locations, and all their path segments are plain field names (decide);
  * type fidelity: a string value that YAML 1.1 would read as a non-string is stored double-quoted by the setters
    (`setter_keeps_string`), for every value and every `IsValueNonString`.
  Whole-build frame and typed equality are decided by the tracer oracle on real builds with the adversarial
  scalar dictionary.
-/
import Kust.FieldSpec
import Kust.Lemmas.Path
import Kust.Gen.FieldSpecs
namespace Kust.C02
open Kust Node Fns FieldSpec

/-- a spec whose GVK does not match leaves the resource untouched -/
theorem gvk_mismatch_untouched (ns : String → Bool) (set : Node → Out Node) (spec : Gen.FieldSpec) (cr : Create)
    (g v k : String) (obj : Node) (h : matchGVK spec g v k = false) :
    FieldSpec.apply ns set spec cr g v k obj = .ok obj := by
  simp [FieldSpec.apply, h]

theorem filterItems_id (rec : Node → Out Node) (is : List Node) (h : ∀ e ∈ is, ∀ e', rec e = .ok e' → e' = e) :
    ∀ is', filterItems rec is = .ok is' → is' = is := by
  induction is with
  | nil => intro is' h'; simp [filterItems] at h'; exact h'
  | cons e es ih =>
    intro is' h'
    unfold filterItems at h'
    split at h'
    · rename_i e' he
      split at h'
      · rename_i r hr
        simp at h'; subst h'
        rw [h e (by simp) e' he, ih (fun x hx => h x (by simp [hx])) r hr]
      · simp at h'
      · simp at h'
    · simp at h'
    · simp at h'

/-- a path segment that is an ordinary field name: no `[]` hint, not a number / `-` / `*` / `[k=v]`, no blanks -/
def Plain (seg : String) : Prop :=
  seqField seg = (seg, false) ∧ cleanPath [seg] = [seg] ∧ classify seg = .ok (.field seg) ∧ seg ≠ ""

theorem pathGet_plain (ns : String → Bool) (seg : String) (hp : Plain seg) (s : Nat) (fs : Fields) :
    pathGet ns 0 0 (cleanPath [seg]) (.map s fs) =
      match fieldGet seg fs with
      | some x => .ok (.map s (fieldReplace seg x fs), some x)
      | none => .ok (.map s fs, none) := by
  obtain ⟨_, h2, h3, _⟩ := hp
  rw [h2]
  unfold pathGet
  simp only [h3]
  have hn : (Node.map s fs).isNull = false := rfl
  simp only [hn, Bool.false_eq_true, if_false]
  cases hg : fieldGet seg fs with
  | none => simp
  | some x => simp [pathGet]

/-- **the filter changes nothing by itself**: without creation and with the identity setter, whatever the document
    and whatever plain path, a successful run returns the document it was given — every change a transformer makes
    is made by its setter, at the nodes the path denotes. -/
theorem filter_id (ns : String → Bool) (cr : Create) :
    ∀ (fuel : Nat) (path : List String) (obj obj' : Node), (∀ seg ∈ path, Plain seg) →
      filter ns (fun n => .ok n) false cr fuel path obj = .ok obj' → obj' = obj := by
  intro fuel
  induction fuel with
  | zero => intro path obj obj' _ h; simp [filter] at h
  | succ f ih =>
    intro path obj obj' hp h
    cases path with
    | nil => simp [filter] at h; exact h.symm
    | cons seg rest =>
      have hseg : Plain seg := hp seg (by simp)
      have hrest : ∀ s ∈ rest, Plain s := fun s hs => hp s (by simp [hs])
      unfold filter at h
      split at h
      · simp at h; exact h.symm
      · cases obj with
        | scalar t v s => simp at h
        | seq s is =>
          simp only at h
          split at h
          · rename_i is' his
            simp at h; subst h
            rw [filterItems_id _ is (fun e _ e' he => ih (seg :: rest) e e' hp he) is' his]
          · simp at h
          · simp at h
        | map s fs =>
          simp only [hseg.1, hseg.2.2.2, if_false, Bool.not_false, Bool.true_or, if_true] at h
          rw [pathGet_plain ns seg hseg s fs] at h
          cases hg : fieldGet seg fs with
          | none => simp [hg] at h; exact h.symm
          | some x =>
            simp only [hg] at h
            simp only [Bool.false_eq_true, if_false] at h
            have hre : retype 0 "" x = x := by simp [retype]
            rw [hre] at h
            split at h
            · simp at h
            · simp at h
            · rename_i x' hx
              have := ih rest x x' hrest hx
              subst this
              have htr : trimSpace seg = seg := by
                have := hseg.2.1
                unfold cleanPath at this
                simp only [List.map_cons, List.map_nil, List.filter] at this
                split at this
                · simpa using this
                · simp at this
              rw [htr, hseg.2.2.1] at h
              simp at h
              rw [← h, fieldReplace_replace, fieldReplace_self seg fs x' hg]

/-! ### type fidelity of the setters -/

/-- **setter_keeps_string**: when a transformer writes a string value that the YAML 1.1 readers used by Kubernetes
    would re-type (`ns v`: yes/no/on/off/012/1e3/…), the stored node is double-quoted — for every value and every
    implementation of the YAML-1.1 test.  (Holds for plain, untagged or `!!str`-tagged values, which is what
    `filtersutil.SetEntry` creates.) -/
theorem setter_keeps_string (ns : String → Bool) (v : String) (tag : String) (ht : tag = "!!str" ∨ tag = "")
    (h : ns v = true) : (quoteIfNonString ns false (.scalar tag v 0)).style = dq := by
  simp [quoteIfNonString, ht, h, Node.style]

/-- a value that is safe is left plain -/
theorem setter_leaves_safe_plain (ns : String → Bool) (v tag : String) (h : ns v = false) :
    quoteIfNonString ns false (.scalar tag v 0) = .scalar tag v 0 := by
  simp [quoteIfNonString, h]

/-- a new map entry written by `SetEntry` is quoted when needed and appended, the rest of the map is untouched -/
theorem set_entry_new (ns : String → Bool) (k v : String) (s : Nat) (fs : Fields) (h : fieldGet k fs = none) :
    fieldSetter ns k (some (.scalar "!!str" v 0)) false false (.map s fs) =
      .ok (.map s (fs ++ [(k, quoteIfNonString ns false (.scalar "!!str" v 0))]), some (quoteIfNonString ns false (.scalar "!!str" v 0))) := by
  have hn : (quoteIfNonString ns false (.scalar "!!str" v 0)).isNull = false := by
    simp only [quoteIfNonString]; split <;> rfl
  simp [fieldSetter, h, hn]

/-! ### documented footprints of the built-in transformers (regenerated tables) -/

open Gen in
theorem footprints :
    namePrefixSpecs.all (fun f => f.path == "metadata/name") = true ∧
    nameSuffixSpecs.all (fun f => f.path == "metadata/name") = true ∧
    replicasSpecs.all (fun f => f.path == "spec/replicas") = true ∧
    imagesSpecs.all (fun f => Str.hasSuffix f.path "/image") = true ∧
    commonAnnotationsSpecs.all (fun f => Str.hasSuffix f.path "metadata/annotations") = true ∧
    namespaceSpecs.all (fun f => f.path == "metadata/name" || Str.hasSuffix f.path "/namespace") = true := by
  decide +kernel

/-- every segment of the label / annotation / prefix / replica tables is a plain field name or carries the `[]`
    hint — the shapes the filter model is proved for and the correspondence exercises -/
def plainOrSeqB (seg : String) : Bool :=
  let n := (seqField seg).1
  n != "" && (cleanPath [n] == [n]) && (match classify n with | .ok (.field m) => m == n | _ => false)

open Gen in
theorem tables_paths_wellformed :
    (commonLabelsSpecs ++ templateLabelsSpecs ++ commonAnnotationsSpecs ++ namePrefixSpecs ++ nameSuffixSpecs ++
      replicasSpecs ++ imagesSpecs ++ namespaceSpecs).all (fun f => (pathSplit f.path).all plainOrSeqB) = true := by
  decide +kernel

end Kust.C02
