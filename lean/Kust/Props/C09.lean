/-
  C09 — the namespace directive moves every namespaced resource and nothing else.
  Model: `Res.nsStep` (NamespaceTransformer on one resource), `Res.layers` (layer chain), and the collision
  re-check of `NamespaceTransformerPlugin.Transform` (`nsAll`).  `cs` = IsCertainlyClusterScoped, a parameter
  (regenerated scope table ⊕ schema view; unknown kinds are not cluster-scoped).
-/
import Kust.Lemmas.Res
import Kust.Gen.Lists
namespace Kust.C09
open Kust Res

/-- **ns_total**: after the transformer with `N ≠ ""` a not-cluster-scoped resource is in `N`,
    a cluster-scoped one keeps whatever (no) namespace it had. -/
theorem ns_total (cs : Gvk → Bool) (n : String) (r : R) (hn : n ≠ "") :
    (cs r.gvk = false → (nsStep cs n r).ns = n) ∧ (cs r.gvk = true → (nsStep cs n r).ns = r.ns) := by
  constructor
  · intro h
    simp only [nsStep, hn, if_false, storePrev_gvk, h, Bool.false_eq_true]
    split <;> rfl
  · intro h
    simp only [nsStep, hn, if_false, storePrev_gvk, h, if_true]
    split <;> rfl

/-- an empty directive changes nothing -/
theorem ns_empty_noop (cs : Gvk → Bool) (r : R) : nsStep cs "" r = r := by simp [nsStep]

theorem prefixStep_ns (cs : Gvk → Bool) (skip : String → Bool) (p : String) (r r' : R)
    (he : prefixStep cs skip p r = .ok r') : r'.ns = r.ns ∧ r'.gvk = r.gvk := by
  unfold prefixStep at he
  split at he
  · split at he
    · simp at he; subst he; exact ⟨rfl, rfl⟩
    · simp at he; subst he
      by_cases hp : p = "" <;> simp [hp, R.storePrev]
  · simp at he
  · simp at he

theorem suffixStep_ns (cs : Gvk → Bool) (skip : String → Bool) (s : String) (r r' : R)
    (he : suffixStep cs skip s r = .ok r') : r'.ns = r.ns ∧ r'.gvk = r.gvk := by
  unfold suffixStep at he
  split at he
  · split at he
    · simp at he; subst he; exact ⟨rfl, rfl⟩
    · simp at he; subst he
      by_cases hp : s = "" <;> simp [hp, R.storePrev]
  · simp at he
  · simp at he

theorem nsStep_gvk (cs : Gvk → Bool) (n : String) (r : R) : (nsStep cs n r).gvk = r.gvk := by
  unfold nsStep
  repeat' (first | split | (dsimp only; split))
  all_goals rfl

/-- the namespace the outermost (last) non-empty directive of a chain prescribes -/
def outermostNs : List Layer → String → String
  | [], ns => ns
  | l :: ls, ns => outermostNs ls (if l.ns = "" then ns else l.ns)

/-- **ns_outermost_wins**: through any chain of layers a not-cluster-scoped resource ends in the namespace of the
    outermost directive on its chain (its own namespace if no layer has a directive); a cluster-scoped one is
    never given a namespace by the chain. -/
theorem ns_outermost_wins (cs : Gvk → Bool) (skip : String → Bool) :
    ∀ (ls : List Layer) (r r' : R), layers cs skip ls r = .ok r' →
      (cs r.gvk = false → r'.ns = outermostNs ls r.ns) ∧ (cs r.gvk = true → r'.ns = r.ns)
  | [], r, r', he => by simp [layers] at he; subst he; simp [outermostNs]
  | l :: ls, r, r', he => by
    unfold layers at he
    split at he
    · rename_i r1 h1
      unfold layerStep at h1
      split at h1
      · rename_i r0 h0
        obtain ⟨a1, a2⟩ := prefixStep_ns cs skip l.pre _ r0 h0
        obtain ⟨b1, b2⟩ := suffixStep_ns cs skip l.suf r0 r1 h1
        have hg : r1.gvk = r.gvk := by rw [b2, a2, nsStep_gvk]
        have ih := ns_outermost_wins cs skip ls r1 r' he
        rw [hg] at ih
        have hns : r1.ns = (nsStep cs l.ns r).ns := by rw [b1, a1]
        constructor
        · intro hc
          rw [ih.1 hc, hns]
          by_cases hl : l.ns = ""
          · simp [outermostNs, hl, ns_empty_noop]
          · simp [outermostNs, hl, (ns_total cs l.ns r hl).1 hc]
        · intro hc
          rw [ih.2 hc, hns]
          by_cases hl : l.ns = ""
          · simp [hl, ns_empty_noop]
          · exact (ns_total cs l.ns r hl).2 hc
      · simp at h1
      · simp at h1
    · simp at he
    · simp at he

/-! ### the collision re-check -/

/-- `Transform` over the whole map, on ids: each resource is moved in turn and the map must then contain exactly
    one resource `Equals` to it (the moved ones, itself, and the not-yet-moved ones are all looked at). -/
def nsAll (cs : Gvk → Bool) (move : ResId → ResId) : List ResId → List ResId → Out (List ResId)
  | done, [] => .ok done
  | done, r :: rest =>
    let r' := move r
    if ((done ++ [r'] ++ rest).filter (fun x => idEquals cs x r')).length = 1 then
      nsAll cs move (done ++ [r']) rest
    else .err "namespace transformation produces ID conflict"

/-- **ns_collision_is_error**: if the transformer succeeds, the moved resources are pairwise distinct —
    colliding resources are never silently merged or dropped (the list keeps its length, too). -/
theorem ns_collision_is_error (cs : Gvk → Bool) (move : ResId → ResId) :
    ∀ (todo done out : List ResId), IdsUnique cs done → nsAll cs move done todo = .ok out →
      IdsUnique cs out ∧ out.length = done.length + todo.length
  | [], done, out, hu, h => by simp [nsAll] at h; subst h; exact ⟨hu, by simp⟩
  | r :: rest, done, out, hu, h => by
    unfold nsAll at h
    dsimp only at h
    split at h
    · rename_i hc
      have hnone : ∀ a ∈ done, idEquals cs a (move r) = false := by
        intro a ha
        cases hab : idEquals cs a (move r) with
        | false => rfl
        | true =>
          exfalso
          -- both `a` (in done) and `move r` itself match: at least two
          have h2 : 2 ≤ ((done ++ [move r] ++ rest).filter (fun x => idEquals cs x (move r))).length := by
            rw [List.append_assoc, List.filter_append, List.length_append]
            have h1 : 1 ≤ (done.filter (fun x => idEquals cs x (move r))).length :=
              List.length_pos_of_mem (List.mem_filter.mpr ⟨ha, hab⟩)
            have h3 : 1 ≤ (([move r] ++ rest).filter (fun x => idEquals cs x (move r))).length :=
              List.length_pos_of_mem (List.mem_filter.mpr ⟨by simp, idEquals_refl cs _⟩)
            omega
          omega
      have hu' : IdsUnique cs (done ++ [move r]) := by
        unfold IdsUnique
        rw [List.pairwise_append]
        exact ⟨hu, List.pairwise_singleton _ _, fun a ha b hb => by simp at hb; subst hb; exact hnone a ha⟩
      obtain ⟨q1, q2⟩ := ns_collision_is_error cs move rest (done ++ [move r]) out hu' h
      exact ⟨q1, by rw [q2]; simp; omega⟩
    · simp at h

/-- T-gen: the regenerated scope table lists no (apiVersion, kind) twice with different scope. -/
theorem scope_table_sane :
    Gen.scopeTable.all (fun e => Gen.scopeTable.all (fun f =>
      !(e.1 == f.1 && e.2.1 == f.2.1) || e.2.2 == f.2.2)) = true := by decide

/-- T-gen: the kinds the property names as cluster-scoped are cluster-scoped in the regenerated table, the
    workload/config kinds are namespaced. -/
theorem scope_table_expected :
    ([("v1", "Namespace", false), ("rbac.authorization.k8s.io/v1", "ClusterRole", false),
      ("rbac.authorization.k8s.io/v1", "ClusterRoleBinding", false),
      ("apiextensions.k8s.io/v1", "CustomResourceDefinition", false), ("v1", "PersistentVolume", false),
      ("apps/v1", "Deployment", true), ("v1", "ConfigMap", true), ("v1", "Secret", true), ("v1", "Service", true),
      ("v1", "ServiceAccount", true), ("rbac.authorization.k8s.io/v1", "RoleBinding", true),
      ("batch/v1", "CronJob", true)] : List (String × String × Bool)).all
        (fun e => Gen.scopeTable.contains e) = true := by decide

end Kust.C09
