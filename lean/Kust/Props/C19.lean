/-
  C19 — deprecated field spellings build to the same output as their replacements.
  * load-time spellings (bases, imageTags, env): `FixKustomization` IS the rewrite and it is idempotent, so the
    kustomization the build sees is the same object for both spellings (`fixLoad_idem`, `load_spelling_same_build`,
    for every build function whatsoever);
  * commonLabels ↦ labels/includeSelectors: the label configurator produces the same transformer run, for every
    transformer configuration without a `labels:` section whose commonLabels field specs are pairwise distinct
    (`commonLabels_step_eq`; the regenerated default table is distinct in every order: `default_table_distinct`);
  * patchesStrategicMerge / patchesJson6902 ↦ patches (`kustomize edit fix`): the fix MOVES runs — strategic-merge
    patches after the `patches` and the JSON patches, JSON patches before namespace/prefix/suffix/labels/annotations —
    so the output is the same exactly when the moved runs commute with the runs they cross
    (`editfix_preserves_build`), and runs with disjoint footprints commute (`disjoint_commute`).
  The effect of a single transformer run (`sem`) is a parameter: whole builds of both spellings are compared by
  the oracle.
-/
import Kust.Fix
namespace Kust.C19
open Kust Fix Gen

/-! ### load-time spellings -/

theorem fixGen_idem (g : GenArgs) : fixGen (fixGen g) = fixGen g := by
  unfold fixGen; split <;> simp_all

theorem fixLoad_idem (k : K) : fixLoad (fixLoad k) = fixLoad k := by
  have hg : ∀ l : List GenArgs, (l.map fixGen).map fixGen = l.map fixGen := by
    intro l; simp [List.map_map, Function.comp_def, fixGen_idem]
  by_cases h1 : k.kind = "" <;> by_cases h2 : k.apiVersion = "" <;> by_cases h3 : k.kind = "Component" <;>
    simp_all [fixLoad] <;> exact ⟨fun a _ => fixGen_idem a, fun a _ => fixGen_idem a⟩

/-- after loading there is no deprecated load-time field left -/
theorem fixLoad_no_deprecated (k : K) :
    (fixLoad k).bases = [] ∧ (fixLoad k).imageTags = [] ∧
    (∀ g ∈ (fixLoad k).cms, g.env = "") ∧ (∀ g ∈ (fixLoad k).secrets, g.env = "") := by
  have h : ∀ l : List GenArgs, ∀ g ∈ l.map fixGen, g.env = "" := by
    intro l g hg
    obtain ⟨a, _, rfl⟩ := List.mem_map.mp hg
    unfold fixGen; split <;> simp_all
  exact ⟨rfl, rfl, h _, h _⟩

/-- the user-level rewrite of the load-time spellings -/
def rewriteLoad (k : K) : K :=
  { k with resources := k.resources ++ k.bases, bases := [], images := k.images ++ k.imageTags, imageTags := [],
           cms := k.cms.map fixGen, secrets := k.secrets.map fixGen }

theorem rewriteLoad_fix (k : K) : fixLoad (rewriteLoad k) = fixLoad k := by
  have hg : ∀ l : List GenArgs, (l.map fixGen).map fixGen = l.map fixGen := by
    intro l; simp [List.map_map, Function.comp_def, fixGen_idem]
  simp [fixLoad, rewriteLoad, hg]
  exact ⟨rfl, rfl⟩

/-- **load_spelling_same_build**: a build is a function of the loaded (fixed) kustomization, so — whatever that
    function is — both spellings build to the same output -/
theorem load_spelling_same_build {Out : Type} (build : K → Out) (k : K) :
    build (fixLoad (rewriteLoad k)) = build (fixLoad k) := by rw [rewriteLoad_fix]

theorem bases_eq_resources (k : K) (r b : List String) :
    fixLoad { k with resources := r, bases := b } = fixLoad { k with resources := r ++ b, bases := [] } := by
  simp [fixLoad]

theorem imageTags_eq_images (k : K) (i t : List String) :
    fixLoad { k with images := i, imageTags := t } = fixLoad { k with images := i ++ t, imageTags := [] } := by
  simp [fixLoad]

theorem env_eq_envs (body : String) (envs : List String) (e : String) (h : e ≠ "") :
    fixGen ⟨body, envs, e⟩ = fixGen ⟨body, envs ++ [e], ""⟩ := by
  simp [fixGen, h]

/-! ### FsSlice.MergeAll on distinct lists -/

def Distinct (l : List FieldSpec) : Prop := l.Pairwise (fun x y => effEq x y = false ∧ effEq y x = false)

theorem mergeAll_append (acc l : List FieldSpec)
    (h1 : ∀ a ∈ acc, ∀ x ∈ l, effEq a x = false) (h2 : l.Pairwise (fun x y => effEq x y = false)) :
    mergeAll acc l = some (acc ++ l) := by
  induction l generalizing acc with
  | nil => simp [mergeAll]
  | cons x r ih =>
    have hf : acc.find? (fun e => effEq e x) = none := by
      simp only [List.find?_eq_none]; intro a ha; simp [h1 a ha x (by simp)]
    simp only [mergeAll, mergeOne, hf]
    rw [List.pairwise_cons] at h2
    rw [ih (acc ++ [x]) ?_ h2.2]
    · simp
    · intro a ha y hy
      rcases List.mem_append.mp ha with ha | ha
      · exact h1 a ha y (by simp [hy])
      · simp at ha; subst ha; exact h2.1 y hy

theorem mergeAll_nil (l : List FieldSpec) (h : Distinct l) : mergeAll [] l = some l := by
  have := mergeAll_append [] l (by simp) (h.imp fun hxy => hxy.1)
  simpa using this

/-- the regenerated default tables are distinct under the wildcard comparison, in whatever order the loader sorts
    them (the relation is symmetric) -/
def distinctB (l : List FieldSpec) : Bool :=
  (l.zipIdx.all fun (x, i) => l.zipIdx.all fun (y, j) => i == j || !(effEq x y))

theorem default_table_distinct :
    distinctB commonLabelsSpecs = true ∧ distinctB templateLabelsSpecs = true ∧ distinctB commonAnnotationsSpecs = true := by
  decide +kernel

/-! ### commonLabels ↦ labels with includeSelectors -/

/-- **commonLabels_step_eq**: the label entry `edit fix` creates configures exactly the run commonLabels does -/
theorem commonLabels_step_eq (tc : TC) (cl : List (String × String)) (h0 : tc.labels = []) (hd : Distinct tc.commonLabels) :
    labelStep tc { pairs := cl, incSel := true, incTpl := false, fields := [] } = .label cl tc.commonLabels := by
  simp [labelStep, h0, mergeAll, mergeAll_nil _ hd]

theorem run_append {S : Type} (sem : Step → S → S) (a b : List Step) (s : S) :
    run sem (a ++ b) s = run sem b (run sem a s) := by simp [run, List.foldl_append]

/-- the LabelTransformer part of the plan before and after the fix has the same effect -/
theorem label_steps_fix {S : Type} (sem : Step → S → S) (tc : TC) (k : K) (s : S)
    (h0 : tc.labels = []) (hd : Distinct tc.commonLabels) (hne : k.commonLabels ≠ [])
    (hid : ∀ f s, sem (.label [] f) s = s) :
    run sem (stepsOf tc { k with labels := k.labels ++ [{ pairs := k.commonLabels, incSel := true, incTpl := false, fields := [] }],
                                 commonLabels := [] } "LabelTransformer") s =
    run sem (stepsOf tc k "LabelTransformer") s := by
  have hne' : k.commonLabels.isEmpty = false := by cases h : k.commonLabels <;> simp_all
  simp only [stepsOf, hne', Bool.and_false, List.map_append, List.map_cons, List.map_nil,
    commonLabels_step_eq tc _ h0 hd]
  simp [run, List.foldl_append, hid]

/-! ### moving runs: commutation -/

def Comm {S : Type} (f g : S → S) : Prop := ∀ s, f (g s) = g (f s)

theorem run_comm_one {S : Type} (sem : Step → S → S) (a : Step) (B : List Step)
    (h : ∀ b ∈ B, Comm (sem a) (sem b)) (s : S) : run sem B (sem a s) = sem a (run sem B s) := by
  induction B generalizing s with
  | nil => rfl
  | cons b r ih =>
    simp only [run, List.foldl_cons]
    have := ih (fun x hx => h x (by simp [hx])) (sem b s)
    simp only [run] at this
    rw [← this, h b (by simp) s]

/-- if every run of `A` commutes with every run of `B`, the two blocks can be exchanged -/
theorem run_swap {S : Type} (sem : Step → S → S) (A B : List Step)
    (h : ∀ a ∈ A, ∀ b ∈ B, Comm (sem a) (sem b)) (s : S) : run sem (A ++ B) s = run sem (B ++ A) s := by
  induction A generalizing s with
  | nil => simp
  | cons a r ih =>
    rw [run_append, run_append]
    simp only [run, List.foldl_cons]
    have h1 := ih (fun x hx => h x (by simp [hx])) (sem a s)
    rw [run_append, run_append] at h1
    simp only [run] at h1
    rw [h1]
    have h2 := run_comm_one sem a B (fun b hb => h a (by simp) b hb) s
    simp only [run] at h2
    rw [h2]

/-- state = location ↦ value; a run with write set `W` and read set `R ⊇ W` -/
structure Footprint {L V : Type} (f : (L → V) → (L → V)) (R W : L → Prop) : Prop where
  frame : ∀ s l, ¬ W l → f s l = s l
  reads : ∀ s s', (∀ l, R l → s l = s' l) → ∀ l, W l → f s l = f s' l

/-- **disjoint_commute**: two runs, each writing nothing the other reads or writes, commute — for every state -/
theorem disjoint_commute {L V : Type} (f g : (L → V) → (L → V)) (Rf Wf Rg Wg : L → Prop)
    (hf : Footprint f Rf Wf) (hg : Footprint g Rg Wg)
    (h1 : ∀ l, Wf l → ¬ Rg l ∧ ¬ Wg l) (h2 : ∀ l, Wg l → ¬ Rf l ∧ ¬ Wf l) : Comm f g := by
  intro s
  funext l
  by_cases hwf : Wf l
  · -- f writes l, g does not touch it and f's reads are untouched by g
    have hgl : ¬ Wg l := (h1 l hwf).2
    rw [hg.frame (f s) l hgl]
    exact hf.reads (g s) s (fun l' hr => hg.frame s l' (fun hw => (h2 l' hw).1 hr)) l hwf
  · rw [hf.frame (g s) l hwf]
    by_cases hwg : Wg l
    · exact (hg.reads (f s) s (fun l' hr => hf.frame s l' (fun hw => (h1 l' hw).1 hr)) l hwg).symm
    · rw [hg.frame s l hwg, hg.frame (f s) l hwg, hf.frame s l hwf]

/-! ### `kustomize edit fix` -/

def asPatch (isFile : String → Bool) (s : String) : Patch :=
  if isFile s then { path := s, patch := "", target := "", options := "" }
  else { path := "", patch := s, target := "", options := "" }

/-- the runs between the `patches` and the JSON patches -/
def middle (tc : TC) (k : K) : List Step := [.ns, .pre, .suf] ++ stepsOf tc k "LabelTransformer" ++ [.annos]

def tail (k : K) : List Step := [.replicas, .images k.images, .replacement]

/-- the regenerated execution order gives this plan -/
theorem plan_shape (tc : TC) (k : K) :
    plan tc k = k.psm.map .psm ++ k.patches.map .patch ++ middle tc k ++ k.pj.map .pj ++ tail k := by
  simp [plan, planWith, Gen.transformerOrder, stepsOf, middle, tail]

theorem run_congr_map {S : Type} (sem : Step → S → S) {α : Type} (f g : α → Step) (l : List α)
    (h : ∀ a, sem (f a) = sem (g a)) (s : S) : run sem (l.map f) s = run sem (l.map g) s := by
  induction l generalizing s with
  | nil => rfl
  | cons a r ih => simp only [List.map_cons, run, List.foldl_cons, h a]; exact ih _

/-- **editfix_preserves_build**: `kustomize edit fix` (FixKustomizationPreMarshalling) leaves the build unchanged
    whenever (a) a strategic-merge patch given under either field is the same run, likewise a JSON patch,
    (b) every strategic-merge patch commutes with every `patches` entry and every JSON patch, and
    (c) every JSON patch commutes with the namespace/prefix/suffix/label/annotation runs it is moved across.
    (b) and (c) follow from disjoint footprints by `disjoint_commute`.  Stated for every kustomization,
    every configuration with distinct commonLabels specs and no `labels:` section, every run semantics. -/
theorem editfix_preserves_build {S : Type} (sem : Step → S → S) (tc : TC) (isFile : String → Bool) (k k' : K)
    (hfix : fixPre isFile k = some k')
    (h0 : tc.labels = []) (hd : Distinct tc.commonLabels) (hid : ∀ f s, sem (.label [] f) s = s)
    (hpsm : ∀ x, sem (.psm x) = sem (.patch (asPatch isFile x)))
    (hpj : ∀ p, sem (.pj p) = sem (.patch p))
    (hb : ∀ x ∈ k.psm, ∀ p ∈ k.patches ++ k.pj, Comm (sem (.patch (asPatch isFile x))) (sem (.patch p)))
    (hc : ∀ p ∈ k.pj, ∀ m ∈ middle tc k, Comm (sem (.patch p)) (sem m))
    (s : S) :
    run sem (plan tc k') s = run sem (plan tc k) s := by
  -- the shape of k'
  have hk' : k'.psm = [] ∧ k'.pj = [] ∧ k'.patches = k.patches ++ k.pj ++ k.psm.map (asPatch isFile) ∧ k'.images = k.images ∧
      (∀ s, run sem (stepsOf tc k' "LabelTransformer") s = run sem (stepsOf tc k "LabelTransformer") s) := by
    unfold fixPre at hfix
    simp only at hfix
    split at hfix
    · simp at hfix; subst hfix
      refine ⟨rfl, rfl, (by simp only [List.append_assoc]; rfl), rfl, ?_⟩
      intro s; rfl
    · split at hfix
      · simp at hfix
      · rename_i hne _
        simp at hfix; subst hfix
        refine ⟨rfl, rfl, (by simp only [List.append_assoc]; rfl), rfl, ?_⟩
        intro s
        have hne' : k.commonLabels ≠ [] := by intro e; simp [e] at hne
        exact label_steps_fix sem tc k s h0 hd hne' hid
  obtain ⟨e1, e2, e3, e4, e5⟩ := hk'
  have hmid : ∀ s, run sem (middle tc k') s = run sem (middle tc k) s := by
    intro s; simp only [middle, run_append, e5]
  rw [plan_shape, plan_shape, e1, e2, e3]
  simp only [List.map_nil, List.nil_append, List.append_nil, List.map_append, List.map_map, tail, e4]
  -- abbreviations
  let P := k.psm.map (fun x => Step.patch (asPatch isFile x))
  let Q := k.patches.map Step.patch
  let J := k.pj.map Step.patch
  have hP : ∀ s, run sem (k.psm.map .psm) s = run sem P s := fun s => run_congr_map sem _ _ _ hpsm s
  have hJ : ∀ s, run sem (k.pj.map .pj) s = run sem J s := fun s => run_congr_map sem _ _ _ hpj s
  have hPc : (k.psm.map (Step.patch ∘ asPatch isFile)) = P := rfl
  rw [hPc]
  simp only [run_append, hmid, hP, hJ]
  -- goal: tail (M (P (J (Q s)))) = tail (J (M (Q (P s))))
  congr 1
  have sw1 : run sem (P ++ (Q ++ J)) s = run sem ((Q ++ J) ++ P) s := by
    apply run_swap
    intro a ha b hb'
    obtain ⟨x, hx, rfl⟩ := List.mem_map.mp ha
    rcases List.mem_append.mp hb' with hq | hj
    · obtain ⟨p, hp, rfl⟩ := List.mem_map.mp hq
      exact hb x hx p (by simp [hp])
    · obtain ⟨p, hp, rfl⟩ := List.mem_map.mp hj
      exact hb x hx p (by simp [hp])
  have sw2 : ∀ s, run sem (middle tc k ++ J) s = run sem (J ++ middle tc k) s := by
    intro s
    apply run_swap
    intro m hm b hb'
    obtain ⟨p, hp, rfl⟩ := List.mem_map.mp hb'
    intro s; exact (hc p hp m hm s).symm
  simp only [run_append] at sw1 sw2
  rw [sw2, ← sw1]

/-- non-vacuity: a kustomization with all three deprecated patch/label spellings is fixed (no label clash) -/
example : (fixPre (fun s => s = "p.yaml")
    { commonLabels := [("app", "x")], labels := [⟨[("tier", "db")], false, false, []⟩], psm := ["p.yaml", "kind: X"],
      patches := [⟨"q.yaml", "", "", ""⟩], pj := [⟨"j.yaml", "", "t", ""⟩] }).isSome = true := by decide

end Kust.C19
