/-
  C06 (source clause) — a generator's data is a DICTIONARY: keys from env files, literals and files are loaded in that
  order, validated, and a key that occurs twice — within one kind of source or across kinds — fails the build.
  Theorems about `Kust.Kv` (kv.loader.Load + makeValidatedDataMap), tied by the correspondence `gen.sources`.
-/
import Kust.Kv
namespace Kust.C06
open Kust Kust.Kv

/-- what `validate` accepts: the pairs come back unchanged, every key is valid, fresh with respect to `seen`, and the
    keys are pairwise distinct -/
theorem validate_spec (keyOk : String → Bool) : ∀ (ps : List Pair) (seen : List String) (m : List Pair),
    validate keyOk seen ps = .ok m →
      m = ps ∧ (∀ p ∈ ps, keyOk p.1 = true) ∧ (∀ p ∈ ps, p.1 ∉ seen) ∧ (ps.map (·.1)).Nodup := by
  intro ps
  induction ps with
  | nil => intro seen m h; simp [validate] at h; subst h; simp
  | cons p ps ih =>
    intro seen m h
    obtain ⟨k, v⟩ := p
    simp only [validate] at h
    split at h
    · simp at h
    · rename_i hk
      split at h
      · simp at h
      · rename_i hs
        split at h
        · rename_i qs hq
          simp at h; subst h
          obtain ⟨e, hv, hf, hn⟩ := ih (k :: seen) qs hq
          subst e
          refine ⟨rfl, ?_, ?_, ?_⟩
          · intro p hp
            simp at hp
            rcases hp with e | hp
            · subst e; simpa using hk
            · exact hv p hp
          · intro p hp
            simp at hp
            rcases hp with e | hp
            · subst e; simpa using hs
            · intro hmem; exact hf p hp (by simp [hmem])
          · simp only [List.map_cons, List.nodup_cons]
            refine ⟨?_, hn⟩
            intro hmem
            simp at hmem
            obtain ⟨v', hp⟩ := hmem
            exact hf (k, v') hp (by simp)
        · simp at h
        · simp at h

/-- **a generator's data is a dictionary**: when `makeValidatedDataMap` succeeds, the pairs it accepted have pairwise
    distinct, valid keys — whatever mix of env files, literals and file sources they came from -/
theorem validated_is_dictionary (envOk keyOk : String → Bool) (content : String → Option String)
    (envs : List (Option String)) (lits files : List String) (m : List Pair)
    (h : validated envOk keyOk content envs lits files = .ok m) :
    (m.map (·.1)).Nodup ∧ (∀ p ∈ m, keyOk p.1 = true) ∧ load envOk content envs lits files = .ok m := by
  unfold validated at h
  split at h
  · rename_i ps hl
    obtain ⟨e, hv, _, hn⟩ := validate_spec keyOk ps [] m h
    subst e
    exact ⟨hn, hv, hl⟩
  · simp at h
  · simp at h

theorem validate_dup_rejected (keyOk : String → Bool) : ∀ (ps : List Pair) (seen : List String),
    (∃ p ∈ ps, p.1 ∈ seen) ∨ ¬ (ps.map (·.1)).Nodup → ∀ m, validate keyOk seen ps ≠ .ok m := by
  intro ps seen hbad m hm
  obtain ⟨_, _, hf, hn⟩ := validate_spec keyOk ps seen m hm
  rcases hbad with ⟨p, hp, hs⟩ | hnd
  · exact hf p hp hs
  · exact hnd hn

/-- **a key repeated across kinds of source is rejected.** If the same key comes out of two different kinds of source
    (an env file and a literal, a literal and a file, …) the generator fails — it never lets one of them win. -/
theorem key_repeated_across_sources_rejected (envOk keyOk : String → Bool) (content : String → Option String)
    (envs : List (Option String)) (lits files : List String) (a b c : List Pair)
    (ha : envFiles envOk envs = .ok a) (hb : literals lits = .ok b) (hc : fileSources content files = .ok c)
    (k : String)
    (hk : (k ∈ a.map (·.1) ∧ k ∈ b.map (·.1)) ∨ (k ∈ a.map (·.1) ∧ k ∈ c.map (·.1)) ∨ (k ∈ b.map (·.1) ∧ k ∈ c.map (·.1))) :
    ∀ m, validated envOk keyOk content envs lits files ≠ .ok m := by
  intro m hm
  have hload : load envOk content envs lits files = .ok (a ++ b ++ c) := by simp [load, ha, hb, hc]
  unfold validated at hm
  rw [hload] at hm
  simp only at hm
  apply validate_dup_rejected keyOk (a ++ b ++ c) [] (Or.inr ?_) m hm
  intro hn
  simp only [List.map_append] at hn
  rcases hk with ⟨h1, h2⟩ | ⟨h1, h2⟩ | ⟨h1, h2⟩
  · have := (List.nodup_append.mp (List.nodup_append.mp hn).1).2.2
    exact this k h1 k h2 rfl
  · have := (List.nodup_append.mp hn).2.2
    exact this k (by simp [h1]) k h2 rfl
  · have := (List.nodup_append.mp hn).2.2
    exact this k (by simp [h2] at *; exact Or.inr h1) k h2 rfl

/-- the order of loading is env files, literals, files -/
theorem load_order (envOk : String → Bool) (content : String → Option String)
    (envs : List (Option String)) (lits files : List String) (a b c : List Pair)
    (ha : envFiles envOk envs = .ok a) (hb : literals lits = .ok b) (hc : fileSources content files = .ok c) :
    load envOk content envs lits files = .ok (a ++ b ++ c) := by simp [load, ha, hb, hc]

/-- premises are satisfiable: LOG_LEVEL from an env file and from a literal is refused, distinct keys are kept in order -/
example :
    validated (fun _ => true) (fun _ => true) (fun p => if p = "pw.txt" then some "secret" else none)
      [some "# comment\nLOG_LEVEL=info\n\nMODE = x\n"] ["LOG_LEVEL=debug"] [] = .err "dupkey" ∧
    validated (fun _ => true) (fun _ => true) (fun p => if p = "pw.txt" then some "secret" else none)
      [some "LOG_LEVEL=info\r\nEMPTY\n"] ["colour=\"blue\""] ["password=pw.txt", "pw.txt"]
        = .ok [("LOG_LEVEL", "info"), ("EMPTY", ""), ("colour", "blue"), ("password", "secret"), ("pw.txt", "secret")] := by
  decide

end Kust.C06
