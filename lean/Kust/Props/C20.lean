/-
  C20 — canonical formatting is idempotent and preserves meaning.
  Statements are about `Fmt.fmtN` (transliteration of formatter.fmtNode, tied by component fmt.node) for ANY
  `Sorter` (Go's sort is specified, not modelled), any fuel (= recursion depth), any path, any regenerated table.
-/
import Kust.Lemmas.Fmt
import Kust.Gen.Lists
namespace Kust.C20
open Kust Node Fmt

variable (S : Sorter) (c : Cfg)

/-- formatting never changes a node's own scalar text (only the order of children) -/
theorem fmtN_valueText (f : Nat) (p : String) (n : Node) : (fmtN S c f p n).valueText = n.valueText := by
  cases f with
  | zero => rfl
  | succ f => cases n <;> rfl

/-- **fmt_perm (maps)**: the entries of a formatted mapping are a permutation of the formatted entries of the
    input: no key is lost, added or duplicated, and every value is the formatted value of the same key. -/
theorem fmt_map_perm (f : Nat) (p : String) (s : Nat) (fs : Fields) :
    ∃ L, fmtN S c (f + 1) p (.map s fs) = .map s L ∧
      L.Perm (fs.map fun kv => (kv.1, fmtN S c f (p ++ "." ++ kv.1) kv.2)) :=
  ⟨_, rfl, (S.perm _ fs).map _⟩

/-- **fmt_perm (sequences)**: elements are only permuted (and only for whitelisted lists), each formatted. -/
theorem fmt_seq_perm (f : Nat) (p : String) (s : Nat) (is : List Node) :
    ∃ L, fmtN S c (f + 1) p (.seq s is) = .seq s L ∧ L.Perm (is.map (fmtN S c f p)) := by
  refine ⟨_, rfl, ?_⟩
  split
  · exact (S.perm _ is).map _
  · exact List.Perm.refl _

/-- a list that is not whitelisted keeps its element order -/
theorem fmt_seq_order_kept (f : Nat) (p : String) (s : Nat) (is : List Node) (h : wlLookup c p = none) :
    fmtN S c (f + 1) p (.seq s is) = .seq s (is.map (fmtN S c f p)) := by
  simp [fmtN, h]

/-! ### idempotence -/

/-- mappings have distinct keys, down to depth `fuel` ("mapping documents") -/
def NoDupN : Nat → Node → Prop
  | 0, _ => True
  | _ + 1, .scalar .. => True
  | f + 1, .map _ fs => (fs.map Prod.fst).Nodup ∧ ∀ kv ∈ fs, NoDupN f kv.2
  | f + 1, .seq _ is => ∀ x ∈ is, NoDupN f x

theorem lastFieldText_map (name : String) (g : String × Node → String × Node)
    (hk : ∀ kv, (g kv).1 = kv.1) (hv : ∀ kv, (g kv).2.valueText = kv.2.valueText) (l : Fields) :
    lastFieldText name (l.map g) = lastFieldText name l := by
  induction l with
  | nil => rfl
  | cons a l ih =>
    obtain ⟨k, v⟩ := a
    have h1 : (g (k, v)).1 = k := hk (k, v)
    have h2 : (g (k, v)).2.valueText = v.valueText := hv (k, v)
    have hany : (l.map g).any (fun kv => kv.1 = name) = l.any (fun kv => kv.1 = name) := by
      simp [List.any_map, Function.comp_def, hk]
    simp only [List.map_cons]
    cases hg : g (k, v) with
    | mk k' v' =>
      rw [hg] at h1 h2
      simp only at h1 h2
      subst h1
      simp only [lastFieldText, ih, hany, h2]

theorem lastFieldText_absent (name : String) (l : Fields) (h : ∀ kv ∈ l, kv.1 ≠ name) :
    lastFieldText name l = "" := by
  induction l with
  | nil => rfl
  | cons a l ih =>
    obtain ⟨k, v⟩ := a
    have hk : k ≠ name := h (k, v) (by simp)
    simp [lastFieldText, hk, ih (fun kv hkv => h kv (by simp [hkv]))]

theorem lastFieldText_perm (name : String) {l l' : Fields} (hp : l.Perm l') (hn : (l.map Prod.fst).Nodup) :
    lastFieldText name l' = lastFieldText name l := by
  induction hp with
  | nil => rfl
  | cons a _ ih =>
    obtain ⟨k, v⟩ := a
    rename_i l1 l2 hp12
    have hn' : (l1.map Prod.fst).Nodup := (List.nodup_cons.mp (by simpa using hn)).2
    have hany : l2.any (fun kv => kv.1 = name) = l1.any (fun kv => kv.1 = name) := by
      apply Bool.eq_iff_iff.mpr
      simp only [List.any_eq_true]
      exact ⟨fun ⟨x, hx, h⟩ => ⟨x, hp12.symm.subset hx, h⟩, fun ⟨x, hx, h⟩ => ⟨x, hp12.subset hx, h⟩⟩
    simp only [lastFieldText, ih hn', hany]
  | swap a b l =>
    obtain ⟨ka, va⟩ := a
    obtain ⟨kb, vb⟩ := b
    have hne : kb ≠ ka := by
      have hn2 := hn
      simp at hn2
      exact hn2.1.1
    by_cases h1 : ka = name <;> by_cases h2 : kb = name
    · exact absurd (h2.trans h1.symm) hne
    · simp only [lastFieldText, List.any_cons, h2, false_and, if_false, decide_false, Bool.false_or]
    · simp only [lastFieldText, List.any_cons, h1, false_and, if_false, decide_false, Bool.false_or]
    · simp only [lastFieldText, List.any_cons, h1, h2, false_and, if_false]
  | trans h12 _ ih1 ih2 =>
    rename_i l1 l2 l3 _
    have hn2 : (l2.map Prod.fst).Nodup := (h12.map Prod.fst).nodup_iff.mp hn
    rw [ih2 hn2, ih1 hn]

/-- the sort key of a sequence element survives formatting (needs distinct keys in the element) -/
theorem seqKey_fmtN (sf : String) (f : Nat) (p : String) (x : Node) (h : NoDupN f x) :
    seqKey sf (fmtN S c f p x) = seqKey sf x := by
  cases f with
  | zero => rfl
  | succ f =>
    cases x with
    | scalar t v s => rfl
    | seq s is =>
      unfold seqKey
      split
      · exact fmtN_valueText S c _ _ _
      · rfl
    | map s fs =>
      unfold seqKey
      split
      · rfl
      · simp only [fmtN]
        rw [lastFieldText_map sf (fun kv => (kv.1, fmtN S c f (p ++ "." ++ kv.1) kv.2)) (fun _ => rfl)
          (fun kv => fmtN_valueText S c f (p ++ "." ++ kv.1) kv.2)]
        exact lastFieldText_perm sf (S.perm _ fs).symm h.1

theorem pairwise_map_of_congr {α} (le : α → α → Bool) (g : α → α) (l : List α)
    (hc : ∀ a ∈ l, ∀ b ∈ l, le (g a) (g b) = le a b) (h : l.Pairwise (fun a b => le a b = true)) :
    (l.map g).Pairwise (fun a b => le a b = true) := by
  rw [List.pairwise_map]
  induction l with
  | nil => exact List.Pairwise.nil
  | cons a l ih =>
    rw [List.pairwise_cons] at h ⊢
    refine ⟨fun b hb => ?_, ih (fun x hx y hy => hc x (by simp [hx]) y (by simp [hy])) h.2⟩
    rw [hc a (by simp) b (by simp [hb])]
    exact h.1 b hb

/-- **fmt_idempotent**: formatting an already formatted document changes nothing — for every sorting function
    meeting the specification, every depth, every path, every (regenerated) table. -/
theorem fmt_idempotent : ∀ (f : Nat) (p : String) (n : Node), NoDupN f n →
    fmtN S c f p (fmtN S c f p n) = fmtN S c f p n := by
  intro f
  induction f with
  | zero => intro p n _; rfl
  | succ f ih =>
    intro p n hn
    cases n with
    | scalar t v s => rfl
    | map s fs =>
      simp only [fmtN]
      congr 1
      -- the once-sorted, value-formatted list is ordered, so the second sort leaves it alone
      have hsorted := S.sorted (leField c.order) fs (leField_trans c.order) (leField_total c.order)
      have hmem : ∀ kv ∈ S.sort (leField c.order) fs, kv ∈ fs := fun kv h => (S.perm _ fs).subset h
      have hpw := pairwise_map_of_congr (leField c.order)
        (fun kv => (kv.1, fmtN S c f (p ++ "." ++ kv.1) kv.2)) _
        (fun a _ b _ => leField_congr c.order a b _ _ rfl rfl) hsorted
      rw [S.fix _ _ hpw, List.map_map]
      apply List.map_congr_left
      intro kv hkv
      simp only [Function.comp]
      rw [ih _ _ (hn.2 kv (hmem kv hkv))]
    | seq s is =>
      simp only [fmtN]
      congr 1
      cases hw : wlLookup c p with
      | none =>
        simp only
        rw [List.map_map]
        apply List.map_congr_left
        intro x hx
        simp only [Function.comp]
        exact ih p x (hn x hx)
      | some sf =>
        simp only
        have hsorted := S.sorted (leSeq sf) is (leSeq_trans sf) (leSeq_total sf)
        have hmem : ∀ x ∈ S.sort (leSeq sf) is, x ∈ is := fun x h => (S.perm _ is).subset h
        have hpw := pairwise_map_of_congr (leSeq sf) (fmtN S c f p) _
          (fun a ha b hb => by
            unfold leSeq
            rw [seqKey_fmtN S c sf f p a (hn a (hmem a ha)), seqKey_fmtN S c sf f p b (hn b (hmem b hb))])
          hsorted
        rw [S.fix _ _ hpw, List.map_map]
        apply List.map_congr_left
        intro x hx
        simp only [Function.comp]
        exact ih p x (hn x (hmem x hx))

/-- Lean core's merge sort is an admissible sorter, so the theorem is not vacuous … -/
example : Sorter := mergeSorter

/-- … and neither is the hypothesis: a concrete two-level document has distinct keys -/
example : NoDupN 3 (.map 0 [("spec", .map 0 [("b", .scalar "!!str" "x" 0), ("a", .scalar "!!int" "1" 0)]),
                            ("kind", .scalar "!!str" "ConfigMap" 0)]) := by
  simp [NoDupN]

/-- T-gen: the table still orders the identifying fields first (reviewed expectation) -/
theorem field_order_expected :
    Fmt.lessKey Gen.fieldSortOrder "apiVersion" "kind" = true ∧ Fmt.lessKey Gen.fieldSortOrder "kind" "metadata" = true ∧
    Fmt.lessKey Gen.fieldSortOrder "metadata" "spec" = true ∧ Fmt.lessKey Gen.fieldSortOrder "name" "namespace" = true ∧
    Fmt.lessKey Gen.fieldSortOrder "spec" "zzz-unknown" = true ∧ Fmt.lessKey Gen.fieldSortOrder "aaa-unknown" "bbb-unknown" = true := by
  decide

theorem whitelist_expected :
    Gen.whitelistFields = [(".spec.template.spec.containers", "name"), (".webhooks.rules.operations", "")] := by decide

end Kust.C20
