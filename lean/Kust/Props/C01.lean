/-
  C01 — a build is a deterministic, history-independent function of its inputs.
  (a) schema state: for EVERY history of earlier builds (any selections, any schema operations, any length) a
      build observes exactly what it observes in a fresh process (`C01_history`), for the repaired `SetSchema`;
      the pre-repair code is refuted by a kernel-evaluated witness (`Witness.old_custom_schema_leaks`).
  (b) iteration order: the sorted-key iteration sites are permutation-invariant (`sortStrs_perm`, below).
-/
import Kust.OpenApi
import Kust.Walk
import Kust.Gen.CodeFacts
import Kust.Reviewed
namespace Kust.C01
open Kust OpenApi

/-- selections are well-formed: a "bad version" is neither empty nor the default -/
def Sel.wf : Sel → Prop
  | .badVersion v => v ≠ "" ∧ v ≠ defaultVersion
  | _ => True

/-- what holds in every state whose current selection is the default built-in schema -/
def DefaultInv (s : St) : Prop :=
  s.custom = none ∧ (s.version = "" ∨ s.version = defaultVersion) ∧ customsOf s.defs = [] ∧
  (s.init = true → Src.builtin ∈ s.defs)

theorem customsOf_addDef_builtin (l : List Src) : customsOf (addDef .builtin l) = customsOf l := by
  unfold addDef; split
  · rfl
  · induction l with
    | nil => rfl
    | cons a r ih => cases a <;> simp_all [customsOf]

theorem customsOf_addDef_kustapi (l : List Src) : customsOf (addDef .kustapi l) = customsOf l := by
  unfold addDef; split
  · rfl
  · induction l with
    | nil => rfl
    | cons a r ih => cases a <;> simp_all [customsOf]

theorem mem_addDef (d e : Src) (l : List Src) : d ∈ addDef e l ↔ d ∈ l ∨ d = e := by
  unfold addDef; split
  · rename_i h
    constructor
    · intro hm; exact Or.inl hm
    · rintro (hm | rfl)
      · exact hm
      · simpa using h
  · simp

theorem initSchema_default (s : St) (h : DefaultInv s) :
    DefaultInv (initSchema s) ∧ Src.builtin ∈ (initSchema s).defs ∧ (initSchema s).init = true := by
  obtain ⟨h1, h2, h3, h4⟩ := h
  unfold initSchema
  by_cases hi : s.init = true
  · rw [if_pos hi]; exact ⟨⟨h1, h2, h3, h4⟩, h4 hi, hi⟩
  · simp only [hi, Bool.false_eq_true, if_false, h1]
    refine ⟨⟨rfl, h2, ?_, fun _ => ?_⟩, ?_, rfl⟩
    · simp [customsOf_addDef_kustapi, customsOf_addDef_builtin, h3]
    · simp [mem_addDef]
    · simp [mem_addDef]

theorem step_default (s : St) (op : Op) (h : DefaultInv s) : DefaultInv (step s op) := by
  cases op with
  | use => exact (initSchema_default s h).1
  | ns =>
    obtain ⟨h1, h2, h3, h4⟩ := h
    unfold step nsCheck
    by_cases hi : s.init = true
    · simp [hi]; exact ⟨h1, h2, h3, h4⟩
    · have hv : (s.version = "" || s.version = defaultVersion) = true := by
        rcases h2 with h2 | h2 <;> simp [h2]
      simp only [hi, Bool.false_eq_true, if_false, h1, Option.isSome_none, hv, if_true]
      split
      · exact ⟨rfl, h2, h3, fun hc => by simp at hc⟩
      · exact ⟨h1, h2, h3, h4⟩

/-- under the default selection the observations do not depend on which `DefaultInv` state one starts from -/
theorem observeAll_default (a b : St) (ops : List Op) (ha : DefaultInv a) (hb : DefaultInv b) :
    observeAll a ops = observeAll b ops := by
  induction ops generalizing a b with
  | nil => rfl
  | cons op r ih =>
    simp only [observeAll]
    have ha' := step_default a op ha
    have hb' := step_default b op hb
    congr 1
    · cases op with
      | ns => simp [observe, ha'.2.2.1, hb'.2.2.1]
      | use =>
        have x := (initSchema_default a ha).2.1
        have y := (initSchema_default b hb).2.1
        simp only [observe, step, schemaUse]
        simp [x, y, (initSchema_default a ha).1.2.2.1, (initSchema_default b hb).1.2.2.1]
    · exact ih _ _ ha' hb'

theorem runOps_default (s : St) (ops : List Op) (h : DefaultInv s) : DefaultInv (runOps s ops) := by
  induction ops generalizing s with
  | nil => exact h
  | cons op r ih => exact ih _ (step_default s op h)

/-- reachable states: whenever the current selection is the default one, `DefaultInv` holds -/
def Reach (s : St) : Prop := wasDefault s = true → DefaultInv s

theorem wasDefault_of_inv (s : St) (h : DefaultInv s) : wasDefault s = true := by
  obtain ⟨h1, h2, _, _⟩ := h
  rcases h2 with h2 | h2 <;> simp [wasDefault, h1, h2]

theorem set_default (s : St) (e : Bool) (hr : Reach s) :
    (setSchema s (.dflt e) true).2 = false ∧ DefaultInv (setSchema s (.dflt e) true).1 := by
  unfold setSchema
  have hset : ((s.version ≠ "" || s.custom.isSome) && !true) = false := by simp
  simp only [hset, Bool.false_eq_true, if_false]
  by_cases hw : wasDefault s = true
  · obtain ⟨h1, h2, h3, h4⟩ := hr hw
    simp only [hw, Sel.isDefault, Bool.and_self, Bool.not_true, Bool.and_false, Bool.false_eq_true, if_false]
    cases e
    · exact ⟨rfl, h1, Or.inl rfl, h3, h4⟩
    · exact ⟨rfl, rfl, Or.inr rfl, h3, fun hc => by simp at hc⟩
  · simp only [hw, Bool.false_and, Bool.not_false, Bool.and_true, if_true]
    cases e
    · exact ⟨rfl, rfl, Or.inl rfl, rfl, fun hc => by simp at hc⟩
    · exact ⟨rfl, rfl, Or.inr rfl, rfl, fun hc => by simp at hc⟩

theorem set_nondefault_fresh (s : St) (sel : Sel) (h : sel.isDefault = false) :
    setSchema s sel true = setSchema {} sel true := by
  unfold setSchema
  simp [h, wasDefault]

theorem initSchema_custom (s : St) : (initSchema s).custom = s.custom := by
  unfold initSchema
  repeat' (first | split | (dsimp only; split))
  all_goals simp_all

theorem step_custom_not_default (s : St) (op : Op) (h : s.custom.isSome = true) : (step s op).custom.isSome = true := by
  cases op with
  | use => simp only [step, schemaUse, initSchema_custom]; exact h
  | ns =>
    simp only [step, nsCheck]
    split
    · exact h
    · simp only [h, if_true, initSchema_custom]

theorem runOps_custom (s : St) (ops : List Op) (h : s.custom.isSome = true) : (runOps s ops).custom.isSome = true := by
  induction ops generalizing s with
  | nil => exact h
  | cons op r ih => exact ih _ (step_custom_not_default s op h)

theorem build_reach (s : St) (sel : Sel) (ops : List Op) (hw : Sel.wf sel) (hr : Reach s) :
    Reach (build setSchema s sel ops).1 := by
  cases sel with
  | dflt e =>
    obtain ⟨h1, h2⟩ := set_default s e hr
    intro _
    simp only [build, h1, Bool.false_eq_true, if_false]
    exact runOps_default _ ops h2
  | custom c =>
    intro hwd
    exfalso
    have hset : (setSchema s (.custom c) true).2 = false := by unfold setSchema; simp
    have hc : (setSchema s (.custom c) true).1.custom.isSome = true := by unfold setSchema; simp
    simp only [build, hset, Bool.false_eq_true, if_false] at hwd
    have := runOps_custom _ ops hc
    simp [wasDefault] at hwd
    simp [hwd.1] at this
  | badVersion v =>
    intro hwd
    exfalso
    obtain ⟨hv1, hv2⟩ := hw
    have hset : (setSchema s (.badVersion v) true).2 = true := by unfold setSchema; simp
    have hver : (setSchema s (.badVersion v) true).1.version = v := by unfold setSchema; simp
    simp only [build, hset, if_true] at hwd
    simp [wasDefault, hver, hv1, hv2] at hwd

theorem history_reach : ∀ (H : List (Sel × List Op)) (s : St), (∀ b ∈ H, Sel.wf b.1) → Reach s →
    Reach (runHistory setSchema s H)
  | [], s, _, hr => hr
  | (sel, ops) :: r, s, hw, hr =>
    history_reach r _ (fun b hb => hw b (by simp [hb])) (build_reach s sel ops (hw (sel, ops) (by simp)) hr)

/-- **C01_history**: whatever builds ran earlier in the process — any number, with any `openapi:` selections
    (default, custom schemas, unknown versions) and any schema operations — a build with selection `c` and schema
    operations `ops` observes exactly what it observes in a fresh process (and fails iff it fails there). -/
theorem C01_history (H : List (Sel × List Op)) (c : Sel) (ops : List Op) (hH : ∀ b ∈ H, Sel.wf b.1) :
    (build setSchema (runHistory setSchema {} H) c ops).2 = (build setSchema {} c ops).2 := by
  have hfresh : Reach ({} : St) := fun _ => ⟨rfl, Or.inl rfl, rfl, fun h => by simp at h⟩
  have hr := history_reach H {} hH hfresh
  cases hc : c.isDefault with
  | false => simp only [build, set_nondefault_fresh _ c hc]
  | true =>
    cases c with
    | dflt e =>
      obtain ⟨a1, a2⟩ := set_default _ e hr
      obtain ⟨b1, b2⟩ := set_default {} e hfresh
      simp only [build, a1, b1, Bool.false_eq_true, if_false]
      exact congrArg some (observeAll_default _ _ ops a2 b2)
    | custom _ => simp [Sel.isDefault] at hc
    | badVersion _ => simp [Sel.isDefault] at hc

/-- non-vacuity: a history with a custom-schema build that really parses its schema, then a default build -/
example : (build setSchema (runHistory setSchema {} [(.custom 7, [.ns, .use])]) (.dflt false) [.ns, .use]).2
    = some [⟨false, []⟩, ⟨true, []⟩] := by decide

/-- finding 1 (repaired): with the OLD `SetSchema` the same default build, run after a custom-schema build, still
    saw the custom definitions (and not the built-in ones) — a different observation than in a fresh process. -/
theorem Witness.old_custom_schema_leaks :
    (build setSchemaOld (runHistory setSchemaOld {} [(.custom 7, [.use])]) (.dflt false) [.use]).2
      ≠ (build setSchemaOld {} (.dflt false) [.use]).2 := by decide

/-! ### iteration order -/

open Walk in
/-- inserting into a sorted duplicate-free list commutes: the sorted union of field names does not depend on the
    order in which a hash map hands out its keys (`Walker.fieldNames`, `SortedMapKeys`, …). -/
theorem insertStr_comm (a b : String) (l : List String) :
    insertStr a (insertStr b l) = insertStr b (insertStr a l) := by
  induction l with
  | nil =>
    by_cases hab : a = b
    · subst hab; rfl
    · have hba : ¬ b = a := fun h => hab h.symm
      by_cases h1 : a < b
      · have h2 : ¬ b < a := String.lt_asymm h1
        simp [insertStr, hab, hba, h1, h2]
      · have h2 : b < a := by
          rcases Std.lt_trichotomy a b with h | h | h
          · exact absurd h h1
          · exact absurd h hab
          · exact h
        simp [insertStr, hab, hba, h1, h2]
  | cons y ys ih =>
    by_cases hay : a = y <;> by_cases hby : b = y
    · subst hay; subst hby; rfl
    · subst hay
      by_cases h : b < a
      · have : ¬ a < b := String.lt_asymm h
        have hne : ¬ a = b := fun e => hby e.symm
        simp [insertStr, hby, h, this, hne]
      · simp [insertStr, hby, h]
    · subst hby
      by_cases h : a < b
      · have : ¬ b < a := String.lt_asymm h
        have hne : ¬ b = a := fun e => hay e.symm
        simp [insertStr, hay, h, this, hne]
      · simp [insertStr, hay, h]
    · by_cases h1 : a < y <;> by_cases h2 : b < y
      · -- both go in front of y: reduces to the two-element case
        by_cases hab : a = b
        · subst hab; rfl
        · have hba : ¬ b = a := fun h => hab h.symm
          by_cases h3 : a < b
          · have h4 : ¬ b < a := String.lt_asymm h3
            simp [insertStr, hay, hby, h1, h2, hab, hba, h3, h4]
          · have h4 : b < a := by
              rcases Std.lt_trichotomy a b with h | h | h
              · exact absurd h h3
              · exact absurd h hab
              · exact h
            simp [insertStr, hay, hby, h1, h2, hab, hba, h3, h4]
      · have hab : ¬ a = b := fun e => h2 (e ▸ h1)
        have hba : ¬ b = a := fun e => hab e.symm
        have h3 : a < b := by
          rcases Std.lt_trichotomy b y with h | h | h
          · exact absurd h h2
          · exact absurd h hby
          · exact String.lt_trans h1 h
        have h4 : ¬ b < a := String.lt_asymm h3
        simp [insertStr, hay, hby, h1, h2, hab, hba, h3, h4]
      · have hab : ¬ a = b := fun e => h1 (e ▸ h2)
        have hba : ¬ b = a := fun e => hab e.symm
        have h3 : b < a := by
          rcases Std.lt_trichotomy a y with h | h | h
          · exact absurd h h1
          · exact absurd h hay
          · exact String.lt_trans h2 h
        have h4 : ¬ a < b := String.lt_asymm h3
        simp [insertStr, hay, hby, h1, h2, hab, hba, h3, h4]
      · simp [insertStr, hay, hby, h1, h2, ih]

open Walk in
theorem foldl_insert_perm {l₁ l₂ : List String} (h : l₁.Perm l₂) (acc : List String) :
    l₁.foldl (fun a x => insertStr x a) acc = l₂.foldl (fun a x => insertStr x a) acc := by
  induction h generalizing acc with
  | nil => rfl
  | cons x _ ih => exact ih _
  | swap x y l => simp only [List.foldl_cons]; rw [insertStr_comm]
  | trans _ _ ih1 ih2 => rw [ih1, ih2]

open Walk in
/-- **C01_iter (sorted-key sites)**: `sortStrs (π keys) = sortStrs keys` for every permutation π. -/
theorem sortStrs_perm {l₁ l₂ : List String} (h : l₁.Perm l₂) : sortStrs l₁ = sortStrs l₂ :=
  foldl_insert_perm h []

/-! ### the code's own iteration sites (regenerated by SSA + RTA from (*Kustomizer).Run) -/

/-- **C01_map_sites_covered**: the `range`-over-map statements reachable from a build are exactly the reviewed
    ones (function and count), each reviewed as unable to make the result depend on iteration order.
    A new or changed site fails this `decide`. -/
theorem C01_map_sites_covered :
    Gen.mapRangeSites.map (fun e => (e.1, e.2.2)) = Reviewed.mapRangeSites.map (fun e => (e.1, e.2.1)) := by
  decide +kernel

theorem map_sites_all_reviewed : Reviewed.mapRangeSites.all (fun e => e.2.2 != "UNREVIEWED") = true := by decide +kernel

end Kust.C01
