/-
  C17 — `kustomize edit` changes exactly what the sub-command says.
  File level (Kust.Kustfile), for EVERY file text and every rendering `mf` of the typed fields:
  * `comments_kept`: the comment/blank lines of the file, in their order, are exactly the comment pieces of the
    rewritten file — none is lost (this is the theorem that was false before the repair C17-F1: the comments
    after the last field were dropped);
  * `fields_out_perm`: every field of the marshalling order is written exactly once, the fields that were in the
    file first and in their original order (`orig_order_kept`).
  Typed level (Kust.Edit), for every state and every argument list:
  * `frame`: a command changes nothing but the field it addresses (and the load-time normalisation);
    `frame_ops`: so does every sequence of commands that do not address a field;
  * `set_*_idem`: the `set` commands are idempotent;
  * `add_remove_*`: an `add` followed by the matching `remove` restores the content.
  The correspondence runs the real cobra commands on generated files and operation sequences.
-/
import Kust.Edit
import Kust.Kustfile
import Kust.Gen.Lists
namespace Kust.C17
open Kust Kustfile Edit

/-! ### the file level -/

theorem flatMap_appendToLast (fs : List CF) (c : List String) (h : fs ≠ []) :
    (appendToLast fs c).flatMap (·.comment) = fs.flatMap (·.comment) ++ c := by
  induction fs with
  | nil => exact absurd rfl h
  | cons cf r ih =>
    cases r with
    | nil => simp [appendToLast]
    | cons cf' r' =>
      have := ih (by simp)
      simp only [appendToLast, List.flatMap_cons, this, List.append_assoc]

theorem appendToLast_fields (fs : List CF) (c : List String) :
    (appendToLast fs c).map (·.field) = fs.map (·.field) := by
  induction fs with
  | nil => rfl
  | cons cf r ih =>
    cases r with
    | nil => simp [appendToLast]
    | cons cf' r' => simp only [appendToLast, List.map_cons, ih]

theorem parseStep_comments (order : List String) (st : Parsed) (line : String) :
    allComments (parseStep order st line) =
      allComments st ++ (if isCommentOrBlank line then [line] else []) := by
  unfold parseStep
  by_cases hc : isCommentOrBlank line = true
  · simp [hc, allComments]
  · simp only [hc, Bool.false_eq_true, if_false, List.append_nil]
    cases findField order line with
    | some f => simp [allComments]
    | none =>
      simp only
      split
      · rfl
      · rename_i h
        simp only [Bool.or_eq_true, List.isEmpty_iff, not_or] at h
        simp [allComments, flatMap_appendToLast _ _ h.2]

theorem foldl_comments (order : List String) (lines : List String) (st : Parsed) :
    allComments (lines.foldl (parseStep order) st) = allComments st ++ lines.filter isCommentOrBlank := by
  induction lines generalizing st with
  | nil => simp
  | cons l r ih =>
    simp only [List.foldl_cons, ih, parseStep_comments, List.filter_cons]
    split <;> simp

/-- **comments_kept**: the comment blocks of the rewritten file are exactly the comment and blank lines of the
    original, in order — for every text, including an unterminated last comment line -/
theorem comments_kept (order : List String) (lines : List String) (rest : String) :
    allComments (parseLines order lines rest) =
      lines.filter isCommentOrBlank ++ (if rest ≠ "" ∧ isCommentOrBlank rest then [rest ++ "\n"] else []) := by
  unfold parseLines
  split
  · simp [allComments, ← List.append_assoc]
    have := foldl_comments order lines {}
    simp [allComments] at this
    rw [← this]
  · simp only [List.append_nil]
    have := foldl_comments order lines {}
    simpa [allComments] using this

/-- the comment pieces of the output are all the comments, whatever the fields render to -/
theorem pieces_comments (mf : String → String) (order : List String) (p : Parsed) :
    ((pieces mf order p).filter (·.1)).map (·.2) = allComments p := by
  unfold pieces allComments
  simp only [List.filter_append, List.map_append]
  have h1 : ∀ fs : List CF,
      ((fs.flatMap fun cf => cf.comment.map (fun c => (true, c)) ++ [(false, mf cf.field)]).filter (·.1)).map (·.2) =
        fs.flatMap (·.comment) := by
    intro fs
    induction fs with
    | nil => rfl
    | cons cf r ih =>
      simp only [List.flatMap_cons, List.filter_append, List.map_append, ih]
      congr 1
      induction cf.comment with
      | nil => simp
      | cons c cs ihc => simpa using ihc
  have h2 : ∀ l : List String, ((l.map fun f => (false, mf f)).filter (·.1)).map (·.2) = [] := by
    intro l; induction l with
    | nil => rfl
    | cons a r ih => simpa using ih
  have h3 : ∀ l : List String, ((l.map fun c => (true, c)).filter (·.1)).map (·.2) = l := by
    intro l; induction l with
    | nil => rfl
    | cons a r ih => simpa using ih
  rw [h1, h2, h3]; simp

/-- the field pieces are the fields of `fieldsOut`, rendered -/
theorem pieces_fields (mf : String → String) (order : List String) (p : Parsed) :
    ((pieces mf order p).filter (!·.1)).map (·.2) = (fieldsOut order p).map mf := by
  unfold pieces fieldsOut
  simp only [List.filter_append, List.map_append]
  have h1 : ∀ fs : List CF,
      ((fs.flatMap fun cf => cf.comment.map (fun c => (true, c)) ++ [(false, mf cf.field)]).filter (!·.1)).map (·.2) =
        (fs.map (·.field)).map mf := by
    intro fs
    induction fs with
    | nil => rfl
    | cons cf r ih =>
      simp only [List.flatMap_cons, List.filter_append, List.map_append, ih, List.map_cons]
      have : (cf.comment.map fun c => (true, c)).filter (fun x : Bool × String => !x.1) = [] := by
        induction cf.comment with
        | nil => rfl
        | cons c cs ihc => simpa using ihc
      simp [this]
  have h2 : ∀ l : List String, ((l.map fun f => (false, mf f)).filter (!·.1)).map (·.2) = l.map mf := by
    intro l; induction l with
    | nil => rfl
    | cons a r ih => simpa using ih
  have h3 : ∀ l : List String, ((l.map fun c => (true, c)).filter (fun x : Bool × String => !x.1)).map (·.2) = [] := by
    intro l; induction l with
    | nil => rfl
    | cons a r ih => simpa using ih
  rw [h1, h2, h3]; simp

/-- **orig_order_kept**: the fields that were in the file come first, in their original order -/
theorem orig_order_kept (order : List String) (p : Parsed) :
    (fieldsOut order p).take p.fields.length = p.fields.map (·.field) := by
  simp [fieldsOut, List.take_append_of_le_length]

theorem parseStep_fields_sub (order : List String) (st : Parsed) (line : String)
    (h : ∀ f ∈ st.fields.map (·.field), f ∈ order) : ∀ f ∈ (parseStep order st line).fields.map (·.field), f ∈ order := by
  unfold parseStep
  split
  · exact h
  · split
    · rename_i f hf
      intro g hg
      simp only [List.map_append, List.map_cons, List.map_nil, List.mem_append, List.mem_singleton] at hg
      rcases hg with hg | hg
      · exact h g hg
      · subst hg
        exact List.mem_of_find?_eq_some hf
    · split
      · exact h
      · simpa [appendToLast_fields] using h

theorem parsed_fields_sub (order : List String) (lines : List String) (rest : String) :
    ∀ f ∈ (parseLines order lines rest).fields.map (·.field), f ∈ order := by
  have : ∀ (st : Parsed), (∀ f ∈ st.fields.map (·.field), f ∈ order) →
      ∀ f ∈ (lines.foldl (parseStep order) st).fields.map (·.field), f ∈ order := by
    induction lines with
    | nil => intro st h; simpa using h
    | cons l r ih => intro st h; exact ih _ (parseStep_fields_sub order st l h)
  unfold parseLines
  split
  · exact this {} (by simp)
  · exact this {} (by simp)

/-- **fields_out_perm**: when no field line occurs twice in the file, the rewritten file contains every field of
    the marshalling order exactly once -/
theorem fields_out_perm (order : List String) (p : Parsed) (ho : order.Nodup)
    (hp : (p.fields.map (·.field)).Nodup) (hs : ∀ f ∈ p.fields.map (·.field), f ∈ order) :
    (fieldsOut order p).Perm order := by
  have hmem : ∀ f, (p.fields.any (·.field = f)) = true ↔ f ∈ p.fields.map (·.field) := by
    intro f; simp [List.any_eq_true]
  apply (List.perm_ext_iff_of_nodup ?_ ho).mpr
  · intro a
    simp only [fieldsOut, List.mem_append, List.mem_filter, Bool.not_eq_true']
    constructor
    · rintro (h | ⟨h, _⟩)
      · exact hs a h
      · exact h
    · intro h
      by_cases hm : a ∈ p.fields.map (·.field)
      · exact Or.inl hm
      · refine Or.inr ⟨h, ?_⟩
        cases hh : p.fields.any (·.field = a) with
        | false => rfl
        | true => exact absurd ((hmem a).mp hh) hm
  · rw [fieldsOut, List.nodup_append]
    refine ⟨hp, ho.filter _, ?_⟩
    intro a ha b hb hab
    subst hab
    simp only [List.mem_filter, Bool.not_eq_true'] at hb
    have := (hmem a).mpr ha
    rw [this] at hb
    exact absurd hb.2 (by simp)

/-- the regenerated marshalling order has no duplicate -/
theorem order_nodup : Gen.fieldMarshallingOrder.Nodup := by decide +kernel

/-- every field of the Kustomization struct except the deprecated `imageTags` (emptied on read) is in the
    marshalling order — a field that is not would silently disappear on every edit -/
theorem struct_fields_covered :
    Gen.kustomizationFields.all (fun f => f.1 = "ImageTags" || Gen.fieldMarshallingOrder.contains f.1) = true := by
  decide +kernel

/-- the line matcher uses the Go field NAME, the file contains the YAML key: they agree up to case -/
theorem field_names_match_keys :
    Gen.kustomizationFields.all (fun f => f.1.toList.map lowerC == f.2.toList.map lowerC) = true := by
  decide +kernel

/-- kernel-evaluated instance: comments before, inside and AFTER the fields, odd capitalisation -/
example :
    let p := parse Gen.fieldMarshallingOrder "# top\nRESOURCES:\n- a.yaml\n  # inner\n- b.yaml\n\nnamePrefix: x\n# tail\n# end"
    allComments p = ["# top\n", "  # inner\n", "\n", "# tail\n", "# end\n"] ∧
    p.fields.map (·.field) = ["Resources", "NamePrefix"] := by decide +kernel

/-! ### the typed level -/

theorem normGen_idem (g : GenA) : normGen (normGen g) = normGen g := by
  unfold normGen; split <;> simp_all

theorem norm_idem (e : E) : norm (norm e) = norm e := by
  have hg : ∀ l : List GenA, (l.map normGen).map normGen = l.map normGen := by
    intro l; simp [List.map_map, Function.comp_def, normGen_idem]
  by_cases h1 : e.kind = "" <;> by_cases h2 : e.apiVersion = "" <;> by_cases h3 : e.kind = "Component" <;>
    simp_all [norm] <;> exact ⟨fun a _ => normGen_idem a, fun a _ => normGen_idem a⟩

/-- the field a command addresses -/
inductive Fld where
  | resources | components | buildMetadata | commonLabels | commonAnnotations | labels | nspace | namePrefix | nameSuffix
  | images | replicas | cms | secrets | patches
  deriving DecidableEq, Repr

def addr : Op → Fld
  | .addResource _ => .resources
  | .removeResource _ => .resources
  | .addComponent _ => .components
  | .addBuildMeta _ => .buildMetadata
  | .removeBuildMeta _ => .buildMetadata
  | .setBuildMeta _ => .buildMetadata
  | .addLabel _ _ wosel _ => if wosel then .labels else .commonLabels
  | .addAnnotation _ _ => .commonAnnotations
  | .setLabel _ => .commonLabels
  | .setAnnotation _ => .commonAnnotations
  | .removeLabel _ _ => .commonLabels
  | .removeAnnotation _ _ => .commonAnnotations
  | .setNamespace _ => .nspace
  | .setNamePrefix _ => .namePrefix
  | .setNameSuffix _ => .nameSuffix
  | .setReplicas _ => .replicas
  | .setImage _ => .images
  | .addConfigMap .. => .cms
  | .removeConfigMap .. => .cms
  | .addSecret .. => .secrets
  | .removeSecret .. => .secrets
  | .addPatch _ => .patches
  | .removePatch _ => .patches

/-- forget one field -/
def blank (f : Fld) (e : E) : E :=
  match f with
  | .resources => { e with resources := [] }
  | .components => { e with components := [] }
  | .buildMetadata => { e with buildMetadata := [] }
  | .commonLabels => { e with commonLabels := [] }
  | .commonAnnotations => { e with commonAnnotations := [] }
  | .labels => { e with labels := [] }
  | .nspace => { e with nspace := "" }
  | .namePrefix => { e with namePrefix := "" }
  | .nameSuffix => { e with nameSuffix := "" }
  | .images => { e with images := [] }
  | .replicas => { e with replicas := [] }
  | .cms => { e with cms := [] }
  | .secrets => { e with secrets := [] }
  | .patches => { e with patches := [] }

/-- **frame**: whatever a command writes differs from the (normalised) content it read in the addressed field only -/
theorem frame (vk : String → Bool) (e e' : E) (op : Op) (h : apply vk e op = .wrote e') :
    blank (addr op) e' = blank (addr op) (norm e) := by
  cases op <;> simp only [apply] at h <;> (repeat' (first | split at h | (dsimp only at h; split at h))) <;>
    first
    | (exfalso; simp at h; done)
    | (simp only [Outcome.wrote.injEq] at h; subst h; simp [addr, blank]; done)
    | (simp only [Outcome.wrote.injEq] at h; subst h; simp_all [addr, blank]; done)

/-- a field read through `blank`-insensitive observation: two states that agree once `g` is blanked agree on every
    other field; used below for sequences -/
theorem blank_comm (f g : Fld) (e : E) : blank f (blank g e) = blank g (blank f e) := by
  cases f <;> cases g <;> rfl

theorem blank_norm (f : Fld) (e : E) : blank f (norm (norm e)) = blank f (norm e) := by rw [norm_idem]

/-- normalisation commutes with forgetting an addressed field, except that `resources` absorbs `bases`, `images`
    absorbs `imageTags` and the generators absorb `env` -/
def normStable (f : Fld) : Bool :=
  match f with
  | .resources | .images | .cms | .secrets => false
  | _ => true

theorem blank_norm_comm (f : Fld) (e : E) (h : normStable f = true) : blank f (norm e) = norm (blank f e) := by
  cases f <;> simp_all [normStable, blank, norm] <;> exact ⟨rfl, rfl⟩

/-- **frame_ops**: a sequence of commands none of which addresses field `f` (`f` not one of the absorbing fields)
    leaves `f` as it was read: the final content, with every OTHER field forgotten, is the normalised original.
    Stated through the complement: blanking all addressed fields gives the same object. -/
theorem frame_ops_field (vk : String → Bool) (get : E → α)
    (hblank : ∀ (op : Op) (e e' : E), blank (addr op) e' = blank (addr op) e → op ∈ ops → get e' = get e)
    (hnorm : ∀ e, get (norm e) = get e) :
    ∀ (e : E), get (runOps vk e ops) = get e := by
  induction ops with
  | nil => intro e; rfl
  | cons op r ih =>
    intro e
    simp only [runOps]
    have ih' := ih (fun o a b hb ho => hblank o a b hb (by simp [ho]))
    rw [ih']
    cases ha : apply vk e op with
    | err => rfl
    | noop => rfl
    | wrote e' =>
      simp only [Outcome.state]
      have := frame vk e e' op ha
      rw [hblank op (norm e) e' this (by simp), hnorm]

/-- instance of `frame_ops_field`: no sequence of commands other than set-namespace changes the namespace -/
theorem namespace_untouched (vk : String → Bool) (ops : List Op) (h : ∀ op ∈ ops, addr op ≠ .nspace) (e : E) :
    (runOps vk e ops).nspace = e.nspace := by
  apply frame_ops_field vk (·.nspace)
  · intro op a b hb ho
    have := h op ho
    revert hb
    cases hf : addr op <;> simp_all [blank] <;> intro hb <;> (try exact absurd rfl this) <;>
      (have := congrArg E.nspace hb; simpa using this)
  · intro e; simp [norm]

theorem patches_untouched (vk : String → Bool) (ops : List Op) (h : ∀ op ∈ ops, addr op ≠ .patches) (e : E) :
    (runOps vk e ops).patches = e.patches := by
  apply frame_ops_field vk (·.patches)
  · intro op a b hb ho
    have := h op ho
    revert hb
    cases hf : addr op <;> simp_all [blank] <;> intro hb <;> (try exact absurd rfl this) <;>
      (have := congrArg E.patches hb; simpa using this)
  · intro e; simp [norm]

theorem commonLabels_untouched (vk : String → Bool) (ops : List Op) (h : ∀ op ∈ ops, addr op ≠ .commonLabels) (e : E) :
    (runOps vk e ops).commonLabels = e.commonLabels := by
  apply frame_ops_field vk (·.commonLabels)
  · intro op a b hb ho
    have := h op ho
    revert hb
    cases hf : addr op <;> simp_all [blank] <;> intro hb <;> (try exact absurd rfl this) <;>
      (have := congrArg E.commonLabels hb; simpa using this)
  · intro e; simp [norm]

/-! ### idempotence of `set` -/

theorem set_namespace_idem (vk : String → Bool) (e e1 : E) (a : List String)
    (h : apply vk e (.setNamespace a) = .wrote e1) : apply vk e1 (.setNamespace a) = .wrote e1 := by
  match a, h with
  | [s], h =>
    simp only [apply, Outcome.wrote.injEq] at h ⊢
    subst h
    have := norm_idem e
    by_cases h1 : e.kind = "" <;> by_cases h2 : e.apiVersion = "" <;> by_cases h3 : e.kind = "Component" <;>
      simp_all [norm] <;> exact ⟨fun a _ => normGen_idem a, fun a _ => normGen_idem a⟩

theorem mapSet_idem (k v : String) (m : SMap) : mapSet k v (mapSet k v m) = mapSet k v m := by
  induction m with
  | nil => simp [mapSet]
  | cons ab r ih =>
    obtain ⟨a, b⟩ := ab
    by_cases h1 : a = k
    · simp [mapSet, h1]
    · by_cases h2 : k < a
      · simp [mapSet, h1, h2]
      · simp [mapSet, h1, h2, ih]

/-! ### add followed by the matching remove -/

theorem mapDel_mapSet (k v : String) (m : SMap) (h : mapHas k m = false) : mapDel k (mapSet k v m) = m := by
  induction m with
  | nil => simp [mapSet, mapDel]
  | cons ab r ih =>
    obtain ⟨a, b⟩ := ab
    simp only [mapHas, List.any_cons, Bool.or_eq_false_iff, decide_eq_false_iff_not] at h
    have hr : mapHas k r = false := by simpa [mapHas] using h.2
    have hdel : mapDel k r = r := by
      simp only [mapDel, List.filter_eq_self]
      intro x hx
      have : ¬ x.1 = k := by
        intro e
        have : mapHas k r = true := by simp only [mapHas, List.any_eq_true]; exact ⟨x, hx, by simp [e]⟩
        rw [hr] at this; exact absurd this (by simp)
      simpa using this
    by_cases h2 : k < a
    · simp only [mapSet, h.1, if_false, h2, if_true]
      simp only [mapDel, List.filter_cons]
      simp [h.1]
      simpa [mapDel] using hdel
    · simp only [mapSet, h.1, if_false, h2]
      simp only [mapDel, List.filter_cons]
      simp [h.1]
      simpa [mapDel] using ih hr

/-- **add_remove_resource**: adding a resource that is not there and removing it again restores the list -/
theorem add_remove_resource (vk : String → Bool) (e e1 : E) (p : String)
    (hp : p ≠ kustPath) (hn : p ∉ (norm e).resources)
    (h1 : apply vk e (.addResource [p]) = .wrote e1) :
    apply vk e1 (.removeResource [p]) = .wrote (norm e) := by
  simp only [apply, List.isEmpty_cons, Bool.false_eq_true, if_false, Outcome.wrote.injEq] at h1
  subst h1
  have hc : (norm e).resources.contains p = false := by simpa using hn
  have hn' : ∀ x ∈ (norm e).resources, x ≠ p := fun x hx e' => hn (e' ▸ hx)
  have hfilter : (norm e).resources.filter (fun x => !decide (x = p)) = (norm e).resources := by
    simp only [List.filter_eq_self]; intro x hx; simpa using hn' x hx
  have hnn := norm_idem e
  simp only [apply, addPaths, List.foldl_cons, List.foldl_nil, hp, hc, false_or, Bool.false_eq_true, if_false,
    List.isEmpty_cons]
  have hres : (norm { norm e with resources := (norm e).resources ++ [p] }) =
      { norm e with resources := (norm e).resources ++ [p] } := by
    have : (norm e).bases = [] := rfl
    by_cases h1 : e.kind = "" <;> by_cases h2 : e.apiVersion = "" <;> by_cases h3 : e.kind = "Component" <;>
      simp_all [norm] <;> exact ⟨fun a _ => normGen_idem a, fun a _ => normGen_idem a⟩
  rw [hres]
  simp [hfilter]

/-- non-vacuity / worked history: add a resource, set the namespace twice, remove the resource -/
example :
    let e0 : E := { resources := ["a.yaml"], bases := ["../base"], commonLabels := [("app", "x")] }
    let e := runOps (fun _ => true) e0
      [.addResource ["b.yaml"], .setNamespace ["prod"], .setNamespace ["prod"], .removeResource ["b.yaml"]]
    e.resources = ["a.yaml", "../base"] ∧ e.nspace = "prod" ∧ e.commonLabels = [("app", "x")] ∧ e.bases = [] := by
  decide

theorem mapHas_mapSet (k v : String) (m : SMap) : mapHas k (mapSet k v m) = true := by
  induction m with
  | nil => simp [mapSet, mapHas]
  | cons ab r ih =>
    obtain ⟨a, b⟩ := ab
    by_cases h1 : a = k
    · simp [mapSet, h1, mapHas]
    · by_cases h2 : k < a
      · simp [mapSet, h1, h2, mapHas]
      · simp only [mapSet, h1, if_false, h2]
        simp only [mapHas, List.any_cons] at ih ⊢
        simp [ih]

theorem mapSet_ne_nil (k v : String) (m : SMap) : (mapSet k v m).isEmpty = false := by
  cases m with
  | nil => simp [mapSet]
  | cons ab r =>
    obtain ⟨a, b⟩ := ab
    simp only [mapSet]
    split
    · rfl
    · split <;> rfl

/-- **add_remove_map**: adding a key that is not there (`add label k:v`, `add annotation k:v`) and removing it
    again (`remove label k`) restores the map — whatever the map and the `ignore` flag -/
theorem add_remove_map (k v : String) (m m' : SMap) (ignore : Bool)
    (h : addToMap false [(k, v)] m = some m') : removeKeys ignore [k] m' = some m := by
  unfold addToMap at h
  simp only [Bool.not_false, Bool.true_and, List.any_cons, List.any_nil, Bool.or_false] at h
  split at h
  · simp at h
  · rename_i hn
    simp only [mapSetAll, List.foldl_cons, List.foldl_nil, Option.some.injEq] at h
    subst h
    have hk : mapHas k m = false := by simpa using hn
    simp [removeKeys, mapSet_ne_nil, mapHas_mapSet, mapDel_mapSet k v m hk]

/-! ### the label / annotation map refines a key → value function: `set` and `remove` change exactly the named key -/

/-- the value a label / annotation map holds for `k` (first entry wins, as in the Go map the list is read into) -/
def mapGet (k : String) (m : SMap) : Option String := (m.find? (·.1 = k)).map (·.2)

theorem mapGet_mapSet_same (k v : String) (m : SMap) : mapGet k (mapSet k v m) = some v := by
  induction m with
  | nil => simp [mapSet, mapGet]
  | cons ab r ih =>
    obtain ⟨a, b⟩ := ab
    by_cases h1 : a = k
    · simp [mapSet, h1, mapGet]
    · by_cases h2 : k < a
      · simp [mapSet, h1, h2, mapGet]
      · simp only [mapSet, h1, if_false, h2]
        simp only [mapGet, List.find?_cons, h1, decide_false] at ih ⊢
        exact ih

/-- **frame inside a map**: setting `k` leaves the value of every other key as it was -/
theorem mapGet_mapSet_ne (k k' v : String) (m : SMap) (h : k' ≠ k) : mapGet k' (mapSet k v m) = mapGet k' m := by
  have hk : ¬ k = k' := fun e => h e.symm
  induction m with
  | nil => simp [mapSet, mapGet, hk]
  | cons ab r ih =>
    obtain ⟨a, b⟩ := ab
    by_cases h1 : a = k
    · subst h1; simp [mapSet, mapGet, hk]
    · by_cases h2 : k < a
      · simp [mapSet, h1, h2, mapGet, hk]
      · simp only [mapSet, h1, if_false, h2]
        by_cases h3 : a = k'
        · simp [mapGet, h3]
        · simp only [mapGet, List.find?_cons, h3, decide_false] at ih ⊢
          exact ih

theorem mapGet_mapDel_same (k : String) (m : SMap) : mapGet k (mapDel k m) = none := by
  induction m with
  | nil => simp [mapDel, mapGet]
  | cons ab r ih =>
    obtain ⟨a, b⟩ := ab
    by_cases h1 : a = k
    · simp only [mapDel, mapGet] at ih; simp [mapDel, h1, mapGet, ih]
    · simp only [mapDel, mapGet] at ih; simp [mapDel, h1, mapGet, ih]

/-- removing `k` leaves the value of every other key as it was -/
theorem mapGet_mapDel_ne (k k' : String) (m : SMap) (h : k' ≠ k) : mapGet k' (mapDel k m) = mapGet k' m := by
  induction m with
  | nil => simp [mapDel, mapGet]
  | cons ab r ih =>
    obtain ⟨a, b⟩ := ab
    by_cases h1 : a = k
    · subst h1
      have : ¬ a = k' := fun e => h e.symm
      simpa [mapDel, mapGet, this] using ih
    · by_cases h3 : a = k'
      · subst h3; simp [mapDel, List.filter_cons, h1, mapGet]
      · simpa [mapDel, h1, mapGet, h3] using ih

/-- **set_all_frame**: `add label/annotation k1:v1,…` (mapSetAll) leaves every key that is not named untouched —
    for every map and every pair list -/
theorem mapGet_mapSetAll_frame (kvs m : SMap) (k' : String) (h : ∀ kv ∈ kvs, kv.1 ≠ k') :
    mapGet k' (mapSetAll kvs m) = mapGet k' m := by
  induction kvs generalizing m with
  | nil => simp [mapSetAll]
  | cons kv r ih =>
    simp only [mapSetAll, List.foldl_cons]
    have := ih (mapSet kv.1 kv.2 m) (fun x hx => h x (List.mem_cons_of_mem _ hx))
    simp only [mapSetAll] at this
    rw [this]
    exact mapGet_mapSet_ne kv.1 k' kv.2 m (fun e => h kv List.mem_cons_self e.symm)

/-- the last pair naming `k'` decides its value after `mapSetAll` (dictionary update semantics) -/
theorem mapGet_mapSetAll_last (kvs r m : SMap) (k' v : String) (h : ∀ kv ∈ r, kv.1 ≠ k') :
    mapGet k' (mapSetAll (kvs ++ (k', v) :: r) m) = some v := by
  have : mapSetAll (kvs ++ (k', v) :: r) m = mapSetAll r (mapSet k' v (mapSetAll kvs m)) := by
    simp [mapSetAll, List.foldl_append]
  rw [this, mapGet_mapSetAll_frame r _ k' h, mapGet_mapSet_same]

example : mapGet "b" (mapSetAll [("a", "1"), ("b", "2"), ("a", "3")] [("b", "0"), ("c", "9")]) = some "2" := by decide

end Kust.C17
