/-
  C10 (replacement clause) — "A replacement copies the source field's value verbatim into exactly the selected,
  non-rejected target fields (honouring delimiter/index options), and every resource or field not selected is left
  untouched."  Theorems about the model `Kust.Repl` of api/filters/replacement/replacement.go, which is tied to the
  Go filter by the correspondence component `repl.apply` on every run.
-/
import Kust.Lemmas.Repl3
import Kust.Lemmas.Repl4
namespace Kust.C10
open Kust Kust.Repl

/-! ### what is not selected is left untouched -/

/-- one target selector: resources it does not select are unchanged; selected ones keep their kind and every field
    the selector does not name. -/
theorem target_frame (val : Val) (t : Target) (st st' : State) (h : applyTarget val t st = .ok st') :
    st'.length = st.length ∧ ∀ (i : Nat) r, st[i]? = some r → ∃ r', st'[i]? = some r' ∧ r'.kind = r.kind ∧
      (∀ g, g ∉ fieldsOf t → getF r' g = getF r g) ∧ (selected t r = false → r' = r) := by
  obtain ⟨hl, hf⟩ := applyTargetFrom_frame val t st.length 0 st st' h
  refine ⟨hl, fun i r hr => ?_⟩
  obtain ⟨r', h1, h2, h3, h4⟩ := hf i r hr
  exact ⟨r', h1, h2, h3, fun hs => h4 (Or.inr (Or.inr hs))⟩

/-- a resource no target of the list selects survives the whole list unchanged; fields no target names survive on
    every resource -/
theorem targets_frame (val : Val) :
    ∀ (ts : List Target) (st st' : State), applyTargets val ts st = .ok st' →
      st'.length = st.length ∧ ∀ (i : Nat) r, st[i]? = some r → ∃ r', st'[i]? = some r' ∧ r'.kind = r.kind ∧
        (∀ g, (∀ t ∈ ts, g ∉ fieldsOf t) → getF r' g = getF r g) ∧
        ((∀ t ∈ ts, selected t r = false) → r' = r) := by
  intro ts
  induction ts with
  | nil =>
    intro st st' h; simp [applyTargets] at h; subst h
    exact ⟨rfl, fun i r hr => ⟨r, hr, rfl, fun _ _ => rfl, fun _ => rfl⟩⟩
  | cons t ts ih =>
    intro st st' h
    simp only [applyTargets] at h
    split at h
    · rename_i st1 h1
      obtain ⟨l1, f1⟩ := target_frame val t st st1 h1
      obtain ⟨l2, f2⟩ := ih st1 st' h
      refine ⟨l2.trans l1, fun i r hr => ?_⟩
      obtain ⟨r1, hr1, hk1, hg1, hs1⟩ := f1 i r hr
      obtain ⟨r', hr', hk', hg', hs'⟩ := f2 i r1 hr1
      refine ⟨r', hr', hk'.trans hk1, fun g hg => ?_, fun hs => ?_⟩
      · rw [hg' g (fun t' ht' => hg t' (by simp [ht'])), hg1 g (hg t (by simp))]
      · have e1 : r1 = r := hs1 (hs t (by simp))
        subst e1
        exact hs' (fun t' ht' => hs t' (by simp [ht']))
    · simp at h
    · simp at h

/-- one replacement -/
theorem repl_frame (rp : Repl) (st st' : State) (h : applyRepl rp st = .ok st') :
    st'.length = st.length ∧ ∀ (i : Nat) r, st[i]? = some r → ∃ r', st'[i]? = some r' ∧ r'.kind = r.kind ∧
      (∀ g, (∀ t ∈ rp.targets, g ∉ fieldsOf t) → getF r' g = getF r g) ∧
      ((∀ t ∈ rp.targets, selected t r = false) → r' = r) := by
  unfold applyRepl at h
  split at h
  · simp at h
  · split at h
    · simp at h
    · split at h
      · rename_i val _
        exact targets_frame val _ _ _ h
      · simp at h
      · simp at h

/-- **frame, whole list.** A resource that no target of any replacement in the list selects is in the output exactly
    as it was in the input — whatever the other resources, sources, options and reject lists are. -/
theorem unselected_untouched :
    ∀ (rs : List Repl) (st st' : State), applyAll rs st = .ok st' →
      st'.length = st.length ∧ ∀ (i : Nat) r, st[i]? = some r →
        (∀ rp ∈ rs, ∀ t ∈ rp.targets, selected t r = false) → st'[i]? = some r := by
  intro rs
  induction rs with
  | nil => intro st st' h; simp [applyAll] at h; subst h; exact ⟨rfl, fun _ _ hr _ => hr⟩
  | cons rp rs ih =>
    intro st st' h
    simp only [applyAll] at h
    split at h
    · rename_i st1 h1
      obtain ⟨l1, f1⟩ := repl_frame rp st st1 h1
      obtain ⟨l2, f2⟩ := ih st1 st' h
      refine ⟨l2.trans l1, fun i r hr hs => ?_⟩
      obtain ⟨r1, hr1, _, _, hs1⟩ := f1 i r hr
      have e1 : r1 = r := hs1 (hs rp (by simp))
      subst e1
      exact f2 i r1 hr1 (fun rp' hrp' => hs rp' (by simp [hrp']))
    · simp at h
    · simp at h

/-- **frame, fields.** A field that no target of the list names keeps its value on every resource, selected or not;
    no resource is added, dropped or reordered, and no kind changes. -/
theorem unnamed_field_untouched :
    ∀ (rs : List Repl) (st st' : State), applyAll rs st = .ok st' →
      ∀ (i : Nat) r, st[i]? = some r → ∃ r', st'[i]? = some r' ∧ r'.kind = r.kind ∧
        ∀ g, (∀ rp ∈ rs, ∀ t ∈ rp.targets, g ∉ fieldsOf t) → getF r' g = getF r g := by
  intro rs
  induction rs with
  | nil => intro st st' h i r hr; simp [applyAll] at h; subst h; exact ⟨r, hr, rfl, fun _ _ => rfl⟩
  | cons rp rs ih =>
    intro st st' h i r hr
    simp only [applyAll] at h
    split at h
    · rename_i st1 h1
      obtain ⟨_, f1⟩ := repl_frame rp st st1 h1
      obtain ⟨r1, hr1, hk1, hg1, _⟩ := f1 i r hr
      obtain ⟨r', hr', hk', hg'⟩ := ih st1 st' h i r1 hr1
      refine ⟨r', hr', hk'.trans hk1, fun g hg => ?_⟩
      rw [hg' g (fun rp' hrp' => hg rp' (by simp [hrp'])), hg1 g (hg rp (by simp))]
    · simp at h
    · simp at h

/-! ### what is selected receives the value verbatim -/

/-- one target selector without a delimiter option and a detached value: every selected resource holds exactly the
    value in every named field afterwards -/
theorem target_writes (v : String) (t : Target) (hnd : NoDelim t) (st st' : State)
    (h : applyTarget (.const v) t st = .ok st') :
    ∀ (i : Nat) r, st[i]? = some r → selected t r = true →
      ∃ r', st'[i]? = some r' ∧ ∀ f ∈ fieldsOf t, getF r' f = some v := by
  intro i r hr hsel
  have hi : i < st.length := by
    rcases Nat.lt_or_ge i st.length with hlt | hge
    · exact hlt
    · rw [List.getElem?_eq_none hge] at hr; cases hr
  exact applyTargetFrom_writes v t hnd st.length 0 st st' h i r hr (Nat.zero_le _) (by omega) hsel

/-- **verbatim copy (`sourceValue`).** A replacement with a literal source and one option-free target writes exactly
    that literal into every named field of every selected resource. -/
theorem literal_copied_verbatim (v : String) (t : Target) (hnd : NoDelim t) (st st' : State)
    (h : applyRepl ⟨.value v, [t]⟩ st = .ok st') :
    ∀ (i : Nat) r, st[i]? = some r → selected t r = true →
      ∃ r', st'[i]? = some r' ∧ ∀ f ∈ fieldsOf t, getF r' f = some v := by
  simp [applyRepl, resolve, applyTargets] at h
  split at h
  · rename_i st1 h1
    simp at h; subst h
    exact target_writes v t hnd st _ h1
  · simp at h
  · simp at h

/-! ### the source: unique, read from the current state -/

theorem mem_srcMatches (s : Sel) : ∀ (st : State) (b i : Nat),
    i ∈ srcMatches s st b ↔ b ≤ i ∧ ∃ r, st[i - b]? = some r ∧ idSel s r = true := by
  intro st
  induction st with
  | nil => intro b i; simp [srcMatches]
  | cons x xs ih =>
    intro b i
    simp only [srcMatches]
    by_cases hx : idSel s x = true
    · rw [if_pos hx]
      simp only [List.mem_cons, ih]
      constructor
      · rintro (e | ⟨hb, r, hr, hs⟩)
        · subst e; exact ⟨Nat.le_refl _, x, by simp, hx⟩
        · refine ⟨by omega, r, ?_, hs⟩
          have : i - b = (i - (b + 1)) + 1 := by omega
          rw [this]; simpa using hr
      · rintro ⟨hb, r, hr, hs⟩
        by_cases e : i = b
        · exact Or.inl e
        · refine Or.inr ⟨by omega, r, ?_, hs⟩
          have : i - b = (i - (b + 1)) + 1 := by omega
          rw [this] at hr; simpa using hr
    · rw [if_neg hx]
      rw [ih]
      constructor
      · rintro ⟨hb, r, hr, hs⟩
        refine ⟨by omega, r, ?_, hs⟩
        have : i - b = (i - (b + 1)) + 1 := by omega
        rw [this]; simpa using hr
      · rintro ⟨hb, r, hr, hs⟩
        have hne : i ≠ b := by
          intro e; subst e; simp at hr; subst hr; exact hx hs
        refine ⟨by omega, r, ?_, hs⟩
        have : i - b = (i - (b + 1)) + 1 := by omega
        rw [this] at hr; simpa using hr

/-- **the source is unique and current.** When a field source resolves, exactly one resource of the CURRENT state is
    selected by the source selector, the field exists on it, and the value handed to the targets is that field's
    current content (live, no delimiter) or the addressed piece of it (delimiter/index). -/
theorem source_unique_and_current (st : State) (sel : Sel) (f : Option FRef) (o : Option Opts) (val : Val)
    (h : resolve st (.field sel f o) = .ok val) :
    ∃ i r v, st[i]? = some r ∧ idSel sel r = true ∧
      (∀ (i' : Nat) r', st[i']? = some r' → idSel sel r' = true → i' = i) ∧
      getF r (f.getD .name) = some v ∧
      ((val = .live i (f.getD .name) ∧ readVal st val = .ok v ∧ (∀ o', o = some o' → o'.delim = "")) ∨
       (∃ o' p, o = some o' ∧ o'.delim ≠ "" ∧ 0 ≤ o'.index ∧ (split o'.delim v)[o'.index.toNat]? = some p ∧ val = .const p)) := by
  simp only [resolve] at h
  split at h
  · simp at h
  · rename_i i hm
    split at h
    · simp at h
    · rename_i r hr
      split at h
      · simp at h
      · rename_i v hv
        have hmem : ∀ i', i' ∈ srcMatches sel st 0 ↔ ∃ r', st[i']? = some r' ∧ idSel sel r' = true := by
          intro i'; rw [mem_srcMatches]; simp
        have hsel : idSel sel r = true := by
          have : i ∈ srcMatches sel st 0 := by rw [hm]; simp
          obtain ⟨r', hr', hs'⟩ := (hmem i).1 this
          rw [hr] at hr'; cases hr'; exact hs'
        have huniq : ∀ (i' : Nat) r', st[i']? = some r' → idSel sel r' = true → i' = i := by
          intro i' r' hr' hs'
          have : i' ∈ srcMatches sel st 0 := (hmem i').2 ⟨r', hr', hs'⟩
          rw [hm] at this; simpa using this
        refine ⟨i, r, v, hr, hsel, huniq, hv, ?_⟩
        unfold refine at h
        split at h
        · simp at h; subst h
          exact Or.inl ⟨rfl, by simp [readVal, hr, hv], by simp⟩
        · rename_i o'
          split at h
          · rename_i hd
            simp at h; subst h
            exact Or.inl ⟨rfl, by simp [readVal, hr, hv], by intro o'' e; cases e; exact hd⟩
          · rename_i hd
            simp only at h
            split at h
            · simp at h
            · rename_i hb
              split at h
              · rename_i p hp
                simp at h; subst h
                refine Or.inr ⟨o', p, rfl, hd, ?_, hp, rfl⟩
                simp at hb; omega
              · simp at h
  · simp at h

/-! ### strictly sequential -/

theorem applyAll_append : ∀ (rs qs : List Repl) (st : State),
    applyAll (rs ++ qs) st = (applyAll rs st).bind (applyAll qs) := by
  intro rs
  induction rs with
  | nil => intro qs st; simp [applyAll, Out.bind]
  | cons r rs ih =>
    intro qs st
    simp only [List.cons_append, applyAll]
    cases applyRepl r st with
    | ok st1 => simp only; exact ih qs st1
    | err c => simp [Out.bind]
    | panic c => simp [Out.bind]

/-- **each replacement sees what its predecessors wrote.** The last replacement of a list is applied to — and
    resolves its source in — the state produced by all the replacements before it, never the original input. -/
theorem last_sees_predecessors (rs : List Repl) (r : Repl) (st : State) :
    applyAll (rs ++ [r]) st = (applyAll rs st).bind (applyRepl r) := by
  rw [applyAll_append]
  cases applyAll rs st with
  | ok st1 =>
    simp only [Out.bind, applyAll]
    cases applyRepl r st1 <;> rfl
  | err c => rfl
  | panic c => rfl

/-! ### delimiter / index on the target -/

theorem setPieces_replace (idx : Int) (v : String) (tv : List String) (h0 : 0 ≤ idx) (h1 : idx < tv.length) :
    (setPieces idx v tv).length = tv.length ∧ (setPieces idx v tv)[idx.toNat]? = some v ∧
      ∀ j, j ≠ idx.toNat → (setPieces idx v tv)[j]? = tv[j]? := by
  have hn : ¬ idx < 0 := by omega
  have hn2 : ¬ idx ≥ (tv.length : Int) := by omega
  have hlt : idx.toNat < tv.length := by omega
  simp only [setPieces, hn, hn2, if_false]
  refine ⟨by simp, by simp [hlt], fun j hj => by simp [Ne.symm hj]⟩

theorem setPieces_prefix (idx : Int) (v : String) (tv : List String) (h : idx < 0) :
    setPieces idx v tv = v :: tv := by simp [setPieces, h]

theorem setPieces_suffix (idx : Int) (v : String) (tv : List String) (h : idx ≥ tv.length) :
    setPieces idx v tv = tv ++ [v] := by
  have hn : ¬ idx < 0 := by omega
  simp [setPieces, hn, h]

/-- **honouring delimiter/index on the target.** With a one-character delimiter `c` and a value free of `c`, the new
    content of the target field, split again, is the old list of pieces with exactly the addressed piece replaced
    (or the value prefixed / suffixed when the index is out of range) — every other piece is kept as it was. -/
theorem target_pieces_exact (c : Char) (idx : Int) (cr : Bool) (old v : String) (hv : c ∉ v.toList) :
    split (String.singleton c) (newValue (some ⟨String.singleton c, idx, cr⟩) old v)
      = setPieces idx v (split (String.singleton c) old) := by
  have hne : String.singleton c ≠ "" := by
    intro e
    have := congrArg String.toList e
    simp at this
  simp only [newValue, hne, if_false]
  apply split_join_char
  · unfold setPieces
    split
    · simp
    · split
      · simp
      · intro e
        have := congrArg List.length e
        simp at this
        exact split_ne_nil _ _ this
  · intro p hp
    have hfree := split_pieces_free c old
    unfold setPieces at hp
    split at hp
    · simp at hp; rcases hp with e | hp
      · subst e; exact hv
      · exact hfree p hp
    · split at hp
      · simp at hp; rcases hp with hp | e
        · exact hfree p hp
        · subst e; exact hv
      · rcases List.mem_or_eq_of_mem_set hp with hp | e
        · exact hfree p hp
        · subst e; exact hv

/-- **honouring delimiter/index on the source.** The value taken from a delimited source is the addressed piece. -/
theorem source_piece (i : Nat) (f : FRef) (o : Opts) (v : String) (val : Val) (hd : o.delim ≠ "")
    (h : refine (some o) i f v = .ok val) :
    ∃ p, val = .const p ∧ 0 ≤ o.index ∧ (split o.delim v)[o.index.toNat]? = some p := by
  simp only [refine, hd, if_false] at h
  split at h
  · simp at h
  · rename_i hb
    split at h
    · rename_i p hp
      simp at h; subst h
      exact ⟨p, rfl, by simp at hb; omega, hp⟩
    · simp at h

/-! ### the premises are satisfiable; chains behave sequentially -/

/-- two ConfigMaps: `settings` (image = app:1.0.0) and `release` (version = 2.0.0), and a Deployment-like `web` -/
def exState : State :=
  [⟨"ConfigMap", "settings", none, some [("image", "app:1.0.0")]⟩,
   ⟨"ConfigMap", "release", none, some [("version", "2.0.0")]⟩,
   ⟨"Deployment", "web", some [("version", "0")], some [("image", "none")]⟩]

/-- 1: release.version → piece 1 of settings.image; 2: piece 1 of settings.image → web's label; 3: settings.image → web.image -/
def exChain : List Repl :=
  [⟨.field ⟨"ConfigMap", "release", none⟩ (some (.data "version")) none,
     [⟨⟨"ConfigMap", "settings", none⟩, [], [.data "image"], some ⟨":", 1, false⟩⟩]⟩,
   ⟨.field ⟨"ConfigMap", "settings", none⟩ (some (.data "image")) (some ⟨":", 1, false⟩),
     [⟨⟨"Deployment", "", none⟩, [], [.label "version"], none⟩]⟩,
   ⟨.field ⟨"ConfigMap", "settings", none⟩ (some (.data "image")) none,
     [⟨⟨"Deployment", "", none⟩, [], [.data "image"], none⟩]⟩]

/-- the later replacements read what the first one wrote (2.0.0, not the 1.0.0 of the input) -/
example : applyAll exChain exState = .ok
    [⟨"ConfigMap", "settings", none, some [("image", "app:2.0.0")]⟩,
     ⟨"ConfigMap", "release", none, some [("version", "2.0.0")]⟩,
     ⟨"Deployment", "web", some [("version", "2.0.0")], some [("image", "app:2.0.0")]⟩] := by decide

example : NoDelim ⟨⟨"Deployment", "", none⟩, [], [.label "version"], none⟩ := by intro o h; cases h

example : selected ⟨⟨"Deployment", "", none⟩, [], [.label "version"], none⟩ ⟨"Deployment", "web", some [("version", "0")], none⟩ = true := by decide

end Kust.C10
