/-
  C14 (field-spec clause) — "the slash-separated field-spec paths used by transformers visit exactly the nodes that a
  reference interpretation of the path denotes".  Theorem about `Kust.FieldSpec.filter` (the model of
  api/filters/fieldspec, tied by the correspondence `fieldspec.apply`), positions as in `Kust.Match`.
-/
import Kust.Props.C02
import Kust.Match
namespace Kust.C14
open Kust Node Fns FieldSpec Kust.Match Kust.C02

/-- reference interpretation of a field-spec path: field names descend, EVERY sequence on the way fans out over its
    elements (at every level), null nodes are skipped -/
def fsDenoteItems (rec : Node → List Pos) : Nat → List Node → List Pos
  | _, [] => []
  | i, e :: es => (rec e).map (Step.idx i :: ·) ++ fsDenoteItems rec (i + 1) es

def fsDenote : Nat → List String → Node → List Pos
  | 0, _, _ => []
  | _ + 1, [], _ => [[]]
  | f + 1, seg :: rest, obj =>
    if obj.isNull then []
    else match obj with
    | .scalar .. => []
    | .seq _ is => fsDenoteItems (fsDenote f (seg :: rest)) 0 is
    | .map _ fs =>
      match fieldGet seg fs with
      | some x => (fsDenote f rest x).map (Step.key seg :: ·)
      | none => []

theorem filterItems_spec (rec : Node → Out Node) : ∀ (is is' : List Node), filterItems rec is = .ok is' →
    is'.length = is.length ∧ ∀ (i : Nat) e, is[i]? = some e → ∃ e', is'[i]? = some e' ∧ rec e = .ok e' := by
  intro is
  induction is with
  | nil => intro is' h; simp [filterItems] at h; subst h; simp
  | cons e es ih =>
    intro is' h
    unfold filterItems at h
    split at h
    · rename_i e' he
      split at h
      · rename_i r hr
        simp at h; subst h
        obtain ⟨hl, hi⟩ := ih r hr
        refine ⟨by simp [hl], fun i x hx => ?_⟩
        cases i with
        | zero => simp at hx; subst hx; exact ⟨e', by simp, he⟩
        | succ i => simp at hx; obtain ⟨x', h1, h2⟩ := hi i x hx; exact ⟨x', by simpa using h1, h2⟩
      · simp at h
      · simp at h
    · simp at h
    · simp at h

theorem mem_fsDenoteItems (rec : Node → List Pos) : ∀ (is : List Node) (b : Nat) (p : Pos),
    p ∈ fsDenoteItems rec b is ↔ ∃ i e p0, is[i]? = some e ∧ p0 ∈ rec e ∧ p = Step.idx (b + i) :: p0 := by
  intro is
  induction is with
  | nil => intro b p; simp [fsDenoteItems]
  | cons x xs ih =>
    intro b p
    simp only [fsDenoteItems, List.mem_append, List.mem_map, ih]
    constructor
    · rintro (⟨p0, hp0, e⟩ | ⟨i, e, p0, h1, h2, h3⟩)
      · exact ⟨0, x, p0, by simp, hp0, by simp [← e]⟩
      · exact ⟨i + 1, e, p0, by simpa using h1, h2, by rw [h3]; congr 2; omega⟩
    · rintro ⟨i, e, p0, h1, h2, h3⟩
      cases i with
      | zero => simp at h1; subst h1; exact Or.inl ⟨p0, h2, by simp [h3]⟩
      | succ i => exact Or.inr ⟨i, e, p0, by simpa using h1, h2, by rw [h3]; congr 2; omega⟩

/-- **the field-spec filter acts exactly at the nodes the path denotes.** Without creation, for every plain path,
    every document and every setter: when the filter succeeds, (A) at each denoted position the new node is what the
    setter made of the old one, and (B) every position that is neither on the way to a denoted position nor below one
    holds the node it held before. -/
theorem filter_denotes (ns : String → Bool) (set : Node → Out Node) (cr : Create) :
    ∀ (fuel : Nat) (path : List String) (obj obj' : Node), (∀ seg ∈ path, Plain seg) →
      filter ns set false cr fuel path obj = .ok obj' →
      (∀ p ∈ fsDenote fuel path obj, ∃ t t', getAt p obj = some t ∧ set t = .ok t' ∧ getAt p obj' = some t') ∧
      (∀ q, (∀ p ∈ fsDenote fuel path obj, ¬ p <+: q ∧ ¬ q <+: p) → getAt q obj' = getAt q obj) := by
  intro fuel
  induction fuel with
  | zero => intro path obj obj' _ h; simp [filter] at h
  | succ f ih =>
    intro path obj obj' hp h
    cases path with
    | nil =>
      simp only [filter] at h
      refine ⟨fun p hpm => ?_, fun q hq => ?_⟩
      · simp [fsDenote] at hpm; subst hpm; exact ⟨obj, obj', rfl, h, rfl⟩
      · have := hq [] (by simp [fsDenote]); exact absurd List.nil_prefix this.1
    | cons seg rest =>
      have hseg : Plain seg := hp seg (by simp)
      have hrest : ∀ s ∈ rest, Plain s := fun s hs => hp s (by simp [hs])
      unfold filter at h
      split at h
      · rename_i hnull
        simp at h; subst h
        exact ⟨fun p hpm => by simp [fsDenote, hnull] at hpm, fun _ _ => rfl⟩
      · rename_i hnull
        cases obj with
        | scalar t v s => simp at h
        | seq s is =>
          simp only at h
          split at h
          · rename_i is' his
            simp at h; subst h
            obtain ⟨hlen, hitems⟩ := filterItems_spec _ is is' his
            have hD : fsDenote (f + 1) (seg :: rest) (.seq s is) = fsDenoteItems (fsDenote f (seg :: rest)) 0 is := by
              simp [fsDenote, Node.isNull]
            rw [hD]
            refine ⟨fun p hpm => ?_, fun q hq => ?_⟩
            · obtain ⟨i, e, p0, h1, h2, h3⟩ := (mem_fsDenoteItems _ is 0 p).1 hpm
              simp at h3; subst h3
              obtain ⟨e', he', hrec⟩ := hitems i e h1
              obtain ⟨t, t', a1, a2, a3⟩ := (ih (seg :: rest) e e' hp hrec).1 p0 h2
              exact ⟨t, t', by simp [getAt, h1, a1], a2, by simp [getAt, he', a3]⟩
            · cases q with
              | nil =>
                -- nothing is denoted, so every element is unchanged
                have hempty : ∀ (i : Nat) e, is[i]? = some e → fsDenote f (seg :: rest) e = [] := by
                  intro i e hie
                  cases hd : fsDenote f (seg :: rest) e with
                  | nil => rfl
                  | cons p0 ps =>
                    have : Step.idx i :: p0 ∈ fsDenoteItems (fsDenote f (seg :: rest)) 0 is :=
                      (mem_fsDenoteItems _ is 0 _).2 ⟨i, e, p0, hie, by rw [hd]; simp, by simp⟩
                    exact absurd List.nil_prefix (hq _ this).2
                have : is' = is := by
                  apply List.ext_getElem? 
                  intro i
                  cases hie : is[i]? with
                  | none =>
                    have : is.length ≤ i := by
                      rcases Nat.lt_or_ge i is.length with hl | hl
                      · rw [List.getElem?_eq_getElem hl] at hie; cases hie
                      · exact hl
                    rw [List.getElem?_eq_none (by omega)]
                  | some e =>
                    obtain ⟨e', he', hrec⟩ := hitems i e hie
                    have hB := (ih (seg :: rest) e e' hp hrec).2 [] (by rw [hempty i e hie]; simp)
                    simp [getAt] at hB
                    rw [he', hB]
                simp [getAt, this]
              | cons b q0 =>
                cases b with
                | key k => simp [getAt]
                | idx j =>
                  simp only [getAt]
                  cases hje : is[j]? with
                  | none =>
                    have : is.length ≤ j := by
                      rcases Nat.lt_or_ge j is.length with hl | hl
                      · rw [List.getElem?_eq_getElem hl] at hje; cases hje
                      · exact hl
                    rw [List.getElem?_eq_none (by omega)]
                  | some e =>
                    obtain ⟨e', he', hrec⟩ := hitems j e hje
                    rw [he']
                    simp only [Option.bind_some]
                    apply (ih (seg :: rest) e e' hp hrec).2 q0
                    intro p0 hp0
                    have hm : Step.idx j :: p0 ∈ fsDenoteItems (fsDenote f (seg :: rest)) 0 is :=
                      (mem_fsDenoteItems _ is 0 _).2 ⟨j, e, p0, hje, hp0, by simp⟩
                    have := hq _ hm
                    exact ⟨fun hh => this.1 (by simpa using hh), fun hh => this.2 (by simpa using hh)⟩
          · simp at h
          · simp at h
        | map s fs =>
          simp only [hseg.1, hseg.2.2.2, if_false, Bool.not_false, Bool.true_or, if_true] at h
          rw [pathGet_plain ns seg hseg s fs] at h
          have hD : fsDenote (f + 1) (seg :: rest) (.map s fs) =
              (match fieldGet seg fs with | some x => (fsDenote f rest x).map (Step.key seg :: ·) | none => []) := by
            simp [fsDenote, Node.isNull]
          rw [hD]
          cases hg : fieldGet seg fs with
          | none =>
            simp [hg] at h; subst h
            exact ⟨fun p hpm => by simp at hpm, fun _ _ => rfl⟩
          | some x =>
            simp only [hg] at h
            simp only [Bool.false_eq_true, if_false] at h
            have hre : retype 0 "" x = x := by simp [retype]
            rw [hre] at h
            split at h
            · simp at h
            · simp at h
            · rename_i x' hx
              have htr : trimSpace seg = seg := by
                have := hseg.2.1
                unfold cleanPath at this
                simp only [List.map_cons, List.map_nil, List.filter] at this
                split at this
                · simpa using this
                · simp at this
              rw [htr, hseg.2.2.1] at h
              simp at h
              rw [fieldReplace_replace] at h
              subst h
              obtain ⟨ihA, ihB⟩ := ih rest x x' hrest hx
              simp only
              refine ⟨fun p hpm => ?_, fun q hq => ?_⟩
              · simp at hpm
                obtain ⟨p0, hp0, e⟩ := hpm
                subst e
                obtain ⟨t, t', a1, a2, a3⟩ := ihA p0 hp0
                exact ⟨t, t', by simp [getAt, hg, a1], a2, by simp [getAt, fieldGet_replace_same seg x' fs x hg, a3]⟩
              · cases q with
                | nil =>
                  have hempty : fsDenote f rest x = [] := by
                    cases hd : fsDenote f rest x with
                    | nil => rfl
                    | cons p0 ps =>
                      have := hq (Step.key seg :: p0) (by simp [hd])
                      exact absurd List.nil_prefix this.2
                  have hB := ihB [] (by rw [hempty]; simp)
                  simp [getAt] at hB
                  subst hB
                  simp [getAt, fieldReplace_self seg fs x' hg]
                | cons b q0 =>
                  cases b with
                  | idx j => simp [getAt]
                  | key k =>
                    by_cases hk : k = seg
                    · subst hk
                      simp only [getAt, fieldGet_replace_same k x' fs x hg, hg, Option.bind_some]
                      apply ihB q0
                      intro p0 hp0
                      have := hq (Step.key k :: p0) (by simp [hp0])
                      exact ⟨fun hh => this.1 (by simpa using hh), fun hh => this.2 (by simpa using hh)⟩
                    · simp only [getAt, fieldGet_replace_other seg k x' fs hk]

/-- the premises are satisfiable and the fan-out is real: `spec/containers/image` reaches every container -/
example :
    fsDenote 5 ["spec", "containers", "image"]
      (.map 0 [("spec", .map 0 [("containers", .seq 0 [
        .map 0 [("name", .scalar "!!str" "a" 0), ("image", .scalar "!!str" "x" 0)],
        .scalar "!!null" "null" 0,
        .map 0 [("image", .scalar "!!str" "y" 0)]])])])
      = [[.key "spec", .key "containers", .idx 0, .key "image"], [.key "spec", .key "containers", .idx 2, .key "image"]] := by
  decide

end Kust.C14
