/-
  C03 (second part) — which referent a name reference follows.
  * `unique_candidate_followed`: when exactly one resource has borne the written name (and is of the rule's kind,
    passes the roleRef kind check and shares the referrer's namespace), the reference is rewritten to THAT resource's
    current name — whatever prefixes and suffixes referrer and referent have accumulated (sibling layers with their own
    prefixes included).  This is the clause the seeded change C03-selectReferral-single-candidate broke.
  * `picked_is_a_candidate`, `picked_bore_the_name`: whatever is picked passed the sieves: it bore the written name
    and has the rule's kind.
  * `no_candidate_untouched`: without a candidate the field keeps its value.
-/
import Kust.Nameref
namespace Kust.C03
open Kust Res Nameref

theorem unique_candidate_followed (cs : Gvk → Bool) (ref : C) (target : Gvk) (roleRef : Option Gvk) (oldName : String)
    (cands : List C) (x : C) (h : cands.filter (base cs ref target roleRef oldName) = [x]) :
    newName cs ref target roleRef oldName cands = .ok x.cur.name := by
  simp [newName, selectReferral, h]

theorem no_candidate_untouched (cs : Gvk → Bool) (ref : C) (target : Gvk) (roleRef : Option Gvk) (oldName : String)
    (cands : List C) (h : cands.filter (base cs ref target roleRef oldName) = []) :
    newName cs ref target roleRef oldName cands = .ok oldName := by
  simp [newName, selectReferral, h]

theorem picked_is_a_candidate (cs : Gvk → Bool) (ref : C) (target : Gvk) (roleRef : Option Gvk) (oldName : String)
    (cands : List C) (x : C) (h : selectReferral cs ref target roleRef oldName cands = .one x) :
    x ∈ cands ∧ base cs ref target roleRef oldName x = true := by
  unfold selectReferral at h
  simp only at h
  have key : ∀ y, y ∈ cands.filter (base cs ref target roleRef oldName) →
      y ∈ cands ∧ base cs ref target roleRef oldName y = true := by
    intro y hy; exact List.mem_filter.mp hy
  generalize hc1 : cands.filter (base cs ref target roleRef oldName) = c1 at h key
  split at h
  · rename_i y
    simp only [Pick.one.injEq] at h; subst h
    exact key _ (by simp)
  · generalize hc3 : (if (c1.filter fun r => prefSufEq r ref true).length > 1 then
        (c1.filter fun r => prefSufEq r ref true).filter (fun r => prefSufEq r ref false)
      else c1.filter fun r => prefSufEq r ref true) = c3 at h
    have hsub : ∀ y ∈ c3, y ∈ c1 := by
      intro y hy
      rw [← hc3] at hy
      split at hy
      · exact (List.mem_filter.mp (List.mem_filter.mp hy).1).1
      · exact (List.mem_filter.mp hy).1
    split at h
    · simp at h
    · rename_i y
      simp only [Pick.one.injEq] at h; subst h
      exact key _ (hsub _ (by simp))
    · rename_i y rest
      split at h
      · simp only [Pick.one.injEq] at h; subst h
        exact key _ (hsub _ (by simp))
      · simp at h

theorem picked_bore_the_name (cs : Gvk → Bool) (ref : C) (target : Gvk) (roleRef : Option Gvk) (oldName : String)
    (cands : List C) (x : C) (h : selectReferral cs ref target roleRef oldName cands = .one x) :
    (∃ id ∈ x.prev, id.name = oldName) ∧ (∃ id ∈ x.prev, gvkSelected id.gvk target = true) := by
  have hb := (picked_is_a_candidate cs ref target roleRef oldName cands x h).2
  unfold base at hb
  simp only [Bool.and_eq_true, List.any_eq_true, decide_eq_true_eq] at hb
  exact ⟨hb.1.1.1, hb.1.1.2⟩

/-- sibling layers: referrer under prefix `app-`, referent under prefix `cfg-` — the only resource that was ever
    called `settings` is followed although the prefix lists differ (kernel-evaluated; the seeded change returned the
    stale name here) -/
example :
    let cm : C := { cur := ⟨⟨"", "v1", "ConfigMap"⟩, "cfg-settings", ""⟩, prev := [⟨⟨"", "v1", "ConfigMap"⟩, "settings", "default"⟩],
                    prefixes := ["cfg-"] }
    let dep : C := { cur := ⟨⟨"apps", "v1", "Deployment"⟩, "app-web", ""⟩, prefixes := ["app-"] }
    newName (fun _ => false) dep ⟨"", "v1", "ConfigMap"⟩ none "settings" [cm, dep] = .ok "cfg-settings" := by decide

end Kust.C03
