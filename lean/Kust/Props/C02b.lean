/-
  C02 (variable clause) — text that uses no variable syntax passes through the variable expansion unchanged; with no
  variable declared (every reference maps to itself) the ONLY thing the expansion would do to a string is to
  un-escape `$$` — which is why `ResolveVars` must not run at all when there are no vars (it does not: the
  correspondence `refvar.expand` ties the model to `refvar.DoReplacements`, and the whole-build oracle feeds
  variable-looking text through builds without `vars`).
-/
import Kust.RefVar
namespace Kust.C02
open Kust Kust.RefVar

theorem expandL_cons_other (mapping : String → String) (n : Nat) (c : Char) (rest : List Char) (hc : c ≠ '$') :
    expandL mapping (n + 1) (c :: rest) = c :: expandL mapping n rest := by
  conv => lhs; unfold expandL
  split
  all_goals (try (exact absurd rfl hc))
  all_goals (try (rename_i heq; simp at heq; done))
  all_goals (try (rename_i heq; simp at heq; exact absurd heq.1 hc))
  rename_i h1 h2
  injection h1 with h1; subst h1
  injection h2 with e1 e2; subst e1; subst e2
  rfl

/-- a string without `$` is left exactly as it is, whatever the mapping -/
theorem expand_no_dollar (mapping : String → String) : ∀ (n : Nat) (cs : List Char), '$' ∉ cs → expandL mapping n cs = cs := by
  intro n
  induction n with
  | zero => intro cs _; rfl
  | succ n ih =>
    intro cs h
    cases cs with
    | nil => rfl
    | cons c rest =>
      have hc : c ≠ '$' := fun e => h (by simp [e])
      have hr : '$' ∉ rest := fun e => h (by simp [e])
      rw [expandL_cons_other mapping n c rest hc, ih _ hr]

theorem text_without_dollar_untouched (mapping : String → String) (s : String) (h : '$' ∉ s.toList) :
    doReplacements mapping s = .text s := by
  unfold doReplacements doReplL
  split
  · rename_i heq; rw [heq] at h; simp at h
  · rw [expand_no_dollar mapping _ _ h]; simp

/-- the premises are satisfiable; and what the expansion does otherwise -/
example :
    let m : String → String := fun k => if k = "POD" then "web-0" else "$(" ++ k ++ ")"
    doReplacements m "name=$(POD);cost=$$5;$(OTHER);$x" = .text "name=web-0;cost=$5;$(OTHER);$x" ∧
    doReplacements m "$(POD)" = .whole "POD" ∧
    doReplacements m "plain text" = .text "plain text" ∧
    doReplacements m "$$(POD)" = .text "$(POD)" := by decide

end Kust.C02
