/-
  C08 — labels reach metadata, selectors and templates consistently.
  (a) decide over the REGENERATED tables: for every workload kind a selector location in `commonLabels` comes with
      the pod-template location of the same kind (created if absent) — so whatever is added to a selector is added
      to the template; a `labels` entry without `includeSelectors` gets a field-spec list with no selector path.
  (b) label maps: the label filter is dictionary override (`GenMap.over`, the model of mergeStringMaps / SetEntry per
      key); adding the same labels on both sides preserves "selector ⊆ pod labels", hence who-selects-whom.
-/
import Kust.GenMap
import Kust.Str
import Kust.Props.C06
import Kust.Gen.FieldSpecs
namespace Kust.C08
open Kust GenMap Gen

def isSelectorPath (p : String) : Bool :=
  (Str.splitChar '/' p).any fun s => s = "selector" || s = "matchLabels" || s = "podSelector" || s = "labelSelector"

/-- `LabelTransformer` configurator: the field specs used for one `labels` entry (default transformer config) -/
def labelFieldSpecs (includeSelectors includeTemplates : Bool) : List FieldSpec :=
  if includeSelectors then commonLabelsSpecs
  else (if includeTemplates then templateLabelsSpecs else []) ++ [⟨"", "", "", "metadata/labels", true⟩]

/-- **no_selectors_without_flag** -/
theorem no_selectors_without_flag (t : Bool) :
    (labelFieldSpecs false t).all (fun f => !isSelectorPath f.path) = true := by
  cases t <;> decide +kernel

def hasSpec (specs : List FieldSpec) (kind path : String) (create : Bool) : Bool :=
  specs.any fun f => f.kind == kind && f.path == path && f.create == create

/-- **tables_pair_up**: each workload kind's selector location is listed together with its pod-template label
    location, and the template location is created when absent. -/
theorem tables_pair_up :
    ([("Deployment", "spec/selector/matchLabels", "spec/template/metadata/labels"),
      ("ReplicaSet", "spec/selector/matchLabels", "spec/template/metadata/labels"),
      ("DaemonSet", "spec/selector/matchLabels", "spec/template/metadata/labels"),
      ("StatefulSet", "spec/selector/matchLabels", "spec/template/metadata/labels"),
      ("ReplicationController", "spec/selector", "spec/template/metadata/labels"),
      ("Job", "spec/selector/matchLabels", "spec/template/metadata/labels"),
      ("CronJob", "spec/jobTemplate/spec/selector/matchLabels", "spec/jobTemplate/spec/template/metadata/labels")]
      : List (String × String × String)).all
      (fun e => commonLabelsSpecs.any (fun f => f.kind == e.1 && f.path == e.2.1) &&
                hasSpec commonLabelsSpecs e.1 e.2.2 true) = true := by decide +kernel

/-- metadata labels are always written, for every kind -/
theorem metadata_labels_everywhere :
    hasSpec commonLabelsSpecs "" "metadata/labels" true = true ∧
    hasSpec templateLabelsSpecs "" "metadata/labels" true = true := by decide +kernel

/-- selecting objects keep their selector locations in the table (Service, NetworkPolicy, PodDisruptionBudget) -/
theorem selecting_kinds_present :
    commonLabelsSpecs.any (fun f => f.kind == "Service" && f.path == "spec/selector") = true ∧
    commonLabelsSpecs.any (fun f => f.kind == "NetworkPolicy" && f.path == "spec/podSelector/matchLabels") = true ∧
    commonLabelsSpecs.any (fun f => f.kind == "PodDisruptionBudget" && f.path == "spec/selector/matchLabels") = true := by
  decide +kernel

/-! ### label maps -/

/-- `sel` selects `labels`: every selector entry is present with the same value -/
def Selects (sel labels : Dict) : Prop := ∀ k v, dget k sel = some v → dget k labels = some v

/-- **labels_added_together / selection_preserved**: adding the same label set `L` to a selector and to the
    labels it selected keeps the selection — for selectors and templates of one workload, and for a Service and
    the workload it selected, under the same label directives. -/
theorem selection_preserved (sel labels L : Dict) (h : Selects sel labels) :
    Selects (over sel L) (over labels L) := by
  intro k v hk
  rw [C06.over_get] at hk ⊢
  cases hL : dget k L with
  | some x => simpa [hL] using hk
  | none =>
    simp [hL] at hk ⊢
    exact h k v hk

/-- every added label is present afterwards with the directive's value -/
theorem labels_present (m L : Dict) (k v : String) (h : dget k L = some v) : dget k (over m L) = some v := by
  rw [C06.over_get]; simp [h]

/-- labels the directive does not mention are untouched -/
theorem labels_frame (m L : Dict) (k : String) (h : dget k L = none) : dget k (over m L) = dget k m := by
  rw [C06.over_get]; simp [h]

/-- several layers: the union of the directives, outer layers overriding inner ones, still preserves selection -/
theorem selection_preserved_layers (sel labels : Dict) (Ls : List Dict) (h : Selects sel labels) :
    Selects (Ls.foldl over sel) (Ls.foldl over labels) := by
  induction Ls generalizing sel labels with
  | nil => exact h
  | cons L r ih => exact ih _ _ (selection_preserved sel labels L h)

end Kust.C08
