/-
  C04 — strategic-merge patches follow the Kubernetes merge rules.
  Model: `Walk.walk` + `Walk.merger` (walker, merge2.Merger, `$patch` detection and elision, ElementSetter,
  FieldSetter), tied to kyaml by component walk.merge2 (0 disagreements on the generated stream, aliasing quirks
  included).  Proved here, for ALL inputs: what each merge decision does (the rules of the property, clause by
  clause) and the behaviour of directive detection/elision.  The composition over a whole document — equality
  with the Kubernetes reference, idempotence, frame — is decided by the oracle against
  k8s.io/apimachinery strategicpatch on the real code; kernel-evaluated instances are given as examples.
-/
import Kust.Walk
import Kust.Lemmas.Fields
namespace Kust.C04
open Kust Node Walk Fns

/-! ### directive detection and elision -/

/-- a map without `$patch` is a plain merge and is not edited -/
theorem directive_absent (s : Nat) (fs : Fields) (h : fieldGet "$patch" fs = none) :
    smpDirective (some (.map s fs)) = .ok (.merge, some (.map s fs)) := by
  simp [smpDirective, h]

/-- `$patch: delete|replace|merge` on a map is recognised and elided: the first `$patch` field disappears,
    every other field keeps its value (`fieldGet_erase_other`) -/
theorem directive_map (s : Nat) (fs : Fields) (v : Node) (h : fieldGet "$patch" fs = some v) (hn : v.isNull = false) :
    (v.valueText = "delete" → smpDirective (some (.map s fs)) = .ok (.delete, some (.map s (fieldErase "$patch" fs)))) ∧
    (v.valueText = "replace" → smpDirective (some (.map s fs)) = .ok (.replace, some (.map s (fieldErase "$patch" fs)))) ∧
    (v.valueText = "merge" → smpDirective (some (.map s fs)) = .ok (.merge, some (.map s (fieldErase "$patch" fs)))) := by
  refine ⟨fun hv => ?_, fun hv => ?_, fun hv => ?_⟩ <;> simp [smpDirective, h, hn, hv]

/-- an unknown directive value is an error, never a silent merge -/
theorem directive_unknown (s : Nat) (fs : Fields) (v : Node) (h : fieldGet "$patch" fs = some v) (hn : v.isNull = false)
    (h1 : v.valueText ≠ "delete") (h2 : v.valueText ≠ "replace") (h3 : v.valueText ≠ "merge") :
    smpDirective (some (.map s fs)) = .err "directive" := by
  simp [smpDirective, h, hn, h1, h2, h3]

theorem elision_keeps_other_fields (fs : Fields) (k : String) (hk : k ≠ "$patch") :
    fieldGet k (fieldErase "$patch" fs) = fieldGet k fs := fieldGet_erase_other "$patch" k fs hk

/-! ### the merge decisions (one clause of the property each) -/

def res (r : Out VRes) : Out (Option Node) := r.bind fun x => .ok x.node

/-- scalars: the patch's value replaces the target's -/
theorem scalar_patch_wins (same : Bool) (d : Option Node) (p : Node) :
    res (merger.visitScalar same [d, some p]) = .ok (some p) := by
  simp [res, merger, src1, Out.bind]

/-- scalars: a field the patch does not mention keeps its value -/
theorem scalar_unmentioned_kept (same : Bool) (d : Option Node) :
    res (merger.visitScalar same [d, none]) = .ok d := by
  simp [res, merger, src1, dst, Out.bind]

/-- lists without merge key (and lists of kinds without schema): replaced by the patch's list -/
theorem atomic_list_replaced (same : Bool) (d : Option Node) (p : Node) :
    res (merger.visitList same [d, some p] false) = .ok (some p) := by
  simp [res, merger, src1, Out.bind]

theorem atomic_list_unmentioned_kept (same : Bool) (d : Node) :
    res (merger.visitList same [some d, none] false) = .ok (some d) := by
  simp [res, merger, src1, dst, setStyle, Out.bind]

theorem setStyle_isMissingOrNull (d p : Node) :
    isMissingOrNull (setStyle (some d) (some p)) = isMissingOrNull (some d) := by
  cases d with
  | scalar t v s => rfl
  | map s fs => simp only [setStyle]; split <;> rfl
  | seq s is => simp only [setStyle]; split <;> rfl

/-- maps: a `null` in the patch removes the target's map -/
theorem map_null_clears (same : Bool) (d p : Node) (hd : d.isNull = false) (hp : p.isNull = true) :
    res (merger.visitMap same [some d, some p]) = .ok none := by
  have : isMissingOrNull (setStyle (some d) (some p)) = false := by
    rw [setStyle_isMissingOrNull]; exact hd
  simp [res, merger, src1, dst, this, hp, Out.bind]

/-- keyed lists: a `null` in the patch removes the list -/
theorem keyed_list_null_clears (same : Bool) (d p : Node) (hd : d.isNull = false) (hp : p.isNull = true) :
    res (merger.visitList same [some d, some p] true) = .ok none := by
  have : isMissingOrNull (setStyle (some d) (some p)) = false := by
    rw [setStyle_isMissingOrNull]; exact hd
  simp [res, merger, src1, dst, this, hp, Out.bind]

/-- maps: content the target lacks is added from the patch (directives inside it elided) -/
theorem map_added (same : Bool) (s : Nat) (fs : Fields) (h : fieldGet "$patch" fs = none) :
    res (merger.visitMap same [none, some (.map s fs)]) = .ok (some (.map s fs)) := by
  simp [res, merger, src1, dst, setStyle, isMissingOrNull, smpDirective, h, withOrigin, Out.bind]

/-! ### kernel-evaluated instances of the composed behaviour -/

def o0 : Opts := { infer := false, prepend := true, ns := fun _ => false }
/-- a schema with one keyed list (`containers`, key `name`), one primitive merge list, everything else atomic -/
def sch0 : Schema := fun p =>
  if p = ["spec", "containers"] then some ⟨"merge", ["name"]⟩
  else if p = ["metadata", "finalizers"] then some ⟨"merge", []⟩
  else none

def tgt : Node := .map 0 [
  ("metadata", .map 0 [("finalizers", .seq 0 [.scalar "!!str" "f1" 0])]),
  ("spec", .map 0 [("containers", .seq 0 [
      .map 0 [("name", .scalar "!!str" "a" 0), ("image", .scalar "!!str" "x" 0)],
      .map 0 [("name", .scalar "!!str" "b" 0), ("image", .scalar "!!str" "y" 0)]]),
    ("args", .seq 0 [.scalar "!!str" "1" 2]),
    ("keep", .scalar "!!str" "me" 0)])]

def pat : Node := .map 0 [
  ("spec", .map 0 [("containers", .seq 0 [
      .map 0 [("name", .scalar "!!str" "b" 0), ("image", .scalar "!!str" "z" 0)],
      .map 0 [("name", .scalar "!!str" "a" 0), ("$patch", .scalar "!!str" "delete" 0)]]),
    ("args", .seq 0 [.scalar "!!str" "only" 0])])]

def m2 (p t : Node) : Out (Option Node) := merge2 o0 ["name"] sch0 64 (some p) (some t)

/-- merge by key, element delete, atomic list replace, untouched field kept — as the rules say -/
example : m2 pat tgt = .ok (some (.map 0 [
    ("metadata", .map 0 [("finalizers", .seq 0 [.scalar "" "f1" 0])]),
    ("spec", .map 0 [("containers", .seq 0 [.map 0 [("name", .scalar "!!str" "b" 0), ("image", .scalar "!!str" "z" 0)]]),
      ("args", .seq 0 [.scalar "!!str" "only" 0]),
      ("keep", .scalar "!!str" "me" 0)])])) := by decide

/-- idempotence on this instance: applying the patch to its own result changes nothing -/
example : (match m2 pat tgt with | .ok (some r) => m2 pat r | o => o) = m2 pat tgt := by decide

/-- finding C04-K1 in the model: an int patched over a quoted string keeps the quotes (style 2 = double-quoted),
    so the emitted scalar is a string -/
theorem Witness.patched_scalar_keeps_quoting :
    m2 (.map 0 [("free", .scalar "!!int" "1" 0)]) (.map 0 [("free", .scalar "!!str" "1" 2)])
      = .ok (some (.map 0 [("free", .scalar "!!int" "1" 2)])) := by decide

end Kust.C04
