/-
  C06 — generators layer like dictionaries and name their output by its final content.
-/
import Kust.GenMap
import Kust.Gen.Lists
namespace Kust.C06
open Kust GenMap

/-! ### dictionary algebra -/

theorem dget_map_getD (k : String) (old new : Dict) :
    dget k (old.map fun (k', v) => (k', (dget k' new).getD v)) = (dget k old).map (fun v => (dget k new).getD v) := by
  induction old with
  | nil => rfl
  | cons a r ih =>
    obtain ⟨k', v⟩ := a
    by_cases h : k' = k
    · subst h; simp [dget]
    · simp [dget, h, ih]

theorem dget_append (k : String) (a b : Dict) : dget k (a ++ b) = (dget k a).orElse (fun _ => dget k b) := by
  induction a with
  | nil => simp [dget]
  | cons x r ih =>
    obtain ⟨k', v⟩ := x
    by_cases h : k' = k
    · simp [dget, h]
    · simp [dget, h, ih]

theorem dget_filter_absent (k : String) (old new : Dict) :
    dget k (new.filter (fun (k', _) => (dget k' old).isNone)) = if (dget k old).isNone then dget k new else none := by
  induction new with
  | nil => simp [dget]
  | cons x r ih =>
    obtain ⟨k', v⟩ := x
    by_cases hk : k' = k
    · subst hk
      by_cases ho : (dget k' old).isNone
      · simp [List.filter, ho, dget]
      · simp [List.filter, ho, ih]
    · by_cases ho : (dget k' old).isNone
      · simp [List.filter, ho, dget, hk, ih]
      · simp [List.filter, ho, dget, hk, ih]

/-- **merge = dictionary override, the overlay wins**: every key reads the overlay's value if the overlay has
    it, else the base's. -/
theorem over_get (old new : Dict) (k : String) :
    dget k (over old new) = (dget k new).orElse (fun _ => dget k old) := by
  unfold over
  rw [dget_append, dget_map_getD, dget_filter_absent]
  cases ho : dget k old <;> cases hn : dget k new <;> simp

/-- merging twice = merging the merged overlays (layers fold associatively) -/
theorem over_assoc (a b c : Dict) (k : String) :
    dget k (over (over a b) c) = dget k (over a (over b c)) := by
  simp only [over_get]
  cases dget k a <;> cases dget k b <;> cases dget k c <;> simp

/-- **absorb, clause by clause** -/
theorem create_on_absent (b : Behavior) (g : GObj) (h : b = .create ∨ b = .unspecified) : absorb none b g = .ok g := by
  rcases h with h | h <;> subst h <;> rfl
theorem merge_on_absent_fails (g : GObj) : absorb none .merge g = .err "absent" := rfl
theorem replace_on_absent_fails (g : GObj) : absorb none .replace g = .err "absent" := rfl
theorem create_on_present_fails (old g : GObj) (b : Behavior) (h : b = .create ∨ b = .unspecified) :
    absorb (some old) b g = .err "exists" := by
  rcases h with h | h <;> subst h <;> rfl
theorem merge_on_present (old g : GObj) (k : String) :
    ∃ r, absorb (some old) .merge g = .ok r ∧ dget k r.data = (dget k g.data).orElse (fun _ => dget k old.data) :=
  ⟨_, rfl, over_get _ _ k⟩
theorem replace_on_present (old g : GObj) : ∃ r, absorb (some old) .replace g = .ok r ∧ r.data = g.data := ⟨_, rfl, rfl⟩

/-- binaryData layers exactly like data: the overlay's entry wins, the base's other entries are kept -/
theorem merge_on_present_bin (old g : GObj) (k : String) :
    ∃ r, absorb (some old) .merge g = .ok r ∧ dget k r.bin = (dget k g.bin).orElse (fun _ => dget k old.bin) :=
  ⟨_, rfl, over_get _ _ k⟩
theorem replace_on_present_bin (old g : GObj) : ∃ r, absorb (some old) .replace g = .ok r ∧ r.bin = g.bin := ⟨_, rfl, rfl⟩

/-- the dictionary a chain of layers defines: fold of overrides (`replace` forgets what was there) -/
def foldSpec : Dict → List (Behavior × GObj) → Dict
  | d, [] => d
  | d, (.replace, g) :: r => foldSpec g.data r
  | d, (_, g) :: r => foldSpec (over d g.data) r

/-- **layer_fold**: for a base object and any chain of merge/replace layers the final data is the fold of
    dictionary overrides (any length). -/
theorem layer_fold (base : GObj) (ops : List (Behavior × GObj))
    (hops : ∀ o ∈ ops, o.1 = .merge ∨ o.1 = .replace) :
    ∃ r, absorbAll (some base) ops = .ok (some r) ∧ r.data = foldSpec base.data ops := by
  induction ops generalizing base with
  | nil => exact ⟨base, rfl, rfl⟩
  | cons o r ih =>
    obtain ⟨b, g⟩ := o
    have hb := hops (b, g) (by simp)
    have hr : ∀ o ∈ r, o.1 = .merge ∨ o.1 = .replace := fun o ho => hops o (by simp [ho])
    rcases hb with hb | hb <;> simp only at hb <;> subst hb
    · obtain ⟨x, h1, h2⟩ := ih { data := over base.data g.data, needsHash := base.needsHash && g.needsHash, bin := over base.bin g.bin } hr
      exact ⟨x, by simpa [absorbAll, absorb] using h1, by simpa [foldSpec] using h2⟩
    · obtain ⟨x, h1, h2⟩ := ih { data := g.data, needsHash := base.needsHash && g.needsHash, bin := g.bin } hr
      exact ⟨x, by simpa [absorbAll, absorb] using h1, by simpa [foldSpec] using h2⟩

/-- duplicate keys inside one generator are rejected -/
example : dataOfLiterals ["a=1", "b=2", "a=3"] [] = .err "dupkey" := by decide
example : dataOfLiterals ["a=v=w", "b=\"q\""] [] = .ok [("a", "v=w"), ("b", "q")] := by decide

/-! ### the suffix is a function of the content only -/

/-- the content record the hash looks at -/
structure Content where
  kind : String
  data : Option Dict
  type : String
  deriving DecidableEq

/-- everything else on the object -/
structure Envelope where
  name : String
  ns : String
  labels : Dict
  annotations : Dict

def hashInput (c : Content) : String :=
  if c.kind = "Secret" then encodeSecret c.data c.type else encodeConfigMap c.data

/-- `Hasher.Hash` with the digest function as a parameter -/
def suffix (sha : String → String) (c : Content) (_e : Envelope) : Out String :=
  encodeDigits Gen.hashSubst (sha (hashInput c))

/-- **hash_input_local**: name, namespace, labels and annotations do not enter the suffix -/
theorem suffix_ignores_envelope (sha : String → String) (c : Content) (e e' : Envelope) :
    suffix sha c e = suffix sha c e' := rfl

/-- equal content ⇒ equal suffix (for any digest function) -/
theorem equal_content_equal_suffix (sha : String → String) (c c' : Content) (e e' : Envelope) (h : c = c') :
    suffix sha c e = suffix sha c' e' := by subst h; rfl

/-- the regenerated substitution maps the sixteen hex digits injectively (no two digests collapse after it) and
    never produces a vowel or an ambiguous digit -/
theorem subst_injective_on_hex :
    let sub := fun (c : Char) => ((Gen.hashSubst.find? (·.1 = c)).map (·.2)).getD c
    "0123456789abcdef".toList.all (fun a => "0123456789abcdef".toList.all (fun b => sub a != sub b || a == b)) = true := by
  decide

theorem subst_expected : Gen.hashSubst = [('0', 'g'), ('1', 'h'), ('3', 'k'), ('a', 'm'), ('e', 't')] := by decide

/-! ### more dictionary laws of layering (all lengths, all dictionaries) -/

/-- merging a dictionary over itself changes no key's value -/
theorem over_idem_get (a : Dict) (k : String) : dget k (over a a) = dget k a := by
  rw [over_get]; cases dget k a <;> simp

/-- an empty overlay is the identity (as a list, not only key by key) -/
theorem over_nil_right (m : Dict) : over m [] = m := by
  unfold over
  simp only [List.filter_nil, List.append_nil]
  induction m with
  | nil => rfl
  | cons kv r ih => obtain ⟨k, v⟩ := kv; simp [dget, ih]

theorem foldSpec_append (d : Dict) (xs ys : List (Behavior × GObj)) :
    foldSpec d (xs ++ ys) = foldSpec (foldSpec d xs) ys := by
  induction xs generalizing d with
  | nil => rfl
  | cons o r ih =>
    obtain ⟨b, g⟩ := o
    cases b <;> simp [foldSpec, ih]

/-- **last merge layer wins**: after any chain of layers, a further `merge` layer decides every key it has and
    leaves the others at what the chain produced -/
theorem foldSpec_snoc_merge (d : Dict) (ops : List (Behavior × GObj)) (g : GObj) (k : String) :
    dget k (foldSpec d (ops ++ [(.merge, g)])) = (dget k g.data).orElse (fun _ => dget k (foldSpec d ops)) := by
  rw [foldSpec_append]; simp [foldSpec, over_get]

/-- **replace forgets**: after any chain of layers, a `replace` layer leaves exactly its own data -/
theorem foldSpec_snoc_replace (d : Dict) (ops : List (Behavior × GObj)) (g : GObj) :
    foldSpec d (ops ++ [(.replace, g)]) = g.data := by
  rw [foldSpec_append]; simp [foldSpec]

/-- a key no layer mentions keeps the base's value through any chain of merge layers -/
theorem foldSpec_frame (d : Dict) (ops : List (Behavior × GObj)) (k : String)
    (hm : ∀ o ∈ ops, o.1 = .merge) (hk : ∀ o ∈ ops, dget k o.2.data = none) :
    dget k (foldSpec d ops) = dget k d := by
  induction ops generalizing d with
  | nil => rfl
  | cons o r ih =>
    obtain ⟨b, g⟩ := o
    have hb : b = .merge := hm (b, g) List.mem_cons_self
    subst hb
    have hg : dget k g.data = none := hk (.merge, g) List.mem_cons_self
    simp only [foldSpec]
    rw [ih _ (fun o ho => hm o (List.mem_cons_of_mem _ ho)) (fun o ho => hk o (List.mem_cons_of_mem _ ho)), over_get, hg]
    simp

example : dget "a" (foldSpec [("a", "0"), ("z", "9")]
    [(.merge, { data := [("a", "1")], needsHash := true, bin := [] }), (.merge, { data := [("b", "2")], needsHash := true, bin := [] })]) = some "1" := by decide

/-- the suffix has exactly ten characters whenever the digest has at least ten -/
theorem suffix_length (hex : String) (h : 10 ≤ hex.length) :
    ∃ s, encodeDigits Gen.hashSubst hex = .ok s ∧ s.length = 10 := by
  unfold encodeDigits
  have : ¬ hex.length < 10 := by omega
  simp only [this, if_false]
  refine ⟨_, rfl, ?_⟩
  simp [String.length_ofList, List.length_take]
  have : hex.toList.length = hex.length := String.length_toList
  omega

end Kust.C06
