/-
  C05 — root-only load restriction confines every read to its kustomization root.
  * `hasPrefix_iff`: the containment test `ConfirmedDir.HasPrefix`, AS WRITTEN ON STRINGS, is exactly the
    path-component prefix test for cleaned directories — `/root-evil` is not below `/root`;
  * `clean_no_dots`: what `filepath.Clean` returns for an absolute path has no `.`/`..`/empty segment, so a path
    that the restrictor accepts cannot climb out textually;
  * `restrict_sound`, `load_confined`: an accepted path is a file whose directory has the root as component prefix,
    and the bytes returned come from that file; `new_root_rules`, `stack_nodup`: new roots are relative, existing
    directories, never equal to or above a root on the loading stack, hence pairwise distinct (loading cannot cycle);
  * `readers_use_loader`: the regenerated list of direct file-system reads in the build closure is the reviewed one.
-/
import Kust.Path
import Kust.Gen.CodeFacts
import Kust.Reviewed
namespace Kust.C05
open Kust Path

theorem isPrefixL_iff (p s : List Char) : Str.isPrefixL p s = true ↔ p <+: s := by
  induction p generalizing s with
  | nil => simp [Str.isPrefixL]
  | cons a p ih =>
    cases s with
    | nil => simp [Str.isPrefixL]
    | cons b s =>
      simp only [Str.isPrefixL, Bool.and_eq_true, beq_iff_eq, ih, List.cons_prefix_cons]

/-- the slash-joined tail: `/c1/c2/…` (empty for no components) -/
def R (cs : List Comp) : List Char := cs.flatMap fun c => '/' :: c

theorem render_cons (c : Comp) (cs : List Comp) : render (c :: cs) = '/' :: (c ++ R cs) := by
  simp [render, R, List.flatMap_cons]

theorem R_cons (c : Comp) (cs : List Comp) : R (c :: cs) = '/' :: (c ++ R cs) := by
  simp [R, List.flatMap_cons]

/-- a slash-free word followed by a slash, in front of two texts, pins the word down -/
theorem word_prefix (x y : Comp) (u v : List Char) (hx : '/' ∉ x) (hy : '/' ∉ y)
    (hv : v = [] ∨ ∃ w, v = '/' :: w) (h : x ++ '/' :: u <+: y ++ v) : x = y ∧ '/' :: u <+: v := by
  induction x generalizing y with
  | nil =>
    cases y with
    | nil => exact ⟨rfl, by simpa using h⟩
    | cons b y =>
      simp only [List.nil_append, List.cons_append, List.cons_prefix_cons] at h
      exact absurd h.1.symm (fun hb => hy (by simp [hb]))
  | cons a x ih =>
    cases y with
    | nil =>
      simp only [List.cons_append, List.nil_append] at h
      rcases hv with hv | ⟨w, hv⟩
      · subst hv; simp at h
      · subst hv
        simp only [List.cons_prefix_cons] at h
        exact absurd h.1 (fun ha => hx (by simp [ha]))
    | cons b y =>
      simp only [List.cons_append, List.cons_prefix_cons] at h
      obtain ⟨hab, hrest⟩ := h
      subst hab
      have := ih y (fun hm => hx (by simp [hm])) (fun hm => hy (by simp [hm])) hrest
      exact ⟨by rw [this.1], this.2⟩

theorem R_starts (cs : List Comp) : R cs = [] ∨ ∃ w, R cs = '/' :: w := by
  cases cs with
  | nil => left; rfl
  | cons c cs => right; exact ⟨c ++ R cs, R_cons c cs⟩

/-- the heart of the matter: `R pp ++ "/"` is a textual prefix of `R dp` only if `pp` is a component prefix -/
theorem R_prefix (pp dp : List Comp) (hp : ∀ c ∈ pp, CompOk c) (hd : ∀ c ∈ dp, CompOk c)
    (h : R pp ++ ['/'] <+: R dp) : pp <+: dp := by
  induction pp generalizing dp with
  | nil => exact List.nil_prefix
  | cons c cs ih =>
    cases dp with
    | nil => simp [R, List.flatMap_cons] at h
    | cons d ds =>
      rw [R_cons, R_cons] at h
      simp only [List.cons_append, List.cons_prefix_cons, true_and] at h
      -- c ++ (R cs ++ ['/']) <+: d ++ R ds
      have hc := hp c (by simp)
      have hdd := hd d (by simp)
      have hstart : ∃ u, R cs ++ ['/'] = '/' :: u := by
        rcases R_starts cs with h0 | ⟨w, hw⟩
        · exact ⟨[], by simp [h0]⟩
        · exact ⟨w ++ ['/'], by simp [hw]⟩
      obtain ⟨u, hu⟩ := hstart
      rw [List.append_assoc, hu] at h
      obtain ⟨hcd, hrest⟩ := word_prefix c d u (R ds) hc.2 hdd.2 (R_starts ds) h
      subst hcd
      rw [← hu] at hrest
      have := ih ds (fun x hx => hp x (by simp [hx])) (fun x hx => hd x (by simp [hx])) hrest
      exact (List.cons_prefix_cons).mpr ⟨rfl, this⟩

theorem R_injective (pp dp : List Comp) (hp : ∀ c ∈ pp, CompOk c) (hd : ∀ c ∈ dp, CompOk c) (h : R pp = R dp) :
    pp = dp := by
  induction pp generalizing dp with
  | nil =>
    cases dp with
    | nil => rfl
    | cons d ds => simp [R, List.flatMap_cons] at h
  | cons c cs ih =>
    cases dp with
    | nil => simp [R, List.flatMap_cons] at h
    | cons d ds =>
      rw [R_cons, R_cons] at h
      simp only [List.cons.injEq, true_and] at h
      have hc := hp c (by simp)
      have hdd := hd d (by simp)
      -- compare the first words via word_prefix in both directions
      rcases R_starts cs with h0 | ⟨w, hw⟩
      · rcases R_starts ds with h1 | ⟨w', hw'⟩
        · rw [h0, h1] at h; simp at h
          have : cs = [] := by cases cs with | nil => rfl | cons a b => simp [R, List.flatMap_cons] at h0
          have : ds = [] := by cases ds with | nil => rfl | cons a b => simp [R, List.flatMap_cons] at h1
          simp_all
        · rw [h0, hw'] at h
          simp at h
          exfalso
          exact hc.2 (by rw [h]; simp)
      · rw [hw] at h
        have hpre : c ++ '/' :: w <+: d ++ R ds := by rw [h]; exact List.prefix_refl _
        obtain ⟨hcd, _⟩ := word_prefix c d w (R ds) hc.2 hdd.2 (R_starts ds) hpre
        subst hcd
        have hr : R cs = R ds := by
          have := List.append_cancel_left h
          rw [hw]; exact this
        rw [ih ds (fun x hx => hp x (by simp [hx])) (fun x hx => hd x (by simp [hx])) hr]

/-- **hasPrefix_iff** -/
theorem hasPrefix_iff (dp pp : List Comp) (hd : ∀ c ∈ dp, CompOk c) (hp : ∀ c ∈ pp, CompOk c) :
    hasPrefix (render dp) (render pp) = true ↔ pp <+: dp := by
  unfold hasPrefix
  simp only [Bool.or_eq_true, beq_iff_eq, isPrefixL_iff]
  constructor
  · rintro ((h | h) | h)
    · -- render pp = "/"
      cases pp with
      | nil => exact List.nil_prefix
      | cons c cs =>
        rw [render_cons] at h
        simp at h
        exact absurd h.1 (hp c (by simp)).1
    · -- equal texts
      cases pp with
      | nil =>
        exact List.nil_prefix
      | cons c cs =>
        cases dp with
        | nil =>
          rw [render_cons] at h
          simp [render] at h
          exact absurd h.1 (hp c (by simp)).1
        | cons d ds =>
          have : R (c :: cs) = R (d :: ds) := by
            simpa [render, R] using h
          rw [R_injective _ _ hp hd this]
          exact List.prefix_refl _
    · cases pp with
      | nil => exact List.nil_prefix
      | cons c cs =>
        cases dp with
        | nil =>
          rw [render_cons] at h
          simp [render] at h
        | cons d ds =>
          have h' : R (c :: cs) ++ ['/'] <+: R (d :: ds) := by simpa [render, R] using h
          exact R_prefix _ _ hp hd h'
  · rintro ⟨r, hr⟩
    subst hr
    cases pp with
    | nil => left; left; rfl
    | cons c cs =>
      cases r with
      | nil => left; right; simp
      | cons x xs =>
        right
        have h1 : render (c :: cs) = R (c :: cs) := by simp [render, R]
        have h2 : render ((c :: cs) ++ x :: xs) = R (c :: cs) ++ R (x :: xs) := by
          simp [render, R, List.flatMap_append]
        rw [h1, h2, R_cons x xs]
        exact ⟨x ++ R xs, by simp⟩

/-- the textbook near miss: `/root-evil` is not below `/root`, although it has `/root` as a string prefix -/
example : hasPrefix "/root-evil".toList "/root".toList = false ∧ Str.isPrefixL "/root".toList "/root-evil".toList = true ∧
    hasPrefix "/root/sub".toList "/root".toList = true ∧ hasPrefix "/root".toList "/".toList = true := by decide

/-! ### Clean -/

theorem cleanSegs_abs_no_dots : ∀ (segs acc : List String),
    (∀ s ∈ acc, s ≠ "" ∧ s ≠ "." ∧ s ≠ "..") → ∀ s ∈ cleanSegs true acc segs, s ≠ "" ∧ s ≠ "." ∧ s ≠ ".."
  | [], acc, h => by simpa [cleanSegs] using h
  | x :: r, acc, h => by
    unfold cleanSegs
    split
    · exact cleanSegs_abs_no_dots r acc h
    · rename_i hx
      split
      · cases acc with
        | nil => simp only [if_true]; exact cleanSegs_abs_no_dots r [] (by simp)
        | cons a acc' =>
          have ha := h a (by simp)
          simp only [ha.2.2, if_false]
          exact cleanSegs_abs_no_dots r acc' (fun s hs => h s (by simp [hs]))
      · rename_i hdd
        exact cleanSegs_abs_no_dots r (x :: acc) (by
          intro s hs
          rcases List.mem_cons.mp hs with rfl | hs
          · exact ⟨fun e => hx (Or.inl e), fun e => hx (Or.inr e), hdd⟩
          · exact h s hs)

/-- **clean_no_dots**: the segments `filepath.Clean` keeps for an absolute path contain no `.`, `..` or empty
    segment — whatever the spelling (`a/../../b`, `//`, `./`) of the input. -/
theorem clean_no_dots (segs : List String) : ∀ s ∈ cleanSegs true [] segs, s ≠ "" ∧ s ≠ "." ∧ s ≠ ".." :=
  cleanSegs_abs_no_dots segs [] (by simp)

/-! ### restriction and loader -/

theorem isPrefixC_iff (p d : List String) : isPrefixC p d = true ↔ p <+: d := by
  induction p generalizing d with
  | nil => simp [isPrefixC]
  | cons a p ih =>
    cases d with
    | nil => simp [isPrefixC]
    | cons b d => simp only [isPrefixC, Bool.and_eq_true, beq_iff_eq, ih, List.cons_prefix_cons]

/-- **restrict_sound**: whatever spelling is given, an accepted path names an existing FILE whose directory has the
    root as a component prefix. -/
theorem restrict_sound (fs : Fs) (root : List String) (path : String) (p : List String)
    (h : restrictRootOnly fs root path = .ok p) :
    ∃ d f c, p = d ++ [f] ∧ root <+: d ∧ lookup fs p = some (.file c) := by
  unfold restrictRootOnly at h
  split at h
  · rename_i d f hca
    split at h
    · simp at h
    · split at h
      · simp at h
      · rename_i hf hpre
        simp at h; subst h
        simp only [Bool.not_eq_true, Bool.not_eq_false] at hpre
        unfold cleanedAbs at hca
        dsimp only at hca
        split at hca
        · simp at hca
        split at hca
        · simp at hca
        split at hca
        · simp at hca; exact absurd hca.2.symm (fun e => hf e.symm) |> fun x => x
        · rename_i c hl
          simp at hca
          obtain ⟨hd, hfn⟩ := hca
          subst hd hfn
          refine ⟨_, _, c, rfl, (isPrefixC_iff _ _).mp (by simpa using hpre), ?_⟩
          -- the cleaned path is non-empty (it names a file), so dropLast ++ [getLast] is the path itself
          generalize hcs : cleanSegs false [] (segments path) = cs at hl ⊢
          cases hne : cs.getLast? with
          | none =>
            have : cs = [] := by simpa using hne
            subst this; simp [lookup] at hl
          | some l =>
            have : cs.dropLast ++ [l] = cs := by
              have hnn : cs ≠ [] := by intro e; subst e; simp at hne
              have h1 := List.dropLast_concat_getLast hnn
              have h2 : cs.getLast hnn = l := by
                have := List.getLast?_eq_some_getLast hnn
                rw [hne] at this
                exact (Option.some.inj this).symm
              rw [h2] at h1
              exact h1
            simp [this, hl]
        · simp at hca
  · simp at h
  · simp at h

/-- **load_confined**: the bytes `Load` returns are the content of a file below the loader's root; a rejected load
    returns only an error class (no content can leak through an error) -/
theorem load_confined (fs : Fs) (root : List String) (path content : String)
    (h : loaderLoad fs root path = .ok content) :
    ∃ d f, root <+: d ∧ lookup fs (d ++ [f]) = some (.file content) := by
  unfold loaderLoad at h
  split at h
  · rename_i p hp
    obtain ⟨d, f, c, hpd, hpre, hl⟩ := restrict_sound fs root _ p hp
    rw [hl] at h
    simp at h; subst h
    exact ⟨d, f, hpre, hpd ▸ hl⟩
  · simp at h
  · simp at h

/-- **new_root_rules** -/
theorem new_root_rules (fs : Fs) (stack : List (List String)) (path : String) (cand : List String)
    (h : loaderNew fs stack path = .ok cand) :
    isAbs path = false ∧ isDir fs cand = true ∧ ∀ r ∈ stack, ¬ cand <+: r := by
  unfold loaderNew at h
  split at h
  · simp at h
  · split at h
    · simp at h
    · rename_i habs
      split at h
      · simp at h
      · rename_i root rest
        simp only at h
        split at h
        · simp at h
        · rename_i hdir
          split at h
          · simp at h
          · rename_i hany
            simp at h; subst h
            refine ⟨by simpa using habs, by simpa using hdir, ?_⟩
            intro r hr hpre
            apply hany
            simp only [List.any_eq_true]
            exact ⟨r, hr, (isPrefixC_iff _ _).mpr hpre⟩

/-- **stack_nodup**: roots on a loading stack are pairwise distinct — a directory can be on the stack at most
    once, so the stack is no deeper than the number of directories and loading terminates. -/
theorem stack_nodup (fs : Fs) (stack : List (List String)) (path : String) (cand : List String)
    (hs : stack.Nodup) (h : loaderNew fs stack path = .ok cand) : (cand :: stack).Nodup := by
  obtain ⟨_, _, hno⟩ := new_root_rules fs stack path cand h
  rw [List.nodup_cons]
  exact ⟨fun hm => hno cand hm (List.prefix_refl _), hs⟩

/-- **readers_use_loader**: the direct file-system reads reachable from a build are exactly the reviewed ones —
    `FileLoader.Load` (behind the restrictor), the file-system implementation itself, and the `edit fix` helper. -/
theorem readers_use_loader :
    Gen.fsReadSites.map (fun e => (e.1, e.2.1)) = Reviewed.fsReadSites.map (fun e => (e.1, e.2.1)) := by
  decide +kernel

end Kust.C05
