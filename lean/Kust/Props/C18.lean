/-
  C18 — `kustomize localize` is confined and all-or-nothing (local targets).
  For EVERY source file system, every kustomization tree (references of every kind, any spelling), every scope /
  destination, every index `F` of a failing mutating operation and every set `bad` of failing reads:
  * `writes_confined`: every Mkdir / MkdirAll / WriteFile / RemoveAll of the run targets a path at or below the
    new destination directory;
  * `source_unchanged`: whatever happens, every path outside the destination holds what it held before;
  * `all_or_nothing`: if the run fails — at any operation — and the final RemoveAll itself is not the failing
    operation, the file system is exactly what it was before: no destination is left behind.
  (`all_or_nothing` was false before the repair C18-F1 at two early error paths.)
  Process death inside the run (log.Fatalf / log.Panicf on a failing read at a "validated" path, findings
  C18-K1/K2) is outside the model: the fault sweep of the oracle exhibits it.
-/
import Kust.Loc
namespace Kust.C18
open Kust Loc Path

theorem prefix_comparable {α} [DecidableEq α] : ∀ (a b c : List α), a <+: c → b <+: c → a <+: b ∨ b <+: a
  | [], _, _, _, _ => Or.inl (List.nil_prefix)
  | _, [], _, _, _ => Or.inr (List.nil_prefix)
  | x :: a, y :: b, [], h, _ => by simp at h
  | x :: a, y :: b, z :: c, h1, h2 => by
    rw [List.cons_prefix_cons] at h1 h2
    obtain ⟨e1, h1⟩ := h1
    obtain ⟨e2, h2⟩ := h2
    subst e1 e2
    rcases prefix_comparable a b c h1 h2 with h | h
    · exact Or.inl (by rw [List.cons_prefix_cons]; exact ⟨rfl, h⟩)
    · exact Or.inr (by rw [List.cons_prefix_cons]; exact ⟨rfl, h⟩)

/-- what the run may rely on about the state before it starts -/
structure Pre (E : Env) (fs0 : FS) : Prop where
  /-- the destination does not exist, hence nothing below it either -/
  fresh : ∀ x, E.newDir <+: x → fs0 x = none
  /-- every proper ancestor of the destination is a directory -/
  anc : ∀ x, x <+: E.newDir → x ≠ E.newDir → fs0 x = some .dir

structure Inv (E : Env) (fs0 : FS) (s : St) : Prop where
  outside : ∀ x, ¬ E.newDir <+: x → s.fs x = fs0 x
  confined : ∀ m ∈ s.trace, E.newDir <+: m.path

theorem applyMut_outside (E : Env) (fs0 fs fs' : FS) (m : Mut) (hp : Pre E fs0)
    (hout : ∀ x, ¬ E.newDir <+: x → fs x = fs0 x) (hm : E.newDir <+: m.path) (h : applyMut fs m = some fs') :
    ∀ x, ¬ E.newDir <+: x → fs' x = fs0 x := by
  intro x hx
  cases m with
  | mkdir p =>
    simp only [applyMut] at h
    split at h
    · simp only [Option.some.injEq] at h; subst h
      have : x ≠ p := fun e => hx (e ▸ hm)
      simp [this, hout x hx]
    · simp at h
  | mkdirAll p =>
    simp only [applyMut] at h
    split at h
    · simp only [Option.some.injEq] at h; subst h
      simp only
      split
      · rename_i hc
        have hxp : x <+: p := List.isPrefixOf_iff_prefix.mp hc.1
        rcases prefix_comparable x E.newDir p hxp hm with h1 | h1
        · have hne : x ≠ E.newDir := fun e => hx (e ▸ List.prefix_refl _)
          have := hp.anc x h1 hne
          rw [hout x hx, this] at hc
          exact absurd hc.2 (by simp)
        · exact absurd h1 hx
      · exact hout x hx
    · simp at h
  | write p c =>
    simp only [applyMut] at h
    split at h
    · simp only [Option.some.injEq] at h; subst h
      have : x ≠ p := fun e => hx (e ▸ hm)
      simp [this, hout x hx]
    · simp at h
  | removeAll p =>
    simp only [applyMut, Option.some.injEq] at h; subst h
    simp only
    split
    · rename_i hc
      exact absurd (List.IsPrefix.trans hm (List.isPrefixOf_iff_prefix.mp hc)) hx
    · exact hout x hx

theorem doMut_inv (E : Env) (fs0 : FS) (F : Nat) (s : St) (m : Mut) (hp : Pre E fs0) (hi : Inv E fs0 s)
    (hm : E.newDir <+: m.path) : Inv E fs0 (doMut F s m).1 := by
  have hconf : ∀ m' ∈ s.trace ++ [m], E.newDir <+: m'.path := by
    intro m' h'
    rcases List.mem_append.mp h' with h' | h'
    · exact hi.confined m' h'
    · simp at h'; subst h'; exact hm
  unfold doMut
  simp only
  split
  · exact ⟨hi.outside, hconf⟩
  · cases ha : applyMut s.fs m with
    | none => exact ⟨hi.outside, hconf⟩
    | some fs' => exact ⟨applyMut_outside E fs0 s.fs fs' m hp hi.outside hm ha, hconf⟩

theorem dstOf_prefix (E : Env) (r : P) : E.newDir <+: dstOf E r := List.prefix_append _ _

theorem copyFile_inv (E : Env) (fs0 : FS) (F : Nat) (s : St) (root d : P) (n c : String) (hp : Pre E fs0)
    (hi : Inv E fs0 s) : Inv E fs0 (copyFile E F s root d n c).1 := by
  unfold copyFile
  simp only
  have h1 : E.newDir <+: dstOf E root ++ d := (dstOf_prefix E root).trans (List.prefix_append _ _)
  have h2 : E.newDir <+: dstOf E root ++ d ++ [n] := h1.trans (List.prefix_append _ _)
  have i1 := doMut_inv E fs0 F s (.mkdirAll (dstOf E root ++ d)) hp hi h1
  split
  · exact i1
  · exact doMut_inv E fs0 F _ (.write _ c) hp i1 h2

/-- a directory localizer that keeps the invariant -/
def Keeps (E : Env) (fs0 : FS) (f : St → List P → P → St × Bool) : Prop :=
  ∀ s stack root, Inv E fs0 s → Inv E fs0 (f s stack root).1

def KeepsRoot (E : Env) (fs0 : FS) (f : St → List P → P → String → St × Bool) : Prop :=
  ∀ s stack root raw, Inv E fs0 s → Inv E fs0 (f s stack root raw).1

theorem localizeRootWith_keeps (E : Env) (fs0 : FS) (F : Nat) (rec : St → List P → P → St × Bool) (hp : Pre E fs0)
    (hr : Keeps E fs0 rec) : KeepsRoot E fs0 (localizeRootWith E F rec) := by
  intro s stack root raw hi
  unfold localizeRootWith
  split
  · exact hi
  · rename_i r _
    simp only
    have i1 := doMut_inv E fs0 F s (.mkdirAll (dstOf E r)) hp hi (dstOf_prefix E r)
    split
    · exact i1
    · exact hr _ _ _ i1

theorem localizeOne_keeps (E : Env) (fs0 : FS) (F : Nat) (rootFn : St → List P → P → String → St × Bool)
    (hp : Pre E fs0) (hr : KeepsRoot E fs0 rootFn) (s : St) (stack : List P) (root : P) (ref : Ref)
    (hi : Inv E fs0 s) : Inv E fs0 (localizeOne E F rootFn s stack root ref).1 := by
  cases ref with
  | file raw =>
    simp only [localizeOne]
    split
    · exact hi
    · split
      · exact copyFile_inv E fs0 F s root _ _ _ hp hi
      · exact hi
  | root raw =>
    simp only [localizeOne]
    split
    · exact hi
    · exact hr _ _ _ _ hi
  | res raw =>
    simp only [localizeOne]
    split
    · split
      · exact copyFile_inv E fs0 F s root _ _ _ hp hi
      · exact hr _ _ _ _ hi
    · exact hr _ _ _ _ hi

theorem localizeRefs_keeps (E : Env) (fs0 : FS) (F : Nat) (rootFn : St → List P → P → String → St × Bool)
    (hp : Pre E fs0) (hr : KeepsRoot E fs0 rootFn) :
    ∀ (refs : List Ref) (s : St) (stack : List P) (root : P), Inv E fs0 s →
      Inv E fs0 (localizeRefs E F rootFn s stack root refs).1 := by
  intro refs
  induction refs with
  | nil => intro s stack root hi; simpa [localizeRefs] using hi
  | cons ref rest ih =>
    intro s stack root hi
    have hfirst := localizeOne_keeps E fs0 F rootFn hp hr s stack root ref hi
    unfold localizeRefs
    simp only
    split
    · exact hfirst
    · exact ih _ _ _ hfirst

theorem localize_keeps (E : Env) (fs0 : FS) (F : Nat) (hp : Pre E fs0) :
    ∀ fuel, Keeps E fs0 (localize E F fuel) := by
  intro fuel
  induction fuel with
  | zero => intro s stack root hi; simpa [localize] using hi
  | succ f ih =>
    intro s stack root hi
    unfold localize
    split
    · exact hi
    · rename_i name refs _
      simp only
      split
      · exact hi
      · have i1 := localizeRefs_keeps E fs0 F (localizeRootWith E F (localize E F f)) hp
          (localizeRootWith_keeps E fs0 F _ hp ih) refs s (root :: stack) root hi
        split
        · exact i1
        · exact doMut_inv E fs0 F _ (.write _ _) hp i1
            ((dstOf_prefix E root).trans (List.prefix_append _ _))

theorem inv_init (E : Env) (fs0 : FS) : Inv E fs0 { fs := fs0 } := ⟨fun _ _ => rfl, by simp⟩

/-- the state of the run keeps the invariant, whatever fails -/
theorem run_inv (E : Env) (fs0 : FS) (F fuel : Nat) (target : P) (hp : Pre E fs0) :
    Inv E fs0 (run E F fuel fs0 target).1 := by
  unfold run
  simp only
  have i0 := inv_init E fs0
  split
  · exact i0
  · have i1 := doMut_inv E fs0 F { fs := fs0 } (.mkdir E.newDir) hp i0 (List.prefix_refl _)
    split
    · exact i1
    · have hclean : ∀ s, Inv E fs0 s → Inv E fs0 (doMut F s (.removeAll E.newDir)).1 :=
        fun s hs => doMut_inv E fs0 F s _ hp hs (List.prefix_refl _)
      split
      · exact hclean _ i1
      · have i2 := doMut_inv E fs0 F _ (.mkdirAll (dstOf E target)) hp i1 (dstOf_prefix E target)
        split
        · exact hclean _ i2
        · have i3 := localize_keeps E fs0 F hp fuel _ [] target i2
          split
          · exact hclean _ i3
          · exact i3

/-- **writes_confined**: every mutating file-system operation of a localize run — successful or not, with any
    operation failing — addresses the destination directory or a path below it -/
theorem writes_confined (E : Env) (fs0 : FS) (F fuel : Nat) (target : P) (hp : Pre E fs0) :
    ∀ m ∈ (run E F fuel fs0 target).1.trace, E.newDir <+: m.path :=
  (run_inv E fs0 F fuel target hp).confined

/-- **source_unchanged**: nothing outside the destination is modified, ever -/
theorem source_unchanged (E : Env) (fs0 : FS) (F fuel : Nat) (target : P) (hp : Pre E fs0) :
    ∀ x, ¬ E.newDir <+: x → (run E F fuel fs0 target).1.fs x = fs0 x :=
  (run_inv E fs0 F fuel target hp).outside

/-- the clean-up after a failure restores the file system, unless the clean-up is the operation that fails -/
theorem cleanup_restores (E : Env) (fs0 : FS) (F : Nat) (s : St) (hp : Pre E fs0) (hi : Inv E fs0 s) (hk : s.k ≠ F) :
    ∀ x, (doMut F s (.removeAll E.newDir)).1.fs x = fs0 x := by
  intro x
  simp only [doMut, hk, if_false, applyMut]
  by_cases hx : E.newDir <+: x
  · simp [List.isPrefixOf_iff_prefix.mpr hx, hp.fresh x hx]
  · have : E.newDir.isPrefixOf x = false := by
      cases h : E.newDir.isPrefixOf x with
      | false => rfl
      | true => exact absurd (List.isPrefixOf_iff_prefix.mp h) hx
    simp [this, hi.outside x hx]

/-- the failing operation is the final RemoveAll -/
def CleanupFailed (E : Env) (F : Nat) (r : St × Bool) : Prop :=
  r.1.k = F + 1 ∧ r.1.trace.getLast? = some (.removeAll E.newDir)

theorem doMut_k (F : Nat) (s : St) (m : Mut) : (doMut F s m).1.k = s.k + 1 := by
  unfold doMut; simp only; split
  · rfl
  · split <;> rfl

theorem doMut_last (F : Nat) (s : St) (m : Mut) : (doMut F s m).1.trace.getLast? = some m := by
  unfold doMut; simp only; split
  · simp
  · split <;> simp

theorem doMut_fail_fs (F : Nat) (s : St) (m : Mut) (h : (doMut F s m).2 = false) : (doMut F s m).1.fs = s.fs := by
  unfold doMut at h ⊢; simp only at h ⊢; split
  · rfl
  · rename_i hk
    split
    · rename_i h'; simp [h', hk] at h
    · rfl

/-- **all_or_nothing**: a failed run — whichever operation failed, injected or refused by the file system, mutating
    or reading — leaves the file system exactly as it found it, provided the final RemoveAll is not itself the
    failing operation -/
theorem all_or_nothing (E : Env) (fs0 : FS) (F fuel : Nat) (target : P) (hp : Pre E fs0)
    (hfail : (run E F fuel fs0 target).2 = false) (hc : ¬ CleanupFailed E F (run E F fuel fs0 target)) :
    ∀ x, (run E F fuel fs0 target).1.fs x = fs0 x := by
  unfold run at hfail hc ⊢
  simp only at hfail hc ⊢
  have i0 := inv_init E fs0
  split
  · intro x; rfl
  · rename_i hfresh
    simp only [hfresh, if_false] at hfail hc
    have i1 := doMut_inv E fs0 F { fs := fs0 } (.mkdir E.newDir) hp i0 (List.prefix_refl _)
    -- a uniform treatment of the three clean-up exits
    have hcl : ∀ s, Inv E fs0 s → ¬ CleanupFailed E F ((doMut F s (.removeAll E.newDir)).1, false) →
        ∀ x, (doMut F s (.removeAll E.newDir)).1.fs x = fs0 x := by
      intro s hs hn
      apply cleanup_restores E fs0 F s hp hs
      intro hk
      apply hn
      exact ⟨by simp [doMut_k, hk], doMut_last F s _⟩
    split
    · rename_i h1
      intro x
      have : (doMut F { fs := fs0 } (.mkdir E.newDir)).2 = false := by simpa using h1
      rw [doMut_fail_fs F _ _ this]
    · rename_i h1
      simp only [h1, if_false] at hfail hc
      split
      · rename_i hb
        simp only [hb, if_true] at hc
        exact hcl _ i1 hc
      · rename_i hb
        simp only [hb, if_false] at hfail hc
        have i2 := doMut_inv E fs0 F _ (.mkdirAll (dstOf E target)) hp i1 (dstOf_prefix E target)
        split
        · rename_i h2
          simp only [h2, if_true] at hc
          exact hcl _ i2 hc
        · rename_i h2
          simp only [h2, if_false] at hfail hc
          have i3 := localize_keeps E fs0 F hp fuel _ [] target i2
          split
          · rename_i h3
            simp only [h3, if_true] at hc
            exact hcl _ i3 hc
          · rename_i h3
            simp only [h3, if_false] at hfail
            simp at hfail

/-! ### the destination holds only faithful copies -/

/-- what a file below the destination may be: the localized kustomization of a root, or a byte-identical copy of
    the source file at the mirrored path -/
def Faithful (E : Env) (fs0 : FS) (x : P) (c : String) : Prop :=
  c = E.kustContent ∨ ∃ p, E.scope <+: p ∧ x = E.newDir ++ p.drop E.scope.length ∧ fs0 p = some (.file c)

structure Faith (E : Env) (fs0 : FS) (s : St) : Prop where
  files : ∀ x c, E.newDir <+: x → s.fs x = some (.file c) → Faithful E fs0 x c
  destDir : ∀ c, s.fs E.newDir ≠ some (.file c)

theorem doMut_faith (E : Env) (fs0 : FS) (F : Nat) (s : St) (m : Mut) (hf : Faith E fs0 s)
    (hw : ∀ p c, m = .write p c → p ≠ E.newDir ∧ Faithful E fs0 p c) : Faith E fs0 (doMut F s m).1 := by
  unfold doMut
  simp only
  split
  · exact ⟨hf.files, hf.destDir⟩
  · cases ha : applyMut s.fs m with
    | none => exact ⟨hf.files, hf.destDir⟩
    | some fs' =>
      simp only
      cases m with
      | mkdir p =>
        simp only [applyMut] at ha
        split at ha
        · simp only [Option.some.injEq] at ha; subst ha
          constructor
          · intro x c hx h; simp only at h; split at h
            · simp at h
            · exact hf.files x c hx h
          · intro c h; simp only at h; split at h
            · simp at h
            · exact hf.destDir c h
        · simp at ha
      | mkdirAll p =>
        simp only [applyMut] at ha
        split at ha
        · simp only [Option.some.injEq] at ha; subst ha
          constructor
          · intro x c hx h; simp only at h; split at h
            · simp at h
            · exact hf.files x c hx h
          · intro c h; simp only at h; split at h
            · simp at h
            · exact hf.destDir c h
        · simp at ha
      | write p c0 =>
        obtain ⟨hne, hfa⟩ := hw p c0 rfl
        simp only [applyMut] at ha
        split at ha
        · simp only [Option.some.injEq] at ha; subst ha
          constructor
          · intro x c hx h; simp only at h; split at h
            · rename_i hxp; subst hxp
              simp only [Option.some.injEq, Ent.file.injEq] at h; subst h; exact hfa
            · exact hf.files x c hx h
          · intro c h; simp only at h; split at h
            · rename_i hxp; exact hne hxp.symm
            · exact hf.destDir c h
        · simp at ha
      | removeAll p =>
        simp only [applyMut, Option.some.injEq] at ha; subst ha
        constructor
        · intro x c hx h; simp only at h; split at h
          · simp at h
          · exact hf.files x c hx h
        · intro c h; simp only at h; split at h
          · simp at h
          · exact hf.destDir c h

theorem not_write_mkdirAll (E : Env) (fs0 : FS) (q : P) :
    ∀ p c, Mut.mkdirAll q = .write p c → p ≠ E.newDir ∧ Faithful E fs0 p c := by intro p c h; cases h
theorem not_write_mkdir (E : Env) (fs0 : FS) (q : P) :
    ∀ p c, Mut.mkdir q = .write p c → p ≠ E.newDir ∧ Faithful E fs0 p c := by intro p c h; cases h
theorem not_write_removeAll (E : Env) (fs0 : FS) (q : P) :
    ∀ p c, Mut.removeAll q = .write p c → p ≠ E.newDir ∧ Faithful E fs0 p c := by intro p c h; cases h

theorem append_singleton_ne (a b : P) (n : String) : a ++ b ++ [n] ≠ a := by
  intro h
  have := congrArg List.length h
  simp at this

/-- what `loadFile` returns is a file of the current file system at `root ++ d ++ [n]`, outside the destination -/
theorem loadFileAt_spec (E : Env) (fs : FS) (root p : P) (d : P) (n c : String)
    (hdest : ∀ c, fs E.newDir ≠ some (.file c))
    (h : loadFileAt E fs root p = some (d, n, c)) :
    fs (root ++ d ++ [n]) = some (.file c) ∧ ¬ E.newDir <+: (root ++ d ++ [n]) := by
  unfold loadFileAt at h
  split at h
  · simp at h
  · split at h
    · rename_i c' hfile
      split at h
      · rename_i hcond
        split at h
        · simp at h
        · rename_i name dr hrev
          simp only [Option.some.injEq, Prod.mk.injEq] at h
          obtain ⟨rfl, rfl, rfl⟩ := h
          have hpre : root <+: p := List.isPrefixOf_iff_prefix.mp hcond.1
          have hdrop : p.drop root.length = dr.reverse ++ [name] := by
            have := congrArg List.reverse hrev
            simpa using this
          have hpeq : p = root ++ dr.reverse ++ [name] := by
            obtain ⟨t, rfl⟩ := hpre
            simp only [List.drop_left] at hdrop
            rw [hdrop, List.append_assoc]
          rw [← hpeq]
          refine ⟨hfile, ?_⟩
          intro hnd
          have hc2 : E.newDir.isPrefixOf p.dropLast = false := by simpa using hcond.2
          obtain ⟨t, ht⟩ := hnd
          rcases List.eq_nil_or_concat t with rfl | ⟨t', last, rfl⟩
          · simp only [List.append_nil] at ht
            exact hdest c' (ht ▸ hfile)
          · have : p.dropLast = E.newDir ++ t' := by
              rw [← ht, List.concat_eq_append, ← List.append_assoc, List.dropLast_concat]
            have hpp : E.newDir <+: p.dropLast := ⟨t', this.symm⟩
            rw [List.isPrefixOf_iff_prefix.mpr hpp] at hc2
            exact absurd hc2 (by simp)
      · simp at h
    · simp at h

theorem loadFile_spec (E : Env) (fs : FS) (root : P) (raw : String) (d : P) (n c : String)
    (hdest : ∀ c, fs E.newDir ≠ some (.file c))
    (h : loadFile E fs root raw = some (d, n, c)) :
    fs (root ++ d ++ [n]) = some (.file c) ∧ ¬ E.newDir <+: (root ++ d ++ [n]) :=
  loadFileAt_spec E fs root _ d n c hdest h

theorem copyFile_faith (E : Env) (fs0 : FS) (F : Nat) (s : St) (root d : P) (n c : String)
    (hf : Faith E fs0 s) (hfa : Faithful E fs0 (dstOf E root ++ d ++ [n]) c) :
    Faith E fs0 (copyFile E F s root d n c).1 := by
  unfold copyFile
  simp only
  have f1 := doMut_faith E fs0 F s (.mkdirAll (dstOf E root ++ d)) hf (not_write_mkdirAll E fs0 _)
  split
  · exact f1
  · apply doMut_faith E fs0 F _ _ f1
    intro p c' h
    simp only [Mut.write.injEq] at h
    obtain ⟨rfl, rfl⟩ := h
    refine ⟨?_, hfa⟩
    unfold dstOf
    rw [List.append_assoc, List.append_assoc]
    intro h
    have := congrArg List.length h
    simp at this

/-- the mirror of a file below a root inside the scope -/
theorem faithful_of_load (E : Env) (fs0 : FS) (s : St) (root d : P) (n c raw : String)
    (hsc : E.scope <+: root) (hi : Inv E fs0 s) (hf : Faith E fs0 s)
    (h : loadFile E s.fs root raw = some (d, n, c)) : Faithful E fs0 (dstOf E root ++ d ++ [n]) c := by
  obtain ⟨h1, h2⟩ := loadFile_spec E s.fs root raw d n c hf.destDir h
  right
  refine ⟨root ++ d ++ [n], ?_, ?_, ?_⟩
  · exact hsc.trans ((List.prefix_append _ _).trans (List.prefix_append _ _))
  · obtain ⟨t, rfl⟩ := hsc
    simp [dstOf, List.append_assoc]
  · rw [← hi.outside _ h2]; exact h1

def Both (E : Env) (fs0 : FS) (s : St) : Prop := Inv E fs0 s ∧ Faith E fs0 s

def KeepsB (E : Env) (fs0 : FS) (f : St → List P → P → St × Bool) : Prop :=
  ∀ s stack root, E.scope <+: root → Both E fs0 s → Both E fs0 (f s stack root).1

def KeepsRootB (E : Env) (fs0 : FS) (f : St → List P → P → String → St × Bool) : Prop :=
  ∀ s stack root raw, E.scope <+: root → Both E fs0 s → Both E fs0 (f s stack root raw).1

theorem newRoot_scope (E : Env) (fs : FS) (stack : List P) (root : P) (raw : String) (r : P)
    (h : newRoot E fs stack root raw = some r) : E.scope <+: r := by
  unfold newRoot at h
  simp only at h
  split at h
  · simp at h
  · split at h
    · simp at h
    · split at h
      · rename_i hc
        simp only [Option.some.injEq] at h; subst h
        exact List.isPrefixOf_iff_prefix.mp hc.2.2.1
      · simp at h

theorem localizeRootWith_keepsB (E : Env) (fs0 : FS) (F : Nat) (rec : St → List P → P → St × Bool) (hp : Pre E fs0)
    (hr : KeepsB E fs0 rec) : KeepsRootB E fs0 (localizeRootWith E F rec) := by
  intro s stack root raw _ hb
  unfold localizeRootWith
  split
  · exact hb
  · rename_i r hnr
    simp only
    have i1 := doMut_inv E fs0 F s (.mkdirAll (dstOf E r)) hp hb.1 (dstOf_prefix E r)
    have f1 := doMut_faith E fs0 F s (.mkdirAll (dstOf E r)) hb.2 (not_write_mkdirAll E fs0 _)
    split
    · exact ⟨i1, f1⟩
    · exact hr _ _ _ (newRoot_scope E s.fs stack root raw r hnr) ⟨i1, f1⟩

theorem localizeOne_keepsB (E : Env) (fs0 : FS) (F : Nat) (rootFn : St → List P → P → String → St × Bool)
    (hp : Pre E fs0) (hr : KeepsRootB E fs0 rootFn) (s : St) (stack : List P) (root : P) (ref : Ref)
    (hsc : E.scope <+: root) (hb : Both E fs0 s) : Both E fs0 (localizeOne E F rootFn s stack root ref).1 := by
  cases ref with
  | file raw =>
    simp only [localizeOne]
    split
    · exact hb
    · split
      · rename_i d n c hl
        exact ⟨copyFile_inv E fs0 F s root _ _ _ hp hb.1,
          copyFile_faith E fs0 F s root _ _ _ hb.2 (faithful_of_load E fs0 s root d n c raw hsc hb.1 hb.2 hl)⟩
      · exact hb
  | root raw =>
    simp only [localizeOne]
    split
    · exact hb
    · exact hr _ _ _ _ hsc hb
  | res raw =>
    simp only [localizeOne]
    split
    · rename_i d n c hl
      split
      · exact ⟨copyFile_inv E fs0 F s root _ _ _ hp hb.1,
          copyFile_faith E fs0 F s root _ _ _ hb.2 (faithful_of_load E fs0 s root d n c raw hsc hb.1 hb.2 hl)⟩
      · exact hr _ _ _ _ hsc hb
    · exact hr _ _ _ _ hsc hb

theorem localizeRefs_keepsB (E : Env) (fs0 : FS) (F : Nat) (rootFn : St → List P → P → String → St × Bool)
    (hp : Pre E fs0) (hr : KeepsRootB E fs0 rootFn) :
    ∀ (refs : List Ref) (s : St) (stack : List P) (root : P), E.scope <+: root → Both E fs0 s →
      Both E fs0 (localizeRefs E F rootFn s stack root refs).1 := by
  intro refs
  induction refs with
  | nil => intro s stack root _ hb; simpa [localizeRefs] using hb
  | cons ref rest ih =>
    intro s stack root hsc hb
    have hfirst := localizeOne_keepsB E fs0 F rootFn hp hr s stack root ref hsc hb
    unfold localizeRefs
    simp only
    split
    · exact hfirst
    · exact ih _ _ _ hsc hfirst

theorem localize_keepsB (E : Env) (fs0 : FS) (F : Nat) (hp : Pre E fs0) :
    ∀ fuel, KeepsB E fs0 (localize E F fuel) := by
  intro fuel
  induction fuel with
  | zero => intro s stack root _ hb; simpa [localize] using hb
  | succ f ih =>
    intro s stack root hsc hb
    unfold localize
    split
    · exact hb
    · rename_i name refs _
      simp only
      split
      · exact hb
      · have b1 := localizeRefs_keepsB E fs0 F (localizeRootWith E F (localize E F f)) hp
          (localizeRootWith_keepsB E fs0 F _ hp ih) refs s (root :: stack) root hsc hb
        split
        · exact b1
        · refine ⟨doMut_inv E fs0 F _ (.write _ _) hp b1.1 ((dstOf_prefix E root).trans (List.prefix_append _ _)), ?_⟩
          apply doMut_faith E fs0 F _ _ b1.2
          intro p c h
          simp only [Mut.write.injEq] at h
          obtain ⟨rfl, rfl⟩ := h
          refine ⟨?_, Or.inl rfl⟩
          unfold dstOf
          rw [List.append_assoc]
          intro h
          have := congrArg List.length h
          simp at this

/-- **destination_faithful**: whatever the run did — complete, failed or interrupted by a failing operation —
    every file below the destination is either the localized kustomization file of a root or a byte-identical copy
    of the source file at the mirrored path inside the scope.  (With `source_unchanged` this is the file-level half
    of build equivalence; that every reference is present is the other half, sampled by the oracle.) -/
theorem destination_faithful (E : Env) (fs0 : FS) (F fuel : Nat) (target : P) (hp : Pre E fs0)
    (hsc : E.scope <+: target) :
    ∀ x c, E.newDir <+: x → (run E F fuel fs0 target).1.fs x = some (.file c) → Faithful E fs0 x c := by
  have hb0 : Both E fs0 { fs := fs0 } := by
    refine ⟨inv_init E fs0, ?_, ?_⟩
    · intro x c hx h; have := hp.fresh x hx; simp_all
    · intro c h; have := hp.fresh _ (List.prefix_refl E.newDir); simp_all
  have key : Both E fs0 (run E F fuel fs0 target).1 := by
    unfold run
    simp only
    split
    · exact hb0
    · have b1 : Both E fs0 (doMut F { fs := fs0 } (.mkdir E.newDir)).1 :=
        ⟨doMut_inv E fs0 F _ _ hp hb0.1 (List.prefix_refl _), doMut_faith E fs0 F _ _ hb0.2 (not_write_mkdir E fs0 _)⟩
      split
      · exact b1
      · have hclean : ∀ s, Both E fs0 s → Both E fs0 (doMut F s (.removeAll E.newDir)).1 :=
          fun s hs => ⟨doMut_inv E fs0 F s _ hp hs.1 (List.prefix_refl _), doMut_faith E fs0 F s _ hs.2 (not_write_removeAll E fs0 _)⟩
        split
        · exact hclean _ b1
        · have b2 : Both E fs0 (doMut F _ (.mkdirAll (dstOf E target))).1 :=
            ⟨doMut_inv E fs0 F _ _ hp b1.1 (dstOf_prefix E target), doMut_faith E fs0 F _ _ b1.2 (not_write_mkdirAll E fs0 _)⟩
          split
          · exact hclean _ b2
          · have b3 := localize_keepsB E fs0 F hp fuel _ [] target hsc b2
            split
            · exact hclean _ b3
            · exact b3
  exact key.2.files


/-! ### a concrete run (non-vacuity): the hypotheses hold and every outcome occurs -/

def exFs : FS := fun x =>
  if x = [] ∨ x = ["s"] ∨ x = ["s", "app"] ∨ x = ["s", "lib"] then some .dir
  else if x = ["s", "app", "kustomization.yaml"] then some (.file "K")
  else if x = ["s", "app", "dep.yaml"] then some (.file "D")
  else if x = ["s", "lib", "kustomization.yaml"] then some (.file "K2")
  else if x = ["s", "lib", "l.yaml"] then some (.file "L")
  else none

def exEnv : Env :=
  { scope := ["s"], newDir := ["out"],
    kust := fun r =>
      if r = ["s", "app"] then some ("kustomization.yaml", [.res "./dep.yaml", .res "../lib"])
      else if r = ["s", "lib"] then some ("kustomization.yaml", [.file "l.yaml"])
      else none,
    isRes := fun c => c = "D", bad := fun _ => false }

theorem exPre : Pre exEnv exFs := by
  constructor
  · intro x hx
    obtain ⟨t, rfl⟩ := hx
    simp [exEnv, exFs]
  · intro x hx hne
    have : x = [] := by
      rcases x with _ | ⟨a, r⟩
      · rfl
      · simp only [exEnv] at hx hne
        rw [List.cons_prefix_cons] at hx
        obtain ⟨rfl, hr⟩ := hx
        have : r = [] := List.prefix_nil.mp hr
        subst this
        exact absurd rfl hne
    subst this
    simp [exFs]

/-- the fault-free run succeeds and mirrors both roots; a failure at the 5th mutating operation is cleaned up -/
example :
    (run exEnv 1000 8 exFs ["s", "app"]).2 = true ∧
    (run exEnv 1000 8 exFs ["s", "app"]).1.fs ["out", "lib", "l.yaml"] = some (.file "L") ∧
    (run exEnv 1000 8 exFs ["s", "app"]).1.fs ["out", "app", "dep.yaml"] = some (.file "D") ∧
    (run exEnv 4 8 exFs ["s", "app"]).2 = false ∧
    (run exEnv 4 8 exFs ["s", "app"]).1.fs ["out"] = none ∧
    (run exEnv 4 8 exFs ["s", "app"]).1.trace.getLast? = some (.removeAll ["out"]) := by
  decide

end Kust.C18
