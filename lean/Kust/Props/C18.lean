/-
  C18 — `kustomize localize` is confined and all-or-nothing (local targets).
  For EVERY source file system, every kustomization tree (references of every kind, any spelling), every scope /
  destination, every index `F` of a failing mutating operation and every set `bad` of failing reads:
  * `writes_confined`: every Mkdir / MkdirAll / WriteFile / RemoveAll of the run targets a path at or below the
    new destination directory;
  * `source_unchanged`: whatever happens, every path outside the destination holds what it held before;
  * `all_or_nothing`: if the run fails — at any operation — and the final RemoveAll itself is not the failing
    operation, the file system is exactly what it was before: no destination is left behind.
  (`all_or_nothing` was false before the repair C18-F1 at two early error paths.)
  Process death inside the run (log.Fatalf / log.Panicf on a failing read at a "validated" path, findings
  C18-K1/K2) is outside the model: the fault sweep of the oracle exhibits it.
-/
import Kust.Loc
namespace Kust.C18
open Kust Loc Path

theorem prefix_comparable {α} [DecidableEq α] : ∀ (a b c : List α), a <+: c → b <+: c → a <+: b ∨ b <+: a
  | [], _, _, _, _ => Or.inl (List.nil_prefix)
  | _, [], _, _, _ => Or.inr (List.nil_prefix)
  | x :: a, y :: b, [], h, _ => by simp at h
  | x :: a, y :: b, z :: c, h1, h2 => by
    rw [List.cons_prefix_cons] at h1 h2
    obtain ⟨e1, h1⟩ := h1
    obtain ⟨e2, h2⟩ := h2
    subst e1 e2
    rcases prefix_comparable a b c h1 h2 with h | h
    · exact Or.inl (by rw [List.cons_prefix_cons]; exact ⟨rfl, h⟩)
    · exact Or.inr (by rw [List.cons_prefix_cons]; exact ⟨rfl, h⟩)

/-- what the run may rely on about the state before it starts -/
structure Pre (E : Env) (fs0 : FS) : Prop where
  /-- the destination does not exist, hence nothing below it either -/
  fresh : ∀ x, E.newDir <+: x → fs0 x = none
  /-- every proper ancestor of the destination is a directory -/
  anc : ∀ x, x <+: E.newDir → x ≠ E.newDir → fs0 x = some .dir

structure Inv (E : Env) (fs0 : FS) (s : St) : Prop where
  outside : ∀ x, ¬ E.newDir <+: x → s.fs x = fs0 x
  confined : ∀ m ∈ s.trace, E.newDir <+: m.path

theorem applyMut_outside (E : Env) (fs0 fs fs' : FS) (m : Mut) (hp : Pre E fs0)
    (hout : ∀ x, ¬ E.newDir <+: x → fs x = fs0 x) (hm : E.newDir <+: m.path) (h : applyMut fs m = some fs') :
    ∀ x, ¬ E.newDir <+: x → fs' x = fs0 x := by
  intro x hx
  cases m with
  | mkdir p =>
    simp only [applyMut] at h
    split at h
    · simp only [Option.some.injEq] at h; subst h
      have : x ≠ p := fun e => hx (e ▸ hm)
      simp [this, hout x hx]
    · simp at h
  | mkdirAll p =>
    simp only [applyMut] at h
    split at h
    · simp only [Option.some.injEq] at h; subst h
      simp only
      split
      · rename_i hc
        have hxp : x <+: p := List.isPrefixOf_iff_prefix.mp hc.1
        rcases prefix_comparable x E.newDir p hxp hm with h1 | h1
        · have hne : x ≠ E.newDir := fun e => hx (e ▸ List.prefix_refl _)
          have := hp.anc x h1 hne
          rw [hout x hx, this] at hc
          exact absurd hc.2 (by simp)
        · exact absurd h1 hx
      · exact hout x hx
    · simp at h
  | write p c =>
    simp only [applyMut] at h
    split at h
    · simp only [Option.some.injEq] at h; subst h
      have : x ≠ p := fun e => hx (e ▸ hm)
      simp [this, hout x hx]
    · simp at h
  | removeAll p =>
    simp only [applyMut, Option.some.injEq] at h; subst h
    simp only
    split
    · rename_i hc
      exact absurd (List.IsPrefix.trans hm (List.isPrefixOf_iff_prefix.mp hc)) hx
    · exact hout x hx

theorem doMut_inv (E : Env) (fs0 : FS) (F : Nat) (s : St) (m : Mut) (hp : Pre E fs0) (hi : Inv E fs0 s)
    (hm : E.newDir <+: m.path) : Inv E fs0 (doMut F s m).1 := by
  have hconf : ∀ m' ∈ s.trace ++ [m], E.newDir <+: m'.path := by
    intro m' h'
    rcases List.mem_append.mp h' with h' | h'
    · exact hi.confined m' h'
    · simp at h'; subst h'; exact hm
  unfold doMut
  simp only
  split
  · exact ⟨hi.outside, hconf⟩
  · cases ha : applyMut s.fs m with
    | none => exact ⟨hi.outside, hconf⟩
    | some fs' => exact ⟨applyMut_outside E fs0 s.fs fs' m hp hi.outside hm ha, hconf⟩

theorem dstOf_prefix (E : Env) (r : P) : E.newDir <+: dstOf E r := List.prefix_append _ _

theorem copyFile_inv (E : Env) (fs0 : FS) (F : Nat) (s : St) (root d : P) (n c : String) (hp : Pre E fs0)
    (hi : Inv E fs0 s) : Inv E fs0 (copyFile E F s root d n c).1 := by
  unfold copyFile
  simp only
  have h1 : E.newDir <+: dstOf E root ++ d := (dstOf_prefix E root).trans (List.prefix_append _ _)
  have h2 : E.newDir <+: dstOf E root ++ d ++ [n] := h1.trans (List.prefix_append _ _)
  have i1 := doMut_inv E fs0 F s (.mkdirAll (dstOf E root ++ d)) hp hi h1
  split
  · exact i1
  · exact doMut_inv E fs0 F _ (.write _ c) hp i1 h2

/-- a directory localizer that keeps the invariant -/
def Keeps (E : Env) (fs0 : FS) (f : St → List P → P → St × Bool) : Prop :=
  ∀ s stack root, Inv E fs0 s → Inv E fs0 (f s stack root).1

def KeepsRoot (E : Env) (fs0 : FS) (f : St → List P → P → String → St × Bool) : Prop :=
  ∀ s stack root raw, Inv E fs0 s → Inv E fs0 (f s stack root raw).1

theorem localizeRootWith_keeps (E : Env) (fs0 : FS) (F : Nat) (rec : St → List P → P → St × Bool) (hp : Pre E fs0)
    (hr : Keeps E fs0 rec) : KeepsRoot E fs0 (localizeRootWith E F rec) := by
  intro s stack root raw hi
  unfold localizeRootWith
  split
  · exact hi
  · rename_i r _
    simp only
    have i1 := doMut_inv E fs0 F s (.mkdirAll (dstOf E r)) hp hi (dstOf_prefix E r)
    split
    · exact i1
    · exact hr _ _ _ i1

theorem localizeOne_keeps (E : Env) (fs0 : FS) (F : Nat) (rootFn : St → List P → P → String → St × Bool)
    (hp : Pre E fs0) (hr : KeepsRoot E fs0 rootFn) (s : St) (stack : List P) (root : P) (ref : Ref)
    (hi : Inv E fs0 s) : Inv E fs0 (localizeOne E F rootFn s stack root ref).1 := by
  cases ref with
  | file raw =>
    simp only [localizeOne]
    split
    · exact hi
    · split
      · exact copyFile_inv E fs0 F s root _ _ _ hp hi
      · exact hi
  | root raw =>
    simp only [localizeOne]
    split
    · exact hi
    · exact hr _ _ _ _ hi
  | res raw =>
    simp only [localizeOne]
    split
    · split
      · exact copyFile_inv E fs0 F s root _ _ _ hp hi
      · exact hr _ _ _ _ hi
    · exact hr _ _ _ _ hi

theorem localizeRefs_keeps (E : Env) (fs0 : FS) (F : Nat) (rootFn : St → List P → P → String → St × Bool)
    (hp : Pre E fs0) (hr : KeepsRoot E fs0 rootFn) :
    ∀ (refs : List Ref) (s : St) (stack : List P) (root : P), Inv E fs0 s →
      Inv E fs0 (localizeRefs E F rootFn s stack root refs).1 := by
  intro refs
  induction refs with
  | nil => intro s stack root hi; simpa [localizeRefs] using hi
  | cons ref rest ih =>
    intro s stack root hi
    have hfirst := localizeOne_keeps E fs0 F rootFn hp hr s stack root ref hi
    unfold localizeRefs
    simp only
    split
    · exact hfirst
    · exact ih _ _ _ hfirst

theorem localize_keeps (E : Env) (fs0 : FS) (F : Nat) (hp : Pre E fs0) :
    ∀ fuel, Keeps E fs0 (localize E F fuel) := by
  intro fuel
  induction fuel with
  | zero => intro s stack root hi; simpa [localize] using hi
  | succ f ih =>
    intro s stack root hi
    unfold localize
    split
    · exact hi
    · rename_i name refs _
      simp only
      split
      · exact hi
      · have i1 := localizeRefs_keeps E fs0 F (localizeRootWith E F (localize E F f)) hp
          (localizeRootWith_keeps E fs0 F _ hp ih) refs s (root :: stack) root hi
        split
        · exact i1
        · exact doMut_inv E fs0 F _ (.write _ _) hp i1
            ((dstOf_prefix E root).trans (List.prefix_append _ _))

theorem inv_init (E : Env) (fs0 : FS) : Inv E fs0 { fs := fs0 } := ⟨fun _ _ => rfl, by simp⟩

/-- the state of the run keeps the invariant, whatever fails -/
theorem run_inv (E : Env) (fs0 : FS) (F fuel : Nat) (target : P) (hp : Pre E fs0) :
    Inv E fs0 (run E F fuel fs0 target).1 := by
  unfold run
  simp only
  have i0 := inv_init E fs0
  split
  · exact i0
  · have i1 := doMut_inv E fs0 F { fs := fs0 } (.mkdir E.newDir) hp i0 (List.prefix_refl _)
    split
    · exact i1
    · have hclean : ∀ s, Inv E fs0 s → Inv E fs0 (doMut F s (.removeAll E.newDir)).1 :=
        fun s hs => doMut_inv E fs0 F s _ hp hs (List.prefix_refl _)
      split
      · exact hclean _ i1
      · have i2 := doMut_inv E fs0 F _ (.mkdirAll (dstOf E target)) hp i1 (dstOf_prefix E target)
        split
        · exact hclean _ i2
        · have i3 := localize_keeps E fs0 F hp fuel _ [] target i2
          split
          · exact hclean _ i3
          · exact i3

/-- **writes_confined**: every mutating file-system operation of a localize run — successful or not, with any
    operation failing — addresses the destination directory or a path below it -/
theorem writes_confined (E : Env) (fs0 : FS) (F fuel : Nat) (target : P) (hp : Pre E fs0) :
    ∀ m ∈ (run E F fuel fs0 target).1.trace, E.newDir <+: m.path :=
  (run_inv E fs0 F fuel target hp).confined

/-- **source_unchanged**: nothing outside the destination is modified, ever -/
theorem source_unchanged (E : Env) (fs0 : FS) (F fuel : Nat) (target : P) (hp : Pre E fs0) :
    ∀ x, ¬ E.newDir <+: x → (run E F fuel fs0 target).1.fs x = fs0 x :=
  (run_inv E fs0 F fuel target hp).outside

/-- the clean-up after a failure restores the file system, unless the clean-up is the operation that fails -/
theorem cleanup_restores (E : Env) (fs0 : FS) (F : Nat) (s : St) (hp : Pre E fs0) (hi : Inv E fs0 s) (hk : s.k ≠ F) :
    ∀ x, (doMut F s (.removeAll E.newDir)).1.fs x = fs0 x := by
  intro x
  simp only [doMut, hk, if_false, applyMut]
  by_cases hx : E.newDir <+: x
  · simp [List.isPrefixOf_iff_prefix.mpr hx, hp.fresh x hx]
  · have : E.newDir.isPrefixOf x = false := by
      cases h : E.newDir.isPrefixOf x with
      | false => rfl
      | true => exact absurd (List.isPrefixOf_iff_prefix.mp h) hx
    simp [this, hi.outside x hx]

/-- the failing operation is the final RemoveAll -/
def CleanupFailed (E : Env) (F : Nat) (r : St × Bool) : Prop :=
  r.1.k = F + 1 ∧ r.1.trace.getLast? = some (.removeAll E.newDir)

theorem doMut_k (F : Nat) (s : St) (m : Mut) : (doMut F s m).1.k = s.k + 1 := by
  unfold doMut; simp only; split
  · rfl
  · split <;> rfl

theorem doMut_last (F : Nat) (s : St) (m : Mut) : (doMut F s m).1.trace.getLast? = some m := by
  unfold doMut; simp only; split
  · simp
  · split <;> simp

theorem doMut_fail_fs (F : Nat) (s : St) (m : Mut) (h : (doMut F s m).2 = false) : (doMut F s m).1.fs = s.fs := by
  unfold doMut at h ⊢; simp only at h ⊢; split
  · rfl
  · rename_i hk
    split
    · rename_i h'; simp [h', hk] at h
    · rfl

/-- **all_or_nothing**: a failed run — whichever operation failed, injected or refused by the file system, mutating
    or reading — leaves the file system exactly as it found it, provided the final RemoveAll is not itself the
    failing operation -/
theorem all_or_nothing (E : Env) (fs0 : FS) (F fuel : Nat) (target : P) (hp : Pre E fs0)
    (hfail : (run E F fuel fs0 target).2 = false) (hc : ¬ CleanupFailed E F (run E F fuel fs0 target)) :
    ∀ x, (run E F fuel fs0 target).1.fs x = fs0 x := by
  unfold run at hfail hc ⊢
  simp only at hfail hc ⊢
  have i0 := inv_init E fs0
  split
  · intro x; rfl
  · rename_i hfresh
    simp only [hfresh, if_false] at hfail hc
    have i1 := doMut_inv E fs0 F { fs := fs0 } (.mkdir E.newDir) hp i0 (List.prefix_refl _)
    -- a uniform treatment of the three clean-up exits
    have hcl : ∀ s, Inv E fs0 s → ¬ CleanupFailed E F ((doMut F s (.removeAll E.newDir)).1, false) →
        ∀ x, (doMut F s (.removeAll E.newDir)).1.fs x = fs0 x := by
      intro s hs hn
      apply cleanup_restores E fs0 F s hp hs
      intro hk
      apply hn
      exact ⟨by simp [doMut_k, hk], doMut_last F s _⟩
    split
    · rename_i h1
      intro x
      have : (doMut F { fs := fs0 } (.mkdir E.newDir)).2 = false := by simpa using h1
      rw [doMut_fail_fs F _ _ this]
    · rename_i h1
      simp only [h1, if_false] at hfail hc
      split
      · rename_i hb
        simp only [hb, if_true] at hc
        exact hcl _ i1 hc
      · rename_i hb
        simp only [hb, if_false] at hfail hc
        have i2 := doMut_inv E fs0 F _ (.mkdirAll (dstOf E target)) hp i1 (dstOf_prefix E target)
        split
        · rename_i h2
          simp only [h2, if_true] at hc
          exact hcl _ i2 hc
        · rename_i h2
          simp only [h2, if_false] at hfail hc
          have i3 := localize_keeps E fs0 F hp fuel _ [] target i2
          split
          · rename_i h3
            simp only [h3, if_true] at hc
            exact hcl _ i3 hc
          · rename_i h3
            simp only [h3, if_false] at hfail
            simp at hfail

/-! ### a concrete run (non-vacuity): the hypotheses hold and every outcome occurs -/

def exFs : FS := fun x =>
  if x = [] ∨ x = ["s"] ∨ x = ["s", "app"] ∨ x = ["s", "lib"] then some .dir
  else if x = ["s", "app", "kustomization.yaml"] then some (.file "K")
  else if x = ["s", "app", "dep.yaml"] then some (.file "D")
  else if x = ["s", "lib", "kustomization.yaml"] then some (.file "K2")
  else if x = ["s", "lib", "l.yaml"] then some (.file "L")
  else none

def exEnv : Env :=
  { scope := ["s"], newDir := ["out"],
    kust := fun r =>
      if r = ["s", "app"] then some ("kustomization.yaml", [.res "./dep.yaml", .res "../lib"])
      else if r = ["s", "lib"] then some ("kustomization.yaml", [.file "l.yaml"])
      else none,
    isRes := fun c => c = "D", bad := fun _ => false }

theorem exPre : Pre exEnv exFs := by
  constructor
  · intro x hx
    obtain ⟨t, rfl⟩ := hx
    simp [exEnv, exFs]
  · intro x hx hne
    have : x = [] := by
      rcases x with _ | ⟨a, r⟩
      · rfl
      · simp only [exEnv] at hx hne
        rw [List.cons_prefix_cons] at hx
        obtain ⟨rfl, hr⟩ := hx
        have : r = [] := List.prefix_nil.mp hr
        subst this
        exact absurd rfl hne
    subst this
    simp [exFs]

/-- the fault-free run succeeds and mirrors both roots; a failure at the 5th mutating operation is cleaned up -/
example :
    (run exEnv 1000 8 exFs ["s", "app"]).2 = true ∧
    (run exEnv 1000 8 exFs ["s", "app"]).1.fs ["out", "lib", "l.yaml"] = some (.file "L") ∧
    (run exEnv 1000 8 exFs ["s", "app"]).1.fs ["out", "app", "dep.yaml"] = some (.file "D") ∧
    (run exEnv 4 8 exFs ["s", "app"]).2 = false ∧
    (run exEnv 4 8 exFs ["s", "app"]).1.fs ["out"] = none ∧
    (run exEnv 4 8 exFs ["s", "app"]).1.trace.getLast? = some (.removeAll ["out"]) := by
  decide

end Kust.C18
