/-
  C03 (candidate clause) — which resources a referrer may name.  Theorems about `Kust.Subset.subset`, the model of
  `SubsetThatCouldBeReferencedByResource` (after fix C03-F1), tied by the correspondence `resmap.subset`.
-/
import Kust.Subset
namespace Kust.C03
open Kust Kust.Res Kust.Subset

variable (cs : Gvk → Bool)

/-- exact characterisation of the candidate subset -/
theorem subset_mem (referrer : ResId) (subjects : List Subject) (m : List ResId) (t : ResId) :
    t ∈ subset cs referrer subjects m ↔
      t ∈ m ∧ (cs referrer.gvk = true ∨ cs t.gvk = true ∨ effNs cs t = effNs cs referrer ∨
        t.ns ∈ roleBindingNamespaces referrer.gvk.kind subjects ∨
        effNs cs t ∈ roleBindingNamespaces referrer.gvk.kind subjects) := by
  unfold subset
  by_cases hc : cs referrer.gvk = true
  · simp [hc]
  · simp only [hc, Bool.false_eq_true, if_false, List.mem_filter, false_or]
    constructor
    · rintro ⟨hm, h⟩
      refine ⟨hm, ?_⟩
      simp only [Bool.or_eq_true, beq_iff_eq, List.contains_eq_mem, decide_eq_true_eq] at h
      rcases h with ((h | h) | h) | h
      · exact Or.inl h
      · exact Or.inr (Or.inl h)
      · exact Or.inr (Or.inr (Or.inl h))
      · exact Or.inr (Or.inr (Or.inr h))
    · rintro ⟨hm, h⟩
      refine ⟨hm, ?_⟩
      simp only [Bool.or_eq_true, beq_iff_eq, List.contains_eq_mem, decide_eq_true_eq]
      rcases h with h | h | h | h
      · exact Or.inl (Or.inl (Or.inl h))
      · exact Or.inl (Or.inl (Or.inr h))
      · exact Or.inl (Or.inr h)
      · exact Or.inr h

/-- the subset keeps the order of the resource map and adds nothing -/
theorem subset_sublist (referrer : ResId) (subjects : List Subject) (m : List ResId) :
    (subset cs referrer subjects m).Sublist m := by
  unfold subset
  split
  · exact List.Sublist.refl m
  · exact List.filter_sublist

/-- a cluster-scoped referrer may name anything -/
theorem cluster_referrer_sees_all (referrer : ResId) (subjects : List Subject) (m : List ResId)
    (h : cs referrer.gvk = true) : subset cs referrer subjects m = m := by
  simp [subset, h]

/-- a resource of the referrer's own (effective) namespace is always a candidate: `""` and `default` are one namespace -/
theorem same_namespace_candidate (referrer : ResId) (subjects : List Subject) (m : List ResId) (t : ResId)
    (ht : t ∈ m) (hn : effNs cs t = effNs cs referrer) : t ∈ subset cs referrer subjects m :=
  (subset_mem cs referrer subjects m t).2 ⟨ht, Or.inr (Or.inr (Or.inl hn))⟩

/-- **a subject's account is a candidate** (C03-F1): for a RoleBinding anywhere, an account in the namespace a
    ServiceAccount subject spells out is a candidate — also when the account itself is written without a namespace
    and the subject says `default` -/
theorem subject_account_candidate (referrer : ResId) (subjects : List Subject) (m : List ResId) (t : ResId) (n : String)
    (hk : referrer.gvk.kind = "RoleBinding") (hs : ("ServiceAccount", some n) ∈ subjects)
    (ht : t ∈ m) (hn : t.ns = n ∨ effNs cs t = n) : t ∈ subset cs referrer subjects m := by
  have hmem : n ∈ roleBindingNamespaces referrer.gvk.kind subjects := by
    simp only [roleBindingNamespaces, hk, ne_eq, not_true_eq_false, if_false, List.mem_filterMap]
    exact ⟨("ServiceAccount", some n), hs, by simp⟩
  refine (subset_mem cs referrer subjects m t).2 ⟨ht, ?_⟩
  rcases hn with h | h
  · exact Or.inr (Or.inr (Or.inr (Or.inl (h ▸ hmem))))
  · exact Or.inr (Or.inr (Or.inr (Or.inr (h ▸ hmem))))

/-- a namespaced resource of ANOTHER namespace that no subject names is not a candidate -/
theorem other_namespace_excluded (referrer : ResId) (subjects : List Subject) (m : List ResId) (t : ResId)
    (h1 : cs referrer.gvk = false) (h2 : cs t.gvk = false) (h3 : effNs cs t ≠ effNs cs referrer)
    (h4 : t.ns ∉ roleBindingNamespaces referrer.gvk.kind subjects)
    (h5 : effNs cs t ∉ roleBindingNamespaces referrer.gvk.kind subjects) : t ∉ subset cs referrer subjects m := by
  intro h
  rcases (subset_mem cs referrer subjects m t).1 h with ⟨_, h | h | h | h | h⟩
  · rw [h1] at h; cases h
  · rw [h2] at h; cases h
  · exact h3 h
  · exact h4 h
  · exact h5 h

/-- the situation of C03-F1: binding in `ns2`, subject `{ServiceAccount app, namespace: default}`, account `app` without a namespace -/
example :
    let cs : Gvk → Bool := fun _ => false
    let rb : ResId := ⟨⟨"rbac.authorization.k8s.io", "v1", "RoleBinding"⟩, "rb", "ns2"⟩
    let sa : ResId := ⟨⟨"", "v1", "ServiceAccount"⟩, "app", ""⟩
    let other : ResId := ⟨⟨"", "v1", "ServiceAccount"⟩, "app", "ns3"⟩
    subset cs rb [("ServiceAccount", some "default"), ("User", none)] [sa, other] = [sa] := by decide

end Kust.C03
