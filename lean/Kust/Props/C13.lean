/-
  C13 — YAML streams round-trip; package writes stay inside the package.  PARTIAL: preservation of data and
  comments BY go-yaml is assumed (sampled by the oracle), not proved.
  * `split_lossless`: splitting a stream into documents and separators loses no byte (for every stream);
  * `pkg_write_confined`: for EVERY path annotation value that passes the writer's checks the written file lies
    below the package directory; values that are absolute or contain `..` after cleaning are rejected.
-/
import Kust.Kio
namespace Kust.C13
open Kust Kio Path

theorem untilNewline_spec (cs line rest : List Char) (h : untilNewline cs = some (line, rest)) :
    cs = line ++ '\n' :: rest := by
  induction cs generalizing line with
  | nil => simp [untilNewline] at h
  | cons c r ih =>
    by_cases hc : c = '\n'
    · subst hc; simp [untilNewline] at h; obtain ⟨h1, h2⟩ := h; subst h1 h2; rfl
    · have : untilNewline (c :: r) = (untilNewline r).map fun (a, b) => (c :: a, b) := by
        cases c using Char.rec; simp_all [untilNewline]
      rw [this] at h
      cases hu : untilNewline r with
      | none => simp [hu] at h
      | some ab =>
        obtain ⟨a, b⟩ := ab
        simp [hu] at h
        obtain ⟨h1, h2⟩ := h
        subst h1 h2
        rw [ih a hu]; rfl

theorem startsSep_spec (cs r : List Char) (h : startsSep cs = some r) : cs = '\n' :: '-' :: '-' :: '-' :: r := by
  unfold startsSep at h
  split at h
  · simp at h; subst h; rfl
  · simp at h

/-- **split_lossless**: documents and separators, put back in order, are the original stream -/
theorem scan_flatten : ∀ (f : Nat) (cs cur : List Char), flatten (scan f cs cur) = cur.reverse ++ cs
  | 0, cs, cur => by simp [scan, flatten]
  | f + 1, [], cur => by simp [scan, flatten]
  | f + 1, c :: r, cur => by
    simp only [scan]
    cases hs : startsSep (c :: r) with
    | none => simp only [scan_flatten f r (c :: cur)]; simp
    | some r' =>
      simp only
      cases hu : untilNewline r' with
      | none => simp only [scan_flatten f r (c :: cur)]; simp
      | some lr =>
        obtain ⟨line, rest⟩ := lr
        simp only [flatten, scan_flatten f rest []]
        rw [startsSep_spec _ _ hs, untilNewline_spec r' line rest hu]
        simp

theorem split_lossless (s : List Char) : flatten (pieces s) = s := by
  simp [pieces, scan_flatten]

/-! ### package writes -/

theorem dotdot_stays : ∀ (segs acc : List String), ".." ∈ acc → ".." ∈ cleanSegs false acc segs
  | [], acc, h => by simpa [cleanSegs] using h
  | s :: r, acc, h => by
    unfold cleanSegs
    split
    · exact dotdot_stays r acc h
    · split
      · cases acc with
        | nil => simp at h
        | cons a acc' =>
          by_cases ha : a = ".."
          · simp only [ha, if_true]; exact dotdot_stays r _ (by simp)
          · simp only [ha, if_false]
            exact dotdot_stays r acc' (by
              rcases List.mem_cons.mp h with h1 | h1
              · exact absurd h1.symm ha
              · exact h1)
      · exact dotdot_stays r (s :: acc) (by simp [h])

/-- cleaning below a base directory: if the relative spelling never climbs out (its cleaned form has no `..`
    segment), cleaning it on top of `base` leaves `base` untouched underneath -/
theorem cleanSegs_base : ∀ (segs acc base : List String), (∀ a ∈ acc, a ≠ "..") →
    ".." ∉ cleanSegs false acc segs →
    cleanSegs true (acc ++ base) segs = base.reverse ++ cleanSegs false acc segs
  | [], acc, base, _, _ => by simp [cleanSegs]
  | s :: r, acc, base, hacc, hno => by
    unfold cleanSegs at hno ⊢
    by_cases h1 : s = "" ∨ s = "."
    · simp only [h1, if_true] at hno ⊢
      exact cleanSegs_base r acc base hacc hno
    · simp only [h1, if_false] at hno ⊢
      by_cases h2 : s = ".."
      · simp only [h2, if_true] at hno ⊢
        cases acc with
        | nil =>
          simp only [Bool.false_eq_true, if_false] at hno
          exact absurd (dotdot_stays r [".."] (by simp)) hno
        | cons a acc' =>
          have ha : a ≠ ".." := hacc a (by simp)
          simp only [ha, if_false, List.cons_append] at hno ⊢
          exact cleanSegs_base r acc' base (fun x hx => hacc x (by simp [hx])) hno
      · simp only [h2, if_false] at hno ⊢
        have := cleanSegs_base r (s :: acc) base (by
          intro x hx
          rcases List.mem_cons.mp hx with rfl | hx
          · exact h2
          · exact hacc x hx) hno
        simpa using this

theorem not_containsDotDot_ne (s : String) (h : containsDotDot s.toList = false) : s ≠ ".." := by
  intro e; subst e; simp [containsDotDot] at h

/-- **pkg_write_confined**: whatever the path annotation says — absolute, `../..`, `a/../../b`, anything — if the
    writer accepts it, the file it writes lies below the package directory. -/
theorem pkg_write_confined (pkg : List String) (path : String) (h : pkgPathOk path = true) :
    pkg <+: pkgTarget pkg path := by
  unfold pkgPathOk at h
  simp only [Bool.and_eq_true, Bool.not_eq_true', List.any_eq_false] at h
  have hno : ".." ∉ cleanSegs false [] (segments path) := by
    intro hm
    have := h.2 ".." hm
    simp [containsDotDot] at this
  unfold pkgTarget
  have := cleanSegs_base (segments path) [] pkg.reverse (by simp) hno
  simp only [List.nil_append, List.reverse_reverse] at this
  rw [this]
  exact List.prefix_append _ _

/-- absolute path annotations are always rejected -/
theorem pkg_rejects_absolute (path : String) (h : isAbs path = true) : pkgPathOk path = false := by
  simp [pkgPathOk, h]

/-- kernel-evaluated instances of the writer's verdict -/
example : pkgPathOk "a/b.yaml" = true ∧ pkgPathOk "../x.yaml" = false ∧ pkgPathOk "a/../../x.yaml" = false ∧
    pkgPathOk "/etc/passwd" = false ∧ pkgPathOk "a/../b.yaml" = true ∧ pkgPathOk "a..b.yaml" = false := by decide

/-- the read-writer deletes `files(read) \\ files(written)`: as long as the paths recorded at READ time are the ones
    the reader stamped (relative, inside the package: `pkgPathOk`), every deletion is below the package directory —
    whatever annotations the written resources carry.  (The hypothesis is what `OmitReaderAnnotations` must not defeat:
    seeded change C13b forwards that option and the oracle's read-write mode catches it.) -/
theorem pkg_delete_confined (pkg : List String) (files newFiles : List String)
    (h : ∀ f ∈ files, pkgPathOk f = true) :
    ∀ f ∈ files.filter (fun x => !newFiles.contains x), pkg <+: pkgTarget pkg f := by
  intro f hf
  exact pkg_write_confined pkg f (h f (List.mem_filter.mp hf).1)


/-! ### writer and reader agree on the document boundaries -/

theorem startsSep_append (x t : List Char) (hx : x ≠ []) (h : startsSep x = none) : startsSep (x ++ '\n' :: t) = none := by
  cases hs : startsSep (x ++ '\n' :: t) with
  | none => rfl
  | some r =>
    exfalso
    have e := startsSep_spec _ _ hs
    match x, hx, h with
    | [a], _, _ => simp at e
    | [a, b], _, _ => simp at e
    | [a, b, c], _, _ => simp at e
    | a :: b :: c :: d :: y, _, h =>
      simp at e
      obtain ⟨e1, e2, e3, e4, _⟩ := e
      subst e1 e2 e3 e4
      simp [startsSep] at h

theorem scan_body : ∀ (b : List Char) (f : Nat) (cur t : List Char), noSep b = true → f ≥ b.length →
    scan f (b ++ '\n' :: t) cur = scan (f - b.length) ('\n' :: t) (b.reverse ++ cur) := by
  intro b
  induction b with
  | nil => intro f cur t _ _; simp
  | cons c r ih =>
    intro f cur t hn hf
    simp only [noSep, Bool.and_eq_true, Option.isNone_iff_eq_none] at hn
    obtain ⟨f', rfl⟩ : ∃ f', f = f' + 1 := ⟨f - 1, by simp at hf; omega⟩
    have hs : startsSep ((c :: r) ++ '\n' :: t) = none := startsSep_append (c :: r) t (by simp) hn.1
    simp only [List.cons_append] at hs ⊢
    simp only [scan, hs]
    rw [ih f' (c :: cur) t hn.2 (by simp at hf; omega)]
    simp

theorem emit_length_pos (b : List Char) (r : List (List Char)) : (emit (b :: r)).length ≥ b.length + 1 := by
  cases r with
  | nil => simp [emit]
  | cons c r => simp [emit]

theorem scan_emit : ∀ (bs : List (List Char)) (f : Nat), bs ≠ [] → (∀ b ∈ bs, noSep b = true) → f ≥ (emit bs).length + 1 →
    docsOf (scan f (emit bs) []) = readBack bs := by
  intro bs
  induction bs with
  | nil => intro f h; exact absurd rfl h
  | cons b r ih =>
    intro f _ hall hf
    have hb := hall b (by simp)
    cases r with
    | nil =>
      simp only [emit, readBack] at hf ⊢
      rw [scan_body b f [] [] hb (by simp at hf; omega)]
      obtain ⟨n, hn⟩ : ∃ n, f - b.length = n + 1 := ⟨f - b.length - 1, by simp at hf; omega⟩
      rw [hn]
      have hs : startsSep ['\n'] = none := by decide
      simp only [scan, hs, List.append_nil]
      cases n with
      | zero => simp [scan, docsOf]
      | succ m => simp [scan, docsOf]
    | cons c r' =>
      simp only [emit, readBack] at hf ⊢
      rw [scan_body b f [] _ hb (by simp at hf; omega)]
      obtain ⟨n, hn⟩ : ∃ n, f - b.length = n + 1 := ⟨f - b.length - 1, by simp at hf; omega⟩
      rw [hn]
      have hs : startsSep ('\n' :: '-' :: '-' :: '-' :: '\n' :: emit (c :: r')) = some ('\n' :: emit (c :: r')) := rfl
      have hu : untilNewline ('\n' :: emit (c :: r')) = some ([], emit (c :: r')) := rfl
      simp only [scan, hs, hu, docsOf, List.append_nil, List.reverse_reverse]
      congr 1
      exact ih n (by simp) (fun x hx => hall x (by simp [hx])) (by simp at hf; omega)

/-- **what the writer emits, the reader splits back into the same documents**: texts that contain no `\n---` line start,
    written one after the other with `---` lines in between, are split by the reader at exactly these lines — same number
    of documents, same order, same text (the last one keeps its final line break) -/
theorem emit_read_back (bs : List (List Char)) (hne : bs ≠ []) (hall : ∀ b ∈ bs, noSep b = true) :
    docsOf (pieces (emit bs)) = readBack bs :=
  scan_emit bs _ hne hall (by simp)

example : docsOf (pieces (emit ["a: 1".toList, "b: |+\n  x\n\n".toList, "c: 3".toList]))
    = ["a: 1".toList, "b: |+\n  x\n\n".toList, "c: 3\n".toList] := by decide


end Kust.C13
