/-
  C09 (subjects clause, tree level) — "ServiceAccount subjects of role bindings that designate accounts of the build
  move with them … cluster-scoped resources receive no namespace".  Theorems about `Kust.NsFilter`, the model of
  api/filters/namespace (Filter.run, metaNamespaceHack, roleBindingHack), tied by the correspondence `ns.filter`.
  `q` (yaml.IsValueNonString) is a parameter of every statement.
-/
import Kust.Lemmas.NsFilter
import Kust.Gen.FieldSpecs
namespace Kust.C09
open Kust Node Fns NsFilter

/-- the subject `o'` is the subject `.map s fs` with its `namespace` set to the directive's and nothing else changed -/
def Moved (c : Cfg) (s : Nat) (fs : Fields) (o' : Node) : Prop :=
  ∃ fs', o' = .map s fs' ∧ (∃ t st, fieldGet "namespace" fs' = some (.scalar t c.ns st)) ∧
    ∀ k, k ≠ "namespace" → fieldGet k fs' = fieldGet k fs

/-- the `namespace` of a subject can be written: it is absent or a scalar (null included) -/
def NsWritable (fs : Fields) : Prop :=
  fieldGet "namespace" fs = none ∨ ∃ t v st, fieldGet "namespace" fs = some (.scalar t v st)

theorem setNamespaceField_moves (q : String → Bool) (c : Cfg) (hu : c.unsetOnly = false) (s : Nat) (fs : Fields)
    (hns : NsWritable fs) : ∃ o', setNamespaceField q c (.map s fs) = .ok o' ∧ Moved c s fs o' := by
  unfold setNamespaceField
  rw [lookup_plain_create q "namespace" plain_namespace]
  rcases hns with h | ⟨t, v, st, h⟩
  · rw [h]
    obtain ⟨t', st', hs⟩ := setFn_scalar q c "" "" 0 (Or.inl hu)
    simp only [hs]
    refine ⟨_, rfl, _, rfl, ⟨t', st', ?_⟩, ?_⟩
    · exact fieldGet_replace_same _ _ _ _ (fieldGet_append_absent _ _ _ h)
    · intro k hk
      rw [fieldGet_replace_other _ _ _ _ hk, fieldGet_append_other _ _ _ _ hk]
  · rw [h]
    obtain ⟨t', st', hs⟩ := setFn_scalar q c t v st (Or.inl hu)
    simp only [hs]
    refine ⟨_, rfl, _, rfl, ⟨t', st', ?_⟩, ?_⟩
    · exact fieldGet_replace_same _ _ _ _ h
    · intro k hk
      rw [fieldGet_replace_other _ _ _ _ hk]

/-- does the subject carry the scalar `want` in `field`?  (what `Lookup(field), Match(want)` decides on a mapping) -/
def Carries (field want : String) (fs : Fields) : Prop :=
  ∃ t st, fieldGet field fs = some (.scalar t want st) ∧ t ≠ "!!null"

/-- … or certainly not: the field is absent, null, or a scalar with another text -/
def CarriesNot (field want : String) (fs : Fields) : Prop :=
  fieldGet field fs = none ∨ ∃ t v st, fieldGet field fs = some (.scalar t v st) ∧ (t = "!!null" ∨ v ≠ want)

theorem subjectHas_yes (q : String → Bool) (field want : String) (hp : Plain field) (s : Nat) (fs : Fields)
    (h : Carries field want fs) : subjectHas q field want (.map s fs) = .ok true := by
  obtain ⟨t, st, hg, ht⟩ := h
  unfold subjectHas
  rw [lookup_plain_nocreate q field hp, hg]
  simp [fieldMatcher, isNull, ht, isMissingOrNull]

theorem subjectHas_no (q : String → Bool) (field want : String) (hp : Plain field) (s : Nat) (fs : Fields)
    (h : CarriesNot field want fs) : subjectHas q field want (.map s fs) = .ok false := by
  unfold subjectHas
  rw [lookup_plain_nocreate q field hp]
  rcases h with hg | ⟨t, v, st, hg, hh⟩
  · rw [hg]; simp [fieldMatcher, isMissingOrNull]
  · rw [hg]
    rcases hh with ht | hv
    · simp [fieldMatcher, isNull, ht, isMissingOrNull]
    · by_cases ht : t = "!!null"
      · simp [fieldMatcher, isNull, ht, isMissingOrNull]
      · simp [fieldMatcher, isNull, ht, hv, isMissingOrNull]

/-- **default mode: subjects named `default` move.**  In the default subject mode (unspecified / defaultOnly) a
    subject whose `name` is the scalar `default` gets the directive's namespace — created if absent, overwritten if
    present — and keeps every other field. -/
theorem subject_named_default_moves (q : String → Bool) (c : Cfg) (hm : c.mode = 0) (hu : c.unsetOnly = false)
    (s : Nat) (fs : Fields) (hname : Carries "name" "default" fs) (hns : NsWritable fs) :
    ∃ o', visitSubject q c (.map s fs) = .ok o' ∧ Moved c s fs o' := by
  unfold visitSubject
  simp only [hm, show (0 : Nat) ≠ 2 by decide, if_false, subjectHas_yes q "name" "default" plain_name s fs hname]
  exact setNamespaceField_moves q c hu s fs hns

/-- … **and no other subject is touched** in that mode, whatever its kind -/
theorem subject_not_default_untouched (q : String → Bool) (c : Cfg) (hm : c.mode = 0)
    (s : Nat) (fs : Fields) (hname : CarriesNot "name" "default" fs) :
    visitSubject q c (.map s fs) = .ok (.map s fs) := by
  unfold visitSubject
  simp only [hm, show (0 : Nat) ≠ 2 by decide, if_false, subjectHas_no q "name" "default" plain_name s fs hname]

/-- **all-service-accounts mode: every ServiceAccount subject moves**, whatever its name … -/
theorem service_account_subject_moves (q : String → Bool) (c : Cfg) (hm : c.mode = 2) (hu : c.unsetOnly = false)
    (s : Nat) (fs : Fields) (hkind : Carries "kind" "ServiceAccount" fs) (hns : NsWritable fs) :
    ∃ o', visitSubject q c (.map s fs) = .ok o' ∧ Moved c s fs o' := by
  unfold visitSubject
  simp only [hm, if_true, subjectHas_yes q "kind" "ServiceAccount" plain_kind s fs hkind]
  exact setNamespaceField_moves q c hu s fs hns

/-- … and users, groups and subjects without a kind are left alone -/
theorem other_kind_subject_untouched (q : String → Bool) (c : Cfg) (hm : c.mode = 2)
    (s : Nat) (fs : Fields) (hkind : CarriesNot "kind" "ServiceAccount" fs) :
    visitSubject q c (.map s fs) = .ok (.map s fs) := by
  unfold visitSubject
  simp only [hm, if_true, subjectHas_no q "kind" "ServiceAccount" plain_kind s fs hkind]

/-- **mode `none` changes no role binding** -/
theorem no_subjects_mode_noop (q : String → Bool) (c : Cfg) (hm : c.mode = 1) (obj : Node) :
    roleBindingHack q c obj = .ok obj := by
  simp [roleBindingHack, hm]

/-- **the subject pass touches `subjects` only, element by element**: when it succeeds on a binding, every other
    field of the binding is as before, the list keeps its length and order, and each element is what the visitor of
    the mode makes of it (so, by the theorems above: moved, or untouched). -/
theorem roleBindingHack_frame (q : String → Bool) (c : Cfg) (ms : Nat) (fs : Fields) (o' : Node)
    (h : roleBindingHack q c (.map ms fs) = .ok o') :
    ∃ fs', o' = .map ms fs' ∧ (∀ k, k ≠ "subjects" → fieldGet k fs' = fieldGet k fs) ∧
      ∀ s is, fieldGet "subjects" fs = some (.seq s is) → c.mode ≠ 1 →
        ∃ is', fieldGet "subjects" fs' = some (.seq s is') ∧ is'.length = is.length ∧
          ∀ (i : Nat) (e : Node), is[i]? = some e → ∃ e', is'[i]? = some e' ∧ visitSubject q c e = .ok e' := by
  unfold roleBindingHack at h
  by_cases h1 : c.mode = 1
  · simp [h1] at h; subst h
    exact ⟨fs, rfl, fun _ _ => rfl, fun _ _ _ hc => absurd h1 hc⟩
  · simp only [h1, if_false] at h
    by_cases h3 : c.mode ≥ 3
    · simp [h3] at h
    · simp only [h3, if_false] at h
      rw [lookup_plain_nocreate q "subjects" plain_subjects] at h
      cases hs : fieldGet "subjects" fs with
      | none =>
        simp [hs] at h; subst h
        exact ⟨fs, rfl, fun _ _ => rfl, fun _ _ hc => by simp at hc⟩
      | some subj =>
        simp only [hs] at h
        by_cases hn : subj.isNull
        · simp [hn] at h; subst h
          refine ⟨fs, rfl, fun _ _ => rfl, ?_⟩
          intro s is hc _
          simp at hc; subst hc; simp [isNull] at hn
        · simp only [hn, Bool.false_eq_true, if_false] at h
          cases subj with
          | scalar t v st => simp at h
          | map s2 f2 => simp at h
          | seq s is =>
            simp only at h
            cases hv : visitAll (visitSubject q c) is with
            | err e => simp [hv] at h
            | panic e => simp [hv] at h
            | ok is' =>
              simp only [hv] at h
              simp at h; subst h
              obtain ⟨hl, hi⟩ := visitAll_spec _ is is' hv
              refine ⟨_, rfl, fun k hk => fieldGet_replace_other _ _ _ _ hk, ?_⟩
              intro s' is0 hc _
              simp at hc
              obtain ⟨e1, e2⟩ := hc
              subst e1; subst e2
              exact ⟨is', fieldGet_replace_same _ _ _ _ hs, hl, hi⟩

/-- **cluster-scoped resources receive no namespace**: the metadata pass leaves them alone … -/
theorem cluster_scoped_meta_untouched (q : String → Bool) (c : Cfg) (g v k : String) (obj : Node) :
    metaHack q c true g v k obj = .ok obj := by
  simp [metaHack]

/-- … and a cluster-scoped resource that is no role binding and for which no configured field spec remains is
    returned exactly as it came -/
theorem cluster_scoped_untouched (q : String → Bool) (c : Cfg) (av g v k : String) (obj : Node)
    (hk : isRoleBinding k = false) (hs : dropMeta av c.specs = []) :
    run q c true av g v k obj = .ok obj := by
  simp [run, metaHack, hk, hs, applySpecs]

/-- the `metadata/namespace` entries of the configuration are never applied generically (only through the
    scope-aware metadata pass) -/
theorem dropMeta_no_meta_namespace (av : String) (fs : List Gen.FieldSpec) :
    ∀ f ∈ dropMeta av fs, f.path ≠ "metadata/namespace" := by
  intro f hf
  simp [dropMeta] at hf
  exact hf.2.1

/-- **a namespaced resource moves**: for a resource that is not cluster-scoped and has a `metadata` mapping, the
    metadata pass sets `metadata.namespace` to the directive's namespace — created if absent, overwritten if present
    (null included) — and leaves every other field of the metadata, and every other field of the resource, alone -/
theorem meta_namespace_moves (q : String → Bool) (c : Cfg) (hu : c.unsetOnly = false) (g v k : String)
    (s : Nat) (fs : Fields) (ms : Nat) (mfs : Fields) (hmeta : fieldGet "metadata" fs = some (.map ms mfs))
    (hns : NsWritable mfs) :
    ∃ m', metaHack q c false g v k (.map s fs) = .ok (.map s (fieldReplace "metadata" m' fs)) ∧ Moved c ms mfs m' := by
  have hps : FieldSpec.pathSplit "metadata/namespace" = ["metadata", "namespace"] := by decide
  have hsf1 : FieldSpec.seqField "metadata" = ("metadata", false) := by decide
  have hsf2 : FieldSpec.seqField "namespace" = ("namespace", false) := by decide
  have hc1 : classify (trimSpace "metadata") = .ok (.field "metadata") := by decide
  have hc2 : classify (trimSpace "namespace") = .ok (.field "namespace") := by decide
  unfold metaHack FieldSpec.apply
  simp only [Bool.false_eq_true, if_false, FieldSpec.matchGVK, hps]
  have hfuel : (Node.map s fs).size + ["metadata", "namespace"].length + 2 = ((Node.map s fs).size + 3) + 1 := by simp
  simp only [decide_true, Bool.true_or, Bool.and_self, Bool.not_true, Bool.false_eq_true, if_false, hfuel]
  rw [filter_step q _ true ⟨1, ""⟩ _ "metadata" ["namespace"] s fs _ hsf1 (by decide) plain_metadata hc1 hmeta]
  have hrt : FieldSpec.retype 2 "!!map" (.map ms mfs) = .map ms mfs := by simp [FieldSpec.retype, isNull]
  simp only [Bool.not_true, Bool.false_or, show ((1 : Nat) = 0) = False by simp, decide_false, Bool.false_eq_true, if_false,
    show (["namespace"] = ([] : List String)) = False by simp, hrt]
  rcases hns with h | ⟨t, v', st, h⟩
  · have hf2 : (Node.map s fs).size + 3 = ((Node.map s fs).size + 1) + 2 := by omega
    rw [hf2, filter_create_last q _ "" _ "namespace" ms mfs hsf2 (by decide) plain_namespace hc2 h]
    obtain ⟨t', st', hs⟩ := setFn_scalar q c "" "" 0 (Or.inl hu)
    simp only [hs]
    refine ⟨_, rfl, _, rfl, ⟨t', st', ?_⟩, ?_⟩
    · exact fieldGet_replace_same _ _ _ _ (fieldGet_append_absent _ _ _ h)
    · intro k hk
      rw [fieldGet_replace_other _ _ _ _ hk, fieldGet_append_other _ _ _ _ hk]
  · have hf2 : (Node.map s fs).size + 3 = ((Node.map s fs).size + 2) + 1 := by omega
    rw [hf2, filter_step q _ true ⟨1, ""⟩ _ "namespace" [] ms mfs _ hsf2 (by decide) plain_namespace hc2 h]
    simp only [Bool.not_true, Bool.false_or, show ((1 : Nat) = 0) = False by simp, decide_false, Bool.false_eq_true, if_false, if_true]
    have hrt2 : ∃ t2, FieldSpec.retype 1 "" (.scalar t v' st) = .scalar t2 v' st := by
      unfold FieldSpec.retype
      split
      · exact ⟨"", by simp [valueText, style]⟩
      · exact ⟨t, rfl⟩
    obtain ⟨t2, hr2⟩ := hrt2
    rw [hr2, filter_nil]
    obtain ⟨t', st', hs⟩ := setFn_scalar q c t2 v' st (Or.inl hu)
    simp only [hs]
    refine ⟨_, rfl, _, rfl, ⟨t', st', ?_⟩, ?_⟩
    · exact fieldGet_replace_same _ _ _ _ h
    · intro k hk
      rw [fieldGet_replace_other _ _ _ _ hk]


theorem applySpecs_nomatch (q : String → Bool) (c : Cfg) (g v k : String) : ∀ (l : List Gen.FieldSpec) (obj : Node),
    (∀ f ∈ l, FieldSpec.matchGVK f g v k = false) → applySpecs q c g v k l obj = .ok obj := by
  intro l
  induction l with
  | nil => intro obj _; rfl
  | cons f fs ih =>
    intro obj h
    have hf : FieldSpec.apply q (setFn q c) f { kind := 1, tag := "!!str" } g v k obj = .ok obj := by
      simp [FieldSpec.apply, h f (by simp)]
    simp only [applySpecs, hf]
    exact ih obj (fun x hx => h x (by simp [hx]))

/-- **… and nothing else happens to it**: for a resource that is no role binding and whose kind none of the remaining
    configured field specs names, the whole filter is the metadata pass (with the two theorems above: a namespaced
    resource ends in the directive's namespace with everything else as before, a cluster-scoped one is unchanged) -/
theorem run_is_meta_pass (q : String → Bool) (c : Cfg) (cluster : Bool) (av g v k : String) (obj : Node)
    (hk : isRoleBinding k = false) (hs : ∀ f ∈ dropMeta av c.specs, FieldSpec.matchGVK f g v k = false) :
    run q c cluster av g v k obj = metaHack q c cluster g v k obj := by
  unfold run
  simp only [hk, Bool.false_eq_true, if_false]
  cases hm : metaHack q c cluster g v k obj with
  | err e => rfl
  | panic e => rfl
  | ok o1 => exact applySpecs_nomatch q c g v k _ o1 hs

/-- the hypothesis is met by the built-in namespace configuration (regenerated table) for, e.g., a Deployment -/
example : ∀ f ∈ dropMeta "apps/v1" Gen.namespaceSpecs, FieldSpec.matchGVK f "apps" "v1" "Deployment" = false := by decide

/-- **unsetOnly never overwrites**: a scalar that already has a value is kept as it is -/
theorem unset_only_keeps (q : String → Bool) (c : Cfg) (hu : c.unsetOnly = true) (t v : String) (st : Nat)
    (ht : (t == "!!null") = false) (hv : v ≠ "") : setFn q c (.scalar t v st) = .ok (.scalar t v st) := by
  apply setFn_keeps q c _ hu
  simp [hasExisting, nilOrEmpty, ht, hv]

/-- the premises are satisfiable and the modes differ on a real binding -/
example :
    let q : String → Bool := fun _ => false
    let sub (k n : String) : Node := .map 0 [("kind", .scalar "!!str" k 0), ("name", .scalar "!!str" n 0)]
    let moved (k n : String) : Node := .map 0 [("kind", .scalar "!!str" k 0), ("name", .scalar "!!str" n 0), ("namespace", .scalar "!!str" "prod" 0)]
    let rb : Node := .map 0 [("kind", .scalar "!!str" "RoleBinding" 0),
      ("subjects", .seq 0 [sub "ServiceAccount" "default", sub "ServiceAccount" "builder", sub "User" "default"])]
    roleBindingHack q ⟨"prod", false, 0, []⟩ rb = .ok (.map 0 [("kind", .scalar "!!str" "RoleBinding" 0),
      ("subjects", .seq 0 [moved "ServiceAccount" "default", sub "ServiceAccount" "builder", moved "User" "default"])]) ∧
    roleBindingHack q ⟨"prod", false, 2, []⟩ rb = .ok (.map 0 [("kind", .scalar "!!str" "RoleBinding" 0),
      ("subjects", .seq 0 [moved "ServiceAccount" "default", moved "ServiceAccount" "builder", sub "User" "default"])]) := by
  decide

end Kust.C09
