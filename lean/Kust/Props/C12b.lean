/-
  C12 (termination clause: "never … a hang") — the expansion of CRD type definitions into field specs ends, for every
  set of type definitions, recursive ones included; before fix C12-F17 it did not.
  Theorems about `Kust.CrdConfig`, the model of loadconfigfromcrds.go, tied by the correspondence `crd.config`
  (through the verif-tagged hook `krusty.VerifCrdConfig`).
-/
import Kust.CrdConfig
namespace Kust.C12
open Kust CrdConfig

/-- the types that can still be entered: keys of the definitions that are not on the current path -/
def rem (m : Types) (onPath : List String) : Nat := ((m.map (·.1)).filter (fun k => decide (k ∉ onPath))).length

theorem findT_mem (m : Types) (t : String) (ps : List P) (h : findT m t = some ps) : t ∈ m.map (·.1) := by
  unfold findT at h
  cases hf : m.find? (·.1 == t) with
  | none => simp [hf] at h
  | some e =>
    have hm := List.mem_of_find?_eq_some hf
    have hk := List.find?_some hf
    simp at hk
    exact List.mem_map.mpr ⟨e, hm, hk⟩

theorem filter_cons_le (l P : List String) (t : String) :
    (l.filter (fun k => decide (k ∉ t :: P))).length ≤ (l.filter (fun k => decide (k ∉ P))).length := by
  induction l with
  | nil => simp
  | cons a r ih =>
    simp only [List.filter_cons]
    by_cases h1 : a ∈ P
    · have h2 : a ∈ t :: P := by simp [h1]
      simp [h1, h2]; simpa using ih
    · by_cases h3 : a = t
      · subst h3; simp [h1]; have := ih; simp at this; omega
      · have h2 : a ∉ t :: P := by simp [h1, h3]
        simp [h1, h2]; simpa using ih

theorem filter_cons_lt (l P : List String) (t : String) (ht : t ∈ l) (hn : t ∉ P) :
    (l.filter (fun k => decide (k ∉ t :: P))).length < (l.filter (fun k => decide (k ∉ P))).length := by
  induction l with
  | nil => simp at ht
  | cons a r ih =>
    simp only [List.filter_cons]
    by_cases ha : a = t
    · subst ha
      have := filter_cons_le r P a
      simp [hn]; simp at this; omega
    · have ht' : t ∈ r := by
        rcases List.mem_cons.mp ht with h | h
        · exact absurd h.symm ha
        · exact h
      have := ih ht'
      by_cases h1 : a ∈ P
      · have h2 : a ∈ t :: P := by simp [h1]
        simp [h1, h2]; simpa using this
      · have h2 : a ∉ t :: P := by simp [h1, ha]
        simp [h1, h2]; simp at this; omega

theorem rem_cons_lt (m : Types) (onPath : List String) (t : String) (ps : List P) (h : findT m t = some ps)
    (hn : onPath.contains t = false) : rem m (t :: onPath) < rem m onPath :=
  filter_cons_lt _ onPath t (findT_mem m t ps h) (by simpa using hn)

theorem rem_le (m : Types) (onPath : List String) : rem m onPath ≤ m.length := by
  unfold rem
  calc _ ≤ (m.map (·.1)).length := List.length_filter_le _ _
    _ = m.length := by simp

/-- one more unit of fuel changes nothing once the fuel exceeds the number of types that can still be entered -/
theorem expand_succ (m : Types) (kind : String) : ∀ (f : Nat) (onPath : List String) (t : String) (path : List String),
    f ≥ rem m onPath + 1 → expand m kind (f + 1) onPath t path = expand m kind f onPath t path := by
  intro f
  induction f with
  | zero => intro onPath t path h; omega
  | succ f ih =>
    intro onPath t path h
    rw [expand, expand]
    cases hf : findT m t with
    | none => rfl
    | some ps =>
      simp only
      cases hc : onPath.contains t with
      | true => simp
      | false =>
        simp only [Bool.false_eq_true, if_false]
        have hlt := rem_cons_lt m onPath t ps hf hc
        congr 1
        funext p
        congr 1
        cases p.ref with
        | none => rfl
        | some r => exact ih (t :: onPath) r (path ++ [p.name]) (by omega)

/-- **the expansion ends**: whatever the type definitions — types that refer to themselves, to each other, to types
    that do not exist — the result is the same for every fuel above the number of definitions: no expansion path is
    longer than the number of types, so the recursion of the code (which has no fuel) returns -/
theorem crd_expansion_terminates (m : Types) (kind t : String) (k : Nat) :
    expand m kind (m.length + 1 + k) [] t [] = expand m kind (m.length + 1) [] t [] := by
  induction k with
  | zero => rfl
  | succ k ih =>
    rw [← ih]
    have := rem_le m []
    exact expand_succ m kind (m.length + 1 + k) [] t [] (by omega)

/-- the self-referring type of finding C12-F17 -/
def selfRef : Types := [("example.com/v1.Node", [⟨"child", true, false, false, none, some "example.com/v1.Node"⟩])]

/-- **before the fix nothing sufficed**: on the self-referring type every extra unit of fuel yields one more field
    spec (`child`, `child/child`, …) — the recursion of the old code never returned (fatal stack overflow) -/
theorem Witness.old_expansion_unbounded : ∀ (f : Nat) (path : List String),
    (expandOld selfRef "Node" f "example.com/v1.Node" path).length = f := by
  intro f
  induction f with
  | zero => intro path; rfl
  | succ f ih =>
    intro path
    have hf : findT selfRef "example.com/v1.Node" = some [⟨"child", true, false, false, none, some "example.com/v1.Node"⟩] := by decide
    rw [expandOld, hf]
    simp [propSpecs, ih]

/-- … while the repaired expansion of the same definitions is one spec, for every fuel ≥ 2 -/
example : ∀ k, expand selfRef "Node" (2 + k) [] "example.com/v1.Node" [] = [Spec.anno "Node" "child"] := by
  intro k
  rw [show 2 + k = selfRef.length + 1 + k by simp [selfRef],
    crd_expansion_terminates selfRef "Node" "example.com/v1.Node" k]
  decide

end Kust.C12
