/-
  C14 (path syntax) — theorems about `Kust.PathSplit`, the model of utils.PathSplitter / SmarterPathSplitter, tied by
  the correspondence `path.split`.
-/
import Kust.PathSplit
namespace Kust.C14
open Kust Kust.PathSplit

theorem go_chars (sep : Char) : ∀ (cs cur : List Char) (p : String), p ∈ Str.splitChar.go sep cs cur →
    ∀ c ∈ p.toList, c ∈ cs ∨ c ∈ cur := by
  intro cs
  induction cs with
  | nil => intro cur p hp c hc; simp [Str.splitChar.go] at hp; subst hp; simp at hc; exact Or.inr hc
  | cons x xs ih =>
    intro cur p hp c hc
    simp only [Str.splitChar.go] at hp
    split at hp
    · simp at hp
      rcases hp with e | hp
      · subst e; simp at hc; exact Or.inr hc
      · rcases ih [] p hp c hc with h | h
        · exact Or.inl (by simp [h])
        · simp at h
    · rcases ih (x :: cur) p hp c hc with h | h
      · exact Or.inl (by simp [h])
      · simp at h; rcases h with h | h
        · exact Or.inl (by simp [h])
        · exact Or.inr h

theorem splitChar_chars (sep : Char) (s p : String) (hp : p ∈ Str.splitChar sep s) : ∀ c ∈ p.toList, c ∈ s.toList := by
  intro c hc
  rcases go_chars sep s.toList [] p hp c hc with h | h
  · exact h
  · simp at h

theorem not_hasSuffix_backslash (p : String) (h : '\\' ∉ p.toList) : Str.hasSuffix p "\\" = false := by
  unfold Str.hasSuffix
  cases hr : p.toList.reverse with
  | nil => simp [Str.isPrefixL]
  | cons c cs =>
    have hc : c ∈ p.toList := by
      have : c ∈ p.toList.reverse := by rw [hr]; simp
      simpa using this
    have : c ≠ '\\' := fun e => h (e ▸ hc)
    have hb : "\\".toList.reverse = ['\\'] := by decide
    rw [hb]
    simp [Str.isPrefixL, Ne.symm this]

theorem merge_plain (d : Char) : ∀ (ps acc : List String), (∀ p ∈ ps, '\\' ∉ p.toList) → (∀ p ∈ acc, '\\' ∉ p.toList) →
    merge d acc ps = acc.reverse ++ ps := by
  intro ps
  induction ps with
  | nil => intro acc _ _; simp [merge]
  | cons p r ih =>
    intro acc hps hacc
    cases acc with
    | nil =>
      simp only [merge]
      rw [ih [p] (fun q hq => hps q (by simp [hq])) (by intro q hq; simp at hq; subst hq; exact hps _ (by simp))]
      simp
    | cons last acc =>
      simp only [merge]
      rw [not_hasSuffix_backslash last (hacc last (by simp))]
      simp only [Bool.false_eq_true, if_false]
      rw [ih (p :: last :: acc) (fun q hq => hps q (by simp [hq])) (by
        intro q hq; simp at hq
        rcases hq with e | e | hq
        · subst e; exact hps _ (by simp)
        · subst e; exact hacc _ (by simp)
        · exact hacc q (by simp [hq]))]
      simp

theorem dropLead_mem (l : List String) (p : String) (h : p ∈ dropLead l) : p ∈ l := by
  unfold dropLead at h
  split at h
  · simp at h ⊢; exact Or.inr h
  · exact h

/-- **without escapes the splitter is plain splitting** (a leading delimiter aside): a path that contains no backslash is
    split exactly at its delimiters -/
theorem split_plain (d : Char) (path : String) (h : '\\' ∉ path.toList) :
    split d path = dropLead (Str.splitChar d path) := by
  unfold split
  rw [merge_plain d _ [] (fun p hp hc => h (splitChar_chars d path p (dropLead_mem _ p hp) _ hc)) (by simp)]
  simp

/-- … and an escaped delimiter joins: `a\/b\/c` is ONE element however many delimiters it contains -/
example : split '/' "metadata/annotations/a\\/b\\/c" = ["metadata", "annotations", "a/b/c"] ∧
          split '.' "metadata.labels.app\\.kubernetes\\.io/name" = ["metadata", "labels", "app.kubernetes.io/name"] ∧
          smarter '.' "spec.containers.[name=a.b].image" = ["spec", "containers", "[name=a.b]", "image"] ∧
          split '/' "/a/b" = ["a", "b"] := by decide

end Kust.C14
