/-
  C14 (path syntax) — theorems about `Kust.PathSplit`, the model of utils.PathSplitter / SmarterPathSplitter, tied by
  the correspondence `path.split`.
-/
import Kust.PathSplit
import Kust.Lemmas.PathSplit
namespace Kust.C14
open Kust Kust.PathSplit

theorem go_chars (sep : Char) : ∀ (cs cur : List Char) (p : String), p ∈ Str.splitChar.go sep cs cur →
    ∀ c ∈ p.toList, c ∈ cs ∨ c ∈ cur := by
  intro cs
  induction cs with
  | nil => intro cur p hp c hc; simp [Str.splitChar.go] at hp; subst hp; simp at hc; exact Or.inr hc
  | cons x xs ih =>
    intro cur p hp c hc
    simp only [Str.splitChar.go] at hp
    split at hp
    · simp at hp
      rcases hp with e | hp
      · subst e; simp at hc; exact Or.inr hc
      · rcases ih [] p hp c hc with h | h
        · exact Or.inl (by simp [h])
        · simp at h
    · rcases ih (x :: cur) p hp c hc with h | h
      · exact Or.inl (by simp [h])
      · simp at h; rcases h with h | h
        · exact Or.inl (by simp [h])
        · exact Or.inr h

theorem splitChar_chars (sep : Char) (s p : String) (hp : p ∈ Str.splitChar sep s) : ∀ c ∈ p.toList, c ∈ s.toList := by
  intro c hc
  rcases go_chars sep s.toList [] p hp c hc with h | h
  · exact h
  · simp at h

theorem not_hasSuffix_backslash (p : String) (h : '\\' ∉ p.toList) : Str.hasSuffix p "\\" = false := by
  unfold Str.hasSuffix
  cases hr : p.toList.reverse with
  | nil => simp [Str.isPrefixL]
  | cons c cs =>
    have hc : c ∈ p.toList := by
      have : c ∈ p.toList.reverse := by rw [hr]; simp
      simpa using this
    have : c ≠ '\\' := fun e => h (e ▸ hc)
    have hb : "\\".toList.reverse = ['\\'] := by decide
    rw [hb]
    simp [Str.isPrefixL, Ne.symm this]

theorem merge_plain (d : Char) : ∀ (ps acc : List String), (∀ p ∈ ps, '\\' ∉ p.toList) → (∀ p ∈ acc, '\\' ∉ p.toList) →
    merge d acc ps = acc.reverse ++ ps := by
  intro ps
  induction ps with
  | nil => intro acc _ _; simp [merge]
  | cons p r ih =>
    intro acc hps hacc
    cases acc with
    | nil =>
      simp only [merge]
      rw [ih [p] (fun q hq => hps q (by simp [hq])) (by intro q hq; simp at hq; subst hq; exact hps _ (by simp))]
      simp
    | cons last acc =>
      simp only [merge]
      rw [not_hasSuffix_backslash last (hacc last (by simp))]
      simp only [Bool.false_eq_true, if_false]
      rw [ih (p :: last :: acc) (fun q hq => hps q (by simp [hq])) (by
        intro q hq; simp at hq
        rcases hq with e | e | hq
        · subst e; exact hps _ (by simp)
        · subst e; exact hacc _ (by simp)
        · exact hacc q (by simp [hq]))]
      simp

theorem dropLead_mem (l : List String) (p : String) (h : p ∈ dropLead l) : p ∈ l := by
  unfold dropLead at h
  split at h
  · simp at h ⊢; exact Or.inr h
  · exact h

/-- **without escapes the splitter is plain splitting** (a leading delimiter aside): a path that contains no backslash is
    split exactly at its delimiters -/
theorem split_plain (d : Char) (path : String) (h : '\\' ∉ path.toList) :
    split d path = dropLead (Str.splitChar d path) := by
  unfold split
  rw [merge_plain d _ [] (fun p hp hc => h (splitChar_chars d path p (dropLead_mem _ p hp) _ hc)) (by simp)]
  simp

/-- … and an escaped delimiter joins: `a\/b\/c` is ONE element however many delimiters it contains -/
example : split '/' "metadata/annotations/a\\/b\\/c" = ["metadata", "annotations", "a/b/c"] ∧
          split '.' "metadata.labels.app\\.kubernetes\\.io/name" = ["metadata", "labels", "app.kubernetes.io/name"] ∧
          smarter '.' "spec.containers.[name=a.b].image" = ["spec", "containers", "[name=a.b]", "image"] ∧
          split '/' "/a/b" = ["a", "b"] := by decide


/-- escape every delimiter of an element -/
def esc (d : Char) : List Char → List Char
  | [] => []
  | c :: cs => if c = d then '\\' :: d :: esc d cs else c :: esc d cs

/-- scanning an escaped element never closes a piece: it just appends the element to the open piece, provided no
    backslash of the element sits right before one of its own delimiters being… (handled by the general statement:
    the open piece after the element is `e.reverse ++ cur`) -/
theorem scan_esc (d : Char) (hd : d ≠ '\\') : ∀ (e cur rest : List Char),
    scan d (esc d e ++ rest) cur = scan d rest (e.reverse ++ cur) := by
  intro e
  induction e with
  | nil => intro cur rest; simp [esc]
  | cons c cs ih =>
    intro cur rest
    by_cases hc : c = d
    · subst hc
      have h1 : esc c (c :: cs) = '\\' :: c :: esc c cs := by simp [esc]
      rw [h1]
      have hb : ('\\' : Char) ≠ c := fun e => hd e.symm
      simp only [List.cons_append, scan, hb, if_false, if_true]
      rw [ih]
      simp
    · have h1 : esc d (c :: cs) = c :: esc d cs := by simp [esc, hc]
      rw [h1]
      simp only [List.cons_append, scan, hc, if_false]
      rw [ih]
      simp

/-- joining escaped elements with the delimiter -/
def joinEsc (d : Char) : List (List Char) → List Char
  | [] => []
  | [e] => esc d e
  | e :: f :: r => esc d e ++ d :: joinEsc d (f :: r)

/-- **escaping is the inverse of splitting** (character level): a list of elements, none of which ends in a backslash,
    written with its delimiters escaped and joined by the delimiter, scans back into exactly these elements — however
    many delimiters an element contains. -/
theorem scan_joinEsc (d : Char) (hd : d ≠ '\\') : ∀ (es : List (List Char)), es ≠ [] →
    (∀ e ∈ es, e.getLast? ≠ some '\\') → scan d (joinEsc d es) [] = es := by
  intro es
  induction es with
  | nil => intro h; exact absurd rfl h
  | cons e r ih =>
    intro _ hall
    cases r with
    | nil =>
      have := scan_esc d hd e [] []
      simp at this
      simp [joinEsc, this, scan]
    | cons f r' =>
      have hj : joinEsc d (e :: f :: r') = esc d e ++ d :: joinEsc d (f :: r') := by simp [joinEsc]
      rw [hj, scan_esc d hd e [] (d :: joinEsc d (f :: r'))]
      simp only [List.append_nil, scan, if_true]
      have hlast : e.getLast? ≠ some '\\' := hall e (by simp)
      have hne : ∀ cur', e.reverse ≠ '\\' :: cur' := by
        intro cur' he
        apply hlast
        have : e = (('\\' : Char) :: cur').reverse := by rw [← he]; simp
        rw [this]; simp
      split
      · rename_i cur' heq; exact absurd heq (hne cur')
      · rw [ih (by simp) (fun x hx => hall x (by simp [hx]))]
        simp

/-- an element with three delimiters survives the round trip as ONE element -/
example : scan '/' (joinEsc '/' ["metadata".toList, "a/b/c/d".toList, "x".toList]) []
    = ["metadata".toList, "a/b/c/d".toList, "x".toList] := by decide


/-- **a key with any number of delimiters is addressable**: elements written with their delimiters escaped and joined
    by the delimiter are split back into exactly these elements (first element non-empty, none ending in a backslash) -/
theorem splitScan_joinEsc (d : Char) (hd : d ≠ '\\') (es : List (List Char)) (hne : es ≠ [])
    (hall : ∀ e ∈ es, e.getLast? ≠ some '\\') (hfirst : ∀ e, es.head? = some e → e ≠ []) :
    splitScan d (String.ofList (joinEsc d es)) = es.map String.ofList := by
  unfold splitScan
  simp only [String.toList_ofList]
  have hstart : ∀ r, joinEsc d es ≠ d :: r := by
    intro r
    cases es with
    | nil => exact absurd rfl hne
    | cons e rest =>
      have he := hfirst e rfl
      cases e with
      | nil => exact absurd rfl he
      | cons c cs =>
        have hesc : ∃ x tl, esc d (c :: cs) = x :: tl ∧ x ≠ d := by
          by_cases hc : c = d
          · exact ⟨'\\', d :: esc d cs, by simp [esc, hc], fun e => hd e.symm⟩
          · exact ⟨c, esc d cs, by simp [esc, hc], hc⟩
        obtain ⟨x, tl, e1, e2⟩ := hesc
        cases rest with
        | nil => simp [joinEsc, e1]; intro h; exact absurd h e2
        | cons f r' => simp [joinEsc, e1]; intro h; exact absurd h e2
  have : skipLead d (joinEsc d es) = joinEsc d es := by
    cases hj : joinEsc d es with
    | nil => rfl
    | cons c r =>
      have : c ≠ d := fun e => hstart r (by rw [hj, e])
      simp [skipLead, this]
  rw [this, scan_joinEsc d hd es hne hall]

/-- **the splitter written like the Go code IS the scan**: splitting at every delimiter and re-joining the pieces whose
    predecessor ends in a backslash (`PathSplitter`'s two loops, model `split`) computes, for every path and every
    delimiter, what one left-to-right scan computes -/
theorem split_is_scan (d : Char) (path : String) : split d path = splitScan d path :=
  split_eq_splitScan d path

/-- … so the round trip holds of the Go-shaped model itself: elements written with their delimiters escaped and joined
    by the delimiter are split back into exactly these elements, however many delimiters each contains -/
theorem split_joinEsc (d : Char) (hd : d ≠ '\\') (es : List (List Char)) (hne : es ≠ [])
    (hall : ∀ e ∈ es, e.getLast? ≠ some '\\') (hfirst : ∀ e, es.head? = some e → e ≠ []) :
    split d (String.ofList (joinEsc d es)) = es.map String.ofList := by
  rw [split_is_scan]; exact splitScan_joinEsc d hd es hne hall hfirst

theorem smarterGo_plain (d : Char) : ∀ (l : List String), (∀ e ∈ l, Str.hasPrefix e "[" = false) →
    smarterGo d none l = l := by
  intro l
  induction l with
  | nil => intro _; simp [smarterGo]
  | cons e r ih =>
    intro h
    simp only [smarterGo, h e (by simp), Bool.false_and, Bool.false_eq_true, if_false]
    rw [ih (fun x hx => h x (by simp [hx]))]

/-- **without brackets the smarter splitter is the splitter**: when no element starts with `[`, the bracket handling
    changes nothing -/
theorem smarter_plain (d : Char) (path : String) (h : ∀ e ∈ split d path, Str.hasPrefix e "[" = false) :
    smarter d path = split d path := by
  unfold smarter; exact smarterGo_plain d _ h

example : split '/' (String.ofList (joinEsc '/' ["metadata".toList, "a/b/c/d".toList, "x".toList]))
    = ["metadata", "a/b/c/d", "x"] := by decide

end Kust.C14
