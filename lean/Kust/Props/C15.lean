/-
  C15 — three-way merge honours the basic merge laws.
  Model: `Walk.merge3` (walker + merge3.Visitor, tied by component walk.merge3).
  `ser a b` = "RNode.String() of a and b (forced style) are equal": third-party emitter, a parameter with the one
  assumed property that a node's text equals its own text (`SerRefl`).

  The full laws are FALSE of the code (and of the model) — kept as statements, refuted by kernel-evaluated
  witnesses — so the proved theorems are the `_partial` ones: the leaf decisions (`visitScalar`, non-associative
  lists) obey all laws on null-free inputs, and the precise places where the map/keyed-list decisions break them
  are theorems too (`map_missing_dest_creates_empty`, `alist_missing_dest_creates_empty`).
-/
import Kust.Walk
namespace Kust.C15
open Kust Node Walk

def SerRefl (ser : Option Node → Option Node → Bool) : Prop := ∀ a, ser a a = true

/-- the model's structural stand-in for the emitter (used by the driver and the witnesses) -/
def ser0 : Option Node → Option Node → Bool
  | none, none => true
  | some (.scalar _ v _), some (.scalar _ w _) => v == w
  | some a, some b => decide (a.withStyle 0 = b.withStyle 0)
  | _, _ => false

theorem ser0_refl : SerRefl ser0 := by
  intro a
  cases a with
  | none => rfl
  | some n => cases n <;> simp [ser0]

def o0 : Opts := { infer := false, prepend := false, ns := fun _ => false }
def m3 (d o u : Node) : Out (Option Node) := merge3 ser0 o0 ["name"] 64 (some d) (some o) (some u)

/-! ### full statements (false today) and their witnesses -/

/-- law 1, full strength: nothing changed upstream ⇒ the result is local -/
def Law1_full : Prop := ∀ l o : Node, m3 l o o = .ok (some l)
/-- law 2, full strength: nothing changed locally ⇒ the result is upstream -/
def Law2_full : Prop := ∀ o u : Node, m3 o o u = .ok (some u)

def wO : Node := .map 0 [("a", .map 0 [("x", .scalar "!!str" "1" 0)]), ("b", .scalar "!!str" "v" 0)]
def wL : Node := .map 0 [("b", .scalar "!!str" "v" 0)]

/-- finding 6a: a map deleted locally and unchanged upstream comes back as `{}` -/
theorem Witness.local_map_deletion_leaves_empty :
    m3 wL wO wO = .ok (some (.map 0 [("b", .scalar "!!str" "v" 0), ("a", .map 0 [])])) := by decide

theorem Law1_full_false : ¬ Law1_full := by
  intro h
  have := h wL wO
  rw [Witness.local_map_deletion_leaves_empty] at this
  exact absurd this (by decide)

/-- finding 6b: a map removed upstream (local unchanged) leaves `{}` behind -/
theorem Witness.upstream_map_deletion_leaves_empty :
    m3 wO wO wL = .ok (some (.map 0 [("a", .map 0 []), ("b", .scalar "!!str" "v" 0)])) := by decide

theorem Law2_full_false : ¬ Law2_full := by
  intro h
  have := h wO wL
  rw [Witness.upstream_map_deletion_leaves_empty] at this
  exact absurd this (by decide)

/-- finding 6c: a scalar whose TYPE changes upstream ("1" → 1) keeps the old type: the value text is equal, so
    `VisitScalar` keeps the destination node with its old tag and quotes -/
theorem Witness.scalar_type_not_updated :
    m3 (.map 0 [("n", .scalar "!!str" "1" 2)]) (.map 0 [("n", .scalar "!!str" "1" 2)]) (.map 0 [("n", .scalar "!!int" "1" 0)])
      = .ok (some (.map 0 [("n", .scalar "!!str" "1" 2)])) := by decide

/-! ### the leaf decisions obey the laws -/

variable (ser : Option Node → Option Node → Bool)

def nonNull (n : Node) : Prop := n.isNull = false

/-- **law 1 at a scalar**: upstream unchanged ⇒ the local value (present or absent) is the result -/
theorem scalar_local (hs : SerRefl ser) (l : Option Node) (o : Node) (ho : nonNull o)
    (hl : ∀ n, l = some n → nonNull n) :
    ((visitor3 ser).visitScalar false [l, some o, some o]).bind (fun r => .ok r.node) = .ok l := by
  have ho' : o.isNull = false := ho
  cases l with
  | none => simp [visitor3, dst, src1, src2, isTaggedNull, isMissingOrNull, ho', hs (some o), Out.bind]
  | some n =>
    have hn : n.isNull = false := hl n rfl
    simp [visitor3, dst, src1, src2, isTaggedNull, isMissingOrNull, ho', hn, hs (some o), Out.bind]

/-- **law 2 at a scalar**: local unchanged ⇒ the upstream value is the result, when upstream changed the text;
    when the text is unchanged the destination node is kept (this is where finding 6c lives) -/
theorem scalar_upstream (o u : Node) (ho : nonNull o) (hu : nonNull u) (hne : ser (some o) (some u) = false) (hs : SerRefl ser) :
    ((visitor3 ser).visitScalar false [some o, some o, some u]).bind (fun r => .ok r.node) = .ok (some u) := by
  have ho' : o.isNull = false := ho
  have hu' : u.isNull = false := hu
  simp [visitor3, dst, src1, src2, isTaggedNull, isMissingOrNull, ho', hu', hs (some o), hne, Out.bind]

/-- **law 3 at a scalar** -/
theorem scalar_same (hs : SerRefl ser) (d : Node) (hd : nonNull d) :
    ((visitor3 ser).visitScalar false [some d, some d, some d]).bind (fun r => .ok r.node) = .ok (some d) :=
  scalar_local ser hs (some d) d hd (fun n h => by cases h; exact hd)

/-- **one-sided removal at a scalar**: removed upstream, untouched locally ⇒ removed -/
theorem scalar_removed_upstream (o : Node) (ho : nonNull o) :
    ((visitor3 ser).visitScalar false [some o, some o, none]).bind (fun r => .ok r.node) = .ok none := by
  have ho' : o.isNull = false := ho
  simp [visitor3, dst, src1, src2, isTaggedNull, isMissingOrNull, ho', Out.bind]

/-- **one-sided addition at a scalar**: added upstream ⇒ present -/
theorem scalar_added_upstream (u : Node) (hu : nonNull u) :
    ((visitor3 ser).visitScalar false [none, none, some u]).bind (fun r => .ok r.node) = .ok (some u) := by
  have hu' : u.isNull = false := hu
  simp [visitor3, dst, src1, src2, isTaggedNull, isMissingOrNull, hu', Out.bind]

/-- **atomic lists**: unchanged upstream ⇒ local list kept; changed upstream ⇒ upstream list -/
theorem nalist_local (hs : SerRefl ser) (l o : Node) (hl : nonNull l) (ho : nonNull o) :
    ((visitor3 ser).visitList false [some l, some o, some o] false).bind (fun r => .ok r.node) = .ok (some l) := by
  have ho' : o.isNull = false := ho
  have hl' : l.isNull = false := hl
  simp [visitor3, dst, src1, src2, isTaggedNull, isMissingOrNull, ho', hl', hs (some o), Out.bind]

theorem nalist_upstream (o u : Node) (ho : nonNull o) (hu : nonNull u) (hne : ser (some u) (some o) = false) :
    ((visitor3 ser).visitList false [some o, some o, some u] false).bind (fun r => .ok r.node) = .ok (some u) := by
  have ho' : o.isNull = false := ho
  have hu' : u.isNull = false := hu
  simp [visitor3, dst, src1, src2, isTaggedNull, isMissingOrNull, ho', hu', hne, Out.bind]

/-! ### where the container decisions break the laws (root cause of finding 6) -/

/-- `VisitMap` materialises an empty map for a destination that lacks the field as soon as EITHER other side has
    it — also when the local side deleted it on purpose. -/
theorem map_missing_dest_creates_empty (o u : Node) (hu : nonNull u) :
    ((visitor3 ser).visitMap false [none, some o, some u]).bind (fun r => .ok r.node) = .ok (some (.map 0 [])) := by
  have hu' : u.isNull = false := hu
  simp [visitor3, dst, src2, isTaggedNull, hu', Out.bind]

theorem alist_missing_dest_creates_empty (o u : Node) (hu : nonNull u) :
    ((visitor3 ser).visitList false [none, some o, some u] true).bind (fun r => .ok r.node) = .ok (some (.seq 0 [])) := by
  have hu' : u.isNull = false := hu
  simp [visitor3, dst, src1, src2, isMissingOrNull, hu', Out.bind]

/-- positive instances evaluated in the kernel: one-sided edits on both sides survive together -/
example :
    m3 (.map 0 [("a", .scalar "!!str" "L" 0), ("b", .scalar "!!str" "v" 0)])
       (.map 0 [("a", .scalar "!!str" "x" 0), ("b", .scalar "!!str" "v" 0)])
       (.map 0 [("a", .scalar "!!str" "x" 0), ("b", .scalar "!!str" "U" 0), ("c", .scalar "!!int" "3" 0)])
    = .ok (some (.map 0 [("a", .scalar "!!str" "L" 0), ("b", .scalar "!!str" "U" 0), ("c", .scalar "!!int" "3" 0)])) := by
  decide

end Kust.C15
