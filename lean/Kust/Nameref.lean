/-
  Kust.Nameref — how a name reference picks its referent: `selectReferral` of api/filters/nameref/nameref.go with its
  sieves (`previousNameMatches`, `previousIdSelectedByGvk`, `roleRefFilter`, `sameCurrentNamespaceAsReferrer`,
  `prefixSuffixEquals` via `Resource.PrefixesSuffixesEquals` / `utils.SameEndingSubSlice`) for a scalar name field
  (`setScalar`: candidates are interchangeable when their names agree).
  A candidate is what the sieves look at: current id, previous ids, accumulated prefixes and suffixes.
  `cs` = `IsClusterScoped`, a parameter (regenerated scope table ⊕ schema).
-/
import Kust.Res
namespace Kust
namespace Nameref
open Res

structure C where
  cur : ResId
  prev : List ResId := []
  prefixes : List String := []
  suffixes : List String := []
  deriving DecidableEq, Repr, Inhabited

/-- `Gvk.IsSelected(selector)`: empty selector fields are wild cards -/
def gvkSelected (x sel : Gvk) : Bool :=
  (sel.group = "" || x.group = sel.group) && (sel.version = "" || x.version = sel.version) && (sel.kind = "" || x.kind = sel.kind)

/-- `utils.SameEndingSubSlice` -/
def sameEnding (a b : List String) : Bool :=
  let (s, l) := if a.length > b.length then (b, a) else (a, b)
  if s.length = 0 then l.length = 0 else l.drop (l.length - s.length) = s

/-- `Resource.PrefixesSuffixesEquals` -/
def prefSufEq (r o : C) (allowEmpty : Bool) : Bool :=
  if allowEmpty then
    ((r.prefixes.isEmpty || o.prefixes.isEmpty) || sameEnding r.prefixes o.prefixes) &&
    ((r.suffixes.isEmpty || o.suffixes.isEmpty) || sameEnding r.suffixes o.suffixes)
  else sameEnding r.prefixes o.prefixes && sameEnding r.suffixes o.suffixes

/-- `sameCurrentNamespaceAsReferrer` -/
def sameNs (cs : Gvk → Bool) (ref r : C) : Bool :=
  cs ref.cur.gvk || cs r.cur.gvk || r.cur.gvk.kind = "ServiceAccount" || effNs cs ref.cur = effNs cs r.cur

/-- the four sieves every candidate must pass, whatever its prefixes and suffixes -/
def base (cs : Gvk → Bool) (ref : C) (target : Gvk) (roleRef : Option Gvk) (oldName : String) (r : C) : Bool :=
  r.prev.any (fun id => id.name = oldName) &&
  r.prev.any (fun id => gvkSelected id.gvk target) &&
  (match roleRef with
    | some g => r.prev.any (fun id => gvkSelected id.gvk g)
    | none => true) &&
  sameNs cs ref r

inductive Pick where
  | none                   -- nothing to do: the field is left as written
  | one (c : C)            -- the referent whose current name is written
  | many                   -- "found multiple possible referrals": the build fails
  deriving DecidableEq, Repr

/-- `selectReferral` with `allNamesAreTheSame` -/
def selectReferral (cs : Gvk → Bool) (ref : C) (target : Gvk) (roleRef : Option Gvk) (oldName : String)
    (cands : List C) : Pick :=
  let c1 := cands.filter (base cs ref target roleRef oldName)
  match c1 with
  | [x] => .one x
  | _ =>
    let c2 := c1.filter (fun r => prefSufEq r ref true)
    let c3 := if c2.length > 1 then c2.filter (fun r => prefSufEq r ref false) else c2
    match c3 with
    | [] => .none
    | [x] => .one x
    | x :: rest => if rest.all (fun y => y.cur.name = x.cur.name) then .one x else .many

/-- what `setScalar` writes into the field -/
def newName (cs : Gvk → Bool) (ref : C) (target : Gvk) (roleRef : Option Gvk) (oldName : String) (cands : List C) :
    Out String :=
  match selectReferral cs ref target roleRef oldName cands with
  | .none => .ok oldName
  | .one c => .ok c.cur.name
  | .many => .err "multiple"

end Nameref
end Kust
