/-
  `refvar.DoReplacements` (api/filters/refvar/expand.go): `$(NAME)` is replaced by the mapping's value, `$$` is an
  escaped `$`, any other `$` stays.  A string that is exactly one reference yields the mapped value itself (possibly
  not a string); otherwise the result is text.  Strings are ASCII here (the Go code works on bytes).
-/
import Kust.Node
namespace Kust.RefVar

/-- split at the first `)`: the name and what follows the closer -/
def readName : List Char → List Char → Option (List Char × List Char)
  | _, [] => none
  | acc, c :: cs => if c = ')' then some (acc.reverse, cs) else readName (c :: acc) cs

theorem readName_length (acc : List Char) : ∀ (cs : List Char) (n r : List Char), readName acc cs = some (n, r) → r.length < cs.length := by
  intro cs
  induction cs generalizing acc with
  | nil => intro n r h; simp [readName] at h
  | cons c cs ih =>
    intro n r h
    simp only [readName] at h
    split at h
    · simp at h; rw [← h.2]; simp
    · have := ih _ n r h; simp; omega

/-- the text produced by the scanning loop -/
def expandL (mapping : String → String) : Nat → List Char → List Char
  | 0, cs => cs
  | _ + 1, [] => []
  | _ + 1, ['$'] => ['$']
  | fuel + 1, '$' :: '$' :: rest => '$' :: expandL mapping fuel rest
  | fuel + 1, '$' :: '(' :: rest =>
    (match readName [] rest with
     | some (name, after) => (mapping (String.ofList name)).toList ++ expandL mapping fuel after
     | none => '$' :: '(' :: expandL mapping fuel rest)
  | fuel + 1, '$' :: c :: rest => '$' :: c :: expandL mapping fuel rest
  | fuel + 1, c :: rest => c :: expandL mapping fuel rest

inductive Result where
  | whole (name : String)      -- the input is exactly `$(name)`: the mapped value itself is returned
  | text (s : String)
deriving DecidableEq, Repr

def doReplL (mapping : String → String) (cs : List Char) : Result :=
  match cs with
  | '$' :: '(' :: rest =>
    (match readName [] rest with
     | some (name, []) => .whole (String.ofList name)
     | _ => .text (String.ofList (expandL mapping (cs.length + 1) cs)))
  | _ => .text (String.ofList (expandL mapping (cs.length + 1) cs))

def doReplacements (mapping : String → String) (input : String) : Result := doReplL mapping input.toList

end Kust.RefVar
