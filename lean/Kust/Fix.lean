/-
  Kust.Fix — the deprecated-spelling normalisations of api/types/kustomization.go
  (`FixKustomization` at load time, `FixKustomizationPreMarshalling` for `kustomize edit fix`),
  `FsSlice.MergeAll/MergeOne` (api/types/fieldspec.go), and the order in which a kustomization's fields become
  transformer runs (`configureBuiltinTransformers`, the REGENERATED `Gen.transformerOrder`, and the label
  configurator of kusttarget_configplugin.go).
  Values this code never inspects (image entries, generator bodies, patch targets, …) are opaque strings.
-/
import Kust.Node
import Kust.Tables
import Kust.Gen.Lists
import Kust.Gen.FieldSpecs
namespace Kust
namespace Fix
open Gen

structure GenArgs where
  body : String          -- everything but the env sources
  envs : List String
  env : String
  deriving DecidableEq, Repr

structure Label where
  pairs : List (String × String)
  incSel : Bool
  incTpl : Bool
  fields : List FieldSpec
  deriving DecidableEq, Repr

structure Patch where
  path : String
  patch : String
  target : String        -- "" = no target; otherwise opaque
  options : String
  deriving DecidableEq, Repr

structure K where
  kind : String := ""
  apiVersion : String := ""
  resources : List String := []
  bases : List String := []
  images : List String := []
  imageTags : List String := []
  cms : List GenArgs := []
  secrets : List GenArgs := []
  commonLabels : List (String × String) := []
  labels : List Label := []
  psm : List String := []
  patches : List Patch := []
  pj : List Patch := []
  deriving DecidableEq, Repr

def fixGen (g : GenArgs) : GenArgs :=
  if g.env ≠ "" then { g with envs := g.envs ++ [g.env], env := "" } else g

/-- `Kustomization.FixKustomization` (helm fields are outside the model) -/
def fixLoad (k : K) : K :=
  let kind := if k.kind = "" then "Kustomization" else k.kind
  let apiVersion := if k.apiVersion = "" then
      (if kind = "Component" then "kustomize.config.k8s.io/v1alpha1" else "kustomize.config.k8s.io/v1beta1")
    else k.apiVersion
  { k with kind := kind, apiVersion := apiVersion,
           resources := k.resources ++ k.bases, bases := [],
           images := k.images ++ k.imageTags, imageTags := [],
           cms := k.cms.map fixGen, secrets := k.secrets.map fixGen }

/-- `Kustomization.FixKustomizationPreMarshalling`; `isFile` = "ReadFile succeeds".
    `none` = the error "label name exists in both commonLabels and labels". -/
def fixPre (isFile : String → Bool) (k : K) : Option K :=
  let patches := k.patches ++ k.pj ++ k.psm.map fun s =>
    if isFile s then { path := s, patch := "", target := "", options := "" }
    else { path := "", patch := s, target := "", options := "" }
  let k := { k with patches := patches, pj := [], psm := [] }
  if k.commonLabels.isEmpty then some k
  else if k.labels.any (fun l => l.pairs.any fun p => k.commonLabels.any fun q => q.1 = p.1) then none
  else some { k with labels := k.labels ++ [{ pairs := k.commonLabels, incSel := true, incTpl := false, fields := [] }],
                     commonLabels := [] }

/-! ### FsSlice.MergeAll -/

/-- `existing.effectivelyEquals(incoming)`: the incoming gvk is the *selector* -/
def effEq (x y : FieldSpec) : Bool :=
  (y.group = "" || x.group = y.group) && (y.version = "" || x.version = y.version) &&
  (y.kind = "" || x.kind = y.kind) && x.path = y.path

def mergeOne (s : List FieldSpec) (x : FieldSpec) : Option (List FieldSpec) :=
  match s.find? (fun e => effEq e x) with
  | some e => if e.create = x.create then some s else none
  | none => some (s ++ [x])

def mergeAll : List FieldSpec → List FieldSpec → Option (List FieldSpec)
  | s, [] => some s
  | s, x :: r => match mergeOne s x with
    | some s' => mergeAll s' r
    | none => none

/-! ### the run plan -/

inductive Step where
  | psm (s : String)
  | patch (p : Patch)
  | ns | pre | suf | annos | replicas | replacement
  | label (pairs : List (String × String)) (fs : List FieldSpec)
  | pj (p : Patch)
  | images (is : List String)
  | bad                               -- configuration error (conflicting field specs)
  deriving DecidableEq, Repr

structure TC where
  labels : List FieldSpec             -- `labels:` section of the transformer configuration
  commonLabels : List FieldSpec
  templateLabels : List FieldSpec

def labelStep (tc : TC) (l : Label) : Step :=
  match mergeAll l.fields tc.labels with
  | none => .bad
  | some fss =>
    if l.incSel then
      match mergeAll fss tc.commonLabels with
      | some f => .label l.pairs f
      | none => .bad
    else
      let r := if l.incTpl then mergeAll fss tc.templateLabels else some fss
      match r with
      | none => .bad
      | some fss => match mergeOne fss ⟨"", "", "", "metadata/labels", true⟩ with
        | some f => .label l.pairs f
        | none => .bad

/-- what one built-in transformer type contributes (the configurators of kusttarget_configplugin.go) -/
def stepsOf (tc : TC) (k : K) : String → List Step
  | "PatchStrategicMergeTransformer" => k.psm.map .psm
  | "PatchTransformer" => k.patches.map .patch
  | "NamespaceTransformer" => [.ns]
  | "PrefixTransformer" => [.pre]
  | "SuffixTransformer" => [.suf]
  | "LabelTransformer" =>
    if k.labels.isEmpty && k.commonLabels.isEmpty then []
    else k.labels.map (labelStep tc) ++ [.label k.commonLabels tc.commonLabels]
  | "AnnotationsTransformer" => [.annos]
  | "PatchJson6902Transformer" => k.pj.map .pj
  | "ReplicaCountTransformer" => [.replicas]
  | "ImageTagTransformer" => [.images k.images]
  | "ReplacementTransformer" => [.replacement]
  | _ => []

def planWith (order : List String) (tc : TC) (k : K) : List Step := order.flatMap (stepsOf tc k)

def plan (tc : TC) (k : K) : List Step := planWith Gen.transformerOrder tc k

/-- running a plan: `sem` is the (third-party, here opaque) effect of one transformer run on the resources -/
def run {S : Type} (sem : Step → S → S) (steps : List Step) (s : S) : S := steps.foldl (fun s t => sem t s) s

end Fix
end Kust
