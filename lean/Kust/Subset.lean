/-
  `resWrangler.SubsetThatCouldBeReferencedByResource` (api/resmap/reswrangler.go): the resources a referrer may legally
  name — everything for a cluster-scoped referrer; otherwise the cluster-scoped resources, those of the referrer's
  own (effective) namespace, and, for a RoleBinding, those of the namespaces its ServiceAccount subjects spell out
  (literally, or as the effective namespace: fix C03-F1).
-/
import Kust.Res
namespace Kust.Subset
open Kust Kust.Res

/-- a subject entry of a RoleBinding as far as the candidate subset looks at it: its `kind` and its `namespace`
    (`none` = the field is absent) -/
abbrev Subject := String × Option String

/-- `getNamespacesForRoleBinding`: the namespaces named by ServiceAccount subjects (nothing for other kinds of referrer) -/
def roleBindingNamespaces (kind : String) (subjects : List Subject) : List String :=
  if kind ≠ "RoleBinding" then []
  else subjects.filterMap fun (k, ns) => if k = "ServiceAccount" then ns else none

/-- the candidate subset, in the order of the resource map -/
def subset (cs : Gvk → Bool) (referrer : ResId) (subjects : List Subject) (m : List ResId) : List ResId :=
  if cs referrer.gvk then m
  else
    let rb := roleBindingNamespaces referrer.gvk.kind subjects
    m.filter fun t =>
      cs t.gvk || effNs cs t == effNs cs referrer || rb.contains t.ns || rb.contains (effNs cs t)

end Kust.Subset
