/-
  Kust.Kustfile — how `kustomize edit` rewrites the kustomization file
  (kustomize/commands/internal/kustfile/kustomizationfile.go): `parseCommentedFields` (line classifier,
  case-insensitive match of the Go field names in `fieldMarshallingOrder`), and `marshal` (the original fields in
  their original order, each preceded by its comment block, then the other fields in canonical order, then — after
  the repair of finding C17-F1 — the comments that follow the last field).
  The YAML text of one field (`marshalField`, sigs.k8s.io/yaml) is a parameter `mf`.
-/
namespace Kust
namespace Kustfile

def dropRightNl : List Char → List Char
  | [] => []
  | c :: r => match dropRightNl r with
    | [] => if c = '\n' then [] else [c]
    | r' => c :: r'

/-- `isCommentOrBlankLine` -/
def isCommentOrBlank (line : String) : Bool :=
  let s := dropRightNl (line.toList.dropWhile (· = ' '))
  s.isEmpty || s.head? = some '#'

def lowerC (c : Char) : Char := if 'A' ≤ c ∧ c ≤ 'Z' then Char.ofNat (c.toNat + 32) else c

def prefixCI : List Char → List Char → Bool
  | [], _ => true
  | _ :: _, [] => false
  | p :: ps, c :: cs => lowerC p = lowerC c && prefixCI ps cs

/-- `^(?i)<field>:` on ASCII lines -/
def matchesField (field line : String) : Bool := prefixCI (field.toList ++ [':']) line.toList

/-- `findMatchedField`: the first field of the order that matches -/
def findField (order : List String) (line : String) : Option String := order.find? (matchesField · line)

structure CF where
  field : String
  comment : List String
  deriving DecidableEq, Repr

structure Parsed where
  fields : List CF := []
  pending : List String := []
  deriving DecidableEq, Repr

def appendToLast : List CF → List String → List CF
  | [], _ => []
  | [cf], c => [{ cf with comment := cf.comment ++ c }]
  | cf :: r, c => cf :: appendToLast r c

def parseStep (order : List String) (st : Parsed) (line : String) : Parsed :=
  if isCommentOrBlank line then { st with pending := st.pending ++ [line] }
  else match findField order line with
    | some f => { fields := st.fields ++ [⟨f, st.pending⟩], pending := [] }
    | none =>
      if st.pending.isEmpty || st.fields.isEmpty then st
      else { fields := appendToLast st.fields st.pending, pending := [] }

/-- the complete lines (each with its newline) and the unterminated rest -/
def splitLines (cs : List Char) : List String × String :=
  let rec go : List Char → List Char → List String × String
    | [], cur => ([], String.ofList cur.reverse)
    | c :: r, cur =>
      if c = '\n' then
        let (ls, rest) := go r []
        (String.ofList (c :: cur).reverse :: ls, rest)
      else go r (c :: cur)
  go cs []

/-- `parseCommentedFields`; the pending comments at the end are the trailing comments -/
def parseLines (order : List String) (lines : List String) (rest : String) : Parsed :=
  let st := lines.foldl (parseStep order) {}
  if rest ≠ "" ∧ isCommentOrBlank rest then { st with pending := st.pending ++ [rest ++ "\n"] } else st

def parse (order : List String) (text : String) : Parsed :=
  let (ls, rest) := splitLines text.toList
  parseLines order ls rest

def allComments (p : Parsed) : List String := p.fields.flatMap (·.comment) ++ p.pending

/-- the pieces of the written file, tagged `true` for comment lines -/
def pieces (mf : String → String) (order : List String) (p : Parsed) : List (Bool × String) :=
  p.fields.flatMap (fun cf => cf.comment.map (fun c => (true, c)) ++ [(false, mf cf.field)]) ++
  (order.filter (fun f => !p.fields.any (·.field = f))).map (fun f => (false, mf f)) ++
  p.pending.map (fun c => (true, c))

/-- `marshal` -/
def marshal (mf : String → String) (order : List String) (p : Parsed) : String :=
  String.join ((pieces mf order p).map (·.2))

/-- the order in which fields are written -/
def fieldsOut (order : List String) (p : Parsed) : List String :=
  p.fields.map (·.field) ++ order.filter (fun f => !p.fields.any (·.field = f))

end Kustfile
end Kust
