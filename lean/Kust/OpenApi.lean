/-
  Kust.OpenApi — the process-wide schema state of kyaml/openapi (kubernetesOpenAPIVersion, customSchema,
  globalSchema.{schemaInit, defaultBuiltInSchemaParseStatus, definitions}) and its transitions:
  SetSchema(field, bytes, reset), initSchema, isInitSchemaNeededForNamespaceScopeCheck / IsNamespaceScoped,
  SchemaForResourceType.  A parsed schema is abstracted to its source (`Src`); the definition maps are the set of
  sources parsed so far.  There is exactly one built-in version (the default), as in the tree.
  `setSchema` is the code AFTER the repair of finding 1; `setSchemaOld` is the code before it.
-/
namespace Kust
namespace OpenApi

inductive Src where
  | builtin
  | custom (id : Nat)
  | kustapi
  deriving DecidableEq, Repr

inductive Status where
  | notParsed | delayed | parsed
  deriving DecidableEq, Repr

structure St where
  version : String := ""
  custom : Option Nat := none
  init : Bool := false
  status : Status := .notParsed
  defs : List Src := []
  deriving DecidableEq, Repr

def defaultVersion : String := "v1.21.2"

/-- the `openapi:` field of a kustomization, as SetSchema sees it -/
inductive Sel where
  | dflt (explicit : Bool)     -- no field, or `version: v1.21.2`
  | custom (id : Nat)          -- `path: file` (bytes = schema id)
  | badVersion (v : String)    -- a version that is not built in
  deriving DecidableEq, Repr

def Sel.version : Sel → String
  | .dflt false => ""
  | .dflt true => defaultVersion
  | .custom _ => ""
  | .badVersion v => v

def wasDefault (s : St) : Bool := s.custom.isNone && (s.version = "" || s.version = defaultVersion)

def Sel.isDefault : Sel → Bool
  | .dflt _ => true
  | _ => false

def addDef (d : Src) (l : List Src) : List Src := if l.contains d then l else l ++ [d]

/-- `SetSchema(field, bytes, reset)`; the Boolean is "returned an error" -/
def setSchema (s : St) (sel : Sel) (reset : Bool) : St × Bool :=
  let isSet := s.version ≠ "" || s.custom.isSome
  if isSet && !reset then (s, false)
  else
    let s := if reset && !(wasDefault s && sel.isDefault) then ({} : St) else s
    match sel with
    | .custom c => ({ s with custom := some c, version := "custom", init := false }, false)
    | .dflt false => ({ s with version := "" }, false)
    | .dflt true => ({ s with version := defaultVersion, custom := none, init := false }, false)
    | .badVersion v => ({ s with version := v }, true)

/-- the code before the repair: nothing is ever dropped, an empty field keeps a previous custom schema -/
def setSchemaOld (s : St) (sel : Sel) (reset : Bool) : St × Bool :=
  let isSet := s.version ≠ "" || s.custom.isSome
  if isSet && !reset then (s, false)
  else
    match sel with
    | .custom c => ({ s with custom := some c, version := "custom", init := false }, false)
    | .dflt false => ({ s with version := "" }, false)
    | .dflt true => ({ s with version := defaultVersion, custom := none, init := false }, false)
    | .badVersion v => ({ s with version := v }, true)

/-- `initSchema` (a bad version never gets here: Run fails before) -/
def initSchema (s : St) : St :=
  if s.init then s
  else
    let s := { s with init := true }
    let s := match s.custom with
      | some c => { s with defs := addDef (.custom c) s.defs }
      | none => { s with defs := addDef .builtin s.defs, status := .parsed }
    let s := if s.status = .delayed then { s with defs := addDef .builtin s.defs, status := .parsed } else s
    { s with defs := addDef .kustapi s.defs }

/-- `IsNamespaceScoped` of a kind outside the precomputed table -/
def nsCheck (s : St) : St :=
  if s.init then s
  else if s.custom.isSome then initSchema s
  else if s.version = "" || s.version = defaultVersion then
    (if s.status = .notParsed then { s with status := .delayed } else s)
  else initSchema s

/-- `SchemaForResourceType` / anything that needs the definitions -/
def schemaUse (s : St) : St := initSchema s

inductive Op where
  | ns | use
  deriving DecidableEq, Repr

def step (s : St) : Op → St
  | .ns => nsCheck s
  | .use => schemaUse s

def customsOf : List Src → List Nat
  | [] => []
  | .custom c :: r => c :: customsOf r
  | _ :: r => customsOf r

/-- what the build learns from one operation: `IsNamespaceScoped` is only asked about kinds outside the
    precomputed table (= not in the built-in schema), so it can only see custom definitions;
    a schema lookup sees whether the built-in definitions are there and which custom ones. -/
structure Obs where
  hasBuiltin : Bool
  customs : List Nat
  deriving DecidableEq, Repr

def observe (s : St) : Op → Obs
  | .ns => { hasBuiltin := false, customs := customsOf s.defs }
  | .use => { hasBuiltin := s.defs.contains .builtin, customs := customsOf s.defs }

/-- the observations of a sequence of schema operations -/
def observeAll : St → List Op → List Obs
  | _, [] => []
  | s, op :: r => let s' := step s op; observe s' op :: observeAll s' r

def runOps : St → List Op → St
  | s, [] => s
  | s, op :: r => runOps (step s op) r

/-- one top-level build: select with reset, then the build's own schema operations.
    Result: final state and what the build observed (`none` = SetSchema returned an error, the build fails). -/
def build (set : St → Sel → Bool → St × Bool) (s : St) (sel : Sel) (ops : List Op) : St × Option (List Obs) :=
  let r := set s sel true
  if r.2 then (r.1, none) else (runOps r.1 ops, some (observeAll r.1 ops))

def runHistory (set : St → Sel → Bool → St × Bool) : St → List (Sel × List Op) → St
  | s, [] => s
  | s, (sel, ops) :: r => runHistory set (build set s sel ops).1 r

end OpenApi
end Kust
