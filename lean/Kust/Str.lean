/- Structural (kernel-evaluable) string helpers. -/
namespace Kust.Str

/-- `strings.Split(s, string(sep))` -/
def splitChar (sep : Char) (s : String) : List String :=
  let rec go : List Char → List Char → List String
    | [], cur => [String.ofList cur.reverse]
    | c :: cs, cur => if c = sep then String.ofList cur.reverse :: go cs [] else go cs (c :: cur)
  go s.toList []

end Kust.Str
