/- Structural (kernel-evaluable) string helpers: everything goes through `List Char`. -/
namespace Kust.Str

/-- `strings.Split(s, string(sep))` -/
def splitChar (sep : Char) (s : String) : List String :=
  let rec go : List Char → List Char → List String
    | [], cur => [String.ofList cur.reverse]
    | c :: cs, cur => if c = sep then String.ofList cur.reverse :: go cs [] else go cs (c :: cur)
  go s.toList []

def isPrefixL : List Char → List Char → Bool
  | [], _ => true
  | _ :: _, [] => false
  | a :: p, b :: s => a == b && isPrefixL p s

def hasPrefix (s p : String) : Bool := isPrefixL p.toList s.toList
def hasSuffix (s p : String) : Bool := isPrefixL p.toList.reverse s.toList.reverse

/-- drop the last `n` characters -/
def dropRight (s : String) (n : Nat) : String := String.ofList (s.toList.reverse.drop n).reverse
/-- drop the first `n` characters -/
def dropLeft (s : String) (n : Nat) : String := String.ofList (s.toList.drop n)

/-- `strings.TrimSpace` for ASCII white space -/
def trim (s : String) : String :=
  String.ofList (((s.toList.dropWhile Char.isWhitespace).reverse.dropWhile Char.isWhitespace).reverse)

end Kust.Str
