/-
  Kust.Sync — a small operational model of lock-protected shared state: threads are event lists, a lock can be
  acquired only when no thread holds it, a state is RACY when two different threads are both about to access the
  same location and at least one of them writes.  (Go's memory model and sync.RWMutex are assumed to behave like
  this; readers of an RWMutex are treated like writers, which only forbids more.)
-/
namespace Kust
namespace Sync

inductive Ev where
  | acq (l : Nat)
  | rel (l : Nat)
  | rd (x : Nat)
  | wr (x : Nat)
  deriving DecidableEq, Repr

structure Thread where
  held : List Nat
  prog : List Ev
  deriving Repr

abbrev State := Nat → Thread

/-- thread `p` takes its next step; acquiring a lock is enabled only if nobody holds it -/
inductive Step : State → State → Prop where
  | acq (s : State) (p l : Nat) (r : List Ev) (h : (s p).prog = .acq l :: r) (free : ∀ q, l ∉ (s q).held) :
      Step s (fun q => if q = p then ⟨l :: (s p).held, r⟩ else s q)
  | rel (s : State) (p l : Nat) (r : List Ev) (h : (s p).prog = .rel l :: r) :
      Step s (fun q => if q = p then ⟨(s p).held.erase l, r⟩ else s q)
  | rd (s : State) (p x : Nat) (r : List Ev) (h : (s p).prog = .rd x :: r) :
      Step s (fun q => if q = p then ⟨(s p).held, r⟩ else s q)
  | wr (s : State) (p x : Nat) (r : List Ev) (h : (s p).prog = .wr x :: r) :
      Step s (fun q => if q = p then ⟨(s p).held, r⟩ else s q)

inductive Reach (s0 : State) : State → Prop where
  | refl : Reach s0 s0
  | step {s t : State} : Reach s0 s → Step s t → Reach s0 t

def accesses (x : Nat) : Ev → Bool
  | .rd y => x = y
  | .wr y => x = y
  | _ => false

def isWrite : Ev → Bool
  | .wr _ => true
  | _ => false

/-- two threads are simultaneously about to touch `x`, one of them writing -/
def Racy (s : State) : Prop :=
  ∃ p q x e f r r', p ≠ q ∧ (s p).prog = e :: r ∧ (s q).prog = f :: r' ∧ accesses x e = true ∧ accesses x f = true ∧
    (isWrite e = true ∨ isWrite f = true)

/-- lock discipline of one thread, given the locks it holds: every access to `x` happens while `lockOf x` is held -/
def Disc (lockOf : Nat → Nat) : List Nat → List Ev → Prop
  | _, [] => True
  | held, .acq l :: r => Disc lockOf (l :: held) r
  | held, .rel l :: r => Disc lockOf (held.erase l) r
  | held, .rd x :: r => lockOf x ∈ held ∧ Disc lockOf held r
  | held, .wr x :: r => lockOf x ∈ held ∧ Disc lockOf held r

def Inv (lockOf : Nat → Nat) (s : State) : Prop :=
  (∀ p, Disc lockOf (s p).held (s p).prog) ∧ (∀ p q l, p ≠ q → l ∈ (s p).held → l ∉ (s q).held)

theorem step_inv (lockOf : Nat → Nat) (s t : State) (h : Inv lockOf s) (st : Step s t) : Inv lockOf t := by
  obtain ⟨hd, hx⟩ := h
  cases st with
  | acq p l r hp free =>
    constructor
    · intro q
      by_cases hq : q = p
      · subst hq; have := hd q; rw [hp] at this; simpa [Disc] using this
      · simpa [hq] using hd q
    · intro a b l' hab hl
      by_cases ha : a = p <;> by_cases hb : b = p
      · exact absurd (ha.trans hb.symm) hab
      · subst ha
        simp only [if_true, hb, if_false] at hl ⊢
        rcases List.mem_cons.mp hl with h1 | h1
        · subst h1; exact free b
        · exact hx a b l' hab h1
      · subst hb
        simp only [if_true, ha, if_false] at hl ⊢
        intro hc
        rcases List.mem_cons.mp hc with h1 | h1
        · subst h1; exact free a hl
        · exact hx a b l' hab hl h1
      · simp only [ha, hb, if_false] at hl ⊢; exact hx a b l' hab hl
  | rel p l r hp =>
    constructor
    · intro q
      by_cases hq : q = p
      · subst hq; have := hd q; rw [hp] at this; simpa [Disc] using this
      · simpa [hq] using hd q
    · intro a b l' hab hl
      by_cases ha : a = p <;> by_cases hb : b = p
      · exact absurd (ha.trans hb.symm) hab
      · subst ha
        simp only [if_true, hb, if_false] at hl ⊢
        exact hx a b l' hab (List.mem_of_mem_erase hl)
      · subst hb
        simp only [if_true, ha, if_false] at hl ⊢
        intro hc
        exact hx a b l' hab hl (List.mem_of_mem_erase hc)
      · simp only [ha, hb, if_false] at hl ⊢; exact hx a b l' hab hl
  | rd p x r hp =>
    constructor
    · intro q
      by_cases hq : q = p
      · subst hq; have := hd q; rw [hp] at this; simpa [Disc] using this.2
      · simpa [hq] using hd q
    · intro a b l' hab hl
      by_cases ha : a = p <;> by_cases hb : b = p
      · exact absurd (ha.trans hb.symm) hab
      · subst ha; simp only [if_true, hb, if_false] at hl ⊢; exact hx a b l' hab hl
      · subst hb; simp only [if_true, ha, if_false] at hl ⊢; exact hx a b l' hab hl
      · simp only [ha, hb, if_false] at hl ⊢; exact hx a b l' hab hl
  | wr p x r hp =>
    constructor
    · intro q
      by_cases hq : q = p
      · subst hq; have := hd q; rw [hp] at this; simpa [Disc] using this.2
      · simpa [hq] using hd q
    · intro a b l' hab hl
      by_cases ha : a = p <;> by_cases hb : b = p
      · exact absurd (ha.trans hb.symm) hab
      · subst ha; simp only [if_true, hb, if_false] at hl ⊢; exact hx a b l' hab hl
      · subst hb; simp only [if_true, ha, if_false] at hl ⊢; exact hx a b l' hab hl
      · simp only [ha, hb, if_false] at hl ⊢; exact hx a b l' hab hl

theorem reach_inv (lockOf : Nat → Nat) (s0 s : State) (h0 : Inv lockOf s0) (hr : Reach s0 s) : Inv lockOf s := by
  induction hr with
  | refl => exact h0
  | step _ st ih => exact step_inv lockOf _ _ ih st

theorem disc_access_holds (lockOf : Nat → Nat) (held : List Nat) (e : Ev) (r : List Ev) (x : Nat)
    (hd : Disc lockOf held (e :: r)) (ha : accesses x e = true) : lockOf x ∈ held := by
  cases e with
  | acq l => simp [accesses] at ha
  | rel l => simp [accesses] at ha
  | rd y => simp [accesses] at ha; subst ha; exact hd.1
  | wr y => simp [accesses] at ha; subst ha; exact hd.1

/-- **lockset ⇒ no race**: if every thread follows the lock discipline (each access to a shared location happens
    while the location's lock is held) and initially no two threads hold a common lock, then in EVERY reachable
    state — every interleaving, any number of threads, any program lengths — no two threads are simultaneously
    about to access a location with one of them writing. -/
theorem lockset_drf (lockOf : Nat → Nat) (s0 s : State) (h0 : Inv lockOf s0) (hr : Reach s0 s) : ¬ Racy s := by
  obtain ⟨hd, hx⟩ := reach_inv lockOf s0 s h0 hr
  rintro ⟨p, q, x, e, f, r, r', hpq, hp, hq, he, hf, _⟩
  have h1 : lockOf x ∈ (s p).held := disc_access_holds lockOf _ e r x (by simpa [hp] using hd p) he
  have h2 : lockOf x ∈ (s q).held := disc_access_holds lockOf _ f r' x (by simpa [hq] using hd q) hf
  exact hx p q _ hpq h1 h2

end Sync
end Kust
