/-
  Kust.Wire — JSON wire format shared by the Go harness and the Lean driver (DESIGN §2.1).
  Node: ["s",tag,value,style] | ["m",style,[[key,node],…]] | ["q",style,[node,…]] ; null = nil *RNode.
  Not part of any theorem; trusted only as far as the correspondence check is.
-/
import Lean.Data.Json
import Kust.Node
namespace Kust
open Lean

partial def nodeToJson : Node → Json
  | .scalar t v s => Json.arr #[Json.str "s", Json.str t, Json.str v, Json.num s]
  | .map s fs => Json.arr #[Json.str "m", Json.num s,
      Json.arr (fs.map fun (k, n) => Json.arr #[Json.str k, nodeToJson n]).toArray]
  | .seq s is => Json.arr #[Json.str "q", Json.num s, Json.arr (is.map nodeToJson).toArray]

def optNodeToJson : Option Node → Json
  | none => Json.null
  | some n => nodeToJson n

partial def nodeOfJson (j : Json) : Except String Node := do
  let a ← j.getArr?
  let kind ← (a[0]!).getStr?
  match kind with
  | "s" => return .scalar (← a[1]!.getStr?) (← a[2]!.getStr?) (← a[3]!.getNat?)
  | "m" =>
    let fs ← (← a[2]!.getArr?).toList.mapM fun kv => do
      let p ← kv.getArr?
      return ((← p[0]!.getStr?), (← nodeOfJson p[1]!))
    return .map (← a[1]!.getNat?) fs
  | "q" =>
    let is ← (← a[2]!.getArr?).toList.mapM nodeOfJson
    return .seq (← a[1]!.getNat?) is
  | k => throw s!"bad node kind {k}"

def optNodeOfJson (j : Json) : Except String (Option Node) :=
  if j.isNull then return none else do return some (← nodeOfJson j)

def strList (j : Json) : Except String (List String) := do
  (← j.getArr?).toList.mapM (·.getStr?)

def outToJson {α} (f : α → Json) : Out α → Json
  | .ok a => Json.mkObj [("ok", f a)]
  | .err c => Json.mkObj [("err", Json.str c)]
  | .panic s => Json.mkObj [("panic", Json.str s)]

/-- the graph of a third-party predicate on the points of this case: `{"v": true, …}`; absent = false -/
def predOfJson (j : Json) : String → Bool := fun s =>
  match j.getObjVal? s with
  | .ok (Json.bool b) => b
  | _ => false

end Kust
