/-
  Kust.Fns — transliteration of kyaml/yaml/fns.go (the field / element / path primitives).

  Go mutates through pointers and returns a pointer *into* the tree.  Here every operation returns the
  new receiver together with the result node (the node the returned `*RNode` points at, after mutation).

  Parameter: `ns : String → Bool` is `yaml.IsValueNonString` (decided by the YAML-1.1 reader of
  sigs.k8s.io/yaml; third-party, never modelled, passed in).

  Error classes (compared with the harness' classification of Go errors):
    "kind"     wrong node kind (`ErrorIfInvalid`)
    "arg"      invalid argument (negative index, wildcard in PathGetter, `[x]` without `=`, …)
    "unmodelled"  the Go code reaches a state the tree type cannot express (content appended to a
                  scalar node); the correspondence skips and counts these.
-/
import Kust.Node
import Kust.Str
namespace Kust
namespace Fns
open Node

/-- go-yaml `DoubleQuotedStyle` -/
def dq : Nat := 2

/-- `ErrorIfInvalid(rn, MappingNode)` on a non-nil node: null passes, other kinds fail. -/
def okAsMap : Node → Bool
  | .map .. => true
  | n => n.isNull
def okAsSeq : Node → Bool
  | .seq .. => true
  | n => n.isNull
def okAsScalar : Node → Bool
  | .scalar .. => true
  | _ => false

/-! ### fields of a mapping node -/

/-- first field named `name` (`visitMappingNodeFields(content, fn, name)`). -/
def fieldGet (name : String) : Fields → Option Node
  | [] => none
  | (k, v) :: fs => if k = name then some v else fieldGet name fs

/-- replace the value of the first field named `name`. -/
def fieldReplace (name : String) (v : Node) : Fields → Fields
  | [] => []
  | (k, x) :: fs => if k = name then (k, v) :: fs else (k, x) :: fieldReplace name v fs

/-- `FieldClearer{Name}` (IfEmpty=false): drop the first field named `name`. -/
def fieldErase (name : String) : Fields → Fields
  | [] => []
  | (k, x) :: fs => if k = name then fs else (k, x) :: fieldErase name fs

/-- `FieldClearer{Name, IfEmpty: true}`: the scan *continues* past a same-named non-empty field. -/
def fieldEraseIfEmpty (name : String) : Fields → Fields × Option Node
  | [] => ([], none)
  | (k, x) :: fs =>
    if k = name ∧ x.contentLen = 0 then (fs, some x)
    else
      let r := fieldEraseIfEmpty name fs
      ((k, x) :: r.1, r.2)

/-- `FieldMatcher{Name: name, Value: val}` (no Create) on a possibly-nil receiver. -/
def fieldMatcher (name : String) (val : Option String) (rn : Option Node) : Out (Option Node) :=
  match rn with
  | none => .ok none
  | some n =>
    if n.isNull then .ok none
    else if name = "" then
      match n with
      | .scalar _ v _ =>
        if v = val.getD "" then .ok (some n) else .ok none
      | _ => .err "kind"
    else
      match n with
      | .map _ fs =>
        match fieldGet name fs with
        | none => .ok none
        | some x =>
          match val with
          | none => .ok (some x)
          | some t => if x.valueText = t then .ok (some x) else .ok none
      | _ => .err "kind"

/-- the style adjustment at the head of `FieldSetter.Filter`. -/
def quoteIfNonString (ns : String → Bool) (overrideStyle : Bool) : Node → Node
  | .scalar t v s =>
    if (t = "!!str" ∨ t = "") ∧ !overrideStyle ∧ s = 0 ∧ ns v then .scalar t v dq else .scalar t v s
  | n => n

/-- style retention when an existing *field* is overwritten (`field.YNode().Style == 0` tests the OLD node). -/
def inheritStyle (overrideStyle : Bool) (old new : Node) : Node :=
  if !overrideStyle ∨ old.style = 0 then new.withStyle old.style else new

/-- style retention in the empty-`Name` branch (`s.Value.YNode().Style == 0` tests the NEW node). -/
def inheritStyleScalar (overrideStyle : Bool) (old new : Node) : Node :=
  if !overrideStyle ∨ new.style = 0 then new.withStyle old.style else new

/-- `FieldSetter{Name: name, Value: v, OverrideStyle}` on a non-nil receiver, `name ≠ ""`.
    `keep` is `v.ShouldKeep`.  Returns the new receiver and the returned node. -/
def fieldSetter (ns : String → Bool) (name : String) (v : Option Node) (keep overrideStyle : Bool)
    (rn : Node) : Out (Node × Option Node) :=
  let v := v.map (quoteIfNonString ns overrideStyle)
  let clear : Out (Node × Option Node) :=
    match rn with
    | .map s fs => .ok (.map s (fieldErase name fs), fieldGet name fs)
    | n => if n.isNull then .ok (n, none) else .err "kind"
  match v with
  | none => clear
  | some v =>
    if v.isNull ∧ !keep then clear
    else
      match rn with
      | .map s fs =>
        match fieldGet name fs with
        | some old =>
          let v' := inheritStyle overrideStyle old v
          .ok (.map s (fieldReplace name v' fs), some v')
        | none => .ok (.map s (fs ++ [(name, v)]), some v)
      | n => if n.isNull then .err "unmodelled" else .err "kind"

/-- `FieldSetter{Value: v}` with empty `Name`: set a scalar in place. -/
def scalarSetter (ns : String → Bool) (v : Option Node) (overrideStyle : Bool) (rn : Node) :
    Out (Node × Option Node) :=
  let v := v.map (quoteIfNonString ns overrideStyle)
  if rn.isNull then
    -- ErrorIfInvalid passes on null; a missing/null value returns the receiver, else it is overwritten
    match v with
    | none => .ok (rn, some rn)
    | some v => if v.isNull then .ok (rn, some rn) else
        let v' := inheritStyleScalar overrideStyle rn v; .ok (v', some v')
  else match rn with
  | .scalar .. =>
    match v with
    | none => .ok (rn, some rn)
    | some v => if v.isNull then .ok (rn, some rn) else
        let v' := inheritStyleScalar overrideStyle rn v; .ok (v', some v')
  | _ => .err "kind"

/-- `FieldClearer{Name, IfEmpty}` -/
def fieldClearer (name : String) (ifEmpty : Bool) (rn : Node) : Out (Node × Option Node) :=
  match rn with
  | .map s fs =>
    if ifEmpty then
      let r := fieldEraseIfEmpty name fs
      .ok (.map s r.1, r.2)
    else .ok (.map s (fieldErase name fs), fieldGet name fs)
  | n => if n.isNull then .ok (n, none) else .err "kind"

/-! ### elements of a sequence node -/

/-- does map element `e` have, for every `(k,v)`, a first field `k` whose text is `v`?
    (`MatchField`; an element that is not a map is skipped by the caller). -/
def elemHasAll (kvs : List (String × String)) (fs : Fields) : Bool :=
  kvs.all fun (k, v) =>
    match fieldGet k fs with
    | some x => x.valueText = v
    | none => false

/-- `ElementMatcher{Keys, Values}` (equal lengths ≥ 1, first key non-empty, no MatchAnyValue): index of
    the first matching map element.  `FieldMatcher` never matches inside a null element. -/
def elemFindIdx (kvs : List (String × String)) : List Node → Option Nat
  | [] => none
  | e :: es =>
    let hit := match e with
      | .map _ fs => elemHasAll kvs fs
      | _ => false
    if hit then some 0 else (elemFindIdx kvs es).map (· + 1)

/-- scalar flavour (`Keys[0] == ""`): first element whose `Value` text equals `v`
    (collections have empty `Value`). -/
def elemFindScalarIdx (v : String) : List Node → Option Nat
  | [] => none
  | e :: es => if e.valueText = v then some 0 else (elemFindScalarIdx v es).map (· + 1)

/-- `ElementMatcher{Keys:[k], Values:[v], Create: c}` as used by `PathGetter`.
    Returns new receiver, index of the result, result. -/
def elementMatcher (k v : String) (create : Option Node) (rn : Node) :
    Out (Node × Option (Nat × Node)) :=
  match rn with
  | .seq s is =>
    let idx := if k = "" then elemFindScalarIdx v is else elemFindIdx [(k, v)] is
    match idx with
    | some i => match is[i]? with
      | some e => .ok (rn, some (i, e))
      | none => .ok (rn, none)
    | none =>
      match create with
      | some c => .ok (.seq s (is ++ [c]), some (is.length, c))
      | none => .ok (rn, none)
  | n =>
    if n.isNull then
      match create with
      | some _ => .err "unmodelled"
      | none => .ok (rn, none)
    else .err "kind"

/-- `ElementIndexer{Index}`; a negative index is modelled as `none` = "last".
    (After the repair of finding 3a "last" of an empty list is `nil`, like an index past the end;
    before it, Go indexed `elems[-1]` and panicked.) -/
def elementIndexer (idx : Option Nat) (rn : Node) : Out (Option (Nat × Node)) :=
  match rn with
  | .seq _ is =>
    match idx with
    | none =>
      match is.getLast? with
      | some e => .ok (some (is.length - 1, e))
      | none => .ok none
    | some i =>
      match is[i]? with
      | some e => .ok (some (i, e))
      | none => .ok none
  | n =>
    if n.isNull then .ok none
    else .err "kind"

/-- one element survives `ElementSetter` unless it is null / an empty map. -/
def elemDropped (e : Node) : Bool := e.isNull || e.isEmptyMap

/-- `FieldMatcher{Name: k, StringValue: v}` on a non-null element, as a yes/no answer. -/
def elemFieldMatch (k v : String) (e : Node) : Out Bool :=
  if k = "" then
    match e with
    | .scalar _ sv _ => .ok (sv = v)
    | _ => .err "kind"
  else
    match e with
    | .map _ fs =>
      match fieldGet k fs with
      | some x => .ok (v = "" ∨ x.valueText = v)
      | none => .ok false
    | _ => .err "kind"

/-- the inner `for j := range e.Keys` loop: keys beyond `len(Values)` reuse the previous answer. -/
def elemMatchAll (e : Node) : List (String × String) → Out Bool
  | [] => .ok true
  | (k, v) :: kvs =>
    match elemFieldMatch k v e with
    | .ok true => elemMatchAll e kvs
    | .ok false => .ok false
    | .err c => .err c
    | .panic c => .panic c

/-- `ElementSetter{Keys, Values, Element}` over the items.  `kvs` pairs `Keys[j]` with `Values[j]`
    (`j < len(Values)`); `nvals = len(Values)`.
    Returns the new items and whether some element matched. -/
def elementSetItems (kvs : List (String × String)) (nvals : Nat) (mappingSetter : Bool)
    (elem : Option Node) : List Node → Out (List Node × Bool)
  | [] => .ok ([], false)
  | e :: es =>
    if elemDropped e then elementSetItems kvs nvals mappingSetter elem es
    else
      let isMap := match e with | .map .. => true | _ => false
      if !isMap && mappingSetter then
        match elementSetItems kvs nvals mappingSetter elem es with
        | .ok r => .ok (e :: r.1, r.2)
        | o => o
      else
        -- with nvals = 0 `val` stays nil and the element is "not found"
        match (if nvals = 0 then Out.ok false else elemMatchAll e kvs) with
        | .err c => .err c
        | .panic c => .panic c
        | .ok found =>
          match elementSetItems kvs nvals mappingSetter elem es with
          | .ok r =>
            if !found then
              if nvals > 0 then .ok (e :: r.1, r.2) else .ok r
            else
              match elem with
              | none => .ok (r.1, true)
              | some x => .ok (x :: r.1, true)
          | o => o

/-- `ElementSetter.Filter`.  Returns new receiver and the returned node. -/
def elementSetter (keys vals : List String) (elem : Option Node) (rn : Node) : Out (Node × Option Node) :=
  let keys := if keys = [] then [""] else keys
  match rn with
  | .seq s is =>
    let mappingSetter := (keys.head?.getD "") ≠ "" ∧ (vals.head?.getD "") ≠ ""
    let kvs := (keys.zip vals)
    match elementSetItems kvs vals.length mappingSetter elem is with
    | .err c => .err c
    | .panic c => .panic c
    | .ok r =>
      if isMissingOrNull elem then .ok (.seq s r.1, none)
      else if r.2 then .ok (.seq s r.1, elem)
      else match elem with
        | some x => .ok (.seq s (r.1 ++ [x]), elem)
        | none => .ok (.seq s r.1, none)
  | n => if n.isNull then .err "unmodelled" else .err "kind"

/-! ### PathGetter -/

def trimSpace (s : String) : String := Str.trim s

def cleanPath (p : List String) : List String :=
  (p.map trimSpace).filter (· ≠ "")

/-- decimal `strconv.Atoi` restricted to what matters: optional sign, digits. -/
def atoi? (s : String) : Option Int :=
  let cs := s.toList
  let (neg, ds) := match cs with
    | '-' :: r => (true, r)
    | '+' :: r => (false, r)
    | r => (false, r)
  if ds = [] ∨ !ds.all Char.isDigit then none
  else
    let n : Nat := ds.foldl (fun a c => a * 10 + (c.toNat - '0'.toNat)) 0
    some (if neg then - (n : Int) else n)

def isListIndex (p : String) : Bool := Str.hasPrefix p "[" && Str.hasSuffix p "]"
def isIdxNumber (p : String) : Bool :=
  match atoi? p with
  | some i => i ≥ 0
  | none => false

/-- split `[name=value]` at the first `=` -/
def splitIndexNameValue (p : String) : Option (String × String) :=
  let inner := (if Str.hasSuffix p "]" then Str.dropRight p 1 else p)
  let inner := (if Str.hasPrefix inner "[" then Str.dropLeft inner 1 else inner)
  let cs := inner.toList
  if cs.contains '=' then
    some (String.ofList (cs.takeWhile (· ≠ '=')), String.ofList ((cs.dropWhile (· ≠ '=')).drop 1))
  else none

inductive Part where
  | index (i : Nat)
  | last
  | elem (k v : String)
  | field (name : String)
  deriving Repr, DecidableEq

/-- classification order of `PathGetter.getFilter`: Atoi → "-" → "*" → [..] → field. -/
def classify (part : String) : Out Part :=
  match atoi? part with
  | some i => if i < 0 then .err "arg" else .ok (.index i.toNat)
  | none =>
    if part = "-" then .ok .last
    else if part = "*" then .err "arg"
    else if isListIndex part then
      match splitIndexNameValue part with
      | some (k, v) => .ok (.elem k v)
      | none => .err "arg"
    else .ok (.field part)

/-- kind of a node created for a field whose successor part is `next` ("" = none):
    0 = none, 1 scalar, 2 map, 3 seq (wire encoding of `yaml.Kind` for creation requests). -/
def partKind (next : String) (createKind : Nat) : Nat :=
  if isListIndex next then 3
  else if isIdxNumber next then 3
  else if next = "" then createKind
  else 2

/-- the empty node `&yaml.Node{Kind: kind, Style: style}` -/
def emptyOfKind (kind style : Nat) : Node :=
  match kind with
  | 2 => .map style []
  | 3 => .seq style []
  | _ => .scalar "" "" style

def setAt (is : List Node) (i : Nat) (x : Node) : List Node := is.set i x

/-- `PathGetter{Path, Create, Style}.Filter` after `cleanPath`; `create = 0` means plain lookup.
    Returns the new receiver and the node found/created. -/
def pathGet (ns : String → Bool) (create style : Nat) : List String → Node → Out (Node × Option Node)
  | [], rn => .ok (rn, some rn)
  | part :: rest, rn =>
    match classify part with
    | .err c => .err c
    | .panic c => .panic c
    | .ok (.index i) =>
      match elementIndexer (some i) rn with
      | .ok (some (j, e)) =>
        match pathGet ns create style rest e with
        | .ok (e', r) =>
          match rn with
          | .seq s is => .ok (.seq s (setAt is j e'), r)
          | _ => .ok (rn, r)
        | .err c => .err c
        | .panic c => .panic c
      | .ok none => .ok (rn, none)
      | .err c => .err c
      | .panic c => .panic c
    | .ok .last =>
      match elementIndexer none rn with
      | .ok (some (j, e)) =>
        match pathGet ns create style rest e with
        | .ok (e', r) =>
          match rn with
          | .seq s is => .ok (.seq s (setAt is j e'), r)
          | _ => .ok (rn, r)
        | .err c => .err c
        | .panic c => .panic c
      | .ok none => .ok (rn, none)
      | .err c => .err c
      | .panic c => .panic c
    | .ok (.elem k v) =>
      let createNode : Option Node :=
        if create = 0 then none
        else if k = "" then some (.scalar "" v style)
        else some (.map style [(k, .scalar "" v style)])
      match elementMatcher k v createNode rn with
      | .ok (rn', some (j, e)) =>
        match pathGet ns create style rest e with
        | .ok (e', r) =>
          match rn' with
          | .seq s is => .ok (.seq s (setAt is j e'), r)
          | _ => .ok (rn', r)
        | .err c => .err c
        | .panic c => .panic c
      | .ok (rn', none) => .ok (rn', none)
      | .err c => .err c
      | .panic c => .panic c
    | .ok (.field name) =>
      -- FieldMatcher{Name, Create}: never matches on a null receiver
      if rn.isNull then .ok (rn, none)
      else match rn with
      | .map s fs =>
        match fieldGet name fs with
        | some x =>
          match pathGet ns create style rest x with
          | .ok (x', r) => .ok (.map s (fieldReplace name x' fs), r)
          | .err c => .err c
          | .panic c => .panic c
        | none =>
          if create = 0 then .ok (rn, none)
          else
            let kind := partKind (rest.head?.getD "") create
            -- SetField(name, emptyOfKind): FieldSetter semantics (a fresh empty scalar is a string
            -- value with empty text, `ns ""` is false, so no quoting happens)
            let x := emptyOfKind kind style
            match pathGet ns create style rest x with
            | .ok (x', r) => .ok (.map s (fs ++ [(name, x')]), r)
            | .err c => .err c
            | .panic c => .panic c
      | _ => .err "kind"

/-- `rn.Pipe(Lookup(path...))` / `LookupCreate(kind, path...)` -/
def lookup (ns : String → Bool) (create style : Nat) (path : List String) (rn : Node) :
    Out (Node × Option Node) :=
  pathGet ns create style (cleanPath path) rn

end Fns
end Kust
