/-
  The field-level half of the replacement filter (api/filters/replacement/replacement.go) on YAML TREES: what is read
  from the source field (`getReplacement` after the source resource is chosen) and what `copyValueToTarget` does to one
  target resource — `PathMatcher` (model `Kust.Match`) finds or creates the target nodes, `setFieldValue` writes each
  of them.  Resource selection, reject lists and the sequencing of a list of replacements are modelled on flat
  resources in `Kust.Repl`; this file supplies the tree side: list-element targets, non-scalar values, delimiters on
  arbitrary scalars.
-/
import Kust.Match
import Kust.Repl
namespace Kust.ReplTree
open Kust Node Fns Match

structure Opts where
  delim : String := ""
  index : Int := 0
  create : Bool := false
deriving DecidableEq, Repr, Inhabited

/-- `IsYNodeNilOrEmpty` of a parsed node: null, `{}` or `[]` -/
def isNilOrEmpty : Node → Bool
  | .scalar t _ _ => t == "!!null"
  | .map _ fs => fs.isEmpty
  | .seq _ is => is.isEmpty

/-- `yaml.GetValue` -/
def getValue (n : Node) : String := if n.isNull then "" else n.valueText

/-- `getRefinedValue` -/
def refine (o : Option Opts) (rn : Node) : Out Node :=
  match o with
  | none => .ok rn
  | some o =>
    if o.delim = "" then .ok rn
    else match rn with
      | .scalar t _ s =>
        let ps := Repl.split o.delim (getValue rn)
        if o.index < 0 ∨ o.index ≥ ps.length then .err "index"
        else match ps[o.index.toNat]? with
          | some p => .ok (.scalar t p s)
          | none => .err "index"
      | _ => .err "delim-nonscalar"

/-- the source side of `getReplacement`: look the field up (plain `Lookup`: blank parts are dropped), refuse a missing,
    null or empty field, apply delimiter/index -/
def sourceValue (ns : String → Bool) (path : List String) (o : Option Opts) (src : Node) : Out Node :=
  match lookup ns 0 0 path src with
  | .ok (_, some rn) => if isNilOrEmpty rn then .err "missing" else refine o rn
  | .ok (_, none) => .err "missing"
  | .err _ => .err "lookup"
  | .panic c => .panic c

/-- `setFieldValue`: the new content of one target node -/
def setFieldValue (o : Option Opts) (target value : Node) : Out Node :=
  let delim := match o with | some o => o.delim | none => ""
  if delim ≠ "" then
    match target, o with
    | .scalar t tv s, some o =>
      .ok (.scalar t (Repl.join o.delim (Repl.setPieces o.index (getValue value) (Repl.split o.delim tv))) s)
    | _, _ => .err "delim-nonscalar"
  else
    match target with
    | .scalar t _ s => .ok (.scalar t value.valueText s)   -- only the text: tag and style of the target stay
    | _ => .ok value                                       -- `SetYNode`: the target becomes a copy of the value

/-- rewrite the node at a position -/
def modifyAt (f : Node → Out Node) : Pos → Node → Out Node
  | [], n => f n
  | .key k :: p, .map s fs =>
    match fieldGet k fs with
    | some x =>
      match modifyAt f p x with
      | .ok x' => .ok (.map s (fieldReplace k x' fs))
      | .err c => .err c
      | .panic c => .panic c
    | none => .err "internal"
  | .idx i :: p, .seq s is =>
    match is[i]? with
    | some x =>
      match modifyAt f p x with
      | .ok x' => .ok (.seq s (is.set i x'))
      | .err c => .err c
      | .panic c => .panic c
    | none => .err "internal"
  | _, _ => .err "internal"

def kindOf : Node → Nat
  | .scalar .. => 1
  | .map .. => 2
  | .seq .. => 3

/-- `createKind`: the kind of the value when `options.create` is set, else "do not create" -/
def createKind (o : Option Opts) (value : Node) : Nat :=
  match o with
  | some o => if o.create then kindOf value else 0
  | none => 0

def writeAll (o : Option Opts) (value : Node) : List Pos → Node → Out Node
  | [], d => .ok d
  | p :: ps, d =>
    match modifyAt (fun t => setFieldValue o t value) p d with
    | .ok d' => writeAll o value ps d'
    | .err c => .err c
    | .panic c => .panic c

section
variable (hit : String → Node → Out Bool) (ns : String → Bool)

/-- `copyValueToTarget` for one field path -/
def copyOne (o : Option Opts) (value : Node) (path : List String) (doc : Node) : Out Node :=
  match pathMatch hit ns (createKind o value) path doc with
  | .ok (doc', ps) => if ps = [] then .err "find" else writeAll o value ps doc'
  | .err c => if c = "unmodelled" then .err c else .err "find"
  | .panic c => .panic c

/-- `copyValueToTarget`: the field paths one after the other (no path given = `metadata.name`) -/
def copyAll (o : Option Opts) (value : Node) : List (List String) → Node → Out Node
  | [], d => .ok d
  | p :: ps, d =>
    match copyOne hit ns o value p d with
    | .ok d' => copyAll o value ps d'
    | .err c => .err c
    | .panic c => .panic c

/-- one replacement between a chosen source resource and a chosen target resource -/
def replaceInto (spath : List String) (so : Option Opts) (src : Node) (paths : List (List String)) (to : Option Opts)
    (tgt : Node) : Out Node :=
  -- an empty `fieldPath` (which splits into `[""]`) means `metadata.name`
  let spath := if spath = [""] ∨ spath = [] then ["metadata", "name"] else spath
  match sourceValue ns spath so src with
  | .ok v => copyAll hit ns to v (if paths = [] then [["metadata", "name"]] else paths) tgt
  | .err c => .err c
  | .panic c => .panic c

end
end Kust.ReplTree
