/-
  Kust.CrdConfig — api/internal/accumulator/loadconfigfromcrds.go: the transformer configuration derived from the type
  definitions of a `crds:` file (makeConfigFromApiMap / loadCrdIntoConfig).  The JSON decoding of the definitions
  (kube-openapi `spec.Schema`) is outside the model: a type is its list of properties with the extensions the loader
  looks at and the `$ref` target.  The Go function has no fuel; `expand` carries one, and `Props/C12b` proves that the
  number of types + 1 always suffices (the recursion of the code ends) — and that before fix C12-F17 nothing sufficed.
-/
import Kust.Node
namespace Kust
namespace CrdConfig

structure P where
  name : String
  anno : Bool            -- x-kubernetes-annotation
  label : Bool           -- x-kubernetes-label-selector
  ident : Bool           -- x-kubernetes-identity
  /-- x-kubernetes-object-ref-api-version, -kind (both needed), -name-key -/
  objref : Option (String × String × Option String)
  ref : Option String
  deriving Repr, DecidableEq

abbrev Types := List (String × List P)

inductive Spec where
  | anno (kind path : String)
  | label (kind path : String)
  | pre (kind path : String)
  | nameref (refKind refVersion kind path : String)
  deriving Repr, DecidableEq

def findT (m : Types) (t : String) : Option (List P) := (m.find? (·.1 == t)).map (·.2)

def joinPath (p : List String) : String := "/".intercalate p

/-- the field specs one property contributes at `path` (the property's own name included) -/
def propSpecs (kind : String) (path : List String) (p : P) : List Spec :=
  (if p.anno then [Spec.anno kind (joinPath path)] else []) ++
  (if p.label then [Spec.label kind (joinPath path)] else []) ++
  (if p.ident then [Spec.pre kind (joinPath path)] else []) ++
  (match p.objref with
   | some (v, k, nk) => [Spec.nameref k v kind (joinPath (path ++ [nk.getD "name"]))]
   | none => [])

/-- `loadCrdTypeIntoConfig`: `onPath` are the types being expanded on the way from the root type -/
def expand (m : Types) (kind : String) : Nat → List String → String → List String → List Spec
  | 0, _, _, _ => []
  | f + 1, onPath, t, path =>
    match findT m t with
    | none => []
    | some ps =>
      if onPath.contains t then []
      else ps.flatMap fun p =>
        propSpecs kind (path ++ [p.name]) p ++
          (match p.ref with
           | some r => expand m kind f (t :: onPath) r (path ++ [p.name])
           | none => [])

/-- the code BEFORE fix C12-F17: no memory of the types on the way -/
def expandOld (m : Types) (kind : String) : Nat → String → List String → List Spec
  | 0, _, _ => []
  | f + 1, t, path =>
    match findT m t with
    | none => []
    | some ps =>
      ps.flatMap fun p =>
        propSpecs kind (path ++ [p.name]) p ++
          (match p.ref with
           | some r => expandOld m kind f r (path ++ [p.name])
           | none => [])

def looksLikeK8s (ps : List P) : Bool :=
  ps.any (·.name == "kind") && ps.any (·.name == "apiVersion") && ps.any (·.name == "metadata")

/-- `makeGvkFromTypeName`: the text after the last dot -/
def kindOf (n : String) : String := ((n.splitOn ".").getLast?).getD n

/-- `makeConfigFromApiMap`, as the list of specs (the code merges them into sets) -/
def config (m : Types) : List Spec :=
  m.flatMap fun (name, ps) => if looksLikeK8s ps then expand m (kindOf name) (m.length + 1) [] name [] else []

end CrdConfig
end Kust
