/- Reviewed expectations for the regenerated fact tables (`Kust/Gen/CodeFacts.lean`).
   Every entry was read in the source; the tag says why the site cannot make the result depend on map order /
   cannot be reached on valid input / is a recorded finding.  A regenerated table that differs from these lists
   fails the `decide` theorems in Props/C01, C05, C12, C16. -/
namespace Kust.Reviewed

def mapRangeSites : List (String × Nat × String) := [
  ("(*api/internal/accumulator.refVarTransformer).UnusedVars", 1, "collect-then-sort-or-set-algebra"),
  ("(*api/internal/builtins.PatchJson6902TransformerPlugin).Transform", 1, "insert-into-map-or-sorted-later"),
  ("(*api/internal/builtins.PatchTransformerPlugin).transformJson6902", 1, "insert-into-map-or-sorted-later"),
  ("(*api/types.Kustomization).FixKustomizationPreMarshalling", 1, "error-or-check-only"),
  ("(*api/types.VarSet).AsSlice", 1, "collect-then-sort-or-set-algebra"),
  ("(*api/types.VarSet).MergeSet", 1, "insert-into-map-or-sorted-later"),
  ("(*kyaml/fn/runtime/runtimeutil.ContainerEnv).GetDockerFlags", 1, "outside-build-domain (functions, package IO)"),
  ("(*kyaml/fn/runtime/runtimeutil.ContainerEnv).Raw", 1, "outside-build-domain (functions, package IO)"),
  ("(*kyaml/kio.ByteReader).decode", 1, "sets-annotations-on-one-node (order-independent writes to distinct keys)"),
  ("(*kyaml/kio.LocalPackageReadWriter).Write", 2, "outside-build-domain (functions, package IO)"),
  ("(*kyaml/yaml.ObjectMeta).DeepCopyInto", 2, "insert-into-map-or-sorted-later"),
  ("(*kyaml/yaml.PathMatcher).doIndexSeq", 1, "insert-into-map-or-sorted-later"),
  ("(*kyaml/yaml.PathMatcher).visitElem", 1, "insert-into-map-or-sorted-later"),
  ("(*kyaml/yaml.PathMatcher).visitEveryElem", 1, "insert-into-map-or-sorted-later"),
  ("(*kyaml/yaml.RNode).validateDataMap", 1, "error-or-check-only"),
  ("(*kyaml/yaml.YFilter).UnmarshalYAML", 1, "outside-build-domain (functions, package IO)"),
  ("(kyaml/kio.LocalPackageWriter).Write", 3, "outside-build-domain (functions, package IO)"),
  ("(kyaml/runfn.RunFns).mergeContainerEnv", 1, "outside-build-domain (functions, package IO)"),
  ("(kyaml/runfn.RunFns).mergeExecEnv", 1, "outside-build-domain (functions, package IO)"),
  ("(kyaml/sets.String).Difference", 1, "collect-then-sort-or-set-algebra"),
  ("(kyaml/sets.String).Intersection", 1, "collect-then-sort-or-set-algebra"),
  ("(kyaml/sets.String).List", 1, "collect-then-sort-or-set-algebra"),
  ("(kyaml/sets.String).SymmetricDifference", 2, "collect-then-sort-or-set-algebra"),
  ("(kyaml/yaml/internal/k8sgen/pkg/labels.Set).String", 1, "collect-then-sort-or-set-algebra"),
  ("(kyaml/yaml/internal/k8sgen/pkg/util/sets.String).Difference", 1, "collect-then-sort-or-set-algebra"),
  ("(kyaml/yaml/internal/k8sgen/pkg/util/sets.String).Intersection", 1, "collect-then-sort-or-set-algebra"),
  ("(kyaml/yaml/internal/k8sgen/pkg/util/sets.String).IsSuperset", 1, "collect-then-sort-or-set-algebra"),
  ("(kyaml/yaml/internal/k8sgen/pkg/util/sets.String).List", 1, "collect-then-sort-or-set-algebra"),
  ("(kyaml/yaml/internal/k8sgen/pkg/util/sets.String).PopAny", 1, "collect-then-sort-or-set-algebra"),
  ("(kyaml/yaml/internal/k8sgen/pkg/util/sets.String).Union", 2, "collect-then-sort-or-set-algebra"),
  ("(kyaml/yaml/internal/k8sgen/pkg/util/sets.String).UnsortedList", 1, "collect-then-sort-or-set-algebra"),
  ("api/internal/accumulator.debug", 1, "error-or-check-only"),
  ("api/internal/accumulator.loadCrdTypeIntoConfig", 1, "insert-into-map-or-sorted-later"),
  ("api/internal/accumulator.makeConfigFromApiMap", 1, "insert-into-map-or-sorted-later"),
  ("api/internal/plugins/builtinhelpers.makeStringToBuiltinPluginTypeMap", 2, "insert-into-map-or-sorted-later"),
  ("api/resource.mergeStringMaps", 1, "insert-into-map-or-sorted-later"),
  ("api/types.CopyMap", 1, "insert-into-map-or-sorted-later"),
  ("api/types.overrideMap", 1, "insert-into-map-or-sorted-later"),
  ("kyaml/fn/runtime/runtimeutil.StringToStorageMount", 1, "outside-build-domain (functions, package IO)"),
  ("kyaml/kio.determineAnnotationsFormat", 1, "insert-into-map-or-sorted-later"),
  ("kyaml/kio/kioutil.GetInternalAnnotations", 1, "insert-into-map-or-sorted-later"),
  ("kyaml/openapi.AddDefinitions", 1, "insert-into-map-or-sorted-later"),
  ("kyaml/openapi.findNamespaceability", 1, "insert-into-map-or-sorted-later"),
  ("kyaml/yaml.SortedMapKeys", 1, "collect-then-sort-or-set-algebra"),
  ("kyaml/yaml.hasNilEntryInList", 1, "error-or-check-only"),
  ("kyaml/yaml/internal/k8sgen/pkg/labels.SelectorFromValidatedSet", 1, "insert-into-map-or-sorted-later"),
  ("kyaml/yaml/internal/k8sgen/pkg/labels.ValidatedSelectorFromSet", 1, "insert-into-map-or-sorted-later")
]

def panicSites : List (String × String × Nat × String) := [
  ("(*api/resmap.Factory).FromResourceSlice", "panic", 1, "append of a single resource into an empty map"),
  ("(*api/resmap.Factory).FromResource", "panic", 1, "append of a single resource into an empty map"),
  ("(*api/resource.Factory).makeOne", "exit:log.Fatal", 1, "error of setting a field on a freshly built/validated mapping node"),
  ("(*api/resource.Resource).MustYaml", "exit:log.Fatal", 1, "debug/error-message helpers"),
  ("(*api/resource.Resource).PrevIds", "panic", 1, "finding C12-K1"),
  ("(*api/resource.Resource).RemoveBuildAnnotations", "panic", 1, "error of setting a field on a freshly built/validated mapping node"),
  ("(*api/resource.Resource).SetBehavior", "panic", 1, "error of setting a field on a freshly built/validated mapping node"),
  ("(*api/resource.Resource).appendCsvAnnotation", "panic", 1, "finding C12-K3"),
  ("(*api/resource.Resource).enable", "panic", 1, "error of setting a field on a freshly built/validated mapping node"),
  ("(*kyaml/openapi.ResourceSchema).PatchStrategyAndKeyList", "assert", 7, "assertions on extension values: guarded by type switch on schema built from parsed JSON (strings/arrays)"),
  ("(*kyaml/openapi.ResourceSchema).PatchStrategyAndKey", "assert", 2, "assertions on extension values: guarded by type switch on schema built from parsed JSON (strings/arrays)"),
  ("(*kyaml/yaml.RNode).MustString", "panic", 1, "debug/error-message helpers"),
  ("(*kyaml/yaml.RNode).SetBinaryDataMap", "exit:log.Fatal", 3, "error of setting a field on a freshly built/validated mapping node"),
  ("(*kyaml/yaml.RNode).SetDataMap", "exit:log.Fatal", 3, "error of setting a field on a freshly built/validated mapping node"),
  ("(kyaml/filesys.fsOnDisk).CleanedAbs", "exit:log.Fatalf", 3, "on-disk FS only: filepath.Abs/EvalSymlinks failure (finding under C18)"),
  ("api/filters/refvar.updateNodeValue", "assert", 1, "outside-build-domain (go plugins, vars)"),
  ("api/internal/accumulator.newNameReferenceTransformer", "exit:log.Fatal", 1, "embedded constant data only"),
  ("api/internal/plugins/builtinconfig.MakeDefaultConfig$1", "exit:log.Fatalf", 1, "embedded constant data only"),
  ("api/internal/plugins/loader.copyPlugin", "assert", 1, "outside-build-domain (go plugins, vars)"),
  ("api/internal/utils.TimedCall", "panic", 1, "outside-build-domain (go plugins, vars)"),
  ("kyaml/openapi.initSchema", "panic", 2, "finding C12-K2 (invalid custom schema) / embedded asset"),
  ("kyaml/openapi.parseBuiltinSchema", "panic", 1, "embedded constant data only"),
  ("kyaml/openapi/kubernetesapi/v1_21_2.MustAsset", "panic", 1, "embedded constant data only"),
  ("kyaml/openapi/kustomizationapi.MustAsset", "panic", 1, "embedded constant data only")
]

def fsReadSites : List (String × String × String) := [
  ("(*api/internal/loader.FileLoader).Load", "FileSystem.ReadFile", "THE restricted read (after the load restrictor)"),
  ("(*api/types.Kustomization).FixKustomizationPreMarshalling", "FileSystem.ReadFile", "edit-fix only (RTA over-approximation); tests whether a patch string is a file"),
  ("(kyaml/filesys.FileSystemOrOnDisk).Open", "FileSystem.Open", "file-system implementation itself"),
  ("(kyaml/filesys.FileSystemOrOnDisk).ReadFile", "FileSystem.ReadFile", "file-system implementation itself"),
  ("(kyaml/filesys.fsOnDisk).Glob", "path/filepath.Glob", "file-system implementation itself"),
  ("(kyaml/filesys.fsOnDisk).Open", "os.Open", "file-system implementation itself"),
  ("(kyaml/filesys.fsOnDisk).ReadDir", "os.ReadDir", "file-system implementation itself"),
  ("(kyaml/filesys.fsOnDisk).ReadFile", "os.ReadFile", "file-system implementation itself"),
  ("(kyaml/filesys.fsOnDisk).Walk", "path/filepath.Walk", "file-system implementation itself")
]

def mutableGlobals : List String := ["api/internal/plugins/builtinconfig.defaultConfig", "api/internal/plugins/loader.registry", "kyaml/openapi.customSchema", "kyaml/openapi.globalSchema", "kyaml/openapi.kubernetesOpenAPIVersion"]

/-- package-level variables whose address — or the shared object they point to — is handed to a call on the build path
    (outside `init`): the callee may keep state there.  (variable, callee, why it is no history channel) -/
def globalsByRef : List (String × String × String) := [
  ("api/internal/builtins.legalMergeOptions", "?", "read-only table (never written outside init: not in mutableGlobals)"),
  ("api/internal/builtins.prefixFieldSpecsToSkip", "?", "read-only table (never written outside init: not in mutableGlobals)"),
  ("api/internal/builtins.suffixFieldSpecsToSkip", "?", "read-only table (never written outside init: not in mutableGlobals)"),
  ("api/internal/plugins/builtinconfig.defaultConfig", "(*api/internal/plugins/builtinconfig.TransformerConfig).DeepCopy", "read-only: copied before use"),
  ("api/internal/plugins/builtinconfig.initDefaultConfig", "(*sync.Once).Do", "one-time initialisation of an immutable table"),
  ("api/kv.utf8bom", "bytes.TrimPrefix", "read-only table (never written outside init: not in mutableGlobals)"),
  ("api/resource.BuildAnnotations", "?", "read-only table (never written outside init: not in mutableGlobals)"),
  ("ext:encoding/base64.StdEncoding", "(*encoding/base64.Encoding).Encode", "immutable codec"),
  ("ext:encoding/base64.StdEncoding", "(*encoding/base64.Encoding).EncodedLen", "immutable codec"),
  ("kyaml/fn/runtime/runtimeutil.functionAnnotationKeys", "?", "read-only table (never written outside init: not in mutableGlobals)"),
  ("kyaml/kio.JSONMatch", "?", "read-only table (never written outside init: not in mutableGlobals)"),
  ("kyaml/kio.requiredResourcePackageAnnotations", "?", "read-only table (never written outside init: not in mutableGlobals)"),
  ("kyaml/openapi.customSchema", "kyaml/openapi.parse", "read under the schema lock by the caller (initSchema); written only by SetSchema under the lock"),
  ("kyaml/openapi.schemaLock", "(*sync.RWMutex).Lock", "the schema lock itself"),
  ("kyaml/openapi.schemaLock", "(*sync.RWMutex).RLock", "the schema lock itself"),
  ("kyaml/openapi.schemaLock", "(*sync.RWMutex).RUnlock", "the schema lock itself"),
  ("kyaml/openapi.schemaLock", "(*sync.RWMutex).Unlock", "the schema lock itself"),
  ("kyaml/openapi/kubernetesapi/v1_21_2._kubernetesapiV1_21_2SwaggerPb", "kyaml/openapi/kubernetesapi/v1_21_2.bindataRead", "embedded constant data"),
  ("kyaml/openapi/kustomizationapi._kustomizationapiSwaggerJson", "kyaml/openapi/kustomizationapi.bindataRead", "embedded constant data"),
  ("kyaml/resid.orderFirst", "?", "read-only table (never written outside init: not in mutableGlobals)"),
  ("kyaml/resid.orderLast", "?", "read-only table (never written outside init: not in mutableGlobals)"),
  ("kyaml/yaml.AssociativeSequenceKeys", "?", "read-only table (never written outside init: not in mutableGlobals)"),
  ("kyaml/yaml.fieldSortOrder", "?", "read-only table (never written outside init: not in mutableGlobals)")
]

end Kust.Reviewed
