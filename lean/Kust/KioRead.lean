/-
  Kust.KioRead — the loop of `ByteReader.Read` (kyaml/kio/byteio_reader.go) after the stream has been split: which
  documents become resources, which reader index each one is stamped with, and when a `List` / `ResourceList` wrapper is
  replaced by its items.  Decoding (go-yaml) is outside: a document arrives classified.
-/
namespace Kust
namespace KioRead

inductive Doc where
  /-- nothing to decode (blank, comments only): the decoder reports EOF -/
  | blank
  /-- an empty / null document -/
  | null
  /-- a mapping: its kind, the number of `items` (none: no such field), whether it has `functionConfig` -/
  | res (kind : String) (items : Option Nat) (fnConfig : Bool)
  deriving Repr, DecidableEq

inductive Node where
  /-- document `doc` of the stream, stamped with reader index `idx` -/
  | doc (doc idx : Nat)
  /-- item `j` of the wrapper that was document `doc` (items carry no reader index) -/
  | item (doc j : Nat)
  deriving Repr, DecidableEq

def isWrapper (kind : String) (items : Option Nat) (fnConfig : Bool) : Bool :=
  (kind == "ResourceList" || kind == "List") && (items.isSome || fnConfig)

/-- the loop: `n` = number of values of the whole stream, `i` = position, `idx` = next reader index -/
def go (disableUnwrap : Bool) (n : Nat) : Nat → Nat → List Doc → List Node
  | _, _, [] => []
  | i, idx, .blank :: r => go disableUnwrap n (i + 1) idx r
  | i, idx, .null :: r => go disableUnwrap n (i + 1) idx r
  | i, idx, .res kind items fc :: r =>
    if !disableUnwrap && n == 1 && isWrapper kind items fc then
      (List.range (items.getD 0)).map (Node.item i) ++ go disableUnwrap n (i + 1) idx r
    else Node.doc i idx :: go disableUnwrap n (i + 1) (idx + 1) r

def read (disableUnwrap : Bool) (values : List Doc) : List Node := go disableUnwrap values.length 0 0 values

end KioRead
end Kust
