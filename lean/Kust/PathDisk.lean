/-
  The loader on a file system WITH symbolic links (the on-disk case of C05): `fsOnDisk.CleanedAbs` cleans the path
  lexically (`filepath.Abs`) and then resolves links PHYSICALLY (`filepath.EvalSymlinks`): component by component, a
  link is replaced by its target, and `..` steps to the parent of the directory reached so far.  The load restriction
  and the cycle check of `FileLoader.New` judge the RESOLVED location.

  A file system is a finite map from physical locations (component lists) to entries; the model's root `[]` is the
  directory the correspondence materialises the tree in, and a walk that would climb above it is reported as
  `unmodelled` (what lies above is not part of the model).
-/
import Kust.Path
namespace Kust.PathDisk
open Kust Kust.Path

inductive Ent where
  | dir
  | file (content : String)
  | link (target : String)
  deriving DecidableEq, Repr

abbrev Fs := List (List String × Ent)

def lookup (fs : Fs) (p : List String) : Option Ent :=
  if p = [] then some .dir else (fs.find? (·.1 = p)).map (·.2)

/-- `filepath.EvalSymlinks` from the directory `cur` (already physical) along the remaining components.  `fuel` bounds
    the number of steps (the OS bounds the number of links). -/
def resolve (fs : Fs) : Nat → List String → List String → Out (List String)
  | 0, _, _ => .err "toomanylinks"
  | _ + 1, cur, [] => .ok cur
  | fuel + 1, cur, c :: rest =>
    if c = "" ∨ c = "." then resolve fs fuel cur rest
    else if c = ".." then
      if cur = [] then .err "unmodelled" else resolve fs fuel cur.dropLast rest
    else
      match lookup fs (cur ++ [c]) with
      | none => .err "notfound"
      | some .dir => resolve fs fuel (cur ++ [c]) rest
      | some (.file _) => if rest.all (fun x => x = "" ∨ x = ".") then .ok (cur ++ [c]) else .err "notfound"
      | some (.link t) =>
        if isAbs t then resolve fs fuel [] (segments t ++ rest) else resolve fs fuel cur (segments t ++ rest)

def fuel0 : Nat := 400

/-- the lexical cleaning would climb above the model's root (`/a/../../x`): what lies there is outside the model -/
def climbsOut (path : String) : Bool :=
  let rec go : List String → Nat → Bool
    | [], _ => false
    | s :: ss, d =>
      if s = "" ∨ s = "." then go ss d
      else if s = ".." then (match d with | 0 => true | d + 1 => go ss d)
      else go ss (d + 1)
  go (segments path) 0

/-- `fsOnDisk.CleanedAbs` of an absolute path: lexical cleaning first, then physical resolution; a directory comes
    back as (dir, ""), a file as (its directory, its name) -/
def cleanedAbs (fs : Fs) (path : String) : Out (List String × String) :=
  if climbsOut path then .err "unmodelled" else
  match resolve fs fuel0 [] (compsOf (clean path)) with
  | .ok q =>
    (match lookup fs q with
    | some .dir => .ok (q, "")
    | some (.file _) => .ok (q.dropLast, q.getLast?.getD "")
    | _ => .err "notfound")
  | .err c => .err c
  | .panic c => .panic c

def strOf (p : List String) : String := "/" ++ "/".intercalate p

/-- `FileLoader.Load` under `RestrictionRootOnly`; `root` is the loader's (physical) root -/
def loaderLoad (fs : Fs) (root : List String) (path : String) : Out String :=
  let full := if isAbs path then path else strOf root ++ "/" ++ path
  match cleanedAbs fs full with
  | .ok (d, f) =>
    if f = "" then .err "notfile"
    else if !isPrefixC root d then .err "security"
    else match lookup fs (d ++ [f]) with
      | some (.file c) => .ok c
      | _ => .err "notfound"
  | .err c => .err c
  | .panic c => .panic c

/-- `FileLoader.New`: relative only, must resolve to a directory, which must be neither a root on the stack nor above one -/
def loaderNew (fs : Fs) (stack : List (List String)) (path : String) : Out (List String) :=
  if path = "" then .err "empty"
  else if isAbs path then .err "absolute"
  else
    match stack with
    | [] => .err "nostack"
    | root :: _ =>
      match cleanedAbs fs (strOf root ++ "/" ++ path) with
      | .ok (d, f) =>
        if f ≠ "" then .err "notdir"
        else if stack.any (fun r => isPrefixC d r) then .err "cycle"
        else .ok d
      | .err c => if c = "unmodelled" ∨ c = "toomanylinks" then .err c else .err "notdir"
      | .panic c => .panic c

inductive Op where
  | new (p : String)
  | load (p : String)
deriving Repr

/-- a session: `New` pushes a root on success, `Load` reads relative to the innermost root; results in order -/
def run (fs : Fs) : List (List String) → List Op → List (Out String)
  | _, [] => []
  | stack, .new p :: ops =>
    match loaderNew fs stack p with
    | .ok d => .ok (strOf d) :: run fs (d :: stack) ops
    | .err c => .err c :: run fs stack ops
    | .panic c => .panic c :: run fs stack ops
  | stack, .load p :: ops =>
    (match stack with
     | root :: _ => loaderLoad fs root p
     | [] => .err "nostack") :: run fs stack ops

end Kust.PathDisk
