/-
  Kust.SmPatchId — the identity bookkeeping of `Resource.ApplySmPatch` (api/resource/resource.go): what a strategic-merge
  patch may do to kind, name and namespace of its target.  The merge itself (`patchstrategicmerge.Filter`) is a
  parameter: `merged` is the identity the merged document carries (`none`: the patch deleted the resource).
-/
import Kust.Res
namespace Kust
namespace SmPatchId
open Res

structure Opts where
  allowName : Bool
  allowKind : Bool
  deriving Repr, DecidableEq

/-- `ApplySmPatch`: the previous id is recorded when either option is set; after the merge the kind is put back unless
    `allowKindChange`, the name unless `allowNameChange`, the namespace always -/
def apply (cs : Gvk → Bool) (o : Opts) (r : R) (merged : Option (String × String × String)) : Option R :=
  let r1 := if o.allowName || o.allowKind then r.storePrev cs else r
  match merged with
  | none => none
  | some (mk, mn, _) =>
    some { r1 with gvk := { r1.gvk with kind := if o.allowKind then mk else r.gvk.kind },
                   name := if o.allowName then mn else r.name,
                   ns := r.ns }

end SmPatchId
end Kust
