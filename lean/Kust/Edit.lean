/-
  Kust.Edit — the typed effect of the `kustomize edit` sub-commands (kustomize/commands/edit/{add,remove,set}/*.go)
  on the fields of a kustomization they address, including their own argument parsing
  (util.ConvertSliceToMap, parseReplicasArg, setimage.parse / image.Split, BuildMetadataValidator).
  A command reads the file (`FixKustomization` = `norm`), mutates the typed object and writes it back —
  or fails / decides there is nothing to do, and then the file is not rewritten at all.
  Go maps are association lists sorted by key (what sigs.k8s.io/yaml writes and what the view compares).
  Third-party validators are no-ops in this tree (api/internal/validate) except the annotation-key regexp of
  `set annotation`, passed in as a predicate.
-/
import Kust.Image
import Kust.GenMap
namespace Kust
namespace Edit

abbrev SMap := List (String × String)

def mapHas (k : String) (m : SMap) : Bool := m.any (·.1 = k)

def mapSet (k v : String) : SMap → SMap
  | [] => [(k, v)]
  | (a, b) :: r => if a = k then (k, v) :: r else if k < a then (k, v) :: (a, b) :: r else (a, b) :: mapSet k v r

def mapDel (k : String) (m : SMap) : SMap := m.filter (·.1 ≠ k)

def mapSetAll (kvs : SMap) (m : SMap) : SMap := kvs.foldl (fun m kv => mapSet kv.1 kv.2 m) m

structure Img where
  name : String
  newName : String := ""
  newTag : String := ""
  digest : String := ""
  tagSuffix : String := ""
  deriving DecidableEq, Repr

structure Lbl where
  pairs : SMap
  incSel : Bool
  incTpl : Bool
  fields : String := ""              -- opaque
  deriving DecidableEq, Repr

structure GenA where
  name : String
  ns : String := ""
  literals : List String := []
  envs : List String := []
  env : String := ""
  behavior : String := ""
  noHash : Bool := false
  typ : String := ""
  deriving DecidableEq, Repr

structure Pat where
  path : String
  patch : String
  target : String                    -- "" = no target, otherwise opaque
  deriving DecidableEq, Repr

structure E where
  kind : String := ""
  apiVersion : String := ""
  resources : List String := []
  bases : List String := []
  components : List String := []
  buildMetadata : List String := []
  commonLabels : SMap := []
  commonAnnotations : SMap := []
  labels : List Lbl := []
  nspace : String := ""
  namePrefix : String := ""
  nameSuffix : String := ""
  images : List Img := []
  imageTags : List Img := []
  replicas : List (String × Int) := []
  cms : List GenA := []
  secrets : List GenA := []
  patches : List Pat := []
  deriving DecidableEq, Repr

def normGen (g : GenA) : GenA := if g.env ≠ "" then { g with envs := g.envs ++ [g.env], env := "" } else g

/-- `kustomizationFile.Read`: `FixKustomization` on the fields of the model -/
def norm (e : E) : E :=
  let kind := if e.kind = "" then "Kustomization" else e.kind
  { e with kind := kind,
           apiVersion := if e.apiVersion = "" then
               (if kind = "Component" then "kustomize.config.k8s.io/v1alpha1" else "kustomize.config.k8s.io/v1beta1")
             else e.apiVersion,
           resources := e.resources ++ e.bases, bases := [],
           images := e.images ++ e.imageTags, imageTags := [],
           cms := e.cms.map normGen, secrets := e.secrets.map normGen }

/-- what a command did -/
inductive Outcome where
  | err                 -- the command failed; the file is untouched
  | noop                -- the command succeeded without writing
  | wrote (e : E)       -- the file was rewritten from `e`
  deriving DecidableEq, Repr

def Outcome.state (cur : E) : Outcome → E
  | .wrote e => e
  | _ => cur

/-! ### argument parsing -/

def indexOfC (c : Char) : List Char → Option Nat
  | [] => none
  | x :: xs => if x = c then some 0 else (indexOfC c xs).map (· + 1)

def trimQuotes (s : List Char) : List Char :=
  if s.length ≥ 2 ∧ s.head? = some '"' ∧ s.getLast? = some '"' then (s.drop 1).dropLast else s

/-- `util.ConvertSliceToMap` (`none` = "need k:v pair") -/
def convertSliceToMap : List String → Option SMap
  | [] => some []
  | a :: r =>
    let cs := a.toList
    match indexOfC ':' cs with
    | some 0 => none
    | none => (convertSliceToMap r).map fun m => if mapHas a m then m else mapSet a "" m
    | some c => (convertSliceToMap r).map fun m =>
        let k := String.ofList (cs.take c)
        if mapHas k m then m else mapSet k (String.ofList (trimQuotes (cs.drop (c + 1)))) m

/- Go inserts left to right (later duplicates win); the recursion above goes right to left and keeps what is
   already there, which is the same map. -/

def splitOnC (c : Char) (cs : List Char) : List (List Char) :=
  let rec go : List Char → List Char → List (List Char)
    | [], cur => [cur.reverse]
    | x :: xs, cur => if x = c then cur.reverse :: go xs [] else go xs (x :: cur)
  go cs []

def digitVal (c : Char) : Option Nat := if '0' ≤ c ∧ c ≤ '9' then some (c.toNat - '0'.toNat) else none

def parseNat : List Char → Option Nat
  | [] => none
  | cs => cs.foldl (fun acc c => match acc, digitVal c with
      | some a, some d => some (a * 10 + d)
      | _, _ => none) (some 0)

/-- `strconv.ParseInt(s, 10, 64)` -/
def parseInt64 (cs : List Char) : Option Int :=
  let (neg, ds) := match cs with
    | '-' :: r => (true, r)
    | '+' :: r => (false, r)
    | _ => (false, cs)
  match parseNat ds with
  | none => none
  | some n =>
    if neg then (if n ≤ 9223372036854775808 then some (-(n : Int)) else none)
    else (if n ≤ 9223372036854775807 then some (n : Int) else none)

/-- `parseReplicasArg` -/
def parseReplica (arg : String) : Option (String × Int) :=
  match splitOnC '=' arg.toList with
  | [n, c] => (parseInt64 c).map fun i => (String.ofList n, i)
  | _ => none

/-- setimage.go `parse` -/
def parseImage (arg : String) : Option Img :=
  let cs := arg.toList
  let (key, value) := match indexOfC '=' cs with
    | some i => (String.ofList (cs.take i), String.ofList (cs.drop (i + 1)))
    | none => ("", arg)
  let (name, tag, digest) := Image.split value
  if name = arg then none
  else if key = "" then some { name := name, newTag := tag, digest := digest }
  else some { name := key, newName := name, newTag := tag, digest := digest }

def buildMetadataOptions : List String := ["originAnnotations", "transformerAnnotations", "managedByLabel"]

/-- `BuildMetadataValidator.Validate` -/
def validateBuildMeta (args : List String) : Option (List String) :=
  match args with
  | [a] =>
    let opts := (splitOnC ',' a.toList).map String.ofList
    if opts.all (buildMetadataOptions.contains ·) then some opts else none
  | _ => none

/-! ### the commands -/

def kustPath : String := "kustomization.yaml"

def addPaths (cur ps : List String) : List String :=
  ps.foldl (fun acc p => if p = kustPath ∨ acc.contains p then acc else acc ++ [p]) cur

/-- `writeToMap` without force: any existing key is an error -/
def addToMap (force : Bool) (kvs m : SMap) : Option SMap :=
  if !force && kvs.any (fun kv => mapHas kv.1 m) then none else some (mapSetAll kvs m)

def findLabelIndex (tpl : Bool) (ls : List Lbl) : Option Nat :=
  ls.findIdx? fun l => l.incSel = false ∧ l.incTpl = tpl

/-- `writeToLabels` (after the repair: the new entry receives the pairs one by one) -/
def addToLabels (force tpl : Bool) (kvs : SMap) (ls : List Lbl) : Option (List Lbl) :=
  if kvs.isEmpty then some ls
  else match findLabelIndex tpl ls with
    | some i =>
      match ls[i]? with
      | some l => (addToMap force kvs l.pairs).map fun p => ls.set i { l with pairs := p }
      | none => none
    | none => some (ls ++ [{ pairs := mapSetAll kvs [], incSel := false, incTpl := tpl }])

def removeKeys (ignore : Bool) (keys : List String) (m : SMap) : Option SMap :=
  if m.isEmpty && !ignore then none
  else keys.foldl (fun acc k => match acc with
    | none => none
    | some m => if !mapHas k m && !ignore then none else some (mapDel k m)) (some m)

def setReplicasList (args : List (String × Int)) (cur : List (String × Int)) : List (String × Int) :=
  -- the argument map (later arguments win), then existing entries whose name is not in the map yet (first wins)
  let argMap := args.foldl (fun m a => (m.filter (·.1 ≠ a.1)) ++ [a]) ([] : List (String × Int))
  let all := cur.foldl (fun m r => if m.any (·.1 = r.1) then m else m ++ [r]) argMap
  all.mergeSort (fun a b => a.1 ≤ b.1)

def star : String := "*"

def mergeImage (arg old : Img) : Img :=
  let a := if arg.newName = star then { name := arg.name, newName := old.newName, newTag := arg.newTag, digest := arg.digest : Img } else arg
  let a := if a.newTag = star then { name := a.name, newName := a.newName, newTag := old.newTag, digest := a.digest : Img } else a
  if a.digest = star then { name := a.name, newName := a.newName, newTag := a.newTag, digest := old.digest : Img } else a

def unstar (v : Img) : Img :=
  let v := if v.newName = star then { name := v.name, newName := "", newTag := v.newTag, digest := v.digest : Img } else v
  let v := if v.newTag = star then { name := v.name, newName := v.newName, newTag := "", digest := v.digest : Img } else v
  if v.digest = star then { name := v.name, newName := v.newName, newTag := v.newTag, digest := "" : Img } else v

def imgPut (i : Img) (m : List Img) : List Img :=
  if m.any (·.name = i.name) then m.map (fun x => if x.name = i.name then i else x) else m ++ [i]

def setImagesList (args : List Img) (cur : List Img) : List Img :=
  let argMap := args.foldl (fun m a => imgPut a m) []
  let all := cur.foldl (fun m im =>
    match m.find? (·.name = im.name) with
    | some a => imgPut (mergeImage a im) m
    | none => imgPut im m) argMap
  (all.map unstar).mergeSort (fun a b => a.name ≤ b.name)

def nsEq (a b : String) : Bool := (if a = "" then "default" else a) = (if b = "" then "default" else b)

def validBehavior (b : String) : Bool := b = "" || b = "create" || b = "merge" || b = "replace"

/-- add configmap / secret with literals; `none` = rejected by validation -/
def addGen (name ns : String) (lits : List String) (behavior : String) (noHash : Bool) (typ : String)
    (gs : List GenA) : Option (List GenA) :=
  if lits.isEmpty || !validBehavior behavior then none
  else
    let upd (g : GenA) : GenA :=
      { g with literals := g.literals ++ lits, noHash := if noHash then true else g.noHash,
               behavior := if behavior ≠ "" then behavior else g.behavior }
    let (gs', g') := match gs.findIdx? (fun g => g.name = name ∧ nsEq g.ns ns) with
      | some i => match gs[i]? with
        | some g => (gs.set i (upd g), upd g)
        | none => (gs, upd { name := name })
      | none => let g := upd { name := name, ns := ns, typ := typ }; (gs ++ [g], g)
    match GenMap.dataOfLiterals g'.literals [] with
    | .ok _ => some gs'
    | _ => none

def removeGen (names : List String) (ns : String) (gs : List GenA) : Option (List GenA) :=
  let rest := gs.filter fun g => !(names.contains g.name && nsEq g.ns ns)
  if rest.length = gs.length then none else some rest

inductive Op where
  | addResource (ps : List String)
  | removeResource (ps : List String)
  | addComponent (ps : List String)
  | addBuildMeta (args : List String)
  | removeBuildMeta (args : List String)
  | setBuildMeta (args : List String)
  | addLabel (args : List String) (force wosel tpl : Bool)
  | addAnnotation (args : List String) (force : Bool)
  | setLabel (args : List String)
  | setAnnotation (args : List String)
  | removeLabel (args : List String) (ignore : Bool)
  | removeAnnotation (args : List String) (ignore : Bool)
  | setNamespace (args : List String)
  | setNamePrefix (args : List String)
  | setNameSuffix (args : List String)
  | setReplicas (args : List String)
  | setImage (args : List String)
  | addConfigMap (args : List String) (ns : String) (lits : List String) (behavior : String) (noHash : Bool)
  | removeConfigMap (args : List String) (ns : String)
  | addSecret (args : List String) (ns : String) (lits : List String) (noHash : Bool)
  | removeSecret (args : List String) (ns : String)
  | addPatch (p : Pat)
  | removePatch (p : Pat)
  deriving DecidableEq, Repr

def allSome {α} : List (Option α) → Option (List α)
  | [] => some []
  | none :: _ => none
  | some a :: r => (allSome r).map (a :: ·)

/-- one `kustomize edit …` invocation; `validKey` is the annotation-key regexp of `set annotation` -/
def apply (validKey : String → Bool) (e0 : E) (op : Op) : Outcome :=
  let e := norm e0
  match op with
  | .addResource ps =>
    if ps.isEmpty then .err else .wrote { e with resources := addPaths e.resources ps }
  | .removeResource ps =>
    if ps.isEmpty then .err
    else if e.resources.any (ps.contains ·) then .wrote { e with resources := e.resources.filter (!ps.contains ·) }
    else .noop
  | .addComponent ps =>
    if ps.isEmpty then .err else .wrote { e with components := addPaths e.components ps }
  | .addBuildMeta args =>
    match validateBuildMeta args with
    | none => .err
    | some opts =>
      let r := opts.foldl (fun acc o => match acc with
        | none => none
        | some l => if l.contains o then none else some (l ++ [o])) (some e.buildMetadata)
      match r with
      | some l => .wrote { e with buildMetadata := l }
      | none => .err
  | .removeBuildMeta args =>
    match validateBuildMeta args with
    | none => .err
    | some opts => .wrote { e with buildMetadata := e.buildMetadata.filter (!opts.contains ·) }
  | .setBuildMeta args =>
    match validateBuildMeta args with
    | none => .err
    | some opts => .wrote { e with buildMetadata := opts }
  | .addLabel args force wosel tpl =>
    if args.isEmpty || (!wosel && tpl) then .err
    else match convertSliceToMap args with
      | none => .err
      | some kvs =>
        if wosel then
          match addToLabels force tpl kvs e.labels with
          | some ls => .wrote { e with labels := ls }
          | none => .err
        else match addToMap force kvs e.commonLabels with
          | some m => .wrote { e with commonLabels := m }
          | none => .err
  | .addAnnotation args force =>
    if args.isEmpty then .err
    else match convertSliceToMap args with
      | none => .err
      | some kvs => match addToMap force kvs e.commonAnnotations with
        | some m => .wrote { e with commonAnnotations := m }
        | none => .err
  | .setLabel args =>
    if args.isEmpty then .err
    else match convertSliceToMap args with
      | none => .err
      | some kvs => .wrote { e with commonLabels := mapSetAll kvs e.commonLabels }
  | .setAnnotation args =>
    if args.isEmpty then .err
    else match convertSliceToMap args with
      | none => .err
      | some kvs =>
        if kvs.all (fun kv => validKey kv.1) then .wrote { e with commonAnnotations := mapSetAll kvs e.commonAnnotations }
        else .err
  | .removeLabel args ignore =>
    match args with
    | [a] =>
      let keys := (splitOnC ',' a.toList).map String.ofList
      if keys.any (· = "") then .err
      else match removeKeys ignore keys e.commonLabels with
        | some m => .wrote { e with commonLabels := m }
        | none => .err
    | _ => .err
  | .removeAnnotation args ignore =>
    match args with
    | [a] =>
      let keys := (splitOnC ',' a.toList).map String.ofList
      if keys.any (· = "") then .err
      else match removeKeys ignore keys e.commonAnnotations with
        | some m => .wrote { e with commonAnnotations := m }
        | none => .err
    | _ => .err
  | .setNamespace args => match args with
    | [s] => .wrote { e with nspace := s }
    | _ => .err
  | .setNamePrefix args => match args with
    | [s] => .wrote { e with namePrefix := s }
    | _ => .err
  | .setNameSuffix args => match args with
    | [s] => .wrote { e with nameSuffix := s }
    | _ => .err
  | .setReplicas args =>
    if args.isEmpty then .err
    else match allSome (args.map parseReplica) with
      | none => .err
      | some rs => .wrote { e with replicas := setReplicasList rs e.replicas }
  | .setImage args =>
    if args.isEmpty then .err
    else match allSome (args.map parseImage) with
      | none => .err
      | some is => .wrote { e with images := setImagesList is e.images }
  | .addConfigMap args ns lits behavior noHash =>
    match args with
    | [name] => match addGen name ns lits behavior noHash "" e.cms with
      | some gs => .wrote { e with cms := gs }
      | none => .err
    | _ => .err
  | .removeConfigMap args ns =>
    match args with
    | [a] => match removeGen ((splitOnC ',' a.toList).map String.ofList) ns e.cms with
      | some gs => .wrote { e with cms := gs }
      | none => .err
    | _ => .err
  | .addSecret args ns lits noHash =>
    match args with
    | [name] => match addGen name ns lits "" noHash "Opaque" e.secrets with
      | some gs => .wrote { e with secrets := gs }
      | none => .err
    | _ => .err
  | .removeSecret args ns =>
    match args with
    | [a] => match removeGen ((splitOnC ',' a.toList).map String.ofList) ns e.secrets with
      | some gs => .wrote { e with secrets := gs }
      | none => .err
    | _ => .err
  | .addPatch p =>
    if p.patch ≠ "" ∧ p.path ≠ "" then .err
    else if p.patch = "" ∧ p.path = "" then .err
    else if e.patches.contains p then .noop
    else .wrote { e with patches := e.patches ++ [p] }
  | .removePatch p =>
    if p.patch ≠ "" ∧ p.path ≠ "" then .err
    else if e.patches.contains p then .wrote { e with patches := e.patches.filter (· ≠ p) }
    else .noop

def runOps (validKey : String → Bool) : E → List Op → E
  | e, [] => e
  | e, op :: r => runOps validKey ((apply validKey e op).state e) r

end Edit
end Kust
