/-
  kustdrv — line-protocol driver: one JSON case per line on stdin, one JSON result per line on stdout.
  {"id":n,"comp":"<component>","args":{…}}  →  {"id":n,"out":…}
-/
import Lean.Data.Json
import Kust.Wire
import Kust.Fns
import Kust.Res
import Kust.Fmt
import Kust.Walk
import Kust.GenMap
import Kust.Sha256
import Kust.Labels
import Kust.Image
import Kust.OpenApi
import Kust.FieldSpec
import Kust.Path
import Kust.Kio
import Kust.Fix
import Kust.Edit
import Kust.Kustfile
import Kust.Loc
import Kust.Nameref
import Kust.Repl
import Kust.FmtSchema
import Kust.Match
import Kust.ReplTree
import Kust.PathDisk
import Kust.Kv
import Kust.Subset
import Kust.RefVar
import Kust.PathSplit
import Kust.NsFilter
import Kust.Select
import Kust.CrdConfig
import Kust.KioRead
import Kust.SmPatchId
import Kust.Gen.Lists
import Kust.Gen.FieldSpecs
import Kust.Gen.Lists
open Lean Kust

def pairJ (a : Node × Option Node) : Json :=
  Json.mkObj [("doc", nodeToJson a.1), ("res", optNodeToJson a.2)]

def runFns (op : String) (a : Json) : Except String Json := do
  let ns := predOfJson (a.getObjValD "ns")
  let doc ← nodeOfJson (a.getObjValD "doc")
  match op with
  | "lookup" =>
    let path ← strList (a.getObjValD "path")
    let create ← (a.getObjValD "create").getNat?
    let style ← (a.getObjValD "style").getNat?
    return outToJson pairJ (Fns.lookup ns create style path doc)
  | "lookup2" =>
    let path ← strList (a.getObjValD "path")
    let create ← (a.getObjValD "create").getNat?
    match Fns.lookup ns create 0 path doc with
    | .ok (d1, _) =>
      match Fns.lookup ns create 0 path d1 with
      | .ok (d2, r) => return Json.mkObj [("ok", Json.mkObj [("doc", nodeToJson d2), ("res", optNodeToJson r), ("path", Json.arr (path.map Json.str).toArray)])]
      | .err c => return Json.mkObj [("err", Json.str ("second:" ++ c))]
      | .panic c => return Json.mkObj [("panic", Json.str c)]
    | .err c => return Json.mkObj [("err", Json.str c)]
    | .panic c => return Json.mkObj [("panic", Json.str c)]
  | "setfield" =>
    let name ← (a.getObjValD "name").getStr?
    let v ← optNodeOfJson (a.getObjValD "value")
    let keep := (a.getObjValD "keep").getBool?.toOption.getD false
    let ovr := (a.getObjValD "override").getBool?.toOption.getD false
    return outToJson pairJ (Fns.fieldSetter ns name v keep ovr doc)
  | "clear" =>
    let name ← (a.getObjValD "name").getStr?
    let ife := (a.getObjValD "ifEmpty").getBool?.toOption.getD false
    return outToJson pairJ (Fns.fieldClearer name ife doc)
  | "setelem" =>
    let keys ← strList (a.getObjValD "keys")
    let vals ← strList (a.getObjValD "values")
    let e ← optNodeOfJson (a.getObjValD "elem")
    return outToJson pairJ (Fns.elementSetter keys vals e doc)
  | _ => throw s!"unknown fns op {op}"

def gvkOfJson (j : Json) : Except String Res.Gvk := do
  return ⟨← (j.getObjValD "group").getStr?, ← (j.getObjValD "version").getStr?, ← (j.getObjValD "kind").getStr?⟩

def idOfJson (j : Json) : Except String Res.ResId := do
  return ⟨← gvkOfJson j, ← (j.getObjValD "name").getStr?, ← (j.getObjValD "ns").getStr?⟩

def idToJson (i : Res.ResId) : Json :=
  Json.mkObj [("group", i.gvk.group), ("version", i.gvk.version), ("kind", i.gvk.kind), ("name", i.name), ("ns", i.ns)]

def strsJ (l : List String) : Json := Json.arr (l.map Json.str).toArray

/-- cluster-scope predicate of a case: the harness sends the kinds it asked the real code about -/
def csOfJson (j : Json) : Res.Gvk → Bool := fun g =>
  match j.getObjVal? (g.group ++ "/" ++ g.version ++ "/" ++ g.kind) with
  | .ok (Json.bool b) => b
  | _ => false

def runRes (op : String) (a : Json) : Except String Json := do
  let cs := csOfJson (a.getObjValD "cs")
  match op with
  | "append" =>
    let ids ← (← (a.getObjValD "ids").getArr?).toList.mapM idOfJson
    return outToJson (fun m => Json.arr (m.map idToJson).toArray) (Res.appendAll cs [] ids)
  | "layers" =>
    let id ← idOfJson (a.getObjValD "id")
    let ls ← (← (a.getObjValD "layers").getArr?).toList.mapM fun l => do
      return ({ ns := ← (l.getObjValD "ns").getStr?, pre := ← (l.getObjValD "pre").getStr?,
                suf := ← (l.getObjValD "suf").getStr? } : Res.Layer)
    let skip : String → Bool := fun k => Gen.prefixSkipKinds.contains k
    let r0 : Res.R := { gvk := id.gvk, name := id.name, ns := id.ns }
    let out := Res.layers cs skip ls r0
    let out2 : Out (Res.R × List Res.ResId) := match out with
      | .ok r => (match r.prevIds with
          | .ok p => .ok (r, p)
          | .err c => .err c
          | .panic c => .panic c)
      | .err c => .err c
      | .panic c => .panic c
    return outToJson (fun (p : Res.R × List Res.ResId) => Json.mkObj [("cur", idToJson p.1.curId),
      ("prev", Json.arr (p.2.map idToJson).toArray), ("prefixes", strsJ p.1.prefixes),
      ("suffixes", strsJ p.1.suffixes)]) out2
  | "legacysort" =>
    let ids ← (← (a.getObjValD "ids").getArr?).toList.mapM idOfJson
    let sorted := ids.mergeSort (Res.legacyLe Gen.orderFirst Gen.orderLast)
    return Json.mkObj [("ok", Json.arr (sorted.map idToJson).toArray)]
  | _ => throw s!"unknown res op {op}"

/-- `FormatFilter{}.Filter` on one document whose `kind`/`apiVersion` the harness has read (scalars) -/
def runFmt (op : String) (a : Json) : Except String Json := do
  match op with
  | "node" =>
    let doc ← nodeOfJson (a.getObjValD "doc")
    let kind ← (a.getObjValD "kind").getStr?
    let apiv ← (a.getObjValD "apiVersion").getStr?
    let cfg : Fmt.Cfg := { order := Gen.fieldSortOrder,
                           wl := Gen.whitelistKinds.contains kind && Gen.whitelistApis.contains apiv,
                           wlFields := Gen.whitelistFields }
    let out := Fmt.fmtN Fmt.mergeSorter cfg (doc.size + 1) "" doc
    return Json.mkObj [("ok", nodeToJson out)]
  | _ => throw s!"unknown fmt op {op}"

/-- schema graph of a case: [[path…], strategy, [keys…]] entries; absent path = no schema -/
def schemaOfJson (j : Json) : Except String Walk.Schema := do
  let es ← (← j.getArr?).toList.mapM fun e => do
    let a ← e.getArr?
    let path ← strList a[0]!
    let strat ← a[1]!.getStr?
    let keys ← strList a[2]!
    return (path, ({ strategy := strat, keys := keys } : Walk.SchInfo))
  return fun p => (es.find? (fun e => e.1 = p)).map (·.2)

/-- serialised-text equality of merge3 (forced top-level style): scalars by value text, collections structurally
    up to the top-level style -/
def serEq : Option Node → Option Node → Bool
  | none, none => true
  | some (.scalar _ v _), some (.scalar _ w _) => v == w
  | some a, some b => decide (a.withStyle 0 = b.withStyle 0)
  | _, _ => false

def runWalk (op : String) (a : Json) : Except String Json := do
  let ns := predOfJson (a.getObjValD "ns")
  let infer := (a.getObjValD "infer").getBool?.toOption.getD false
  let prepend := (a.getObjValD "prepend").getBool?.toOption.getD false
  let o : Walk.Opts := { infer := infer, prepend := prepend, ns := ns }
  let dest ← optNodeOfJson (a.getObjValD "dest")
  let fuelOf (ns : List (Option Node)) : Nat := (ns.map fun n => (n.map Node.size).getD 0).foldl (· + ·) 4
  match op with
  | "merge2" =>
    let patch ← optNodeOfJson (a.getObjValD "patch")
    let sch ← schemaOfJson (a.getObjValD "schema")
    return outToJson optNodeToJson (Walk.merge2 o Gen.associativeSequenceKeys sch (fuelOf [dest, patch]) patch dest)
  | "merge3" =>
    let orig ← optNodeOfJson (a.getObjValD "orig")
    let upd ← optNodeOfJson (a.getObjValD "upd")
    return outToJson optNodeToJson
      (Walk.merge3 serEq o Gen.associativeSequenceKeys (fuelOf [dest, orig, upd]) dest orig upd)
  | _ => throw s!"unknown walk op {op}"

def dictOfJson (j : Json) : Except String GenMap.Dict := do
  (← j.getArr?).toList.mapM fun kv => do
    let a ← kv.getArr?
    return (← a[0]!.getStr?, ← a[1]!.getStr?)

def dictToJson (d : GenMap.Dict) : Json :=
  Json.arr ((GenMap.sortDict d).map fun (k, v) => Json.arr #[Json.str k, Json.str v]).toArray

def behaviorOf (s : String) : GenMap.Behavior :=
  if s = "create" then .create else if s = "merge" then .merge else if s = "replace" then .replace else .unspecified

def runGen (op : String) (a : Json) : Except String Json := do
  match op with
  | "hash" =>
    let kind ← (a.getObjValD "kind").getStr?
    let data ← dictOfJson (a.getObjValD "data")
    let hasData := (a.getObjValD "hasData").getBool?.toOption.getD true
    let typ := (a.getObjValD "type").getStr?.toOption.getD ""
    let d := if hasData then some data else none
    let input := if kind = "Secret" then GenMap.encodeSecret d typ else GenMap.encodeConfigMap d
    return outToJson Json.str (GenMap.encodeDigits Gen.hashSubst (Sha256.sha256Hex input))
  | "literals" =>
    let ls ← strList (a.getObjValD "literals")
    return outToJson dictToJson (GenMap.dataOfLiterals ls [])
  | "absorb" =>
    let ops ← (← (a.getObjValD "ops").getArr?).toList.mapM fun o => do
      let b ← (o.getObjValD "behavior").getStr?
      let d ← dictOfJson (o.getObjValD "data")
      let nh := (o.getObjValD "needsHash").getBool?.toOption.getD true
      let bd ← (match o.getObjVal? "bin" with | .ok j => dictOfJson j | .error _ => pure [])
      return (behaviorOf b, ({ data := d, needsHash := nh, bin := bd } : GenMap.GObj))
    return outToJson (fun (g : Option GenMap.GObj) => match g with
      | some g => Json.mkObj [("data", dictToJson g.data), ("needsHash", Json.bool g.needsHash), ("bin", dictToJson g.bin)]
      | none => Json.null) (GenMap.absorbAll none ops)
  | _ => throw s!"unknown gen op {op}"

def runLabels (op : String) (a : Json) : Except String Json := do
  match op with
  | "build" =>
    let g ← (a.getObjValD "group").getStr?
    let v ← (a.getObjValD "version").getStr?
    let k ← (a.getObjValD "kind").getStr?
    let L ← dictOfJson (a.getObjValD "labels")
    let incSel := (a.getObjValD "includeSelectors").getBool?.toOption.getD false
    let incTmpl := (a.getObjValD "includeTemplates").getBool?.toOption.getD false
    let common := (a.getObjValD "common").getBool?.toOption.getD false
    let locs ← (← (a.getObjValD "locs").getArr?).toList.mapM fun l => do
      let p ← (l.getObjValD "path").getStr?
      let cur := l.getObjValD "cur"
      let d ← (if cur.isNull then pure none else do return some (← dictOfJson cur))
      return ((p, d) : Labels.Loc)
    let specs := if common || incSel then Gen.commonLabelsSpecs
      else (if incTmpl then Gen.templateLabelsSpecs else []) ++ [⟨"", "", "", "metadata/labels", true⟩]
    let out := Labels.applyLabels specs g v k L locs
    return Json.mkObj [("ok", Json.arr (out.map fun (p, d) => Json.mkObj [("path", Json.str p),
      ("cur", match d with | some d => dictToJson d | none => Json.null)]).toArray)]
  | "entries" =>
    let g ← (a.getObjValD "group").getStr?
    let v ← (a.getObjValD "version").getStr?
    let k ← (a.getObjValD "kind").getStr?
    let locs ← (← (a.getObjValD "locs").getArr?).toList.mapM fun l => do
      let p ← (l.getObjValD "path").getStr?
      let cur := l.getObjValD "cur"
      let d ← (if cur.isNull then pure none else do return some (← dictOfJson cur))
      return ((p, d) : Labels.Loc)
    let entries ← (← (a.getObjValD "entries").getArr?).toList.mapM fun e => do
      let L ← dictOfJson (e.getObjValD "labels")
      let fields := match (e.getObjValD "fields").getArr? with
        | .ok l => l.toList.map fun f =>
            let h (k : String) : String := (f.getObjValD k).getStr?.toOption.getD ""
            (⟨h "group", h "version", h "kind", h "path", (f.getObjValD "create").getBool?.toOption.getD false⟩ : Gen.FieldSpec)
        | _ => []
      return ({ pairs := L, includeSelectors := (e.getObjValD "includeSelectors").getBool?.toOption.getD false,
                includeTemplates := (e.getObjValD "includeTemplates").getBool?.toOption.getD false, fields := fields } : Labels.Entry)
    return outToJson (fun (out : List Labels.Loc) => Json.arr (out.map fun (p, d) => Json.mkObj [("path", Json.str p),
      ("cur", match d with | some d => dictToJson d | none => Json.null)]).toArray)
      (Labels.applyEntries Gen.commonLabelsSpecs Gen.templateLabelsSpecs g v k entries locs)
  | _ => throw s!"unknown labels op {op}"

def runImage (op : String) (a : Json) : Except String Json := do
  let g (k : String) : String := (a.getObjValD k).getStr?.toOption.getD ""
  match op with
  | "update" =>
    let e : Image.Entry := { name := g "name", newName := g "newName", newTag := g "newTag", digest := g "digest", tagSuffix := g "tagSuffix" }
    return Json.mkObj [("ok", Json.str (Image.update e (g "image")))]
  | "split" =>
    let (n, t, d) := Image.split (g "image")
    return Json.mkObj [("ok", Json.arr #[Json.str n, Json.str t, Json.str d])]
  | _ => throw s!"unknown image op {op}"

def selOfString (s : String) : OpenApi.Sel :=
  if s = "default" then .dflt false else if s = "defaultExplicit" then .dflt true
  else if s = "custom1" then .custom 1 else if s = "custom2" then .custom 2 else .badVersion s

def runOpenApi (op : String) (a : Json) : Except String Json := do
  match op with
  | "seq" =>
    let builds ← (← (a.getObjValD "builds").getArr?).toList.mapM fun b => do
      let sel ← (b.getObjValD "sel").getStr?
      let ops ← strList (b.getObjValD "ops")
      return (selOfString sel, ops.map fun o => if o = "ns" then OpenApi.Op.ns else OpenApi.Op.use)
    let rec go (s : OpenApi.St) : List (OpenApi.Sel × List OpenApi.Op) → List Json
      | [] => []
      | (sel, ops) :: r =>
        let res := OpenApi.build OpenApi.setSchema s sel ops
        let j := match res.2 with
          | none => Json.null
          | some obs => Json.arr (obs.map fun o => Json.mkObj [("hasBuiltin", Json.bool o.hasBuiltin),
              ("customs", Json.arr (o.customs.map fun (n : Nat) => Json.num n).toArray)]).toArray
        j :: go res.1 r
    return Json.mkObj [("ok", Json.arr (go {} builds).toArray)]
  | _ => throw s!"unknown openapi op {op}"

def runFieldSpec (op : String) (a : Json) : Except String Json := do
  let ns := predOfJson (a.getObjValD "ns")
  let g (k : String) : String := (a.getObjValD k).getStr?.toOption.getD ""
  match op with
  | "apply" =>
    let doc ← nodeOfJson (a.getObjValD "doc")
    let spec : Gen.FieldSpec := ⟨g "sgroup", g "sversion", g "skind", g "path", (a.getObjValD "create").getBool?.toOption.getD false⟩
    let ck ← (a.getObjValD "createKind").getNat?
    let cr : FieldSpec.Create := { kind := ck, tag := g "createTag" }
    let setter : Node → Out Node :=
      if g "setName" = "" then fun n => match Fns.scalarSetter ns (some (.scalar (g "setTag") (g "setValue") 0)) false n with
        | .ok (n', _) => .ok n' | .err c => .err c | .panic c => .panic c
      else fun n => match Fns.fieldSetter ns (g "setName") (some (.scalar (g "setTag") (g "setValue") 0)) false false n with
        | .ok (n', _) => .ok n' | .err c => .err c | .panic c => .panic c
    return outToJson nodeToJson (FieldSpec.apply ns setter spec cr (g "group") (g "version") (g "kind") doc)
  | _ => throw s!"unknown fieldspec op {op}"

def runNs (op : String) (a : Json) : Except String Json := do
  let q := predOfJson (a.getObjValD "ns")
  let g (k : String) : String := (a.getObjValD k).getStr?.toOption.getD ""
  let b (k : String) : Bool := (a.getObjValD k).getBool?.toOption.getD false
  match op with
  | "filter" =>
    let doc ← nodeOfJson (a.getObjValD "doc")
    let specs ← (← (a.getObjValD "specs").getArr?).toList.mapM fun j => do
      let h (k : String) : String := (j.getObjValD k).getStr?.toOption.getD ""
      return (⟨h "group", h "version", h "kind", h "path", (j.getObjValD "create").getBool?.toOption.getD false⟩ : Gen.FieldSpec)
    let mode ← (a.getObjValD "mode").getNat?
    let c : NsFilter.Cfg := { ns := g "namespace", unsetOnly := b "unsetOnly", mode := mode, specs := specs }
    return outToJson nodeToJson (NsFilter.run q c (b "cluster") (g "apiVersion") (g "group") (g "version") (g "kind") doc)
  | _ => throw s!"unknown ns op {op}"

def runPath (op : String) (a : Json) : Except String Json := do
  let g (k : String) : String := (a.getObjValD k).getStr?.toOption.getD ""
  match op with
  | "clean" => return Json.mkObj [("ok", Json.arr #[Json.str (Path.clean (g "path")), Json.str (Path.join (g "a") (g "b"))])]
  | "hasprefix" => return Json.mkObj [("ok", Json.bool (Path.hasPrefix (g "d").toList (g "p").toList))]
  | "loader" =>
    -- fs: [[path, "dir"|content]...] with cleaned absolute paths; ops: [["new", p] | ["load", p]] applied to a loader stack
    let ents ← (← (a.getObjValD "fs").getArr?).toList.mapM fun e => do
      let x ← e.getArr?
      let p ← x[0]!.getStr?
      let isDir := (x[1]!.getStr?.toOption.getD "") = "\u0000dir"
      let c ← x[1]!.getStr?
      return ((Path.compsOf p, if isDir then Path.Entry.dir else Path.Entry.file c) : List String × Path.Entry)
    let ops ← (← (a.getObjValD "ops").getArr?).toList.mapM fun o => do
      let x ← o.getArr?
      return (← x[0]!.getStr?, ← x[1]!.getStr?)
    let rec go (stack : List (List String)) : List (String × String) → List Json
      | [] => []
      | (k, p) :: r =>
        if k = "new" then
          match Path.loaderNew ents stack p with
          | .ok c => Json.mkObj [("ok", Json.str ("/" ++ "/".intercalate c))] :: go (c :: stack) r
          | .err c => Json.mkObj [("err", Json.str c)] :: go stack r
          | .panic c => Json.mkObj [("panic", Json.str c)] :: go stack r
        else
          (match Path.loaderLoad ents (stack.headD []) p with
          | .ok c => Json.mkObj [("ok", Json.str c)]
          | .err c => Json.mkObj [("err", Json.str c)]
          | .panic c => Json.mkObj [("panic", Json.str c)]) :: go stack r
    return Json.mkObj [("ok", Json.arr (go [[]] ops).toArray)]
  | _ => throw s!"unknown path op {op}"

def runKio (op : String) (a : Json) : Except String Json := do
  let g (k : String) : String := (a.getObjValD k).getStr?.toOption.getD ""
  match op with
  | "split" =>
    -- the reader normalises CRLF first; a document is kept iff some line of it is a key line `k<i>: …`
    let s := (g "stream").replace "\r\n" "\n"
    match Kio.splitDocs s with
    | .ok docs =>
      let keys := docs.filterMap fun d =>
        ((d.splitOn "\n").find? (fun l => l.startsWith "k" && (l.splitOn ":").length > 1)).map fun l => ((l.splitOn ":").headD "")
      return Json.mkObj [("ok", strsJ keys)]
    | .err c => return Json.mkObj [("err", Json.str c)]
    | .panic c => return Json.mkObj [("panic", Json.str c)]
  | "pkgpath" =>
    let pkg := Path.compsOf (g "pkg")
    let path := g "path"
    if Kio.pkgPathOk path then
      -- the writer refuses to overwrite an existing directory (here: the package directory itself)
      if Kio.pkgTarget pkg path = pkg then return Json.mkObj [("err", Json.str "dir")]
      return Json.mkObj [("ok", Json.str ("/" ++ "/".intercalate (Kio.pkgTarget pkg path)))]
    else return Json.mkObj [("err", Json.str "path")]
  | "emit" =>
    let bodies := match (a.getObjValD "bodies").getArr? with
      | .ok l => l.toList.map fun x => (x.getStr?.toOption.getD "").toList
      | _ => []
    let stream := Kio.emit bodies
    return Json.mkObj [("ok", Json.mkObj [("stream", Json.str (String.ofList stream)),
      ("docs", Json.num (Kio.docsOf (Kio.pieces stream)).length)])]
  | "read" =>
    let docOf (j : Json) : KioRead.Doc :=
      let t := (j.getObjValD "t").getStr?.toOption.getD ""
      if t = "blank" then KioRead.Doc.blank
      else if t = "null" then KioRead.Doc.null
      else
        let it := j.getObjValD "items"
        KioRead.Doc.res ((j.getObjValD "kind").getStr?.toOption.getD "") (if it.isNull then none else some (it.getNat?.toOption.getD 0))
          ((j.getObjValD "fc").getBool?.toOption.getD false)
    let docs : List KioRead.Doc := match (a.getObjValD "docs").getArr? with
      | .ok l => l.toList.map docOf
      | _ => []
    let out := KioRead.read ((a.getObjValD "disable").getBool?.toOption.getD false) docs
    let nodeJ (n : KioRead.Node) : Json := match n with
      | .doc d i => Json.arr #[Json.str "doc", Json.num d, Json.num i]
      | .item d j => Json.arr #[Json.str "item", Json.num d, Json.num j]
    return Json.mkObj [("ok", Json.arr (out.map nodeJ).toArray)]
  | _ => throw s!"unknown kio op {op}"

/-! ### fix -/
def jStrs (j : Json) : List String := match j.getArr? with
  | .ok a => a.toList.map fun x => x.getStr?.toOption.getD ""
  | _ => []
def jArr (j : Json) : List Json := match j.getArr? with | .ok a => a.toList | _ => []
def jS (j : Json) (k : String) : String := (j.getObjValD k).getStr?.toOption.getD ""
def jB (j : Json) (k : String) : Bool := (j.getObjValD k).getBool?.toOption.getD false
def jPairs (j : Json) : List (String × String) := (jArr j).map fun p => match jStrs p with | [a, b] => (a, b) | _ => ("", "")
def fsOfJ (j : Json) : Gen.FieldSpec := ⟨jS j "group", jS j "version", jS j "kind", jS j "path", jB j "create"⟩
def fsToJ (f : Gen.FieldSpec) : Json := Json.mkObj [("group", f.group), ("version", f.version), ("kind", f.kind), ("path", f.path), ("create", f.create)]
def genOfJ (j : Json) : Fix.GenArgs := ⟨jS j "body", jStrs (j.getObjValD "envs"), jS j "env"⟩
def genToJ (g : Fix.GenArgs) : Json := Json.mkObj [("body", g.body), ("envs", strsJ g.envs), ("env", g.env)]
def patchOfJ (j : Json) : Fix.Patch := ⟨jS j "path", jS j "patch", jS j "target", ""⟩
def patchToJ (p : Fix.Patch) : Json := Json.mkObj [("path", p.path), ("patch", p.patch), ("target", p.target)]
def pairsToJ (l : List (String × String)) : Json := Json.arr (l.map fun p => strsJ [p.1, p.2]).toArray
def labelOfJ (j : Json) : Fix.Label := ⟨jPairs (j.getObjValD "pairs"), jB j "incSel", jB j "incTpl", (jArr (j.getObjValD "fields")).map fsOfJ⟩
def labelToJ (l : Fix.Label) : Json := Json.mkObj [("pairs", pairsToJ l.pairs), ("incSel", l.incSel), ("incTpl", l.incTpl),
  ("fields", Json.arr (l.fields.map fsToJ).toArray)]
def kOfJ (j : Json) : Fix.K :=
  { kind := jS j "kind", apiVersion := jS j "apiVersion", resources := jStrs (j.getObjValD "resources"), bases := jStrs (j.getObjValD "bases"),
    images := jStrs (j.getObjValD "images"), imageTags := jStrs (j.getObjValD "imageTags"),
    cms := (jArr (j.getObjValD "cms")).map genOfJ, secrets := (jArr (j.getObjValD "secrets")).map genOfJ,
    commonLabels := jPairs (j.getObjValD "commonLabels"), labels := (jArr (j.getObjValD "labels")).map labelOfJ,
    psm := jStrs (j.getObjValD "psm"), patches := (jArr (j.getObjValD "patches")).map patchOfJ, pj := (jArr (j.getObjValD "pj")).map patchOfJ }
def kToJ (k : Fix.K) : Json := Json.mkObj [("kind", k.kind), ("apiVersion", k.apiVersion), ("resources", strsJ k.resources), ("bases", strsJ k.bases),
  ("images", strsJ k.images), ("imageTags", strsJ k.imageTags), ("cms", Json.arr (k.cms.map genToJ).toArray),
  ("secrets", Json.arr (k.secrets.map genToJ).toArray), ("commonLabels", pairsToJ k.commonLabels),
  ("labels", Json.arr (k.labels.map labelToJ).toArray), ("psm", strsJ k.psm), ("patches", Json.arr (k.patches.map patchToJ).toArray),
  ("pj", Json.arr (k.pj.map patchToJ).toArray)]

def runFix (op : String) (a : Json) : Except String Json := do
  match op with
  | "load" => return Json.mkObj [("ok", kToJ (Fix.fixLoad (kOfJ (a.getObjValD "k"))))]
  | "pre" =>
    let files := jStrs (a.getObjValD "files")
    match Fix.fixPre (fun s => files.contains s) (kOfJ (a.getObjValD "k")) with
    | some k => return Json.mkObj [("ok", kToJ k)]
    | none => return Json.mkObj [("err", Json.str "label-clash")]
  | "mergeall" =>
    match Fix.mergeAll ((jArr (a.getObjValD "a")).map fsOfJ) ((jArr (a.getObjValD "b")).map fsOfJ) with
    | some l => return Json.mkObj [("ok", Json.arr (l.map fsToJ).toArray)]
    | none => return Json.mkObj [("err", Json.str "conflict")]
  | _ => throw s!"unknown fix op {op}"

/-! ### edit / kustfile -/
def imgOfJ (j : Json) : Edit.Img := ⟨jS j "name", jS j "newName", jS j "newTag", jS j "digest", jS j "tagSuffix"⟩
def imgToJ (i : Edit.Img) : Json := Json.mkObj [("name", i.name), ("newName", i.newName), ("newTag", i.newTag), ("digest", i.digest), ("tagSuffix", i.tagSuffix)]
def lblOfJ (j : Json) : Edit.Lbl := { pairs := jPairs (j.getObjValD "pairs"), incSel := jB j "incSel", incTpl := jB j "incTpl" }
def lblToJ (l : Edit.Lbl) : Json := Json.mkObj [("pairs", pairsToJ l.pairs), ("incSel", l.incSel), ("incTpl", l.incTpl)]
def genaOfJ (j : Json) : Edit.GenA :=
  { name := jS j "name", ns := jS j "ns", literals := jStrs (j.getObjValD "literals"), envs := jStrs (j.getObjValD "envs"), env := jS j "env",
    behavior := jS j "behavior", noHash := jB j "noHash", typ := jS j "typ" }
def genaToJ (g : Edit.GenA) : Json := Json.mkObj [("name", g.name), ("ns", g.ns), ("literals", strsJ g.literals), ("envs", strsJ g.envs),
  ("env", g.env), ("behavior", g.behavior), ("noHash", g.noHash), ("typ", g.typ)]
def patOfJ (j : Json) : Edit.Pat := ⟨jS j "path", jS j "patch", jS j "target"⟩
def patToJ (p : Edit.Pat) : Json := Json.mkObj [("path", p.path), ("patch", p.patch), ("target", p.target)]
def jInt (j : Json) : Int := match j.getInt? with | .ok i => i | _ => 0
def eOfJ (j : Json) : Edit.E :=
  { kind := jS j "kind", apiVersion := jS j "apiVersion", resources := jStrs (j.getObjValD "resources"), bases := jStrs (j.getObjValD "bases"),
    components := jStrs (j.getObjValD "components"), buildMetadata := jStrs (j.getObjValD "buildMetadata"),
    commonLabels := jPairs (j.getObjValD "commonLabels"), commonAnnotations := jPairs (j.getObjValD "commonAnnotations"),
    labels := (jArr (j.getObjValD "labels")).map lblOfJ, nspace := jS j "namespace", namePrefix := jS j "namePrefix", nameSuffix := jS j "nameSuffix",
    images := (jArr (j.getObjValD "images")).map imgOfJ, imageTags := (jArr (j.getObjValD "imageTags")).map imgOfJ,
    replicas := (jArr (j.getObjValD "replicas")).map (fun r => match jArr r with | [a, b] => (a.getStr?.toOption.getD "", jInt b) | _ => ("", 0)),
    cms := (jArr (j.getObjValD "cms")).map genaOfJ, secrets := (jArr (j.getObjValD "secrets")).map genaOfJ,
    patches := (jArr (j.getObjValD "patches")).map patOfJ }
def eToJ (e : Edit.E) : Json := Json.mkObj [("kind", e.kind), ("apiVersion", e.apiVersion), ("resources", strsJ e.resources), ("bases", strsJ e.bases),
  ("components", strsJ e.components), ("buildMetadata", strsJ e.buildMetadata), ("commonLabels", pairsToJ e.commonLabels),
  ("commonAnnotations", pairsToJ e.commonAnnotations), ("labels", Json.arr (e.labels.map lblToJ).toArray), ("namespace", e.nspace),
  ("namePrefix", e.namePrefix), ("nameSuffix", e.nameSuffix), ("images", Json.arr (e.images.map imgToJ).toArray),
  ("imageTags", Json.arr (e.imageTags.map imgToJ).toArray),
  ("replicas", Json.arr (e.replicas.map fun r => Json.arr #[Json.str r.1, Json.num (Lean.JsonNumber.fromInt r.2)]).toArray),
  ("cms", Json.arr (e.cms.map genaToJ).toArray), ("secrets", Json.arr (e.secrets.map genaToJ).toArray),
  ("patches", Json.arr (e.patches.map patToJ).toArray)]

def opOfJ (j : Json) : Except String Edit.Op := do
  let a := jStrs (j.getObjValD "args")
  match jS j "op" with
  | "addResource" => return .addResource a
  | "removeResource" => return .removeResource a
  | "addComponent" => return .addComponent a
  | "addBuildMeta" => return .addBuildMeta a
  | "removeBuildMeta" => return .removeBuildMeta a
  | "setBuildMeta" => return .setBuildMeta a
  | "addLabel" => return .addLabel a (jB j "force") (jB j "wosel") (jB j "tpl")
  | "addAnnotation" => return .addAnnotation a (jB j "force")
  | "setLabel" => return .setLabel a
  | "setAnnotation" => return .setAnnotation a
  | "removeLabel" => return .removeLabel a (jB j "ignore")
  | "removeAnnotation" => return .removeAnnotation a (jB j "ignore")
  | "setNamespace" => return .setNamespace a
  | "setNamePrefix" => return .setNamePrefix a
  | "setNameSuffix" => return .setNameSuffix a
  | "setReplicas" => return .setReplicas a
  | "setImage" => return .setImage a
  | "addConfigMap" => return .addConfigMap a (jS j "ns") (jStrs (j.getObjValD "lits")) (jS j "behavior") (jB j "noHash")
  | "removeConfigMap" => return .removeConfigMap a (jS j "ns")
  | "addSecret" => return .addSecret a (jS j "ns") (jStrs (j.getObjValD "lits")) (jB j "noHash")
  | "removeSecret" => return .removeSecret a (jS j "ns")
  | "addPatch" => return .addPatch (patOfJ (j.getObjValD "p"))
  | "removePatch" => return .removePatch (patOfJ (j.getObjValD "p"))
  | o => throw s!"unknown edit op {o}"

def runEdit (op : String) (a : Json) : Except String Json := do
  match op with
  | "seq" =>
    let valid := jStrs (a.getObjValD "validKeys")
    let vk : String → Bool := fun k => valid.contains k
    let ops ← (jArr (a.getObjValD "ops")).mapM opOfJ
    let (_, outs) := ops.foldl (fun (acc : Edit.E × List Json) o =>
      let r := Edit.apply vk acc.1 o
      let e' := r.state acc.1
      (e', acc.2 ++ [Json.mkObj [("r", Json.str (match r with | .err => "err" | _ => "ok")), ("view", eToJ e')]])) (eOfJ (a.getObjValD "init"), [])
    return Json.mkObj [("ok", Json.arr outs.toArray)]
  | "rewrite" =>
    -- the bytes of the rewritten file, given the rendering of every field
    let mfTab := (jArr (a.getObjValD "fields")).map fun p => match jStrs p with | [k, v] => (k, v) | _ => ("", "")
    let mf : String → String := fun f => ((mfTab.find? (·.1 = f)).map (·.2)).getD ""
    let p := Kustfile.parse Gen.fieldMarshallingOrder (jS a "file")
    return Json.mkObj [("ok", Json.str (Kustfile.marshal mf Gen.fieldMarshallingOrder p))]
  | _ => throw s!"unknown edit op {op}"

/-! ### localize -/
def jP (j : Json) : List String := jStrs j
def runLoc (op : String) (a : Json) : Except String Json := do
  match op with
  | "run" =>
    let ents : List (List String × Loc.Ent) := (jArr (a.getObjValD "fs")).map fun e =>
      match jArr e with
      | [p, _, c] => (jP p, Loc.Ent.file (c.getStr?.toOption.getD ""))
      | [p, _] => (jP p, Loc.Ent.dir)
      | _ => ([], Loc.Ent.dir)
    let fs0 : Loc.FS := fun x => (ents.find? (·.1 = x)).map (·.2)
    let kusts : List (List String × String × List Loc.Ref) := (jArr (a.getObjValD "kust")).map fun k =>
      (jP (k.getObjValD "root"), jS k "name", (jArr (k.getObjValD "refs")).map fun r =>
        match jStrs r with
        | ["file", raw] => Loc.Ref.file raw
        | ["root", raw] => Loc.Ref.root raw
        | [_, raw] => Loc.Ref.res raw
        | _ => Loc.Ref.file "")
    let resC := jStrs (a.getObjValD "resContents")
    let badL := (jArr (a.getObjValD "bad")).map jP
    let kf : Loc.P → Option (String × List Loc.Ref) := fun r => (kusts.find? (·.1 = r)).map (·.2)
    let rf : String → Bool := fun c => resC.contains c
    let bf : Loc.P → Bool := fun p => badL.contains p
    let E : Loc.Env := Loc.Env.mk (jP (a.getObjValD "scope")) (jP (a.getObjValD "newDir")) kf rf bf "<localized kustomization>"
    let F := match (a.getObjValD "fail").getNat? with | .ok n => n | _ => 1000000
    let (s, ok) := Loc.run E F 64 fs0 (jP (a.getObjValD "target"))
    let mutJ : Loc.Mut → Json
      | .mkdir p => strsJ ("Mkdir" :: p)
      | .mkdirAll p => strsJ ("MkdirAll" :: p)
      | .write p _ => strsJ ("WriteFile" :: p)
      | .removeAll p => strsJ ("RemoveAll" :: p)
    -- the final file system on every path that was there or was addressed
    let cand := (ents.map (·.1)) ++ (s.trace.flatMap fun m => (List.range (m.path.length + 1)).map fun n => m.path.take n)
    let cand := (cand.eraseDups.map fun p => ("/" ++ "/".intercalate p, p)).mergeSort (fun a b => a.1 ≤ b.1) |>.map (·.2)
    let final := cand.filterMap fun p => match s.fs p with
      | some .dir => some (Json.arr #[strsJ p, Json.str "dir"])
      | some (.file c) => some (Json.arr #[strsJ p, Json.str c])
      | none => none
    return Json.mkObj [("ok", Json.mkObj [("success", ok), ("trace", Json.arr (s.trace.map mutJ).toArray), ("fs", Json.arr final.toArray)])]
  | _ => throw s!"unknown loc op {op}"

/-! ### nameref -/
def candOfJ (j : Json) : Except String Nameref.C := do
  let cur ← idOfJson j
  let prev := (jArr (j.getObjValD "prev")).map fun p => match jStrs p with
    | [k, n, ns] => (⟨{ cur.gvk with kind := k }, n, ns⟩ : Res.ResId)
    | _ => cur
  return { cur := cur, prev := prev, prefixes := jStrs (j.getObjValD "prefixes"), suffixes := jStrs (j.getObjValD "suffixes") }

def runNameref (op : String) (a : Json) : Except String Json := do
  let cs := csOfJson (a.getObjValD "cs")
  match op with
  | "select" =>
    let ref ← candOfJ (a.getObjValD "referrer")
    let target ← gvkOfJson (a.getObjValD "target")
    let rr := a.getObjValD "roleRef"
    let roleRef : Option Res.Gvk := if rr.isNull then none else some ⟨jS rr "group", "", jS rr "kind"⟩
    let cands ← (jArr (a.getObjValD "cands")).mapM candOfJ
    return outToJson Json.str (Nameref.newName cs ref target roleRef (jS a "oldName") cands)
  | _ => throw s!"unknown nameref op {op}"

/-! ### resmap.Select -/
namespace SelectJ
open Kust.Select
def reqOfJ (j : Json) : Req :=
  let op := match jS j "op" with
    | "eq" => Op.eq | "neq" => Op.neq | "in" => Op.isin | "notin" => Op.notin | "has" => Op.has | _ => Op.hasnot
  ⟨jS j "key", op, jStrs (j.getObjValD "vals")⟩
def reqsOfJ (j : Json) : Option (List Req) := if j.isNull then none else some ((jArr j).map reqOfJ)
end SelectJ

def runSelect (a : Json) : Except String Json := do
  let cs := csOfJson (a.getObjValD "cs")
  let hg := a.getObjValD "hit"
  let hit : String → String → Bool := fun p v => match (hg.getObjValD p).getObjVal? v with | .ok (Json.bool b) => b | _ => false
  let badL := jStrs (a.getObjValD "bad")
  let sj := a.getObjValD "sel"
  let sel : Select.Sel := ⟨jS sj "group", jS sj "version", jS sj "kind", jS sj "name", jS sj "ns",
    SelectJ.reqsOfJ (sj.getObjValD "lsel"), SelectJ.reqsOfJ (sj.getObjValD "asel")⟩
  let rs ← (jArr (a.getObjValD "res")).mapM fun j => do
    let c ← candOfJ j
    return ({ c := c, labels := jPairs (j.getObjValD "labels"), annos := jPairs (j.getObjValD "annos") } : Select.SRes)
  return outToJson (fun l => Json.arr (l.map fun (x : Select.SRes) => idToJson x.c.cur).toArray) (Select.select cs hit (fun p => badL.contains p) sel rs)

/-! ### CRD definitions → transformer configuration -/
def runCrd (a : Json) : Except String Json := do
  let types : CrdConfig.Types := (jArr (a.getObjValD "types")).map fun tj =>
    (jS tj "name", (jArr (tj.getObjValD "props")).map fun pj =>
      let orj := pj.getObjValD "objref"
      let objref : Option (String × String × Option String) :=
        if orj.isNull then none else
          let nk := orj.getObjValD "nameKey"
          some (jS orj "version", jS orj "kind", if nk.isNull then none else some (nk.getStr?.toOption.getD ""))
      let rj := pj.getObjValD "ref"
      ({ name := jS pj "name", anno := jB pj "anno", label := jB pj "label", ident := jB pj "ident", objref := objref,
         ref := if rj.isNull then none else some (rj.getStr?.toOption.getD "") } : CrdConfig.P))
  let line : CrdConfig.Spec → String
    | .anno k p => "annotation " ++ k ++ " " ++ p
    | .label k p => "label " ++ k ++ " " ++ p
    | .pre k p => "prefix " ++ k ++ " " ++ p
    | .nameref rk rv k p => "nameref " ++ rk ++ " " ++ rv ++ " " ++ k ++ " " ++ p
  let ls := ((CrdConfig.config types).map line).eraseDups.mergeSort (fun x y => x ≤ y)
  return Json.mkObj [("ok", strsJ ls)]

def runSmPatchId (a : Json) : Except String Json := do
  let cs := csOfJson (a.getObjValD "cs")
  let c ← candOfJ (a.getObjValD "res")
  let pn : List String := c.prev.map fun i => i.name
  let pns : List String := c.prev.map fun i => i.ns
  let pk : List String := c.prev.map fun i => i.gvk.kind
  let r : Res.R := ⟨c.cur.gvk, c.cur.name, c.cur.ns, pn, pns, pk, c.prefixes, c.suffixes⟩
  let pj := a.getObjValD "patch"
  let o : SmPatchId.Opts := ⟨jB pj "allowName", jB pj "allowKind"⟩
  match SmPatchId.apply cs o r (some (jS pj "kind", jS pj "name", jS pj "ns")) with
  | none => return Json.mkObj [("ok", Json.null)]
  | some r' =>
    match r'.prevIds with
    | .ok prev => return Json.mkObj [("ok", Json.mkObj [("cur", idToJson r'.curId), ("prev", Json.arr (prev.map idToJson).toArray),
        ("prefixes", strsJ r'.prefixes), ("suffixes", strsJ r'.suffixes)])]
    | .err e => return Json.mkObj [("err", Json.str e)]
    | .panic e => return Json.mkObj [("panic", Json.str e)]

/-! ### replacement filter -/
namespace ReplJ
open Kust.Repl
def kvOfJ (j : Json) : Option KV := if j.isNull then none else some (jPairs j)
def kvToJ : Option KV → Json
  | none => Json.null
  | some m => Json.arr (m.map fun (k, v) => Json.arr #[Json.str k, Json.str v]).toArray
def resOfJ (j : Json) : Res := ⟨jS j "kind", jS j "name", kvOfJ (j.getObjValD "labels"), kvOfJ (j.getObjValD "data")⟩
def resToJ (r : Res) : Json := Json.mkObj [("kind", r.kind), ("name", r.name), ("labels", kvToJ r.labels), ("data", kvToJ r.data)]
def fOfJ (j : Json) : Option FRef := match jStrs j with
  | ["name"] => some .name
  | ["label", k] => some (.label k)
  | ["data", k] => some (.data k)
  | _ => none
def selOfJ (j : Json) : Sel :=
  let l := j.getObjValD "label"
  ⟨jS j "kind", jS j "name", if l.isNull then none else match jStrs l with | [k, v] => some (k, v) | _ => none⟩
def optsOfJ (j : Json) : Option Opts := if j.isNull then none else some ⟨jS j "delim", jInt (j.getObjValD "index"), jB j "create"⟩
def targetOfJ (j : Json) : Target :=
  ⟨selOfJ (j.getObjValD "select"), (jArr (j.getObjValD "reject")).map selOfJ, (jArr (j.getObjValD "fields")).filterMap fOfJ, optsOfJ (j.getObjValD "opts")⟩
def srcOfJ (j : Json) : Src := match jS j "t" with
  | "value" => .value (jS j "s")
  | "field" => .field (selOfJ (j.getObjValD "sel")) (fOfJ (j.getObjValD "f")) (optsOfJ (j.getObjValD "opts"))
  | "both" => .both
  | _ => .neither
def replOfJ (j : Json) : Repl := ⟨srcOfJ (j.getObjValD "src"), (jArr (j.getObjValD "targets")).map targetOfJ⟩
end ReplJ

def runFmtSchema (a : Json) : Except String Json := do
  let ns := predOfJson (a.getObjValD "ns")
  let n : FmtSchema.Scalar := ⟨jS a "tag", jS a "value", (a.getObjValD "style").getNat?.toOption.getD 0⟩
  let r := FmtSchema.format ns (jStrs (a.getObjValD "types")) (jS a "format") n
  return Json.mkObj [("ok", Json.mkObj [("tag", r.tag), ("value", r.value), ("style", r.style)])]

/-! ### PathMatcher -/
namespace MatchJ
def isInfixL : List Char → List Char → Bool
  | p, [] => p.isEmpty
  | p, c :: cs => Str.isPrefixL p (c :: cs) || isInfixL p cs
/-- literal patterns, optionally anchored with a leading `^` / trailing `$`: for them `MatchString` on the serialised
    scalar is containment / prefix / suffix / equality; an anchor anywhere else can never be satisfied -/
def safe (s : String) : Bool := s.toList.all fun c => c.isAlphanum || c == '-' || c == '_'
def plainish (s : String) : Bool := s.toList.all fun c => c.isAlphanum || " -_.:/=,%+~^$".toList.contains c
/-- `strings.TrimSpace(node.String())` of a scalar, where the model can tell -/
def scalarText (ns : String → Bool) (anchored : Bool) : Node → Option String
  | .scalar t v s =>
    if !plainish v then none
    else if t == "!!null" && v == "" then some "null"
    else if s &&& 2 != 0 then some ("\"" ++ v ++ "\"")
    else if s &&& 4 != 0 then some ("'" ++ v ++ "'")
    else if s == 0 || s == 1 then
      -- a plain string that reads as another type is quoted by the encoder: only matters under an anchor
      if anchored && (t == "!!str" && ns v || v == "" || v.toList.any fun c => " :,%~".toList.contains c) then none else some v
    else none
  | _ => none
def hit (ns : String → Bool) (pat : String) (n : Node) : Out Bool :=
  let cs := pat.toList
  let anchS := cs.head? == some '^'
  let cs1 := if anchS then cs.drop 1 else cs
  let anchE := cs1.getLast? == some '$'
  let core := if anchE then cs1.dropLast else cs1
  if !(core.all fun c => c.isAlphanum || c == '-' || c == '_' || c == '^' || c == '$') then .err "unmodelled"
  else match scalarText ns (anchS || anchE || core.any fun c => c == '^' || c == '$') n with
    | none => .err "unmodelled"
    | some text =>
      let t := text.toList
      if core.any fun c => c == '^' || c == '$' then .ok false
      else if anchS && anchE then .ok (t == core)
      else if anchS then .ok (Str.isPrefixL core t)
      else if anchE then .ok (Str.isPrefixL core.reverse t.reverse)
      else .ok (isInfixL core t)
def stepJ : Match.Step → Json
  | .key k => Json.arr #[Json.str "k", Json.str k]
  | .idx i => Json.arr #[Json.str "i", Json.num i]
end MatchJ

def runMatch (op : String) (a : Json) : Except String Json := do
  let ns := predOfJson (a.getObjValD "ns")
  let doc ← nodeOfJson (a.getObjValD "doc")
  match op with
  | "path" =>
    let path ← strList (a.getObjValD "path")
    let create ← (a.getObjValD "create").getNat?
    return outToJson (fun (r : Node × List Match.Pos) =>
      Json.mkObj [("doc", nodeToJson r.1), ("pos", Json.arr (r.2.map fun p => Json.arr (p.map MatchJ.stepJ).toArray).toArray)])
      (Match.pathMatch (MatchJ.hit ns) ns create path doc)
  | _ => throw s!"unknown match op {op}"

def runPathSplit (a : Json) : Except String Json := do
  let dc := ((jS a "d").toList.head?).getD '/'
  let r := if jS a "mode" == "split" then PathSplit.split dc (jS a "path")
    else if jS a "mode" == "scan" then PathSplit.splitScan dc (jS a "path")
    else PathSplit.smarter dc (jS a "path")
  return Json.mkObj [("ok", Json.arr (r.map Json.str).toArray)]

def runRefVar (a : Json) : Except String Json := do
  let kj := a.getObjValD "known"
  let mapping : String → String := fun k => match kj.getObjVal? k with
    | .ok (Json.str v) => v
    | _ => "$(" ++ k ++ ")"
  match RefVar.doReplacements mapping (jS a "input") with
  | .whole n => return Json.mkObj [("whole", Json.str n)]
  | .text s => return Json.mkObj [("text", Json.str s)]

def runSubset (a : Json) : Except String Json := do
  let cs := csOfJson (a.getObjValD "cs")
  let ref ← idOfJson (a.getObjValD "referrer")
  let m ← (jArr (a.getObjValD "m")).mapM idOfJson
  let subjects : List Subset.Subject := (jArr (a.getObjValD "subjects")).map fun s =>
    match jArr s with
    | [k, n] => (k.getStr?.toOption.getD "", if n.isNull then none else some (n.getStr?.toOption.getD ""))
    | _ => ("", none)
  return Json.mkObj [("ok", Json.arr ((Subset.subset cs ref subjects m).map idToJson).toArray)]

def runGenSources (a : Json) : Except String Json := do
  let envok := predOfJson (a.getObjValD "envok")
  let keyok := predOfJson (a.getObjValD "keyok")
  let cj := a.getObjValD "content"
  let content : String → Option String := fun p => match cj.getObjVal? p with
    | .ok (Json.str c) => some c
    | _ => none
  let envs := (jStrs (a.getObjValD "envs")).map some
  let r := Kv.validated envok keyok content envs (jStrs (a.getObjValD "literals")) (jStrs (a.getObjValD "files"))
  return outToJson (fun (m : List Kv.Pair) =>
    Json.arr ((GenMap.sortDict m).map fun (k, v) => Json.arr #[Json.str k, Json.str v]).toArray) r

def runPathDisk (a : Json) : Except String Json := do
  let fs : PathDisk.Fs := (jArr (a.getObjValD "fs")).filterMap fun e => match jStrs e with
    | [p, "dir", _] => some (Path.compsOf p, PathDisk.Ent.dir)
    | [p, "file", c] => some (Path.compsOf p, PathDisk.Ent.file c)
    | [p, "link", t] => some (Path.compsOf p, PathDisk.Ent.link t)
    | _ => none
  let ops : List PathDisk.Op := (jArr (a.getObjValD "ops")).filterMap fun e => match jStrs e with
    | ["new", p] => some (.new p)
    | ["load", p] => some (.load p)
    | _ => none
  let res := PathDisk.run fs [[]] ops
  -- anything outside the model anywhere in the session makes the whole case unmodelled
  if res.any (fun r => match r with | .err "unmodelled" => true | _ => false) then return Json.mkObj [("err", "unmodelled")]
  return Json.mkObj [("ok", Json.arr (res.map (outToJson Json.str)).toArray)]

def rtOptsOfJ (j : Json) : Option ReplTree.Opts :=
  if j.isNull then none else some ⟨jS j "delim", jInt (j.getObjValD "index"), jB j "create"⟩

def runRepl (op : String) (a : Json) : Except String Json := do
  match op with
  | "tree" =>
    let ns := predOfJson (a.getObjValD "ns")
    let src ← nodeOfJson (a.getObjValD "src")
    let tgt ← nodeOfJson (a.getObjValD "tgt")
    let spath ← strList (a.getObjValD "spath")
    let paths ← (jArr (a.getObjValD "paths")).mapM strList
    return outToJson nodeToJson
      (ReplTree.replaceInto (MatchJ.hit ns) ns spath (rtOptsOfJ (a.getObjValD "sopts")) src paths (rtOptsOfJ (a.getObjValD "topts")) tgt)
  | "apply" =>
    let st := (jArr (a.getObjValD "state")).map ReplJ.resOfJ
    let rs := (jArr (a.getObjValD "repls")).map ReplJ.replOfJ
    return outToJson (fun st => Json.arr (st.map ReplJ.resToJ).toArray) (Repl.applyAll rs st)
  | _ => throw s!"unknown repl op {op}"

def dispatch (comp : String) (args : Json) : Except String Json :=
  match comp.splitOn "." with
  | ["fns", op] => runFns op args
  | ["resmap", "subset"] => runSubset args
  | ["refvar", "expand"] => runRefVar args
  | ["res", "smpatch"] => runSmPatchId args
  | ["res", op] => runRes op args
  | ["fmt", "nonstring"] => runFmtSchema args
  | ["fmt", op] => runFmt op args
  | ["walk", op] => runWalk op args
  | ["gen", "sources"] => runGenSources args
  | ["gen", op] => runGen op args
  | ["labels", op] => runLabels op args
  | ["image", op] => runImage op args
  | ["openapi", op] => runOpenApi op args
  | ["fieldspec", op] => runFieldSpec op args
  | ["ns", op] => runNs op args
  | ["path", "disk"] => runPathDisk args
  | ["path", "split"] => runPathSplit args
  | ["path", op] => runPath op args
  | ["kio", op] => runKio op args
  | ["fix", op] => runFix op args
  | ["edit", op] => runEdit op args
  | ["nameref", op] => runNameref op args
  | ["resmap", "select"] => runSelect args
  | ["crd", "config"] => runCrd args
  | ["loc", op] => runLoc op args
  | ["repl", op] => runRepl op args
  | ["match", op] => runMatch op args
  | _ => throw s!"unknown component {comp}"

partial def loop (hin hout : IO.FS.Stream) : IO Unit := do
  let line ← hin.getLine
  if line.isEmpty then return ()
  let out : Json :=
    match Json.parse line with
    | .error e => Json.mkObj [("id", Json.null), ("drv_error", Json.str e)]
    | .ok j =>
      let id := j.getObjValD "id"
      match j.getObjValD "comp" |>.getStr? with
      | .error e => Json.mkObj [("id", id), ("drv_error", Json.str e)]
      | .ok comp =>
        match dispatch comp (j.getObjValD "args") with
        | .ok r => Json.mkObj [("id", id), ("out", r)]
        | .error e => Json.mkObj [("id", id), ("drv_error", Json.str e)]
  hout.putStrLn out.compress
  loop hin hout

def main : IO Unit := do
  let hin ← IO.getStdin
  let hout ← IO.getStdout
  loop hin hout
  hout.flush
