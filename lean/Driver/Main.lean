/-
  kustdrv — line-protocol driver: one JSON case per line on stdin, one JSON result per line on stdout.
  {"id":n,"comp":"<component>","args":{…}}  →  {"id":n,"out":…}
-/
import Lean.Data.Json
import Kust.Wire
import Kust.Fns
open Lean Kust

def pairJ (a : Node × Option Node) : Json :=
  Json.mkObj [("doc", nodeToJson a.1), ("res", optNodeToJson a.2)]

def runFns (op : String) (a : Json) : Except String Json := do
  let ns := predOfJson (a.getObjValD "ns")
  let doc ← nodeOfJson (a.getObjValD "doc")
  match op with
  | "lookup" =>
    let path ← strList (a.getObjValD "path")
    let create ← (a.getObjValD "create").getNat?
    let style ← (a.getObjValD "style").getNat?
    return outToJson pairJ (Fns.lookup ns create style path doc)
  | "setfield" =>
    let name ← (a.getObjValD "name").getStr?
    let v ← optNodeOfJson (a.getObjValD "value")
    let keep := (a.getObjValD "keep").getBool?.toOption.getD false
    let ovr := (a.getObjValD "override").getBool?.toOption.getD false
    return outToJson pairJ (Fns.fieldSetter ns name v keep ovr doc)
  | "clear" =>
    let name ← (a.getObjValD "name").getStr?
    let ife := (a.getObjValD "ifEmpty").getBool?.toOption.getD false
    return outToJson pairJ (Fns.fieldClearer name ife doc)
  | "setelem" =>
    let keys ← strList (a.getObjValD "keys")
    let vals ← strList (a.getObjValD "values")
    let e ← optNodeOfJson (a.getObjValD "elem")
    return outToJson pairJ (Fns.elementSetter keys vals e doc)
  | _ => throw s!"unknown fns op {op}"

def dispatch (comp : String) (args : Json) : Except String Json :=
  match comp.splitOn "." with
  | ["fns", op] => runFns op args
  | _ => throw s!"unknown component {comp}"

partial def loop (hin hout : IO.FS.Stream) : IO Unit := do
  let line ← hin.getLine
  if line.isEmpty then return ()
  let out : Json :=
    match Json.parse line with
    | .error e => Json.mkObj [("id", Json.null), ("drv_error", Json.str e)]
    | .ok j =>
      let id := j.getObjValD "id"
      match j.getObjValD "comp" |>.getStr? with
      | .error e => Json.mkObj [("id", id), ("drv_error", Json.str e)]
      | .ok comp =>
        match dispatch comp (j.getObjValD "args") with
        | .ok r => Json.mkObj [("id", id), ("out", r)]
        | .error e => Json.mkObj [("id", id), ("drv_error", Json.str e)]
  hout.putStrLn out.compress
  loop hin hout

def main : IO Unit := do
  let hin ← IO.getStdin
  let hout ← IO.getStdout
  loop hin hout
  hout.flush
