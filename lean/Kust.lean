import Kust.Node
import Kust.Wire
import Kust.Fns
