package main

func factsImpl(repo, out, js string) {
	fail("facts: not built yet")
}
