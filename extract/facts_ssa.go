package main

import (
	"fmt"
	"go/token"
	"go/types"
	"os"
	"path/filepath"
	"sort"
	"strings"

	"golang.org/x/tools/go/callgraph"
	"golang.org/x/tools/go/callgraph/rta"
	"golang.org/x/tools/go/packages"
	"golang.org/x/tools/go/ssa"
	"golang.org/x/tools/go/ssa/ssautil"
)

const kpfx = "sigs.k8s.io/kustomize/"

func shortFn(f *ssa.Function) string {
	s := f.String()
	s = strings.ReplaceAll(s, kpfx, "")
	return s
}

func inKustomize(f *ssa.Function) bool {
	return f.Pkg != nil && strings.HasPrefix(f.Pkg.Pkg.Path(), kpfx)
}

// gkey names a package-level variable: kustomize's own by their path below the module prefix, any OTHER package's
// (a third-party or standard-library global written from kustomize code is process-wide state just the same) by
// "ext:" + full path.
func gkey(g *ssa.Global, kpfx string) string {
	p := g.Pkg.Pkg.Path()
	if strings.HasPrefix(p, kpfx) {
		return p[len(kpfx):] + "." + g.Name()
	}
	return "ext:" + p + "." + g.Name()
}

// rootGlobal follows FieldAddr/IndexAddr/UnOp(load)/Lookup chains back to a package-level variable.
func rootGlobal(v ssa.Value, depth int) *ssa.Global {
	if depth > 8 {
		return nil
	}
	switch x := v.(type) {
	case *ssa.Global:
		return x
	case *ssa.FieldAddr:
		return rootGlobal(x.X, depth+1)
	case *ssa.IndexAddr:
		return rootGlobal(x.X, depth+1)
	case *ssa.UnOp:
		if x.Op == token.MUL {
			return rootGlobal(x.X, depth+1)
		}
	case *ssa.Field:
		return rootGlobal(x.X, depth+1)
	}
	return nil
}

// addrOfGlobal: v is the ADDRESS of a package-level variable or of a part of it (no load in between) — handing it to a
// call lets the callee mutate the variable (sync.Map.Store, a method with a pointer receiver, ...).
func addrOfGlobal(v ssa.Value, depth int) *ssa.Global {
	if depth > 8 {
		return nil
	}
	switch x := v.(type) {
	case *ssa.Global:
		return x
	case *ssa.FieldAddr:
		return addrOfGlobal(x.X, depth+1)
	case *ssa.IndexAddr:
		return addrOfGlobal(x.X, depth+1)
	}
	return nil
}

type fact struct {
	A, B string
	N    int
}

func factsImpl(repo, out, js string) {
	cfg := &packages.Config{
		Mode: packages.LoadAllSyntax,
		Dir:  filepath.Join(repo, "api"),
		Env:  append(os.Environ(), "GOFLAGS=-mod=mod", "GOPROXY=off", "GOSUMDB=off", "GOTOOLCHAIN=local", "GOWORK=off"),
	}
	initial, err := packages.Load(cfg, "./krusty")
	if err != nil {
		fail(err.Error())
	}
	if packages.PrintErrors(initial) > 0 {
		fail("package errors")
	}
	prog, pkgs := ssautil.AllPackages(initial, ssa.InstantiateGenerics)
	prog.Build()
	var run *ssa.Function
	for _, p := range pkgs {
		if p == nil || p.Pkg.Path() != kpfx+"api/krusty" {
			continue
		}
		kz := p.Type("Kustomizer")
		if kz == nil {
			fail("krusty.Kustomizer not found")
		}
		run = prog.LookupMethod(types.NewPointer(kz.Type()), p.Pkg, "Run")
	}
	if run == nil {
		fail("(*Kustomizer).Run not found")
	}
	// roots: Run, and the package initialisers of every kustomize package in its import closure — the builtin plugins are
	// reached through factory tables that are filled by package-level initialisers, which RTA only sees from `init`
	roots := []*ssa.Function{run}
	for _, p := range prog.AllPackages() {
		if p != nil && strings.HasPrefix(p.Pkg.Path(), kpfx) {
			if fi := p.Func("init"); fi != nil {
				roots = append(roots, fi)
			}
		}
	}
	res := rta.Analyze(roots, true)
	var fns []*ssa.Function
	for f := range res.Reachable {
		if inKustomize(f) {
			fns = append(fns, f)
		}
	}
	sort.Slice(fns, func(i, j int) bool { return shortFn(fns[i]) < shortFn(fns[j]) })

	var mapRanges, panics, fsReads, globalsW, access []fact
	byRef := map[string]int{} // global \x00 callee -> number of call sites that receive the global's address
	writers := map[string]map[string]bool{} // global -> writer functions (outside init)
	// lock discipline: which functions call Lock/RLock on a sync mutex themselves
	locksSelf := map[*ssa.Function]bool{}
	for _, f := range fns {
		for _, b := range f.Blocks {
			for _, in := range b.Instrs {
				if c, ok := in.(ssa.CallInstruction); ok {
					if cal := c.Common().StaticCallee(); cal != nil {
						n := cal.String()
						if n == "(*sync.RWMutex).Lock" || n == "(*sync.RWMutex).RLock" || n == "(*sync.Mutex).Lock" || n == "(*sync.Once).Do" {
							locksSelf[f] = true
						}
					}
				}
			}
		}
	}
	// functions all of whose (reachable, kustomize) callers hold the lock, to a fixpoint
	held := map[*ssa.Function]bool{}
	for f := range locksSelf {
		held[f] = true
	}
	for changed := true; changed; {
		changed = false
		for _, f := range fns {
			if held[f] {
				continue
			}
			node := res.CallGraph.Nodes[f]
			if node == nil || len(node.In) == 0 {
				continue
			}
			all := true
			for _, e := range node.In {
				if e.Caller.Func == nil || !held[e.Caller.Func] {
					all = false
					break
				}
			}
			if all {
				held[f] = true
				changed = true
			}
		}
	}
	_ = callgraph.Edge{}
	for _, f := range fns {
		nm := shortFn(f)
		nMap, nPanic, nAssert := 0, 0, 0
		isInit := f.Name() == "init" || strings.HasPrefix(f.Name(), "init#")
		acc := map[string]string{} // global -> "r" / "w"
		for _, b := range f.Blocks {
			for _, in := range b.Instrs {
				switch x := in.(type) {
				case *ssa.Range:
					if _, ok := x.X.Type().Underlying().(*types.Map); ok {
						nMap++
					}
				case *ssa.Panic:
					nPanic++
				case *ssa.TypeAssert:
					if !x.CommaOk {
						nAssert++
					}
				case *ssa.Store:
					if g := rootGlobal(x.Addr, 0); g != nil {
						acc[gkey(g, kpfx)] = "w"
					}
				case *ssa.MapUpdate:
					if g := rootGlobal(x.Map, 0); g != nil {
						acc[gkey(g, kpfx)] = "w"
					}
				case *ssa.UnOp:
					if x.Op == token.MUL {
						if g := rootGlobal(x.X, 0); g != nil {
							k := gkey(g, kpfx)
							if acc[k] == "" {
								acc[k] = "r"
							}
						}
					}
				}
				if c, ok := in.(ssa.CallInstruction); ok && !isInit {
					for _, a := range c.Common().Args {
						if g := addrOfGlobal(a, 0); g != nil {
							cn := "?"
							if cal := c.Common().StaticCallee(); cal != nil {
								cn = shortFn(cal)
							}
							byRef[gkey(g, kpfx)+"\x00"+cn]++
						}
						// a LOADED package-level pointer / map / channel handed to a call: the callee works on the shared object
						if u, ok := a.(*ssa.UnOp); ok && u.Op == token.MUL {
							if g, ok := u.X.(*ssa.Global); ok {
								switch g.Type().(*types.Pointer).Elem().Underlying().(type) {
								case *types.Pointer, *types.Map, *types.Chan, *types.Slice:
									cn := "?"
									if cal := c.Common().StaticCallee(); cal != nil {
										cn = shortFn(cal)
									}
									if !strings.HasPrefix(cn, "(*regexp.Regexp).") {
										byRef[gkey(g, kpfx)+"\x00"+cn]++
									}
								}
							}
						}
					}
				}
				if c, ok := in.(ssa.CallInstruction); ok {
					var callee string
					if cal := c.Common().StaticCallee(); cal != nil {
						callee = cal.String()
					} else if c.Common().IsInvoke() {
						callee = c.Common().Method.FullName()
					}
					switch {
					case callee == "os.ReadFile" || callee == "os.Open" || callee == "io/ioutil.ReadFile" || callee == "os.OpenFile" ||
						callee == "os.ReadDir" || callee == "path/filepath.Walk" || callee == "path/filepath.Glob":
						fsReads = append(fsReads, fact{nm, callee, 1})
					case strings.HasSuffix(callee, "filesys.FileSystem).ReadFile") || strings.HasSuffix(callee, "filesys.FileSystem).Open"):
						fsReads = append(fsReads, fact{nm, "FileSystem." + callee[strings.LastIndex(callee, ".")+1:], 1})
					case strings.HasPrefix(callee, "log.Fatal") || callee == "os.Exit" || strings.HasPrefix(callee, "(*log.Logger).Fatal"):
						panics = append(panics, fact{nm, "exit:" + callee, 1})
					}
				}
			}
		}
		if nMap > 0 {
			mapRanges = append(mapRanges, fact{nm, "", nMap})
		}
		if nPanic > 0 {
			panics = append(panics, fact{nm, "panic", nPanic})
		}
		if nAssert > 0 {
			panics = append(panics, fact{nm, "assert", nAssert})
		}
		if !isInit {
			for g, rw := range acc {
				if rw == "w" {
					if writers[g] == nil {
						writers[g] = map[string]bool{}
					}
					writers[g][nm] = true
				}
			}
		}
	}
	// mutable globals = written outside init; then every access with lock status
	for g, ws := range writers {
		var l []string
		for w := range ws {
			l = append(l, w)
		}
		sort.Strings(l)
		globalsW = append(globalsW, fact{g, strings.Join(l, " "), len(l)})
	}
	sort.Slice(globalsW, func(i, j int) bool { return globalsW[i].A < globalsW[j].A })
	for _, f := range fns {
		nm := shortFn(f)
		isInit := f.Name() == "init" || strings.HasPrefix(f.Name(), "init#")
		if isInit {
			continue
		}
		// where this function takes a lock: an access counts as locked only if such a call dominates it
		type pos struct {
			b *ssa.BasicBlock
			i int
		}
		var lockAt []pos
		for _, b := range f.Blocks {
			for i, in := range b.Instrs {
				if c, ok := in.(ssa.CallInstruction); ok {
					if cal := c.Common().StaticCallee(); cal != nil {
						n := cal.String()
						if n == "(*sync.RWMutex).Lock" || n == "(*sync.RWMutex).RLock" || n == "(*sync.Mutex).Lock" {
							lockAt = append(lockAt, pos{b, i})
						}
					}
				}
			}
		}
		dominated := func(b *ssa.BasicBlock, i int) bool {
			for _, l := range lockAt {
				if (l.b == b && l.i < i) || (l.b != b && l.b.Dominates(b)) {
					return true
				}
			}
			return false
		}
		status := map[string]int{}
		var order []string
		for _, b := range f.Blocks {
			for idx, in := range b.Instrs {
				var g *ssa.Global
				switch x := in.(type) {
				case *ssa.Store:
					g = rootGlobal(x.Addr, 0)
				case *ssa.MapUpdate:
					g = rootGlobal(x.Map, 0)
				case *ssa.UnOp:
					if x.Op == token.MUL {
						g = rootGlobal(x.X, 0)
					}
				}
				if g == nil {
					continue
				}
				k := gkey(g, kpfx)
				if writers[k] == nil {
					continue
				}
				st := 0 // unlocked
				switch {
				case len(lockAt) > 0 && dominated(b, idx):
					st = 2 // after a Lock/RLock of this very function
				case len(lockAt) > 0:
					st = 0 // the function takes a lock, but not before this access
				case locksSelf[f]:
					st = 2 // sync.Once.Do only: the closure is the protected part, the caller-side accesses are its arguments
				case held[f]:
					st = 1
				default:
					if par := f.Parent(); par != nil && locksSelf[par] {
						st = 1 // a closure of a function that takes the lock (e.g. the body of sync.Once.Do)
					}
				}
				if old, ok := status[k]; !ok {
					status[k] = st
					order = append(order, k)
				} else if st < old {
					status[k] = st
				}
			}
		}
		for _, k := range order {
			access = append(access, fact{k, nm, status[k]})
		}
	}
	sort.Slice(access, func(i, j int) bool {
		if access[i].A != access[j].A {
			return access[i].A < access[j].A
		}
		return access[i].B < access[j].B
	})
	sort.Slice(fsReads, func(i, j int) bool { return fsReads[i].A+fsReads[i].B < fsReads[j].A+fsReads[j].B })
	sort.Slice(panics, func(i, j int) bool { return panics[i].A+panics[i].B < panics[j].A+panics[j].B })
	// merge duplicates
	merge := func(fs []fact) []fact {
		var o []fact
		for _, f := range fs {
			if len(o) > 0 && o[len(o)-1].A == f.A && o[len(o)-1].B == f.B {
				o[len(o)-1].N += f.N
			} else {
				o = append(o, f)
			}
		}
		return o
	}
	fsReads, panics = merge(fsReads), merge(panics)

	var b strings.Builder
	b.WriteString("-- GENERATED by /verif/extract (vx facts): SSA + RTA call graph rooted at (*krusty.Kustomizer).Run — regenerated on every check.\n")
	b.WriteString("namespace Kust.Gen\n\n")
	b.WriteString(fmt.Sprintf("def reachableFunctions : Nat := %d\n\n", len(fns)))
	emit := func(name, doc string, fs []fact) {
		b.WriteString("/-- " + doc + " -/\n")
		b.WriteString("def " + name + " : List (String × String × Nat) := [\n")
		for i, f := range fs {
			b.WriteString(fmt.Sprintf("  (%s, %s, %d)", lq(f.A), lq(f.B), f.N))
			if i+1 < len(fs) {
				b.WriteString(",")
			}
			b.WriteString("\n")
		}
		b.WriteString("]\n\n")
	}
	emit("mapRangeSites", "(function, \"\", number of `range` statements over a map) in the build closure", mapRanges)
	emit("panicSites", "(function, panic|assert|exit:callee, count): explicit panics, unchecked type assertions, process exits", panics)
	emit("fsReadSites", "(function, callee, count): direct file-system reads in the build closure", fsReads)
	emit("mutableGlobals", "(package-level variable, functions that write it outside init, count)", globalsW)
	var byRefL []fact
	for k, n := range byRef {
		i := strings.Index(k, "\x00")
		byRefL = append(byRefL, fact{k[:i], k[i+1:], n})
	}
	sort.Slice(byRefL, func(i, j int) bool {
		if byRefL[i].A != byRefL[j].A {
			return byRefL[i].A < byRefL[j].A
		}
		return byRefL[i].B < byRefL[j].B
	})
	emit("globalsByRef", "(package-level variable, callee that receives its address outside init, number of call sites): state a callee may mutate through the pointer", byRefL)
	emit("globalAccess", "(mutable global, accessing function, 2 = takes a lock itself / 1 = all callers hold one / 0 = unlocked)", access)
	b.WriteString("end Kust.Gen\n")
	writeIfChanged(filepath.Join(out, "CodeFacts.lean"), b.String())
}
