package main

// fact tables about the code itself (map-range sites, mutable globals and locks, panic sites, raw FS reads);
// filled in by facts_ssa.go
func facts(repo, out, js string) {
	factsImpl(repo, out, js)
}
