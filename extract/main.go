// vx — the T-gen translator: re-reads kustomize's source on every check and regenerates
// lean/Kust/Gen/*.lean (tables and fact tables) plus a JSON copy for the Go harness generators.
package main

import (
	"reflect"
	"encoding/json"
	"flag"
	"fmt"
	"go/ast"
	"go/constant"
	"go/types"
	"os"
	"path/filepath"
	"sort"
	"strings"

	"golang.org/x/tools/go/packages"
	"sigs.k8s.io/yaml"
)

type loader struct {
	repo string
	pkgs map[string]*packages.Package
}

func (l *loader) load(dir string, patterns ...string) error {
	cfg := &packages.Config{
		Mode: packages.NeedName | packages.NeedFiles | packages.NeedSyntax | packages.NeedTypes | packages.NeedTypesInfo | packages.NeedImports,
		Dir:  filepath.Join(l.repo, dir),
		Env:  append(os.Environ(), "GOFLAGS=-mod=mod", "GOPROXY=off", "GOSUMDB=off", "GOTOOLCHAIN=local", "GOWORK=off"),
	}
	ps, err := packages.Load(cfg, patterns...)
	if err != nil {
		return err
	}
	for _, p := range ps {
		if len(p.Errors) > 0 {
			return fmt.Errorf("package %s: %v", p.PkgPath, p.Errors[0])
		}
		l.pkgs[p.PkgPath] = p
	}
	return nil
}

func (l *loader) pkg(path string) *packages.Package {
	p, ok := l.pkgs[path]
	if !ok {
		fail("package not loaded: " + path)
	}
	return p
}

func fail(msg string) {
	fmt.Fprintln(os.Stderr, "vx:", msg)
	os.Exit(1)
}

// constString returns the constant-folded string value of a package-level constant.
func constString(p *packages.Package, name string) string {
	obj := p.Types.Scope().Lookup(name)
	c, ok := obj.(*types.Const)
	if !ok {
		fail(fmt.Sprintf("%s.%s is not a constant", p.PkgPath, name))
	}
	if c.Val().Kind() != constant.String {
		fail(fmt.Sprintf("%s.%s is not a string constant", p.PkgPath, name))
	}
	return constant.StringVal(c.Val())
}

// varInit finds the initialiser expression of a package-level variable.
func varInit(p *packages.Package, name string) ast.Expr {
	for _, f := range p.Syntax {
		for _, d := range f.Decls {
			gd, ok := d.(*ast.GenDecl)
			if !ok {
				continue
			}
			for _, s := range gd.Specs {
				vs, ok := s.(*ast.ValueSpec)
				if !ok {
					continue
				}
				for i, n := range vs.Names {
					if n.Name == name && i < len(vs.Values) {
						return vs.Values[i]
					}
				}
			}
		}
	}
	fail(fmt.Sprintf("variable %s not found in %s", name, p.PkgPath))
	return nil
}

func funcDecl(p *packages.Package, recv, name string) *ast.FuncDecl {
	for _, f := range p.Syntax {
		for _, d := range f.Decls {
			fd, ok := d.(*ast.FuncDecl)
			if !ok || fd.Name.Name != name {
				continue
			}
			if recv == "" && fd.Recv == nil {
				return fd
			}
			if recv != "" && fd.Recv != nil && strings.Contains(types.ExprString(fd.Recv.List[0].Type), recv) {
				return fd
			}
		}
	}
	fail(fmt.Sprintf("func %s.%s not found in %s", recv, name, p.PkgPath))
	return nil
}

// constOf evaluates an expression the type checker has constant-folded.
func constOf(p *packages.Package, e ast.Expr) (string, bool) {
	tv, ok := p.TypesInfo.Types[e]
	if !ok || tv.Value == nil {
		return "", false
	}
	if tv.Value.Kind() == constant.String {
		return constant.StringVal(tv.Value), true
	}
	return tv.Value.ExactString(), true
}

// stringList reads a []string composite literal whose elements are constant expressions.
func stringList(p *packages.Package, e ast.Expr, what string) []string {
	cl, ok := e.(*ast.CompositeLit)
	if !ok {
		fail(what + ": not a composite literal")
	}
	var out []string
	for _, el := range cl.Elts {
		s, ok := constOf(p, el)
		if !ok {
			fail(what + ": non-constant element " + types.ExprString(el))
		}
		out = append(out, s)
	}
	return out
}

type FieldSpec struct {
	Group              string `json:"group,omitempty"`
	Version            string `json:"version,omitempty"`
	Kind               string `json:"kind,omitempty"`
	Path               string `json:"path,omitempty"`
	CreateIfNotPresent bool   `json:"create,omitempty"`
}

type NameBackRefs struct {
	Group      string      `json:"group,omitempty"`
	Version    string      `json:"version,omitempty"`
	Kind       string      `json:"kind,omitempty"`
	FieldSpecs []FieldSpec `json:"fieldSpecs,omitempty"`
}

func lq(s string) string { // Lean string literal
	b, _ := json.Marshal(s)
	r := string(b)
	r = strings.ReplaceAll(r, `<`, "<")
	r = strings.ReplaceAll(r, `>`, ">")
	r = strings.ReplaceAll(r, `&`, "&")
	return r
}

func leanStrList(xs []string) string {
	q := make([]string, len(xs))
	for i, x := range xs {
		q[i] = lq(x)
	}
	return "[" + strings.Join(q, ", ") + "]"
}

func leanFS(f FieldSpec) string {
	return fmt.Sprintf("⟨%s, %s, %s, %s, %v⟩", lq(f.Group), lq(f.Version), lq(f.Kind), lq(f.Path), f.CreateIfNotPresent)
}

func leanFSList(fs []FieldSpec) string {
	var b strings.Builder
	b.WriteString("[\n")
	for i, f := range fs {
		b.WriteString("  " + leanFS(f))
		if i+1 < len(fs) {
			b.WriteString(",")
		}
		b.WriteString("\n")
	}
	b.WriteString("]")
	return b.String()
}

func writeIfChanged(path, content string) {
	old, err := os.ReadFile(path)
	if err == nil && string(old) == content {
		return
	}
	if err := os.WriteFile(path, []byte(content), 0o644); err != nil {
		fail(err.Error())
	}
}

func header(src string) string {
	return "-- GENERATED by /verif/extract (vx tables) from " + src + " — regenerated on every check; do not edit.\nimport Kust.Tables\nnamespace Kust.Gen\n\n"
}

func main() {
	if len(os.Args) < 2 {
		fail("usage: vx tables|facts ...")
	}
	switch os.Args[1] {
	case "tables":
		fs := flag.NewFlagSet("tables", flag.ExitOnError)
		repo := fs.String("repo", "/repo", "repository root")
		out := fs.String("out", "", "directory for generated Lean files")
		js := fs.String("json", "", "JSON copy of the tables")
		fs.Parse(os.Args[2:])
		tables(*repo, *out, *js)
	case "facts":
		fs := flag.NewFlagSet("facts", flag.ExitOnError)
		repo := fs.String("repo", "/repo", "repository root")
		out := fs.String("out", "", "directory for generated Lean files")
		js := fs.String("json", "", "JSON copy of the fact tables")
		fs.Parse(os.Args[2:])
		facts(*repo, *out, *js)
	default:
		fail("unknown command " + os.Args[1])
	}
}

func tables(repo, out, js string) {
	l := &loader{repo: repo, pkgs: map[string]*packages.Package{}}
	if err := l.load("api", "./internal/konfig/builtinpluginconsts", "./resource", "./internal/builtins", "./hasher", "./internal/target", "./internal/utils", "./types"); err != nil {
		fail(err.Error())
	}
	if err := l.load("kyaml", "./yaml", "./openapi", "./kio/kioutil", "./kio/filters"); err != nil {
		fail(err.Error())
	}
	all := map[string]interface{}{}
	os.MkdirAll(out, 0o755)

	// ---- field-spec tables (YAML constants, constant-folded by the type checker)
	consts := l.pkg("sigs.k8s.io/kustomize/api/internal/konfig/builtinpluginconsts")
	var b strings.Builder
	b.WriteString(header("api/internal/konfig/builtinpluginconsts/*.go"))
	fsTables := []struct{ lean, constName, yamlKey string }{
		{"namePrefix", "namePrefixFieldSpecs", "namePrefix"},
		{"nameSuffix", "nameSuffixFieldSpecs", "nameSuffix"},
		{"commonLabels", "commonLabelFieldSpecs", "commonLabels"},
		{"templateLabels", "templateLabelFieldSpecs", "templateLabels"},
		{"metadataLabels", "metadataLabelsFieldSpecs", ""},
		{"commonAnnotations", "commonAnnotationFieldSpecs", "commonAnnotations"},
		{"namespace", "namespaceFieldSpecs", "namespace"},
		{"images", "imagesFieldSpecs", "images"},
		{"replicas", "replicasFieldSpecs", "replicas"},
	}
	for _, t := range fsTables {
		src := constString(consts, t.constName)
		var specs []FieldSpec
		if t.yamlKey == "" {
			if err := yaml.Unmarshal([]byte(src), &specs); err != nil {
				fail(t.constName + ": " + err.Error())
			}
		} else {
			m := map[string][]FieldSpec{}
			if err := yaml.UnmarshalStrict([]byte(src), &m); err != nil {
				fail(t.constName + ": " + err.Error())
			}
			var ok bool
			if specs, ok = m[t.yamlKey]; !ok {
				fail(t.constName + ": key " + t.yamlKey + " missing")
			}
		}
		all[t.lean] = specs
		b.WriteString(fmt.Sprintf("def %sSpecs : List FieldSpec := %s\n\n", t.lean, leanFSList(specs)))
	}
	{
		src := constString(consts, "nameReferenceFieldSpecs")
		m := map[string][]NameBackRefs{}
		if err := yaml.UnmarshalStrict([]byte(src), &m); err != nil {
			fail("nameReferenceFieldSpecs: " + err.Error())
		}
		refs := m["nameReference"]
		all["nameReference"] = refs
		b.WriteString("def nameReference : List NameBackRefs := [\n")
		for i, r := range refs {
			b.WriteString(fmt.Sprintf("  ⟨%s, %s, %s, %s⟩", lq(r.Group), lq(r.Version), lq(r.Kind), strings.ReplaceAll(leanFSList(r.FieldSpecs), "\n", "\n  ")))
			if i+1 < len(refs) {
				b.WriteString(",")
			}
			b.WriteString("\n")
		}
		b.WriteString("]\n\n")
	}
	b.WriteString("end Kust.Gen\n")
	writeIfChanged(filepath.Join(out, "FieldSpecs.lean"), b.String())

	// ---- string lists
	b.Reset()
	b.WriteString(header("api/resource/resource.go, api/internal/builtins/SortOrderTransformer.go, kyaml/yaml/order.go, …"))
	res := l.pkg("sigs.k8s.io/kustomize/api/resource")
	ba := stringList(res, varInit(res, "BuildAnnotations"), "BuildAnnotations")
	all["buildAnnotations"] = ba
	b.WriteString("def buildAnnotations : List String := " + leanStrList(ba) + "\n\n")
	bi := l.pkg("sigs.k8s.io/kustomize/api/internal/builtins")
	of := stringList(bi, varInit(bi, "defaultOrderFirst"), "defaultOrderFirst")
	ol := stringList(bi, varInit(bi, "defaultOrderLast"), "defaultOrderLast")
	all["orderFirst"], all["orderLast"] = of, ol
	b.WriteString("def orderFirst : List String := " + leanStrList(of) + "\n\n")
	b.WriteString("def orderLast : List String := " + leanStrList(ol) + "\n\n")
	// prefix/suffix skip list
	{
		var skip []string
		e := varInit(bi, "prefixFieldSpecsToSkip")
		cl, ok := e.(*ast.CompositeLit)
		if !ok {
			fail("prefixFieldSpecsToSkip: not a composite literal")
		}
		for _, el := range cl.Elts {
			ecl, ok := el.(*ast.CompositeLit)
			if !ok {
				fail("prefixFieldSpecsToSkip: element not a literal")
			}
			// {Gvk: resid.Gvk{Kind: "X"}}
			found := false
			ast.Inspect(ecl, func(n ast.Node) bool {
				kv, ok := n.(*ast.KeyValueExpr)
				if ok && types.ExprString(kv.Key) == "Kind" {
					if s, ok := constOf(bi, kv.Value); ok {
						skip = append(skip, s)
						found = true
					}
				}
				return true
			})
			if !found {
				fail("prefixFieldSpecsToSkip: element without constant Kind")
			}
		}
		all["prefixSkipKinds"] = skip
		b.WriteString("def prefixSkipKinds : List String := " + leanStrList(skip) + "\n\n")
	}
	ky := l.pkg("sigs.k8s.io/kustomize/kyaml/yaml")
	fso := stringList(ky, varInit(ky, "fieldSortOrder"), "fieldSortOrder")
	all["fieldSortOrder"] = fso
	b.WriteString("def fieldSortOrder : List String := " + leanStrList(fso) + "\n\n")
	callArgs := func(name string) []string {
		ce, ok := varInit(ky, name).(*ast.CallExpr)
		if !ok {
			fail(name + ": not a call")
		}
		var xs []string
		for _, a := range ce.Args {
			s, ok := constOf(ky, a)
			if !ok {
				fail(name + ": non-constant argument")
			}
			xs = append(xs, s)
		}
		return xs
	}
	wk, wa := callArgs("WhitelistedListSortKinds"), callArgs("WhitelistedListSortApis")
	all["whitelistKinds"], all["whitelistApis"] = wk, wa
	b.WriteString("def whitelistKinds : List String := " + leanStrList(wk) + "\n\n")
	b.WriteString("def whitelistApis : List String := " + leanStrList(wa) + "\n\n")
	{
		cl, ok := varInit(ky, "WhitelistedListSortFields").(*ast.CompositeLit)
		if !ok {
			fail("WhitelistedListSortFields: not a literal")
		}
		var pairs [][2]string
		for _, el := range cl.Elts {
			kv := el.(*ast.KeyValueExpr)
			k, ok1 := constOf(ky, kv.Key)
			v, ok2 := constOf(ky, kv.Value)
			if !ok1 || !ok2 {
				fail("WhitelistedListSortFields: non-constant entry")
			}
			pairs = append(pairs, [2]string{k, v})
		}
		sort.Slice(pairs, func(i, j int) bool { return pairs[i][0] < pairs[j][0] })
		all["whitelistFields"] = pairs
		var q []string
		for _, p := range pairs {
			q = append(q, "("+lq(p[0])+", "+lq(p[1])+")")
		}
		b.WriteString("def whitelistFields : List (String × String) := [" + strings.Join(q, ", ") + "]\n\n")
	}
	ask := stringList(ky, varInit(ky, "AssociativeSequenceKeys"), "AssociativeSequenceKeys")
	all["associativeSequenceKeys"] = ask
	b.WriteString("def associativeSequenceKeys : List String := " + leanStrList(ask) + "\n\n")
	// ---- namespace-scope table
	{
		oa := l.pkg("sigs.k8s.io/kustomize/kyaml/openapi")
		cl, ok := varInit(oa, "precomputedIsNamespaceScoped").(*ast.CompositeLit)
		if !ok {
			fail("precomputedIsNamespaceScoped: not a literal")
		}
		type ent struct {
			APIVersion, Kind string
			Namespaced      bool
		}
		var ents []ent
		for _, el := range cl.Elts {
			kv := el.(*ast.KeyValueExpr)
			var e ent
			for _, f := range kv.Key.(*ast.CompositeLit).Elts {
				fkv := f.(*ast.KeyValueExpr)
				v, ok := constOf(oa, fkv.Value)
				if !ok {
					fail("precomputedIsNamespaceScoped: non-constant key")
				}
				switch types.ExprString(fkv.Key) {
				case "APIVersion":
					e.APIVersion = v
				case "Kind":
					e.Kind = v
				}
			}
			v, ok := constOf(oa, kv.Value)
			if !ok {
				fail("precomputedIsNamespaceScoped: non-constant value")
			}
			e.Namespaced = v == "true"
			ents = append(ents, e)
		}
		all["scopeTable"] = ents
		b.WriteString("def scopeTable : List (String × String × Bool) := [\n")
		for i, e := range ents {
			b.WriteString(fmt.Sprintf("  (%s, %s, %v)", lq(e.APIVersion), lq(e.Kind), e.Namespaced))
			if i+1 < len(ents) {
				b.WriteString(",")
			}
			b.WriteString("\n")
		}
		b.WriteString("]\n\n")
	}
	// ---- hasher digit substitution (the switch in encode)
	{
		hp := l.pkg("sigs.k8s.io/kustomize/api/hasher")
		fd := funcDecl(hp, "", "encode")
		var pairs [][2]string
		ast.Inspect(fd, func(n ast.Node) bool {
			cc, ok := n.(*ast.CaseClause)
			if !ok || len(cc.List) != 1 || len(cc.Body) != 1 {
				return true
			}
			as, ok := cc.Body[0].(*ast.AssignStmt)
			if !ok {
				return true
			}
			from, ok1 := hp.TypesInfo.Types[cc.List[0]]
			to, ok2 := hp.TypesInfo.Types[as.Rhs[0]]
			if ok1 && ok2 && from.Value != nil && to.Value != nil {
				f, _ := constant.Int64Val(from.Value)
				t, _ := constant.Int64Val(to.Value)
				pairs = append(pairs, [2]string{string(rune(f)), string(rune(t))})
			}
			return true
		})
		if len(pairs) == 0 {
			fail("hasher.encode: no substitution cases found")
		}
		all["hashSubst"] = pairs
		var q []string
		for _, p := range pairs {
			q = append(q, fmt.Sprintf("('%s', '%s')", p[0], p[1]))
		}
		b.WriteString("def hashSubst : List (Char × Char) := [" + strings.Join(q, ", ") + "]\n\n")
	}
	// ---- execution order of the built-in transformers
	{
		tp := l.pkg("sigs.k8s.io/kustomize/api/internal/target")
		fd := funcDecl(tp, "KustTarget", "configureBuiltinTransformers")
		var order []string
		ast.Inspect(fd, func(n ast.Node) bool {
			rs, ok := n.(*ast.RangeStmt)
			if !ok || order != nil {
				return true
			}
			cl, ok := rs.X.(*ast.CompositeLit)
			if !ok {
				return true
			}
			for _, el := range cl.Elts {
				if se, ok := el.(*ast.SelectorExpr); ok {
					order = append(order, se.Sel.Name)
				}
			}
			return true
		})
		if len(order) == 0 {
			fail("configureBuiltinTransformers: plugin order literal not found")
		}
		all["transformerOrder"] = order
		b.WriteString("def transformerOrder : List String := " + leanStrList(order) + "\n\n")
	}
	// ---- kustomize edit: marshalling order of the kustomization fields, and the struct's fields with their YAML keys
	{
		if err := l.load("kustomize", "./commands/internal/kustfile"); err != nil {
			fail(err.Error())
		}
		kp := l.pkg("sigs.k8s.io/kustomize/kustomize/v5/commands/internal/kustfile")
		fd := funcDecl(kp, "", "determineFieldOrder")
		var ordered, pre []string
		deprecated := map[string]bool{}
		ast.Inspect(fd, func(n ast.Node) bool {
			as, ok := n.(*ast.AssignStmt)
			if !ok || len(as.Lhs) != 1 || len(as.Rhs) != 1 {
				return true
			}
			name := types.ExprString(as.Lhs[0])
			switch rhs := as.Rhs[0].(type) {
			case *ast.CompositeLit:
				if name == "ordered" {
					ordered = stringList(kp, rhs, "determineFieldOrder.ordered")
				}
				if name == "deprecated" {
					for _, el := range rhs.Elts {
						if kv, ok := el.(*ast.KeyValueExpr); ok {
							if v, ok := constOf(kp, kv.Key); ok {
								deprecated[v] = true
							}
						}
					}
				}
			case *ast.CallExpr:
				if name == "result" && types.ExprString(rhs.Fun) == "append" {
					for _, a := range rhs.Args[1:] {
						if v, ok := constOf(kp, a); ok {
							pre = append(pre, v)
						}
					}
				}
			}
			return true
		})
		if len(ordered) == 0 || len(pre) == 0 {
			fail("determineFieldOrder: ordered list / inlined TypeMeta fields not found")
		}
		order := append([]string{}, pre...)
		for _, f := range ordered {
			if !deprecated[f] {
				order = append(order, f)
			}
		}
		all["fieldMarshallingOrder"] = order
		b.WriteString("def fieldMarshallingOrder : List String := " + leanStrList(order) + "\n\n")
		tp := l.pkg("sigs.k8s.io/kustomize/api/types")
		st, ok := tp.Types.Scope().Lookup("Kustomization").Type().Underlying().(*types.Struct)
		if !ok {
			fail("types.Kustomization is not a struct")
		}
		var q []string
		var flds [][2]string
		var addFields func(st *types.Struct)
		addFields = func(st *types.Struct) {
			for i := 0; i < st.NumFields(); i++ {
				f := st.Field(i)
				tag := reflect.StructTag(st.Tag(i)).Get("json")
				key := strings.Split(tag, ",")[0]
				if f.Embedded() && strings.Contains(tag, "inline") {
					if es, ok := f.Type().Underlying().(*types.Struct); ok {
						addFields(es)
					}
					continue
				}
				flds = append(flds, [2]string{f.Name(), key})
				q = append(q, fmt.Sprintf("(%s, %s)", lq(f.Name()), lq(key)))
			}
		}
		addFields(st)
		all["kustomizationFields"] = flds
		b.WriteString("def kustomizationFields : List (String × String) := [" + strings.Join(q, ", ") + "]\n\n")
	}
	b.WriteString("end Kust.Gen\n")
	writeIfChanged(filepath.Join(out, "Lists.lean"), b.String())

	// ---- annotation-key string constants of the build code (C07: every one must be stripped or reviewed)
	{
		if err := l.load("api", "./konfig", "./internal/accumulator", "./resmap", "./krusty", "./internal/plugins/builtinhelpers"); err != nil {
			fail(err.Error())
		}
		if err := l.load("kyaml", "./kio", "./fn/runtime/runtimeutil", "./comments"); err != nil {
			fail(err.Error())
		}
		prefixes := []string{"internal.config.kubernetes.io/", "config.kubernetes.io/", "config.k8s.io/", "alpha.config.kubernetes.io/", "kustomize.config.k8s.io/"}
		set := map[string]bool{}
		for _, p := range l.pkgs {
			sc := p.Types.Scope()
			for _, n := range sc.Names() {
				c, ok := sc.Lookup(n).(*types.Const)
				if !ok || c.Val().Kind() != constant.String {
					continue
				}
				v := constant.StringVal(c.Val())
				for _, pre := range prefixes {
					if strings.HasPrefix(v, pre) && len(v) > len(pre) {
						set[v] = true
					}
				}
			}
		}
		var ks []string
		for k := range set {
			ks = append(ks, k)
		}
		sort.Strings(ks)
		all["annotationKeyConsts"] = ks
		var fb strings.Builder
		fb.WriteString(header("string constants of api/… and kyaml/… packages on the build path"))
		fb.WriteString("def annotationKeyConsts : List String := " + leanStrList(ks) + "\n\nend Kust.Gen\n")
		writeIfChanged(filepath.Join(out, "Facts.lean"), fb.String())
	}

	if js != "" {
		keys := make([]string, 0, len(all))
		for k := range all {
			keys = append(keys, k)
		}
		sort.Strings(keys)
		bb, _ := json.MarshalIndent(all, "", " ")
		writeIfChanged(js, string(bb))
	}
}
