package main

import (
	"os"
	"crypto/sha256"
	"encoding/base64"
	"encoding/json"
	"fmt"
	"math/rand"
	"strings"

	"sigs.k8s.io/kustomize/kyaml/filesys"
)

// independentHash: the documented suffix function, written from the property text:
// sha256 over the canonical JSON of {kind,name:"",data[,binaryData][,type,stringData]} (keys sorted, Go JSON escaping;
// the name slot is always empty: content only, as the property states),
// hex, first 10 digits, with 0->g 1->h 3->k a->m e->t.
func independentHash(kind, name, typ string, data map[string]string) string {
	m := map[string]interface{}{"kind": kind, "name": name, "data": data}
	if kind == "Secret" {
		m["type"] = typ
	}
	if data == nil {
		m["data"] = ""
	}
	b, _ := json.Marshal(m)
	sum := sha256.Sum256(b)
	hex := fmt.Sprintf("%x", sum)[:10]
	rep := strings.NewReplacer("0", "g", "1", "h", "3", "k", "a", "m", "e", "t")
	return rep.Replace(hex)
}

type genState struct {
	data    map[string]string
	layer   int // layer of creation
	disable bool
	tracer  string
	kind    string
	name    string
	labels  map[string]string // labels at creation (nil once another layer merged into or replaced the object)
}

// C06: generators layer like dictionaries; the name suffix is a function of the final content.
func init() {
	oracles["C06"] = func(seed int64, n int, tier, work string) *oracleReport {
		o := newOracleRun("C06", seed)
		for _, cs := range caseSeeds(seed, n, "C06") {
			r := rand.New(rand.NewSource(cs))
			f := allFeat()
			f.PatchSM, f.PatchJSON, f.Images, f.Replicas = false, false, false, false
			f.Dense = r.Intn(3) == 0
			t := genTree(r, f)
			// plain ConfigMaps/Secrets named like the generators would collide with them; drop generator names from resources
			specs := addGenerators(r, t)
			if len(specs) == 0 {
				o.note("no-generators", cs)
				continue
			}
			// predict
			st := map[string]*genState{}
			var wantErr string
			for _, g := range specs {
				key := g.Kind + "/" + g.Name
				cur := st[key]
				lit := map[string]string{}
				for _, kv := range g.Literals {
					lit[kv[0]] = kv[1]
				}
				switch g.Behavior {
				case "", "create":
					if cur != nil {
						wantErr = "create-on-existing"
					} else {
						st[key] = &genState{data: lit, layer: g.Layer, disable: g.Disable, tracer: g.Tracer, kind: g.Kind, name: g.Name, labels: g.WantLabels}
					}
				case "merge":
					if cur == nil {
						wantErr = "merge-on-absent"
					} else {
						for k, v := range lit {
							cur.data[k] = v
						}
						cur.labels = nil
						cur.tracer = g.Tracer // annotations merge: the overlay's tracer wins
						cur.disable = cur.disable || g.Disable // the suffix is added only if no layer of the chain disables it
					}
				case "replace":
					if cur == nil {
						wantErr = "replace-on-absent"
					} else {
						cur.data = lit
						cur.labels = nil
						cur.tracer = g.Tracer
						cur.disable = cur.disable || g.Disable
					}
				}
				if wantErr != "" {
					break
				}
			}
			fs := filesys.MakeFsInMemory()
			t.Write(fs, "/w")
			out, err, pnc := safeBuild(func() (string, error) { return runBuild(fs, t.TopDir("/w"), nil) })
			if pnc != nil {
				o.note("panic", cs)
				continue
			}
			if wantErr != "" {
				o.note("expect-error:"+wantErr, cs)
				if err == nil {
					o.fail("impossible-behavior-accepted:"+wantErr, "build succeeds although a generator does "+wantErr, cs, t.Describe(), nil, nil)
				}
				continue
			}
			if err != nil {
				if os.Getenv("VERIF_DEBUG_ERR") != "" {
					fmt.Fprintln(realStderr, "SEED", cs, err)
				}
				o.note(errClass(err), cs)
				// an unexpected error in the generator domain is itself a failure of the dictionary semantics
				if strings.Contains(err.Error(), "merging from generator") {
					o.fail("valid-layering-rejected", "a valid create/merge/replace chain is rejected: "+errClass(err), cs, t.Describe(), nil, nil)
				}
				continue
			}
			o.note("ok", cs)
			docs, _ := parseDocs(out)
			bt := byTracer(docs)
			for _, s := range st {
				ds := bt[s.tracer]
				if len(ds) != 1 {
					o.fail("generated-object-count", fmt.Sprintf("%s %s appears %d times", s.kind, s.name, len(ds)), cs, t.Describe(), len(ds), 1)
					continue
				}
				d := ds[0]
				gotData := map[string]string{}
				if dm, ok := d["data"].(map[string]interface{}); ok {
					for k, v := range dm {
						sv, _ := v.(string)
						if s.kind == "Secret" {
							b, _ := base64.StdEncoding.DecodeString(sv)
							sv = string(b)
						}
						gotData[k] = sv
					}
				}
				if fmt.Sprint(gotData) != fmt.Sprint(s.data) {
					o.fail("layered-data", fmt.Sprintf("%s %s data = %v, dictionary fold gives %v", s.kind, s.name, gotData, s.data), cs, t.Describe(), gotData, s.data)
					continue
				}
				// options: the layer's generatorOptions.labels overlaid by the generator's own labels
				if s.labels != nil {
					md, _ := d["metadata"].(map[string]interface{})
					gl := strMap(md["labels"])
					for k, v := range s.labels {
						if gl[k] != v {
							o.fail("generator-options-labels", fmt.Sprintf("%s %s label %s is %q, generatorOptions overlaid by the generator's options give %q", s.kind, s.name, k, gl[k], v), cs, t.Describe(), gl, s.labels)
						}
					}
				}
				// name: affixes of the layers from the creating layer outwards, then the hash of the final content
				gr := &GenRes{Kind: s.kind, Name: s.name, Layer: s.layer}
				base := t.predictedName(gr)
				want := base
				if !s.disable {
					hd := map[string]string{}
					for k, v := range s.data {
						if s.kind == "Secret" {
							hd[k] = base64.StdEncoding.EncodeToString([]byte(v))
						} else {
							hd[k] = v
						}
					}
					typ := ""
					if s.kind == "Secret" {
						typ, _ = d["type"].(string)
					}
					want = base + "-" + independentHash(s.kind, "", typ, hd)
				}
				if got := outName(d); got != want {
					o.fail("hash-suffix", fmt.Sprintf("%s %s is named %q, content hash prescribes %q", s.kind, s.name, got, want), cs, t.Describe(), got, want)
				}
			}
		}
		return o.rep
	}
}
