package main

import (
	"os"
	"fmt"
	"bytes"
	"io"
	"math/rand"
	"reflect"
	"strings"

	"sigs.k8s.io/kustomize/kyaml/filesys"
	"sigs.k8s.io/kustomize/kyaml/kio"
	"sigs.k8s.io/kustomize/kyaml/yaml"
)

// parseStream: the documents of a stream as the YAML library's own stream decoder sees them (third-party reference)
func parseStream(in string) ([]interface{}, error) {
	dec := yaml.NewDecoder(strings.NewReader(in))
	var out []interface{}
	for {
		var v interface{}
		err := dec.Decode(&v)
		if err == io.EOF {
			return out, nil
		}
		if err != nil {
			return nil, err
		}
		if v != nil {
			out = append(out, v)
		}
	}
}

func roundTrip(in string) (string, error) {
	var out bytes.Buffer
	rw := &kio.ByteReadWriter{Reader: strings.NewReader(in), Writer: &out}
	nodes, err := rw.Read()
	if err != nil {
		return "", err
	}
	if err := rw.Write(nodes); err != nil {
		return "", err
	}
	return out.String(), nil
}

func init() {
	oracles["C13"] = func(seed int64, n int, tier, work string) *oracleReport {
		o := newOracleRun("C13", seed)
		gen := components["fmt.node"]
		if os.Getenv("VERIF_ONLY_CASE") == "" {
			// ---- probe of finding C13-K1 (the only place its class is raised): a FOLDED block scalar whose value ends in two
			// or more line breaks gains one line break with every read + write
			in := "a: >+\n  kept line\n\nb: 1\n"
			if out1, err := roundTrip(in); err == nil {
				din, e1 := parseStream(in)
				dout, e2 := parseStream(out1)
				o.note("probe-folded-keep", in)
				if e1 != nil || e2 != nil || !reflect.DeepEqual(din, dout) {
					o.fail("folded-scalar-trailing-breaks-grow", "a folded scalar that ends in two line breaks comes back with three", 0, in, out1, in)
				}
			}
		}
		for _, cs := range caseSeeds(seed, n, "C13") {
			r := rand.New(rand.NewSource(cs))
			if r.Intn(6) == 0 {
				// ---- package read-writer: read a package, drop / keep resources, write it back — whatever annotations the
				// stored resources carry and whatever options are set, nothing outside the package is created, changed or deleted
				fs := filesys.MakeFsInMemory()
				fs.MkdirAll("/pkg/dir/sub")
				fs.MkdirAll("/pkg/shared")
				outside := map[string]string{"/pkg/shared/keep.yaml": "keep: shared\n", "/other/victim.yaml": "keep: me\n", "/pkg/sibling.yaml": "keep: sib\n"}
				for p, c := range outside {
					fs.WriteFile(p, []byte(c))
				}
				evil := []string{"../shared/keep.yaml", "../sibling.yaml", "/other/victim.yaml", "sub/../../shared/keep.yaml", "", ".", ".."}
				nfiles := 0
				for i, fn := range []string{"a.yaml", "b.yaml", "sub/c.yaml"} {
					if r.Intn(4) == 0 {
						continue
					}
					nfiles++
					doc := fmt.Sprintf("apiVersion: v1\nkind: ConfigMap\nmetadata:\n  name: cm%d\n", i)
					if r.Intn(2) == 0 {
						pa := pickS(r, evil)
						doc += "  annotations:\n    config.kubernetes.io/path: '" + pa + "'\n    internal.config.kubernetes.io/path: '" + pa + "'\n"
					}
					fs.WriteFile("/pkg/dir/"+fn, []byte(doc))
				}
				// the package path as a caller may spell it (clean or not: it names the same directory)
				pkgSpelling := pickS(r, []string{"/pkg/dir", "/pkg/dir", "/pkg/dir/", "/pkg/./dir", "/pkg/dir/.", "/pkg/shared/../dir"})
				rw := &kio.LocalPackageReadWriter{PackagePath: pkgSpelling, FileSystem: filesys.FileSystemOrOnDisk{FileSystem: fs},
					OmitReaderAnnotations: r.Intn(2) == 0, NoDeleteFiles: r.Intn(4) == 0, KeepReaderAnnotations: r.Intn(3) == 0, IncludeSubpackages: true}
				in := map[string]interface{}{"mode": "pkg-readwrite", "packagePath": pkgSpelling, "omit": rw.OmitReaderAnnotations, "noDelete": rw.NoDeleteFiles, "files": dumpFS(fs, "/pkg/dir")}
				nodes, err := rw.Read()
				if err != nil {
					o.note("pkg-rw-read-error", in)
					continue
				}
				var kept []*yaml.RNode
				dropAll := r.Intn(4) == 0 // a filter that drops everything: the package ends up empty, and stays where it is
				for _, nd := range nodes {
					if r.Intn(3) != 0 && !dropAll {
						kept = append(kept, nd)
					}
				}
				if len(kept) > 0 && r.Intn(2) == 0 {
					// a FIRST write that is refused (one resource points outside the package) must leave nothing behind in the
					// read-writer: the second, valid write on the same object deletes what the READ recorded, nothing else
					victim := kept[r.Intn(len(kept))]
					oldP := victim.GetAnnotations()["internal.config.kubernetes.io/path"]
					oldL := victim.GetAnnotations()["config.kubernetes.io/path"]
					bad := pickS(r, []string{"../shared/keep.yaml", "../sibling.yaml", "../../other/victim.yaml"})
					victim.PipeE(yaml.SetAnnotation("internal.config.kubernetes.io/path", bad), yaml.SetAnnotation("config.kubernetes.io/path", bad))
					e1 := rw.Write(kept)
					in["firstWrite"] = map[string]interface{}{"path": bad, "refused": e1 != nil}
					if oldP != "" {
						victim.PipeE(yaml.SetAnnotation("internal.config.kubernetes.io/path", oldP))
					} else {
						victim.PipeE(yaml.ClearAnnotation("internal.config.kubernetes.io/path"))
					}
					if oldL != "" {
						victim.PipeE(yaml.SetAnnotation("config.kubernetes.io/path", oldL))
					} else {
						victim.PipeE(yaml.ClearAnnotation("config.kubernetes.io/path"))
					}
				}
				werr := rw.Write(kept)
				o.note("pkg-rw-"+map[bool]string{true: "ok", false: "rejected"}[werr == nil], in)
				after := dumpFS(fs, "/")
				for p, c := range outside {
					if after[p] != c {
						o.fail("package-write-escapes", "reading a package and writing it back changed or deleted "+p+" outside the package directory", cs, in, after[p], c)
					}
				}
				for p := range after {
					if !strings.HasPrefix(p, "/pkg/dir/") && outside[p] == "" {
						o.fail("package-write-escapes", "reading a package and writing it back created "+p+" outside the package directory", cs, in, p, nil)
					}
				}
				if !fs.IsDir("/pkg/dir") {
					o.fail("package-write-escapes", "writing the package back removed the package directory itself", cs, in, nil, nil)
				}
				_ = nfiles
				continue
			}
			if r.Intn(4) == 0 {
				// ---- package writer: files are created only inside the package, whatever the path annotation says
				fs := filesys.MakeFsInMemory()
				fs.MkdirAll("/pkg/dir")
				fs.MkdirAll("/other")
				fs.WriteFile("/other/victim.yaml", []byte("keep: me\n"))
				var ps []string
				for i := 0; i < 1+r.Intn(4); i++ {
					ps = append(ps, pickS(r, []string{"a", "..", ".", "x.yaml", "other", "victim.yaml", "..", "pkg", "dir"}))
				}
				path := strings.Join(ps, "/")
				if r.Intn(5) == 0 {
					path = "/" + path
				}
				nd := yaml.MustParse("apiVersion: v1\nkind: ConfigMap\nmetadata:\n  name: x\n")
				switch r.Intn(4) {
				case 0:
					// NO path annotation: the writer derives the file from namespace and name — whatever THEY contain
					odd := pickS(r, []string{"../../other", "../x", "..", "a/../../..", "/other", "ok"})
					if r.Intn(2) == 0 {
						nd = yaml.MustParse("apiVersion: v1\nkind: ConfigMap\nmetadata:\n  name: x\n  namespace: \"" + odd + "\"\n")
					} else {
						nd = yaml.MustParse("apiVersion: v1\nkind: ConfigMap\nmetadata:\n  name: \"" + odd + "\"\n")
					}
					path = "<derived from " + odd + ">"
				case 1:
					// only the legacy spelling of the annotation, beside an EMPTY current one
					nd.PipeE(yaml.SetAnnotation("config.kubernetes.io/path", path), yaml.SetAnnotation("internal.config.kubernetes.io/path", ""))
				default:
					nd.PipeE(yaml.SetAnnotation("config.kubernetes.io/path", path), yaml.SetAnnotation("config.kubernetes.io/index", "0"),
						yaml.SetAnnotation("internal.config.kubernetes.io/path", path), yaml.SetAnnotation("internal.config.kubernetes.io/index", "0"))
				}
				err := kio.LocalPackageWriter{PackagePath: "/pkg/dir", FileSystem: filesys.FileSystemOrOnDisk{FileSystem: fs}}.Write([]*yaml.RNode{nd})
				in := map[string]interface{}{"mode": "pkg-write", "path": path}
				o.note("pkg-write-"+map[bool]string{true: "ok", false: "rejected"}[err == nil], in)
				files := dumpFS(fs, "/")
				for p, c := range files {
					if !strings.HasPrefix(p, "/pkg/dir/") && !(p == "/other/victim.yaml" && c == "keep: me\n") {
						o.fail("package-write-escapes", "a resource was written to "+p+" outside the package directory", cs, in, p, nil)
					}
				}
				if _, ok := files["/other/victim.yaml"]; !ok {
					o.fail("package-write-escapes", "a file outside the package was deleted", cs, in, nil, nil)
				}
				continue
			}
			var sb strings.Builder
			cnt := 0
			nd := 1 + r.Intn(3)
			for d := 0; d < nd; d++ {
				args, _ := gen(r, tier)
				node := wireToNode(args["doc"])
				addComments(r, node, &cnt)
				s, err := yaml.NewRNode(node).String()
				if err != nil {
					continue
				}
				if d > 0 {
					sb.WriteString(pickS(r, []string{"---\n", "--- # sep comment\n", "---\n---\n", "---  \n"}))
				}
				sb.WriteString(s)
				if node.Kind == yaml.MappingNode && node.Style&yaml.FlowStyle == 0 && len(node.Content) > 0 && strings.HasSuffix(s, "\n") && r.Intn(4) == 0 {
					// ANY document — not only the last — may end in a block scalar; with keep chomping every line break before
					// the next separator is data (seed C13i: the separator match stopped consuming the break before `---`)
					// (a FOLDED scalar whose value ends in two or more line breaks is finding C13-K1 — the emitter adds a break on
					// every write — and has its own probe below; the random stream keeps folded scalars to one final break)
					st := pickS(r, []string{"|+", "|+", ">+", "|", "|-"})
					blank := pickS(r, []string{"", "\n", "\n\n"})
					if st == ">+" {
						blank = ""
					}
					sb.WriteString("zzTail: " + st + "\n  kept line\n" + blank)
				}
				if r.Intn(6) == 0 {
					// a document that is an EMPTY MAPPING is a document (unlike the nothing between two separators)
					sb.WriteString("---\n" + pickS(r, []string{"{}\n", "{} # intentionally empty\n", "# head of the empty one\n{}\n"}))
				}
			}
			if nd >= 1 && sb.Len() > 0 && r.Intn(5) == 0 {
				// a `kind: List` / `ResourceList` wrapper beside other documents — first, in the middle or last — is a document
				// like any other (only a stream that consists of the wrapper alone is unwrapped)
				wk := pickS(r, []string{"List", "ResourceList", "ConfigMapList"})
				wrapper := "apiVersion: v1\nkind: " + wk + "\nitems:\n- apiVersion: v1\n  kind: ConfigMap\n  metadata:\n    name: in-list-a\n- apiVersion: v1\n  kind: ConfigMap\n  metadata:\n    name: in-list-b\n"
				if wk == "ResourceList" {
					wrapper = "apiVersion: config.kubernetes.io/v1\nkind: ResourceList\nitems:\n- apiVersion: v1\n  kind: ConfigMap\n  metadata:\n    name: in-list-a\n"
				}
				rest := sb.String()
				sb.Reset()
				switch r.Intn(3) {
				case 0:
					sb.WriteString(wrapper + "---\n" + rest)
				case 1:
					sb.WriteString(rest + "---\n" + wrapper + "---\napiVersion: v1\nkind: ConfigMap\nmetadata:\n  name: after-list\n")
				default:
					sb.WriteString(rest + "---\n" + wrapper)
				}
			}
			if r.Intn(4) == 0 {
				// the last document ends in a block scalar, and the stream may lack its final line break
				if nd > 0 {
					sb.WriteString("---\n")
				}
				sb.WriteString("tail:\n  text: " + pickS(r, []string{"|", "|-", "|+", ">", ">-"}) + "\n    first line\n    second line\n")
			}
			in := sb.String()
			if r.Intn(3) == 0 {
				in = strings.TrimSuffix(in, "\n") // no terminating line break
			}
			if hasDupKeys(in) || strings.TrimSpace(in) == "" {
				continue
			}
			if r.Intn(4) == 0 {
				in = strings.ReplaceAll(in, "\n", "\r\n")
			}
			out1, err := roundTrip(in)
			if err != nil {
				o.note("err", in)
				continue
			}
			o.note("stream", in)
			din, e1 := parseStream(strings.ReplaceAll(in, "\r\n", "\n"))
			dout, e2 := parseStream(out1)
			if e1 == nil && e2 != nil {
				o.fail("output-unparsable", "round-tripped stream does not parse: "+e2.Error(), cs, in, out1, nil)
				continue
			}
			if e1 == nil && !reflect.DeepEqual(din, dout) {
				o.fail("data-changed", "reading and writing the stream changes document data or order", cs, in, jstr(dout), jstr(din))
			}
			c1 := commentLines(strings.ReplaceAll(in, "\r\n", "\n"))
			var c1f []string
			for _, c := range c1 {
				if !strings.HasPrefix(c, "# sep comment") { // comments ON a separator line belong to no node
					c1f = append(c1f, c)
				}
			}
			if c2 := commentLines(out1); !reflect.DeepEqual(c1f, c2) && !(len(c1f) == 0 && len(c2) == 0) {
				o.fail("comments-changed", "round trip loses or duplicates node comments", cs, in, c2, c1f)
			}
			out2, err2 := roundTrip(out1)
			if err2 != nil || out2 != out1 {
				o.fail("second-round-trip-differs", "the second round trip is not byte-identical to the first", cs, in, firstDiff(out1, out2), nil)
			}
			if strings.Contains(out1, "config.kubernetes.io/index") || strings.Contains(out1, "internal.config.kubernetes.io") {
				o.fail("reader-annotation-left", "reader bookkeeping annotations survive the writer", cs, in, nil, nil)
			}
		}
		return o.rep
	}
}
