package main

import (
	"bufio"
	"encoding/json"
	"fmt"
	"math/rand"
	"os"
	"os/exec"
	"path/filepath"
	"reflect"
	"sort"

	"sigs.k8s.io/kustomize/api/filters/patchstrategicmerge"
	"sigs.k8s.io/kustomize/kyaml/yaml"
)

// genDomPatch: a patch generated RELATIVE to the target from the property's grammar; directives address present
// content, keyed lists keep unique keys.
func genDomPatch(r *rand.Rand, target interface{}, typed bool) interface{} {
	patch := wM(wF("apiVersion", wGet(target, "apiVersion")), wF("kind", wGet(target, "kind")),
		wF("metadata", wM(wF("name", wS("!!str", "obj")))))
	md := wGet(patch, "metadata")
	tmd := wGet(target, "metadata")
	// map entries: labels / annotations
	if r.Intn(2) == 0 {
		l := wM()
		if tl := wGet(tmd, "labels"); tl != nil && r.Intn(2) == 0 {
			switch r.Intn(3) {
			case 0:
				wSet(l, "app", wS("!!str", pick(r, []string{"new", "x2"}))) // set scalar
			case 1:
				wSet(l, "tier", wS("!!null", "null")) // null removes
			default:
				wSet(l, "added", wS("!!str", "v")) // add entry
			}
		} else {
			wSet(l, "added", wS("!!str", "v"))
		}
		wSet(md, "labels", l)
	}
	if wGet(tmd, "finalizers") != nil && r.Intn(2) == 0 {
		wSet(md, "finalizers", wQ(wS("!!str", pick(r, []string{"f2", "f3"})))) // primitive set-list merge
	}
	if wGet(tmd, "annotations") != nil && r.Intn(3) == 0 {
		wSet(md, "annotations", wM(wF("$patch", wS("!!str", "delete")))) // delete a present map
	}
	tspec := wGet(target, "spec")
	tpod := wGet(wGet(tspec, "template"), "spec")
	pod := wM()
	if conts, ok := wGet(tpod, "containers").([]interface{}); ok && r.Intn(4) != 0 {
		var pc []interface{}
		for _, c := range conts[2].([]interface{}) {
			nm := wGet(c, "name")
			switch r.Intn(6) {
			case 0: // keyed-list delete
				pc = append(pc, wM(wF("name", nm), wF("$patch", wS("!!str", "delete"))))
			case 1: // keyed-list merge: set scalar inside the element
				pc = append(pc, wM(wF("name", nm), wF("image", wS("!!str", "patched:1"))))
			case 2: // nested keyed list + atomic list
				e := wM(wF("name", nm), wF("env", wQ(wM(wF("name", wS("!!str", pick(r, []string{"A", "NEW"}))), wF("value", wS("!!str", "pv"))))))
				if r.Intn(2) == 0 {
					wSet(e, "args", wQ(wS("!!str", "only"))) // atomic list replace
				}
				pc = append(pc, e)
			case 3: // a list with two merge keys (containerPort, protocol): delete / change / add a port
				tps, ok := wGet(c, "ports").([]interface{})
				if !ok {
					break
				}
				var pp []interface{}
				for _, tp := range tps[2].([]interface{}) {
					kf := [][]interface{}{wF("containerPort", wGet(tp, "containerPort"))}
					if pr := wGet(tp, "protocol"); pr != nil {
						kf = append(kf, wF("protocol", pr))
					}
					switch r.Intn(3) {
					case 0:
						pp = append(pp, wM(append(kf, wF("$patch", wS("!!str", "delete")))...))
					case 1:
						pp = append(pp, wM(append(kf, wF("name", wS("!!str", "renamed")))...))
					}
				}
				if r.Intn(3) == 0 {
					nf := [][]interface{}{wF("containerPort", wS("!!int", "9090"))}
					if len(tps[2].([]interface{})) > 0 && wGet(tps[2].([]interface{})[0], "protocol") != nil {
						nf = append(nf, wF("protocol", wS("!!str", "TCP")))
					}
					pp = append(pp, wM(nf...))
				}
				if pp != nil {
					pc = append(pc, wM(wF("name", nm), wF("ports", wQ(pp...))))
				}
			}
		}
		if r.Intn(3) == 0 { // keyed-list add
			pc = append(pc, wM(wF("name", wS("!!str", "brandnew")), wF("image", wS("!!str", "img"))))
		}
		if pc != nil {
			if r.Intn(8) == 0 {
				// replace the whole list: the elements are then complete values, without element-level directives
				pc = []interface{}{wM(wF("name", wS("!!str", "only")), wF("image", wS("!!str", "img"))), wM(wF("$patch", wS("!!str", "replace")))}
			}
			wSet(pod, "containers", wQ(pc...))
		}
	}
	if wGet(tpod, "nodeSelector") != nil && r.Intn(2) == 0 {
		switch r.Intn(3) {
		case 0:
			wSet(pod, "nodeSelector", wS("!!null", "null"))
		case 1:
			wSet(pod, "nodeSelector", wM(wF("disk", wS("!!str", "ssd")), wF("$patch", wS("!!str", "replace"))))
		default:
			wSet(pod, "nodeSelector", wM(wF("zone", wS("!!str", "z1"))))
		}
	}
	if wGet(tpod, "volumes") != nil && r.Intn(3) == 0 {
		wSet(pod, "volumes", wQ(wM(wF("name", wS("!!str", "v2")), wF("$patch", wS("!!str", "delete"))), wM(wF("name", wS("!!str", "v3")), wF("emptyDir", wM()))))
	}
	spec := wM()
	if len(wFields(pod)) > 0 {
		wSet(spec, "template", wM(wF("spec", pod)))
	}
	if r.Intn(3) == 0 {
		wSet(spec, "replicas", wS("!!int", pick(r, []string{"3", "5"})))
	}
	if !typed && r.Intn(3) == 0 {
		wSet(spec, "paused", wS("!!bool", "true"))
	}
	if len(wFields(spec)) > 0 {
		wSet(patch, "spec", spec)
	}
	return patch
}

func wireJSON(w interface{}) interface{} { return rnodeJSON(optRNode(w)) }

// normKeyed sorts lists whose elements are maps with a `name` (keyed lists) and lists of plain strings that the
// schema merges as sets (finalizers): comparison "up to the order of keyed-list elements".
func normKeyed(v interface{}, key string) interface{} {
	switch x := v.(type) {
	case map[string]interface{}:
		o := map[string]interface{}{}
		for k, c := range x {
			o[k] = normKeyed(c, k)
		}
		return o
	case []interface{}:
		var o []interface{}
		keyed := len(x) > 0
		for _, c := range x {
			o = append(o, normKeyed(c, ""))
			m, ok := c.(map[string]interface{})
			if !ok || (m["name"] == nil && m["containerPort"] == nil) {
				keyed = false
			}
		}
		if keyed || key == "finalizers" {
			sort.SliceStable(o, func(i, j int) bool { return fmt.Sprint(o[i]) < fmt.Sprint(o[j]) })
		}
		if o == nil {
			o = []interface{}{}
		}
		return o
	}
	return v
}

// jsonMergeSchemaless: the merge rules for kinds without schema, written from the property text: maps merge
// recursively, scalars and ALL lists are replaced, null and `$patch: delete` remove, `$patch: replace` replaces.
func jsonMergeSchemaless(target, patch interface{}) interface{} {
	pm, ok := patch.(map[string]interface{})
	if !ok {
		return patch
	}
	if d, has := pm["$patch"]; has {
		cp := map[string]interface{}{}
		for k, v := range pm {
			if k != "$patch" {
				cp[k] = v
			}
		}
		switch d {
		case "delete":
			return nil
		case "replace":
			return cp
		}
		pm = cp
	}
	tm, ok := target.(map[string]interface{})
	if !ok {
		tm = map[string]interface{}{}
	}
	out := map[string]interface{}{}
	for k, v := range tm {
		out[k] = v
	}
	for k, pv := range pm {
		if pv == nil {
			delete(out, k)
			continue
		}
		if _, isMap := pv.(map[string]interface{}); isMap {
			r := jsonMergeSchemaless(out[k], pv)
			if r == nil {
				delete(out, k)
			} else {
				out[k] = r
			}
		} else {
			out[k] = pv
		}
	}
	return out
}

func pruneDeletedMaps(want, patch interface{}) interface{} {
	wm, ok1 := want.(map[string]interface{})
	pm, ok2 := patch.(map[string]interface{})
	if !ok1 || !ok2 {
		return want
	}
	for k, pv := range pm {
		if sub, ok := pv.(map[string]interface{}); ok {
			if sub["$patch"] == "delete" {
				if e, ok := wm[k].(map[string]interface{}); ok && len(e) == 0 {
					delete(wm, k)
				}
			} else {
				wm[k] = pruneDeletedMaps(wm[k], sub)
			}
		}
	}
	return wm
}

func init() {
	oracles["C04"] = func(seed int64, n int, tier, work string) *oracleReport {
		o := newOracleRun("C04", seed)
		self, _ := os.Executable()
		ref := filepath.Join(filepath.Dir(self), "vhref")
		type cs struct {
			seed          int64
			kind, apiv    string
			target, patch interface{}
			typed         bool
		}
		var cases []cs
		for _, s := range caseSeeds(seed, n, "C04") {
			r := rand.New(rand.NewSource(s))
			ka := [][2]string{{"Deployment", "apps/v1"}, {"StatefulSet", "apps/v1"}, {"MyKind", "example.com/v1"}}[r.Intn(3)]
			typed := ka[0] != "MyKind"
			t := stripNulls(genObject(r, ka[0], ka[1]))
			p := genDomPatch(r, t, typed)
			if !typed && r.Intn(6) == 0 {
				// "set scalar" that changes the scalar's type: a quoted string is patched with a number
				wSet(wGet(t, "spec"), "free", []interface{}{"s", "!!str", "1", int(yaml.DoubleQuotedStyle)})
				if wGet(p, "spec") == nil {
					wSet(p, "spec", wM())
				}
				wSet(wGet(p, "spec"), "free", wS("!!int", "1"))
			}
			if typed && r.Intn(4) == 0 {
				// explicit nulls at LIST-typed fields of the target that the patch does not mention: they are part of
				// "everything the patch does not mention"
				addNull := func(parent interface{}, pparent interface{}, key string) {
					if parent == nil || wGet(parent, key) != nil {
						return
					}
					if pparent != nil && wGet(pparent, key) != nil {
						return
					}
					wSet(parent, key, wS("!!null", "null"))
				}
				tmd, pmd := wGet(t, "metadata"), wGet(p, "metadata")
				if r.Intn(2) == 0 {
					addNull(tmd, pmd, "finalizers")
				}
				tpod := wGet(wGet(wGet(t, "spec"), "template"), "spec")
				var ppod interface{}
				if ps := wGet(p, "spec"); ps != nil {
					if pt := wGet(ps, "template"); pt != nil {
						ppod = wGet(pt, "spec")
					}
				}
				if tpod != nil {
					if r.Intn(2) == 0 {
						addNull(tpod, ppod, "volumes")
					}
					if r.Intn(2) == 0 {
						addNull(tpod, ppod, "tolerations")
					}
					if cs, ok := wGet(tpod, "containers").([]interface{}); ok && cs[0] == "q" {
						for _, c := range cs[2].([]interface{}) {
							// (the patch addresses containers by name; a container it names may still leave args/env alone)
							if r.Intn(2) == 0 {
								addNull(c, nil, pickS(r, []string{"args", "env", "command", "volumeMounts"}))
							}
						}
					}
				}
			}
			cases = append(cases, cs{s, ka[0], ka[1], t, p, typed})
		}
		// reference results for the typed kinds, in one child process
		refOut := map[int]map[string]interface{}{}
		if _, err := os.Stat(ref); err == nil {
			cmd := exec.Command(ref)
			stdin, _ := cmd.StdinPipe()
			stdout, _ := cmd.StdoutPipe()
			cmd.Start()
			go func() {
				w := bufio.NewWriter(stdin)
				for _, c := range cases {
					if !c.typed {
						continue
					}
					b, _ := json.Marshal(map[string]interface{}{"kind": c.kind, "apiVersion": c.apiv, "target": wireJSON(c.target), "patch": wireJSON(c.patch)})
					w.Write(b)
					w.WriteByte('\n')
				}
				w.Flush()
				stdin.Close()
			}()
			sc := bufio.NewScanner(stdout)
			sc.Buffer(make([]byte, 1<<20), 1<<26)
			for i, c := range cases {
				if !c.typed {
					continue
				}
				if !sc.Scan() {
					break
				}
				var m map[string]interface{}
				json.Unmarshal(sc.Bytes(), &m)
				refOut[i] = m
			}
			cmd.Wait()
		} else {
			o.rep.Notes = append(o.rep.Notes, "reference binary vhref missing: typed kinds compared for idempotence/frame only")
		}
		apply := func(target, patch interface{}) (interface{}, error) {
			res, err := patchstrategicmerge.Filter{Patch: optRNode(patch)}.Filter([]*yaml.RNode{optRNode(target)})
			if err != nil {
				return nil, err
			}
			if len(res) == 0 {
				return nil, nil
			}
			return rnodeJSON(res[0]), nil
		}
		for i, c := range cases {
			in := map[string]interface{}{"target": c.target, "patch": c.patch}
			got, err := apply(c.target, c.patch)
			if err != nil {
				o.note("err", in)
				o.fail("dom-patch-rejected", "a patch of the property's grammar is rejected: "+err.Error(), c.seed, in, nil, nil)
				continue
			}
			o.note(c.kind, in)
			var want interface{}
			if c.typed {
				m := refOut[i]
				if m == nil || m["ok"] == nil {
					continue
				}
				// the reference leaves `{}` where `$patch: delete` addressed a MAP (a known quirk of its mergeMap);
				// the property says the addressed content is removed: accept both spellings
				want = pruneDeletedMaps(m["ok"], wireJSON(c.patch))
			} else {
				want = jsonMergeSchemaless(wireJSON(c.target), wireJSON(c.patch))
			}
			if !reflect.DeepEqual(normKeyed(got, ""), normKeyed(want, "")) {
				cls := "differs-from-reference"
				var dp [][]string
				diffPaths(normKeyed(want, ""), normKeyed(got, ""), nil, &dp)
				typeOnly := len(dp) > 0
				for _, p := range dp {
					g, _ := getPath(normKeyed(got, ""), ipathIdx(p))
					w, _ := getPath(normKeyed(want, ""), ipathIdx(p))
					if !(fmt.Sprint(g) == fmt.Sprint(w) && reflect.TypeOf(g) != reflect.TypeOf(w)) {
						typeOnly = false
					}
				}
				if typeOnly {
					cls = "patched-scalar-keeps-destination-quoting"
				}
				o.fail(cls, "merge(patch,target) differs from the reference implementation", c.seed, in, got, want)
				continue
			}
			// idempotence: the same patch twice
			var tw interface{}
			if got != nil {
				b, _ := json.Marshal(got)
				n2, _ := yaml.Parse(string(b))
				res2, err2 := patchstrategicmerge.Filter{Patch: optRNode(c.patch)}.Filter([]*yaml.RNode{n2})
				if err2 != nil {
					o.fail("second-application-fails", "applying the patch to its own result fails: "+err2.Error(), c.seed, in, nil, nil)
					continue
				}
				if len(res2) > 0 {
					tw = rnodeJSON(res2[0])
				}
				if !reflect.DeepEqual(normKeyed(tw, ""), normKeyed(got, "")) {
					o.fail("not-idempotent", "merge(p, merge(p,t)) != merge(p,t)", c.seed, in, tw, got)
				}
			}
			// frame: top-level branches the patch does not mention are unchanged
			tj, _ := wireJSON(c.target).(map[string]interface{})
			pj, _ := wireJSON(c.patch).(map[string]interface{})
			gj, _ := got.(map[string]interface{})
			for k, v := range tj {
				if _, mentioned := pj[k]; !mentioned && !reflect.DeepEqual(gj[k], v) {
					o.fail("unmentioned-branch-changed", "top-level field "+k+" is not mentioned by the patch but changed", c.seed, in, gj[k], v)
				}
			}
		}
		return o.rep
	}
}
