package main

import (
	"fmt"
	"math/rand"
	"strings"

	"sigs.k8s.io/kustomize/kyaml/filesys"
)

// C03: every reference edge of the generated graph holds the referent's final name in the output.
func init() {
	oracles["C03"] = func(seed int64, n int, tier, work string) *oracleReport {
		o := newOracleRun("C03", seed)
		for _, cs := range caseSeeds(seed, n, "C03") {
			r := rand.New(rand.NewSource(cs))
			f := allFeat()
			f.Images, f.Replicas = false, false
			f.PatchJSON = r.Intn(2) == 0
			f.PatchSM = r.Intn(2) == 0
			f.Dense = r.Intn(3) != 0
			if r.Intn(2) == 0 {
				// referrer and referent in sibling sub-trees, each with its own prefixes and suffixes
				f.SiblingHeavy, f.AffixHeavy, f.MaxLayers = true, true, 4
			}
			t := genTree(r, f)
			if r.Intn(5) == 0 {
				t.addRBACCluster(r, r.Intn(len(t.Layers)))
			}
			addGenerators(r, t)
			if len(t.Edges) == 0 {
				o.note("no-edges", cs)
				continue
			}
			fs := filesys.MakeFsInMemory()
			t.Write(fs, "/w")
			out, err, pnc := safeBuild(func() (string, error) { return runBuild(fs, t.TopDir("/w"), nil) })
			if pnc != nil || err != nil {
				o.note(errClass(err), cs)
				continue
			}
			docs, _ := parseDocs(out)
			bt := byTracer(docs)
			checked := 0
			for _, e := range t.Edges {
				a, b := t.resByID(e.From), t.resByID(e.To)
				if len(bt[e.From]) != 1 || len(bt[e.To]) != 1 {
					continue // C02's business (resource lost or duplicated)
				}
				// cross-namespace after the build is not a reference any more (user error, outside the domain)
				if !e.Subject && !b.clusterScoped() && t.predictedNS(a) != t.predictedNS(b) {
					continue
				}
				// the written name must denote ONE resource at every layer (property domain: unambiguous references):
				// another resource of the referent's kind that bears one of the referent's names somewhere along its own
				// rename chain (e.g. ConfigMap `app` under prefix `x` next to ConfigMap `xapp`) makes the reference ambiguous
				ambiguous := false
				if !e.NoRule {
					bn := t.chainNames(b)
					for _, x := range t.Res {
						if x == b || x.Kind != b.Kind {
							continue
						}
						if e.Subject && t.predictedNS(x) != t.predictedNS(b) && x.NS != b.NS {
							continue // a subject names its account together with the namespace: accounts elsewhere do not compete
						}
						for n := range t.chainNames(x) {
							if bn[n] {
								ambiguous = true
							}
						}
					}
				}
				if ambiguous {
					o.rep.Classes["ambiguous-reference-skipped"]++
					continue
				}
				got, ok := getPath(bt[e.From][0], e.Path)
				want := outName(bt[e.To][0])
				if e.NoRule {
					// not a reference under the rules: the field must be left exactly as written
					if !ok || got != b.Name {
						o.fail("non-rule-field-rewritten", fmt.Sprintf("%s %s field %v is not a name-reference field but changed to %v", a.Kind, a.Name, e.Path, got), cs, t.Describe(), got, b.Name)
					}
					continue
				}
				checked++
				if !ok || got != want {
					cls := "reference-not-following-rename"
					if got == b.Name && want != b.Name {
						cls = "reference-left-at-original-name"
					}
					if a.Kind == "HorizontalPodAutoscaler" {
						// recogniser of the known finding: another scalable resource of a DIFFERENT kind has the same original name
						// … at any point of their rename chains (the rules are applied one referent kind after the other,
						// so a later rule can match the value an earlier rule has just written)
						bn := t.chainNames(b)
						for _, x := range t.Res {
							if x == b || x.Kind == b.Kind || !ruleFrozen(x.Kind, "HorizontalPodAutoscaler", "spec/scaleTargetRef/name") {
								continue
							}
							for n := range t.chainNames(x) {
								if bn[n] {
									cls = "hpa-scaleTargetRef-kind-ignored"
								}
							}
						}
					}
					if cls == "hpa-scaleTargetRef-kind-ignored" {
						o.fail(cls, fmt.Sprintf("HPA %s targets %s/%s but its scaleTargetRef.name was rewritten to %v (name of a same-named resource of another kind)", a.Name, b.Kind, b.Name, got), cs, t.Describe(), got, want)
						continue
					}
					o.fail(cls+":"+b.Kind+"<-"+a.Kind, fmt.Sprintf("%s %s field %v = %v, referent %s %s is named %q in the output",
						a.Kind, a.Name, e.Path, got, b.Kind, b.Name, want), cs, t.Describe(), got, want)
				}
				// referent keeps its expected final name (modulo hash suffix)
				pn := t.predictedName(b)
				if b.Gen {
					if !strings.HasPrefix(want, pn) {
						o.fail("referent-name-unexpected", "generated referent name "+want+" does not extend "+pn, cs, t.Describe(), want, pn)
					}
				} else if want != pn {
					o.fail("referent-name-unexpected", "referent name "+want+" != predicted "+pn, cs, t.Describe(), want, pn)
				}
			}
			o.note(fmt.Sprintf("ok-edges-%d", min(checked, 5)), cs)
		}
		return o.rep
	}
}

func min(a, b int) int {
	if a < b {
		return a
	}
	return b
}
