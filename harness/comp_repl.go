package main

import (
	"fmt"
	"math/rand"
	"strconv"
	"strings"

	"sigs.k8s.io/kustomize/api/filters/replacement"
	"sigs.k8s.io/kustomize/api/types"
	"sigs.k8s.io/kustomize/kyaml/resid"
	"sigs.k8s.io/kustomize/kyaml/yaml"
)

// repl.apply: the replacement filter (api/filters/replacement) on resources whose replaceable fields are scalars
// (metadata.name, metadata.labels.<k>, data.<k>), with LISTS of replacements drawn from small alphabets so that a
// later replacement's source is frequently a field an earlier one wrote (chains), with delimiter/index/create
// options on both sides, label selectors and reject lists.  Model: lean/Kust/Repl.lean.

type rpRes struct {
	kind, name   string
	labels, data [][2]string // nil = the map is absent
	hasL, hasD   bool
}

type rpOpts struct {
	delim  string
	index  int
	create bool
}

type rpSel struct {
	kind, name string
	label      *[2]string
}

type rpTarget struct {
	sel    rpSel
	reject []rpSel
	fields [][2]string // {"name",""} {"label",k} {"data",k}
	opts   *rpOpts
}

type rpRepl struct {
	srcT    string // value | field | both | neither
	value   string
	sel     rpSel
	f       *[2]string
	opts    *rpOpts
	targets []rpTarget
}

func rpPath(f [2]string) string {
	switch f[0] {
	case "name":
		return "metadata.name"
	case "label":
		return "metadata.labels." + f[1]
	}
	return "data." + f[1]
}

func rpKVWire(has bool, kv [][2]string) interface{} {
	if !has {
		return nil
	}
	l := []interface{}{}
	for _, p := range kv {
		l = append(l, []interface{}{p[0], p[1]})
	}
	return l
}

func (o *rpOpts) wire() interface{} {
	if o == nil {
		return nil
	}
	return map[string]interface{}{"delim": o.delim, "index": o.index, "create": o.create}
}

func (o *rpOpts) real() *types.FieldOptions {
	if o == nil {
		return nil
	}
	return &types.FieldOptions{Delimiter: o.delim, Index: o.index, Create: o.create}
}

func (s rpSel) wire() map[string]interface{} {
	m := map[string]interface{}{"kind": s.kind, "name": s.name, "label": nil}
	if s.label != nil {
		m["label"] = []interface{}{s.label[0], s.label[1]}
	}
	return m
}

func (s rpSel) real() *types.Selector {
	x := &types.Selector{ResId: resid.ResId{Gvk: resid.Gvk{Kind: s.kind}, Name: s.name}}
	if s.label != nil {
		x.LabelSelector = s.label[0] + "=" + s.label[1]
	}
	return x
}

func rpFWire(f *[2]string) interface{} {
	if f == nil {
		return nil
	}
	if f[0] == "name" {
		return []interface{}{"name"}
	}
	return []interface{}{f[0], f[1]}
}

func (x rpRes) yaml() string {
	var sb strings.Builder
	fmt.Fprintf(&sb, "apiVersion: v1\nkind: %s\nmetadata:\n  name: %s\n", x.kind, strconv.Quote(x.name))
	if x.hasL {
		if len(x.labels) == 0 {
			sb.WriteString("  labels: {}\n")
		} else {
			sb.WriteString("  labels:\n")
			for _, p := range x.labels {
				fmt.Fprintf(&sb, "    %s: %s\n", p[0], strconv.Quote(p[1]))
			}
		}
	}
	if x.hasD {
		if len(x.data) == 0 {
			sb.WriteString("data: {}\n")
		} else {
			sb.WriteString("data:\n")
			for _, p := range x.data {
				fmt.Fprintf(&sb, "  %s: %s\n", p[0], strconv.Quote(p[1]))
			}
		}
	}
	return sb.String()
}

func rpReadKV(n *yaml.RNode, path ...string) interface{} {
	m, err := n.Pipe(yaml.Lookup(path...))
	if err != nil || m == nil {
		return nil
	}
	l := []interface{}{}
	c := m.YNode().Content
	for i := 0; i+1 < len(c); i += 2 {
		l = append(l, []interface{}{c[i].Value, c[i+1].Value})
	}
	return l
}

func init() {
	components["repl.apply"] = func(r *rand.Rand, tier string) (map[string]interface{}, func() (interface{}, string)) {
		kinds := []string{"ConfigMap", "ConfigMap", "Secret"}
		names := []string{"a", "b", "c", "ab"}
		keys := []string{"x", "y", "z"}
		lkeys := []string{"tier", "rel"}
		vals := []string{"1.0", "app:1.0", "a-b-c", "", "v", "x:y:z", "fe", "be", "a::b", "b"}
		delims := []string{":", ":", "-", "::", "b", ""}
		genKV := func(ks []string) ([][2]string, bool) {
			if r.Intn(5) == 0 {
				return nil, false
			}
			var l [][2]string
			for _, k := range ks {
				if r.Intn(3) != 0 {
					l = append(l, [2]string{k, pickS(r, vals)})
				}
			}
			return l, true
		}
		var st []rpRes
		seen := map[string]bool{}
		for i := 2 + r.Intn(4); i > 0; i-- {
			x := rpRes{kind: pickS(r, kinds), name: pickS(r, names)}
			if seen[x.kind+"/"+x.name] {
				continue
			}
			seen[x.kind+"/"+x.name] = true
			x.labels, x.hasL = genKV(lkeys)
			x.data, x.hasD = genKV(keys)
			st = append(st, x)
		}
		genF := func() [2]string {
			switch r.Intn(6) {
			case 0:
				return [2]string{"name", ""}
			case 1:
				return [2]string{"label", pickS(r, lkeys)}
			}
			return [2]string{"data", pickS(r, keys)}
		}
		genOpts := func(target bool) *rpOpts {
			if r.Intn(5) < 2 {
				return nil
			}
			o := &rpOpts{delim: pickS(r, delims), index: r.Intn(5) - 1}
			if target {
				o.create = r.Intn(2) == 0
			}
			return o
		}
		genSel := func(label bool) rpSel {
			s := rpSel{}
			if r.Intn(3) != 0 {
				s.name = pickS(r, names)
			}
			if r.Intn(2) == 0 {
				s.kind = pickS(r, kinds)
			}
			if label && r.Intn(4) == 0 {
				s.label = &[2]string{pickS(r, lkeys), pickS(r, []string{"fe", "be", "v"})}
			}
			return s
		}
		existing := func(p rpRes) [][2]string {
			l := [][2]string{{"name", ""}}
			for _, kv := range p.labels {
				l = append(l, [2]string{"label", kv[0]})
			}
			for _, kv := range p.data {
				l = append(l, [2]string{"data", kv[0]}, [2]string{"data", kv[0]})
			}
			return l
		}
		valueOf := func(p rpRes, f [2]string) string {
			kv := p.data
			switch f[0] {
			case "name":
				return p.name
			case "label":
				kv = p.labels
			}
			for _, x := range kv {
				if x[0] == f[1] {
					return x[1]
				}
			}
			return ""
		}
		type wr struct {
			res int
			f   [2]string
		}
		var written []wr
		aimed := r.Intn(5) != 0 // mostly well-aimed lists (success paths), the rest unconstrained (error paths)
		var rs []rpRepl
		for i := 1 + r.Intn(4); i > 0; i-- {
			x := rpRepl{}
			c := r.Intn(20)
			if aimed && c < 2 {
				c = 10
			}
			switch {
			case c == 0:
				x.srcT = "both"
			case c == 1:
				x.srcT = "neither"
			case c < 5:
				x.srcT, x.value = "value", pickS(r, vals)
			default:
				x.srcT = "field"
			}
			if x.srcT == "field" || x.srcT == "both" {
				x.value = "lit"
				if aimed {
					pi := r.Intn(len(st))
					var f [2]string
					if len(written) > 0 && r.Intn(3) != 0 {
						// chain: read what an earlier replacement of this list wrote
						w := written[r.Intn(len(written))]
						pi, f = w.res, w.f
					} else {
						ex := existing(st[pi])
						f = ex[r.Intn(len(ex))]
					}
					x.sel = rpSel{kind: st[pi].kind, name: st[pi].name}
					x.f = &f
					if f[0] == "name" && r.Intn(2) == 0 {
						x.f = nil
					}
					if r.Intn(2) == 0 {
						d := pickS(r, delims)
						n := 1
						if d != "" {
							n = len(strings.Split(valueOf(st[pi], f), d))
						}
						x.opts = &rpOpts{delim: d, index: r.Intn(n + 1)}
						if r.Intn(6) != 0 && x.opts.index >= n {
							x.opts.index = n - 1
						}
					}
				} else {
					x.sel = genSel(false)
					if r.Intn(8) != 0 {
						f := genF()
						x.f = &f
					}
					x.opts = genOpts(false)
				}
			}
			nt := 1 + r.Intn(2)
			if r.Intn(30) == 0 {
				nt = 0
			}
			for ; nt > 0; nt-- {
				t := rpTarget{sel: genSel(true)}
				for j := r.Intn(3); j > 0 && r.Intn(3) == 0; j-- {
					t.reject = append(t.reject, genSel(true))
				}
				t.opts = genOpts(true)
				if aimed {
					pi := r.Intn(len(st))
					t.sel = rpSel{name: st[pi].name}
					if r.Intn(2) == 0 {
						t.sel.kind = st[pi].kind
					}
					if r.Intn(3) == 0 {
						t.sel.name = ""
					}
					ex := existing(st[pi])
					for j := 1 + r.Intn(2); j > 0; j-- {
						f := ex[r.Intn(len(ex))]
						if f[0] == "name" && r.Intn(3) != 0 {
							f = genF()
						}
						t.fields = append(t.fields, f)
						written = append(written, wr{pi, f})
					}
					if t.opts == nil || !t.opts.create {
						if r.Intn(3) != 0 {
							if t.opts == nil {
								t.opts = &rpOpts{}
							}
							t.opts.create = true
						}
					}
				} else {
					for j := r.Intn(3); j > 0; j-- {
						t.fields = append(t.fields, genF())
					}
					if len(t.fields) == 0 && r.Intn(3) != 0 {
						t.fields = append(t.fields, genF())
					}
				}
				x.targets = append(x.targets, t)
			}
			rs = append(rs, x)
		}
		// wire
		var wst, wrs []interface{}
		for _, x := range st {
			wst = append(wst, map[string]interface{}{"kind": x.kind, "name": x.name, "labels": rpKVWire(x.hasL, x.labels), "data": rpKVWire(x.hasD, x.data)})
		}
		for _, x := range rs {
			src := map[string]interface{}{"t": x.srcT}
			switch x.srcT {
			case "value":
				src["s"] = x.value
			case "field":
				src["sel"], src["f"], src["opts"] = x.sel.wire(), rpFWire(x.f), x.opts.wire()
			}
			var ts []interface{}
			for _, t := range x.targets {
				rj, fl := []interface{}{}, []interface{}{}
				for _, s := range t.reject {
					rj = append(rj, s.wire())
				}
				for _, f := range t.fields {
					f := f
					fl = append(fl, rpFWire(&f))
				}
				ts = append(ts, map[string]interface{}{"select": t.sel.wire(), "reject": rj, "fields": fl, "opts": t.opts.wire()})
			}
			if ts == nil {
				ts = []interface{}{}
			}
			wrs = append(wrs, map[string]interface{}{"src": src, "targets": ts})
		}
		args := map[string]interface{}{"state": wst, "repls": wrs}
		return args, func() (interface{}, string) {
			var nodes []*yaml.RNode
			for _, x := range st {
				n, err := yaml.Parse(x.yaml())
				if err != nil {
					return map[string]interface{}{"err": "load"}, "err-load"
				}
				nodes = append(nodes, n)
			}
			f := replacement.Filter{}
			for _, x := range rs {
				rp := types.Replacement{}
				if x.srcT == "value" || x.srcT == "both" {
					v := x.value
					rp.SourceValue = &v
				}
				if x.srcT == "field" || x.srcT == "both" {
					rp.Source = &types.SourceSelector{ResId: resid.ResId{Gvk: resid.Gvk{Kind: x.sel.kind}, Name: x.sel.name}, Options: x.opts.real()}
					if x.f != nil {
						rp.Source.FieldPath = rpPath(*x.f)
					}
				}
				for _, t := range x.targets {
					ts := &types.TargetSelector{Select: t.sel.real(), Options: t.opts.real()}
					for _, s := range t.reject {
						ts.Reject = append(ts.Reject, s.real())
					}
					for _, fl := range t.fields {
						ts.FieldPaths = append(ts.FieldPaths, rpPath(fl))
					}
					rp.Targets = append(rp.Targets, ts)
				}
				f.Replacements = append(f.Replacements, rp)
			}
			out, err := f.Filter(nodes)
			if err != nil {
				e := err.Error()
				for _, c := range [][2]string{{"must specify a source", "nosource"}, {"mutually exclusive", "exclusive"}, {"multiple matches", "multiple"},
					{"nothing selected", "nothing"}, {"is missing for replacement source", "missing"}, {"out of bounds", "index"}, {"unable to find", "find"}} {
					if strings.Contains(e, c[0]) {
						return map[string]interface{}{"err": c[1]}, "err-" + c[1]
					}
				}
				return map[string]interface{}{"err": "other:" + e}, "err-other"
			}
			var res []interface{}
			changed := false
			for i, n := range out {
				m := map[string]interface{}{"kind": n.GetKind(), "name": n.GetName(), "labels": rpReadKV(n, "metadata", "labels"), "data": rpReadKV(n, "data")}
				res = append(res, m)
				if fmt.Sprint(m) != fmt.Sprint(wst[i]) {
					changed = true
				}
			}
			cl := "ok-unchanged"
			if changed {
				cl = fmt.Sprintf("ok-changed-%drepl", len(rs))
			}
			return map[string]interface{}{"ok": res}, cl
		}
	}
}
