package main

import (
	"fmt"
	"math/rand"

	"sigs.k8s.io/kustomize/kyaml/filesys"
)

// C09: the namespace directive moves every namespaced resource and nothing else.
func init() {
	oracles["C09"] = func(seed int64, n int, tier, work string) *oracleReport {
		o := newOracleRun("C09", seed)
		for _, cs := range caseSeeds(seed, n, "C09") {
			r := rand.New(rand.NewSource(cs))
			f := allFeat()
			f.Images, f.Replicas, f.PatchJSON = false, false, false
			f.Dense = r.Intn(2) == 0
			t := genTree(r, f)
			// force namespace directives more often than the default third
			for _, L := range t.Layers {
				if L.NS == "" && r.Intn(2) == 0 {
					L.NS = pickS(r, []string{"ns1", "prod", "stage"})
					L.Kust["namespace"] = L.NS
				}
			}
			if r.Intn(5) == 0 {
				// a custom schema (definitions only, for a custom kind) at the top or in a base: which kinds are cluster-scoped
				// does not depend on it
				L := t.Layers[r.Intn(len(t.Layers))]
				L.Files["schema.yaml"] = customSchemaYAML
				L.Kust["openapi"] = Obj{"path": "schema.yaml"}
			}
			// optionally plant a collision: a twin of an existing namespaced resource in another namespace,
			// loaded by the same layer; any namespace directive on its chain must then make the build FAIL
			collide := false
			if r.Intn(5) == 0 {
				for _, g := range t.Res {
					if g.Gen || g.clusterScoped() || t.predictedNS(g) == g.NS {
						continue
					}
					L := t.Layers[g.Layer]
					id := t.newID()
					twin := Obj{"apiVersion": g.Obj["apiVersion"], "kind": g.Kind, "metadata": meta(id, g.Name, "twin-ns", nil)}
					fn := "twin.yaml"
					L.ResF = append(L.ResF, fn)
					L.Docs[fn] = []Obj{twin}
					collide = true
					break
				}
			}
			addGenerators(r, t)
			fs := filesys.MakeFsInMemory()
			t.Write(fs, "/w")
			out, err, pnc := safeBuild(func() (string, error) { return runBuild(fs, t.TopDir("/w"), nil) })
			if pnc != nil {
				o.note("panic", cs)
				continue
			}
			if collide {
				o.note("planted-collision", cs)
				if err == nil {
					o.fail("collision-not-rejected", "two resources with the same kind and name end up in one namespace and the build succeeds", cs, t.Describe(), nil, nil)
				}
				continue
			}
			if err != nil {
				o.note(errClass(err), cs)
				continue
			}
			o.note("ok", cs)
			docs, _ := parseDocs(out)
			bt := byTracer(docs)
			for _, g := range t.Res {
				if g.Gen || len(bt[g.ID]) != 1 {
					continue
				}
				d := bt[g.ID][0]
				got := outNS(d)
				want := t.predictedNS(g)
				if g.clusterScoped() {
					if got != "" {
						o.fail("cluster-scoped-got-namespace", fmt.Sprintf("cluster-scoped %s %s received namespace %q", g.Kind, g.Name, got), cs, t.Describe(), got, "")
					}
					continue
				}
				if got != want {
					o.fail("namespace-not-outermost", fmt.Sprintf("%s %s is in namespace %q, outermost directive prescribes %q", g.Kind, g.Name, got, want), cs, t.Describe(), got, want)
				}
				// ServiceAccount subjects of role bindings follow the account
				if g.Kind == "RoleBinding" || g.Kind == "ClusterRoleBinding" {
					subs, _ := d["subjects"].([]interface{})
					for _, s := range subs {
						sm, _ := s.(map[string]interface{})
						if sm["kind"] != "ServiceAccount" {
							if _, has := sm["namespace"]; has {
								o.fail("non-serviceaccount-subject-namespaced", "a non-ServiceAccount subject received a namespace", cs, t.Describe(), sm, nil)
							}
							continue
						}
						// find the account among the outputs by final name
						for _, sa := range t.Res {
							if sa.Kind != "ServiceAccount" || len(bt[sa.ID]) != 1 {
								continue
							}
							if outName(bt[sa.ID][0]) == sm["name"] && sa.Layer == g.Layer {
								wantNS := outNS(bt[sa.ID][0])
								if wantNS == "" {
									wantNS = "default"
								}
								if sm["namespace"] != wantNS {
									o.fail("subject-namespace-stale", fmt.Sprintf("subject %v has namespace %v, the account lives in %q", sm["name"], sm["namespace"], wantNS), cs, t.Describe(), sm["namespace"], wantNS)
								}
							}
						}
					}
				}
			}
		}
		return o.rep
	}
}
