package main

import (
	"fmt"
	"math/rand"

	"sigs.k8s.io/kustomize/kyaml/filesys"
)

// C09: the namespace directive moves every namespaced resource and nothing else.
func init() {
	oracles["C09"] = func(seed int64, n int, tier, work string) *oracleReport {
		o := newOracleRun("C09", seed)
		for _, cs := range caseSeeds(seed, n, "C09") {
			r := rand.New(rand.NewSource(cs))
			if r.Intn(6) == 0 {
				c09SharedNames(o, r, cs)
				continue
			}
			f := allFeat()
			f.Images, f.Replicas, f.PatchJSON = false, false, false
			f.Dense = r.Intn(2) == 0
			t := genTree(r, f)
			// force namespace directives more often than the default third
			for _, L := range t.Layers {
				if L.NS == "" && r.Intn(2) == 0 {
					// a directive may name the namespace literally called `default`: it is a namespace like any other (seed C09i)
					L.NS = pickS(r, []string{"ns1", "prod", "stage", "default"})
					L.Kust["namespace"] = L.NS
				}
			}
			if r.Intn(5) == 0 {
				// a custom schema (definitions only, for a custom kind) at the top or in a base: which kinds are cluster-scoped
				// does not depend on it
				L := t.Layers[r.Intn(len(t.Layers))]
				L.Files["schema.yaml"] = customSchemaYAML
				L.Kust["openapi"] = Obj{"path": "schema.yaml"}
			}
			// optionally plant a collision: a twin of an existing namespaced resource in another namespace,
			// loaded by the same layer; any namespace directive on its chain must then make the build FAIL
			collide := false
			if r.Intn(5) == 0 {
				for _, g := range t.Res {
					if g.Gen || g.clusterScoped() || t.predictedNS(g) == g.NS {
						continue
					}
					L := t.Layers[g.Layer]
					id := t.newID()
					twin := Obj{"apiVersion": g.Obj["apiVersion"], "kind": g.Kind, "metadata": meta(id, g.Name, "twin-ns", nil)}
					fn := "twin.yaml"
					L.ResF = append(L.ResF, fn)
					L.Docs[fn] = []Obj{twin}
					collide = true
					break
				}
			}
			addGenerators(r, t)
			fs := filesys.MakeFsInMemory()
			t.Write(fs, "/w")
			out, err, pnc := safeBuild(func() (string, error) { return runBuild(fs, t.TopDir("/w"), nil) })
			if pnc != nil {
				o.note("panic", cs)
				continue
			}
			if collide {
				o.note("planted-collision", cs)
				if err == nil {
					o.fail("collision-not-rejected", "two resources with the same kind and name end up in one namespace and the build succeeds", cs, t.Describe(), nil, nil)
				}
				continue
			}
			if err != nil {
				o.note(errClass(err), cs)
				continue
			}
			o.note("ok", cs)
			docs, _ := parseDocs(out)
			bt := byTracer(docs)
			for _, g := range t.Res {
				if g.Gen || len(bt[g.ID]) != 1 {
					continue
				}
				d := bt[g.ID][0]
				got := outNS(d)
				want := t.predictedNS(g)
				if g.clusterScoped() {
					if got != "" {
						o.fail("cluster-scoped-got-namespace", fmt.Sprintf("cluster-scoped %s %s received namespace %q", g.Kind, g.Name, got), cs, t.Describe(), got, "")
					}
					continue
				}
				if got != want {
					o.fail("namespace-not-outermost", fmt.Sprintf("%s %s is in namespace %q, outermost directive prescribes %q", g.Kind, g.Name, got, want), cs, t.Describe(), got, want)
				}
				// ServiceAccount subjects of role bindings follow the account
				if g.Kind == "RoleBinding" || g.Kind == "ClusterRoleBinding" {
					subs, _ := d["subjects"].([]interface{})
					for _, s := range subs {
						sm, _ := s.(map[string]interface{})
						if sm["kind"] != "ServiceAccount" {
							if _, has := sm["namespace"]; has {
								o.fail("non-serviceaccount-subject-namespaced", "a non-ServiceAccount subject received a namespace", cs, t.Describe(), sm, nil)
							}
							continue
						}
						// find the account among the outputs by final name
						for _, sa := range t.Res {
							if sa.Kind != "ServiceAccount" || len(bt[sa.ID]) != 1 {
								continue
							}
							if outName(bt[sa.ID][0]) == sm["name"] && sa.Layer == g.Layer {
								wantNS := outNS(bt[sa.ID][0])
								if wantNS == "" {
									wantNS = "default"
								}
								if sm["namespace"] != wantNS {
									o.fail("subject-namespace-stale", fmt.Sprintf("subject %v has namespace %v, the account lives in %q", sm["name"], sm["namespace"], wantNS), cs, t.Describe(), sm["namespace"], wantNS)
								}
							}
						}
					}
				}
			}
		}
		return o.rep
	}
}

// c09SharedNames: accounts that share a name (and an original namespace) but end up in different namespaces — one base
// deployed by two overlays, or an upper layer with an account of its own beside a moved base.  Every role binding's
// ServiceAccount subject names the namespace its OWN account lives in after the build: a subject moves with its
// account, and only with its account.
func c09SharedNames(o *oracleRun, r *rand.Rand, cs int64) {
	fs := filesys.MakeFsInMemory()
	subjNS := pickS(r, []string{"default", "default", ""})
	sa := "apiVersion: v1\nkind: ServiceAccount\nmetadata:\n  name: sa\n"
	subj := "- kind: ServiceAccount\n  name: sa\n"
	if subjNS != "" {
		subj += "  namespace: " + subjNS + "\n"
	}
	rb := func(name string) string {
		return "apiVersion: rbac.authorization.k8s.io/v1\nkind: RoleBinding\nmetadata:\n  name: " + name + "\nroleRef:\n  apiGroup: rbac.authorization.k8s.io\n  kind: Role\n  name: r\nsubjects:\n" + subj
	}
	role := "apiVersion: rbac.authorization.k8s.io/v1\nkind: Role\nmetadata:\n  name: r\nrules: []\n"
	dep := "apiVersion: apps/v1\nkind: Deployment\nmetadata:\n  name: d\nspec:\n  template:\n    spec:\n      serviceAccountName: sa\n      containers:\n      - name: c\n        image: i\n"
	files := map[string]string{}
	w := func(p, c string) { files[p] = c; fs.WriteFile(p, []byte(c)) }
	scenario := r.Intn(3)
	top := "/w/wrap"
	// expected: binding name -> namespace its subject must name
	want := map[string]string{}
	if scenario == 0 {
		// one base, two overlays with their own namespaces, one wrapper
		w("/w/base/kustomization.yaml", "resources:\n- all.yaml\n")
		w("/w/base/all.yaml", sa+"---\n"+role+"---\n"+rb("rb")+"---\n"+dep)
		nsP, nsQ := "p", "q"
		pre := func() string {
			if r.Intn(3) == 0 {
				return "namePrefix: " + pickS(r, []string{"x-", "y-"}) + "\n"
			}
			return ""
		}
		w("/w/ovp/kustomization.yaml", "resources:\n- ../base\nnamespace: "+nsP+"\n"+pre())
		w("/w/ovq/kustomization.yaml", "resources:\n- ../base\nnamespace: "+nsQ+"\n"+pre())
		w("/w/wrap/kustomization.yaml", "resources:\n- ../ovp\n- ../ovq\n")
		want["@p"], want["@q"] = nsP, nsQ
	} else if scenario == 2 {
		// account and binding with a PRE-SET namespace, the subject naming it; the outermost directive moves both — into a
		// namespace that may literally be called `default` (a namespace like any other: seed C09i)
		pre := pickS(r, []string{"team-a", "ns1"})
		target := pickS(r, []string{"default", "default", "prod"})
		saP := "apiVersion: v1\nkind: ServiceAccount\nmetadata:\n  name: sa\n  namespace: " + pre + "\n"
		rbP := "apiVersion: rbac.authorization.k8s.io/v1\nkind: " + pickS(r, []string{"RoleBinding", "ClusterRoleBinding"}) + "\nmetadata:\n  name: rb-pre\n  namespace: " + pre +
			"\nroleRef:\n  apiGroup: rbac.authorization.k8s.io\n  kind: Role\n  name: r\nsubjects:\n- kind: ServiceAccount\n  name: sa\n  namespace: " + pre + "\n"
		w("/w/base/kustomization.yaml", "resources:\n- all.yaml\n")
		w("/w/base/all.yaml", saP+"---\n"+rbP)
		w("/w/wrap/kustomization.yaml", "resources:\n- ../base\nnamespace: "+target+"\n")
		want["rb-pre"] = target
	} else {
		// a base that moves its account, and an upper layer (no directive) with a same-named account and binding of its own
		nsA := pickS(r, []string{"a", "prod"})
		w("/w/base/kustomization.yaml", "resources:\n- all.yaml\nnamespace: "+nsA+"\n")
		w("/w/base/all.yaml", sa+"---\n"+role+"---\n"+rb("rb-base")+"---\n"+dep)
		w("/w/wrap/kustomization.yaml", "resources:\n- ../base\n- own.yaml\n")
		w("/w/wrap/own.yaml", sa+"---\n"+rb("rb-own"))
		want["rb-base"], want["rb-own"] = nsA, "default"
	}
	out, err, pnc := safeBuild(func() (string, error) { return runBuild(fs, top, nil) })
	in := map[string]interface{}{"scenario": []string{"one-base-two-overlays", "upper-layer-own-account", "preset-namespace-moved"}[scenario], "files": files}
	if pnc != nil {
		o.note("shared-names-panic", in)
		return
	}
	if err != nil {
		o.note("shared-names-err", in)
		// nothing collides in either scenario: the resources end in different namespaces (or carry different names)
		o.fail("independent-accounts-rejected", "accounts that share a name but live in different namespaces make the build fail: "+err.Error(), cs, in, err.Error(), nil)
		return
	}
	o.note("shared-names-ok", in)
	docs, _ := parseDocs(out)
	for _, d := range docs {
		if d["kind"] != "RoleBinding" && d["kind"] != "ClusterRoleBinding" {
			continue
		}
		md, _ := d["metadata"].(map[string]interface{})
		name, _ := md["name"].(string)
		ns, _ := md["namespace"].(string)
		exp, ok := want[name]
		if !ok {
			exp, ok = want["@"+ns]
		}
		if !ok {
			continue
		}
		subs, _ := d["subjects"].([]interface{})
		for _, s := range subs {
			sm, _ := s.(map[string]interface{})
			got, _ := sm["namespace"].(string)
			if got == "" {
				got = "default"
			}
			if sm["kind"] == "ServiceAccount" && got != exp {
				o.fail("subject-namespace-stale", fmt.Sprintf("binding %s/%s: subject %v names namespace %q, its account lives in %q", ns, name, sm["name"], got, exp), cs, in, got, exp)
			}
		}
	}
}
