package main

import (
	"math/rand"
	"strings"

	"sigs.k8s.io/kustomize/kyaml/filesys"
	"sigs.k8s.io/kustomize/kyaml/resid"
	"sigs.k8s.io/yaml"
)

type labelKind struct {
	apiv, kind string
	locs       []string // slash paths as in the tables
}

var labelKinds = []labelKind{
	{"apps/v1", "Deployment", []string{"metadata/labels", "spec/selector/matchLabels", "spec/template/metadata/labels"}},
	{"apps/v1", "StatefulSet", []string{"metadata/labels", "spec/selector/matchLabels", "spec/template/metadata/labels"}},
	{"apps/v1", "DaemonSet", []string{"metadata/labels", "spec/selector/matchLabels", "spec/template/metadata/labels"}},
	{"batch/v1", "Job", []string{"metadata/labels", "spec/selector/matchLabels", "spec/template/metadata/labels"}},
	{"batch/v1", "CronJob", []string{"metadata/labels", "spec/jobTemplate/spec/selector/matchLabels", "spec/jobTemplate/metadata/labels", "spec/jobTemplate/spec/template/metadata/labels"}},
	{"v1", "Service", []string{"metadata/labels", "spec/selector"}},
	{"v1", "ReplicationController", []string{"metadata/labels", "spec/selector", "spec/template/metadata/labels"}},
	{"networking.k8s.io/v1", "NetworkPolicy", []string{"metadata/labels", "spec/podSelector/matchLabels"}},
	{"policy/v1", "PodDisruptionBudget", []string{"metadata/labels", "spec/selector/matchLabels"}},
	{"example.com/v1", "MyKind", []string{"metadata/labels", "spec/selector/matchLabels", "spec/template/metadata/labels"}},
	{"v1", "ConfigMap", []string{"metadata/labels"}},
}

func init() {
	components["labels.build"] = func(r *rand.Rand, tier string) (map[string]interface{}, func() (interface{}, string)) {
		lk := labelKinds[r.Intn(len(labelKinds))]
		g, v := resid.ParseGroupVersion(lk.apiv)
		L := map[string]string{}
		for i := 0; i < 1+r.Intn(2); i++ {
			L[pick(r, []string{"env", "tier", "app"})] = pick(r, []string{"dev", "prod", "x"})
		}
		common := r.Intn(3) == 0
		incSel, incTmpl := r.Intn(2) == 0, r.Intn(2) == 0
		obj := Obj{"apiVersion": lk.apiv, "kind": lk.kind, "metadata": Obj{"name": "o"}}
		var locs []interface{}
		cur := map[string]map[string]string{}
		for _, p := range lk.locs {
			var c interface{}
			if r.Intn(3) != 0 {
				m := map[string]string{pick(r, []string{"app", "keep"}): pick(r, []string{"a", "b"})}
				cur[p] = m
				setPath(obj, strings.Split(p, "/"), toObj(m))
				c = dictWire(m)
			}
			locs = append(locs, map[string]interface{}{"path": p, "cur": c})
		}
		args := map[string]interface{}{"group": g, "version": v, "kind": lk.kind, "labels": dictWire(L), "includeSelectors": incSel,
			"includeTemplates": incTmpl, "common": common, "locs": locs}
		return args, func() (interface{}, string) {
			b, _ := yaml.Marshal(obj)
			k := Obj{"resources": []interface{}{"r.yaml"}}
			if common {
				k["commonLabels"] = toObj(L)
			} else {
				e := Obj{"pairs": toObj(L)}
				if incSel {
					e["includeSelectors"] = true
				}
				if incTmpl {
					e["includeTemplates"] = true
				}
				k["labels"] = []interface{}{e}
			}
			kb, _ := yaml.Marshal(k)
			fs := filesys.MakeFsInMemory()
			fs.MkdirAll("/l")
			fs.WriteFile("/l/r.yaml", b)
			fs.WriteFile("/l/kustomization.yaml", kb)
			out, err := runBuild(fs, "/l", nil)
			if err != nil {
				return map[string]interface{}{"err": "build"}, "err"
			}
			docs, _ := parseDocs(out)
			var res []interface{}
			for _, p := range lk.locs {
				vv, ok := getPath(map[string]interface{}(docs[0]), ipath(strings.Split(p, "/")))
				var c interface{}
				if ok {
					c = dictWire(strMap(vv))
				}
				res = append(res, map[string]interface{}{"path": p, "cur": c})
			}
			cls := lk.kind
			return map[string]interface{}{"ok": res}, cls
		}
	}
}

// labels.entries: several `labels` entries of one kustomization file, some with field specs of their own (`fields`), applied
// by a real build, against Kust.Labels.applyEntries (the LabelTransformer configurator + the label filter).
func init() {
	components["labels.entries"] = func(r *rand.Rand, tier string) (map[string]interface{}, func() (interface{}, string)) {
		lk := labelKinds[r.Intn(len(labelKinds))]
		g, v := resid.ParseGroupVersion(lk.apiv)
		obj := Obj{"apiVersion": lk.apiv, "kind": lk.kind, "metadata": Obj{"name": "o"}}
		var locs []interface{}
		for _, p := range lk.locs {
			var c interface{}
			if r.Intn(3) != 0 {
				m := map[string]string{pick(r, []string{"app", "keep"}): pick(r, []string{"a", "b"})}
				setPath(obj, strings.Split(p, "/"), toObj(m))
				c = dictWire(m)
			}
			locs = append(locs, map[string]interface{}{"path": p, "cur": c})
		}
		var entries []interface{}
		var kentries []interface{}
		for i := 0; i < 1+r.Intn(3); i++ {
			L := map[string]string{pick(r, []string{"env", "tier", "team", "via"}) + string(rune('0'+i)): pick(r, []string{"dev", "prod", "x"})}
			incSel, incTmpl := r.Intn(4) == 0, r.Intn(2) == 0
			e := Obj{"pairs": toObj(L)}
			if incSel {
				e["includeSelectors"] = true
			}
			if incTmpl {
				e["includeTemplates"] = true
			}
			var fields []interface{}
			var kfields []interface{}
			if r.Intn(2) == 0 {
				// own field specs: one of the kind's label-bearing locations (selectors included), for this kind or for every kind,
				// created when absent or not
				for j := 0; j < 1+r.Intn(2); j++ {
					p := lk.locs[r.Intn(len(lk.locs))]
					kind := pick(r, []string{lk.kind, lk.kind, "", "Other"})
					create := r.Intn(2) == 0
					fields = append(fields, map[string]interface{}{"group": "", "version": "", "kind": kind, "path": p, "create": create})
					kf := Obj{"path": p}
					if kind != "" {
						kf["kind"] = kind
					}
					if create {
						kf["create"] = true
					}
					kfields = append(kfields, kf)
				}
				e["fields"] = kfields
			}
			if fields == nil {
				fields = []interface{}{}
			}
			entries = append(entries, map[string]interface{}{"labels": dictWire(L), "includeSelectors": incSel, "includeTemplates": incTmpl, "fields": fields})
			kentries = append(kentries, e)
		}
		args := map[string]interface{}{"group": g, "version": v, "kind": lk.kind, "entries": entries, "locs": locs}
		return args, func() (interface{}, string) {
			b, _ := yaml.Marshal(obj)
			k := Obj{"resources": []interface{}{"r.yaml"}, "labels": kentries}
			kb, _ := yaml.Marshal(k)
			fs := filesys.MakeFsInMemory()
			fs.MkdirAll("/l")
			fs.WriteFile("/l/r.yaml", b)
			fs.WriteFile("/l/kustomization.yaml", kb)
			out, err := runBuild(fs, "/l", nil)
			if err != nil {
				if strings.Contains(err.Error(), "conflicting fieldspecs") {
					return map[string]interface{}{"err": "conflict"}, "err-conflict"
				}
				return map[string]interface{}{"err": "build:" + err.Error()}, "err"
			}
			docs, _ := parseDocs(out)
			var res []interface{}
			for _, p := range lk.locs {
				vv, ok := getPath(map[string]interface{}(docs[0]), ipath(strings.Split(p, "/")))
				var c interface{}
				if ok {
					c = dictWire(strMap(vv))
				}
				res = append(res, map[string]interface{}{"path": p, "cur": c})
			}
			return map[string]interface{}{"ok": res}, lk.kind
		}
	}
}
