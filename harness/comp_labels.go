package main

import (
	"math/rand"
	"strings"

	"sigs.k8s.io/kustomize/kyaml/filesys"
	"sigs.k8s.io/kustomize/kyaml/resid"
	"sigs.k8s.io/yaml"
)

type labelKind struct {
	apiv, kind string
	locs       []string // slash paths as in the tables
}

var labelKinds = []labelKind{
	{"apps/v1", "Deployment", []string{"metadata/labels", "spec/selector/matchLabels", "spec/template/metadata/labels"}},
	{"apps/v1", "StatefulSet", []string{"metadata/labels", "spec/selector/matchLabels", "spec/template/metadata/labels"}},
	{"apps/v1", "DaemonSet", []string{"metadata/labels", "spec/selector/matchLabels", "spec/template/metadata/labels"}},
	{"batch/v1", "Job", []string{"metadata/labels", "spec/selector/matchLabels", "spec/template/metadata/labels"}},
	{"batch/v1", "CronJob", []string{"metadata/labels", "spec/jobTemplate/spec/selector/matchLabels", "spec/jobTemplate/metadata/labels", "spec/jobTemplate/spec/template/metadata/labels"}},
	{"v1", "Service", []string{"metadata/labels", "spec/selector"}},
	{"v1", "ReplicationController", []string{"metadata/labels", "spec/selector", "spec/template/metadata/labels"}},
	{"networking.k8s.io/v1", "NetworkPolicy", []string{"metadata/labels", "spec/podSelector/matchLabels"}},
	{"policy/v1", "PodDisruptionBudget", []string{"metadata/labels", "spec/selector/matchLabels"}},
	{"example.com/v1", "MyKind", []string{"metadata/labels", "spec/selector/matchLabels", "spec/template/metadata/labels"}},
	{"v1", "ConfigMap", []string{"metadata/labels"}},
}

func init() {
	components["labels.build"] = func(r *rand.Rand, tier string) (map[string]interface{}, func() (interface{}, string)) {
		lk := labelKinds[r.Intn(len(labelKinds))]
		g, v := resid.ParseGroupVersion(lk.apiv)
		L := map[string]string{}
		for i := 0; i < 1+r.Intn(2); i++ {
			L[pick(r, []string{"env", "tier", "app"})] = pick(r, []string{"dev", "prod", "x"})
		}
		common := r.Intn(3) == 0
		incSel, incTmpl := r.Intn(2) == 0, r.Intn(2) == 0
		obj := Obj{"apiVersion": lk.apiv, "kind": lk.kind, "metadata": Obj{"name": "o"}}
		var locs []interface{}
		cur := map[string]map[string]string{}
		for _, p := range lk.locs {
			var c interface{}
			if r.Intn(3) != 0 {
				m := map[string]string{pick(r, []string{"app", "keep"}): pick(r, []string{"a", "b"})}
				cur[p] = m
				setPath(obj, strings.Split(p, "/"), toObj(m))
				c = dictWire(m)
			}
			locs = append(locs, map[string]interface{}{"path": p, "cur": c})
		}
		args := map[string]interface{}{"group": g, "version": v, "kind": lk.kind, "labels": dictWire(L), "includeSelectors": incSel,
			"includeTemplates": incTmpl, "common": common, "locs": locs}
		return args, func() (interface{}, string) {
			b, _ := yaml.Marshal(obj)
			k := Obj{"resources": []interface{}{"r.yaml"}}
			if common {
				k["commonLabels"] = toObj(L)
			} else {
				e := Obj{"pairs": toObj(L)}
				if incSel {
					e["includeSelectors"] = true
				}
				if incTmpl {
					e["includeTemplates"] = true
				}
				k["labels"] = []interface{}{e}
			}
			kb, _ := yaml.Marshal(k)
			fs := filesys.MakeFsInMemory()
			fs.MkdirAll("/l")
			fs.WriteFile("/l/r.yaml", b)
			fs.WriteFile("/l/kustomization.yaml", kb)
			out, err := runBuild(fs, "/l", nil)
			if err != nil {
				return map[string]interface{}{"err": "build"}, "err"
			}
			docs, _ := parseDocs(out)
			var res []interface{}
			for _, p := range lk.locs {
				vv, ok := getPath(map[string]interface{}(docs[0]), ipath(strings.Split(p, "/")))
				var c interface{}
				if ok {
					c = dictWire(strMap(vv))
				}
				res = append(res, map[string]interface{}{"path": p, "cur": c})
			}
			cls := lk.kind
			return map[string]interface{}{"ok": res}, cls
		}
	}
}
