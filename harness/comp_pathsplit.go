package main

import (
	"math/rand"
	"strings"

	"sigs.k8s.io/kustomize/kyaml/utils"
)

// path.split: utils.PathSplitter and utils.SmarterPathSplitter on strings over the alphabet of path syntax — names,
// the delimiter, backslashes (one, several, several per element), brackets, `=`.  Model: lean/Kust/PathSplit.lean.
func init() {
	components["path.split"] = func(r *rand.Rand, tier string) (map[string]interface{}, func() (interface{}, string)) {
		d := pickS(r, []string{"/", "/", "."})
		mode := pickS(r, []string{"split", "smarter", "scan"})
		toks := []string{"a", "b", "name", d, d, "\\", "\\" + d, "[", "]", "=", "[name=x" + d + "y]", "a\\" + d + "b\\" + d + "c", "app\\" + d + "kubernetes\\" + d + "io", "x", ""}
		var sb strings.Builder
		for i := r.Intn(9); i > 0; i-- {
			sb.WriteString(pickS(r, toks))
		}
		p := sb.String()
		args := map[string]interface{}{"path": p, "d": d, "mode": mode}
		return args, func() (interface{}, string) {
			var out []string
			if mode == "split" || mode == "scan" {
				out = utils.PathSplitter(p, d)
			} else {
				out = utils.SmarterPathSplitter(p, d)
			}
			l := []interface{}{}
			for _, e := range out {
				l = append(l, e)
			}
			cl := mode
			if strings.Count(p, "\\"+d) >= 2 {
				cl += "-multi-escape"
			}
			return map[string]interface{}{"ok": l}, cl
		}
	}
}
