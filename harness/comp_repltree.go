package main

import (
	"math/rand"
	"strings"
	"time"

	"sigs.k8s.io/kustomize/api/filters/replacement"
	"sigs.k8s.io/kustomize/api/types"
	"sigs.k8s.io/kustomize/kyaml/resid"
	"sigs.k8s.io/kustomize/kyaml/utils"
	"sigs.k8s.io/kustomize/kyaml/yaml"
)

// repl.tree: one replacement between a source resource and a target resource that are arbitrary YAML trees, through
// replacement.Filter: source field path (any value: scalar, map, list) with delimiter/index, target field paths with
// list selectors (`[k=pattern]`, indices, `*`), creation, delimiter/index on the target.
// Model: lean/Kust/ReplTree.lean (PathMatcher from lean/Kust/Match.lean).

func rtStrip(doc interface{}) []interface{} {
	d := doc.([]interface{})
	var fs []interface{}
	for _, f := range d[2].([]interface{}) {
		k := f.([]interface{})[0].(string)
		if k == "kind" || k == "metadata" || k == "apiVersion" {
			continue
		}
		fs = append(fs, f)
	}
	return fs
}

func rtScalar(v string) interface{} { return []interface{}{"s", "!!str", v, 0} }

func rtOpts(r *rand.Rand, target bool) (map[string]interface{}, *types.FieldOptions) {
	if r.Intn(2) == 0 {
		return nil, nil
	}
	o := &types.FieldOptions{Delimiter: pickS(r, []string{":", "-", ",", "", "::"}), Index: r.Intn(5) - 1}
	if target {
		o.Create = r.Intn(2) == 0
	}
	return map[string]interface{}{"delim": o.Delimiter, "index": o.Index, "create": o.Create}, o
}

func init() {
	components["repl.tree"] = func(r *rand.Rand, tier string) (map[string]interface{}, func() (interface{}, string)) {
		extra := func() []interface{} {
			return []interface{}{
				[]interface{}{"img", rtScalar(pickS(r, []string{"app:1.0", "reg:5000/app:2", "app", "a-b-c"}))},
				[]interface{}{"csv", rtScalar(pickS(r, []string{"a,b,c", "x", "1,2"}))},
			}
		}
		ident := func(kind, name string) []interface{} {
			return []interface{}{
				[]interface{}{"kind", rtScalar(kind)},
				[]interface{}{"metadata", []interface{}{"m", 0, []interface{}{[]interface{}{"name", rtScalar(name)}}}},
			}
		}
		srcF := append(append(rtStrip(genMap(r, depthFor(tier), false)), extra()...), ident("Src", "s")...)
		tgtF := append(append(rtStrip(genMap(r, depthFor(tier)+1, false)), extra()...), ident("Tgt", "t")...)
		src := []interface{}{"m", 0, srcF}
		tgt := []interface{}{"m", 0, tgtF}
		roundTrip := func(parts []string) []string {
			return utils.SmarterPathSplitter(strings.Join(parts, "."), ".")
		}
		spath := genPathFor(r, src, 3)
		aimedSrc := r.Intn(5) < 3
		if aimedSrc {
			// mostly a source that exists: the interesting part is what happens at the targets
			spath = [][]string{{"img"}, {"csv"}, {"metadata"}, {"metadata", "name"}, {"kind"}}[r.Intn(5)]
			if fs := rtStrip(src); len(fs) > 0 && r.Intn(2) == 0 {
				spath = []string{fs[r.Intn(len(fs))].([]interface{})[0].(string)}
			}
		}
		spath = roundTrip(spath)
		var paths [][]string
		for i := 1 + r.Intn(2); i > 0; i-- {
			p := genPathFor(r, tgt, 4)
			for j, part := range p {
				if strings.HasPrefix(part, "[") && strings.Contains(part, "=") && r.Intn(3) == 0 {
					eq := strings.Index(part, "=")
					v := part[eq+1 : len(part)-1]
					if len(v) > 1 {
						p[j] = part[:eq+1] + v[:1+r.Intn(len(v)-1)] + "]"
					}
				} else if (strings.HasPrefix(part, "[") || part == "0" || part == "1") && r.Intn(6) == 0 {
					p[j] = "*"
				}
			}
			if r.Intn(3) == 0 {
				p = [][]string{{"img"}, {"csv"}, {"fresh"}, {"metadata", "name"}, {"metadata", "labels", "x"}}[r.Intn(5)]
			}
			paths = append(paths, roundTrip(p))
		}
		sow, so := rtOpts(r, false)
		if aimedSrc && so != nil {
			switch spath[0] {
			case "img":
				so.Delimiter, so.Index = ":", r.Intn(2)
			case "csv":
				so.Delimiter, so.Index = ",", r.Intn(2)
			default:
				if r.Intn(3) != 0 {
					so.Delimiter = ""
				}
			}
			sow = map[string]interface{}{"delim": so.Delimiter, "index": so.Index, "create": so.Create}
		}
		tow, to := rtOpts(r, true)
		if to != nil && r.Intn(2) == 0 {
			to.Delimiter = pickS(r, []string{"", "", ":", ","})
			to.Index = r.Intn(3) - 1
			tow = map[string]interface{}{"delim": to.Delimiter, "index": to.Index, "create": to.Create}
		}
		var wp []interface{}
		for _, p := range paths {
			wp = append(wp, p)
		}
		var things []interface{}
		things = append(things, src, tgt, spath)
		for _, p := range paths {
			things = append(things, p)
		}
		args := map[string]interface{}{"src": src, "tgt": tgt, "spath": spath, "paths": wp, "sopts": sow, "topts": tow, "ns": nsGraph(things...)}
		return args, func() (interface{}, string) {
			sn, tn := yaml.NewRNode(wireToNode(src)), yaml.NewRNode(wireToNode(tgt))
			ts := &types.TargetSelector{Select: &types.Selector{ResId: resid.ResId{Gvk: resid.Gvk{Kind: "Tgt"}}}, Options: to}
			for _, p := range paths {
				ts.FieldPaths = append(ts.FieldPaths, strings.Join(p, "."))
			}
			f := replacement.Filter{Replacements: []types.Replacement{{
				Source:  &types.SourceSelector{ResId: resid.ResId{Gvk: resid.Gvk{Kind: "Src"}}, FieldPath: strings.Join(spath, "."), Options: so},
				Targets: []*types.TargetSelector{ts}}}}
			type result struct {
				err error
			}
			ch := make(chan result, 1)
			go func() {
				_, err := f.Filter([]*yaml.RNode{sn, tn})
				ch <- result{err}
			}()
			var x result
			select {
			case x = <-ch:
			case <-time.After(20 * time.Second):
				return map[string]interface{}{"hang": "replacement filter did not return within 20s"}, "hang"
			}
			if x.err != nil {
				e := x.err.Error()
				for _, c := range [][2]string{{"error parsing regexp", "unmodelled"}, {"is missing for replacement source", "missing"}, {"out of bounds", "index"},
					{"delimiter option can only be used with scalar nodes", "delim-nonscalar"}, {"unable to find", "find"}, {"error looking up replacement source", "lookup"}} {
					if strings.Contains(e, c[0]) {
						return map[string]interface{}{"err": c[1]}, "err-" + c[1]
					}
				}
				return map[string]interface{}{"err": "other:" + e}, "err-other"
			}
			cl := "ok"
			if to != nil && to.Create {
				cl = "ok-create"
			}
			return map[string]interface{}{"ok": rnodeToWire(tn)}, cl
		}
	}
}
