package main

import (
	"fmt"
	"math/rand"
	"strings"

	"sigs.k8s.io/kustomize/api/resmap"
	"sigs.k8s.io/kustomize/api/resource"
)

// resmap.subset: ResMap.SubsetThatCouldBeReferencedByResource on small resource maps: namespaced resources with and
// without a namespace (and with the literal `default`), cluster-scoped ones, and referrers of every kind — among them
// RoleBindings whose subjects name accounts in other namespaces.  Model: lean/Kust/Subset.lean.
func init() {
	components["resmap.subset"] = func(r *rand.Rand, tier string) (map[string]interface{}, func() (interface{}, string)) {
		nss := []string{"", "", "default", "ns1", "ns2"}
		kinds := [][3]string{{"", "v1", "ConfigMap"}, {"", "v1", "ServiceAccount"}, {"", "v1", "ServiceAccount"}, {"", "v1", "Secret"},
			{"rbac.authorization.k8s.io", "v1", "ClusterRole"}, {"rbac.authorization.k8s.io", "v1", "Role"}, {"", "v1", "Namespace"}}
		var ws []wid
		seen := map[string]bool{}
		for i := 2 + r.Intn(5); i > 0; i-- {
			k := kinds[r.Intn(len(kinds))]
			w := wid{k[0], k[1], k[2], pickS(r, []string{"app", "sa", "x"}), pickS(r, nss)}
			if k[2] == "ClusterRole" || k[2] == "Namespace" {
				w.NS = ""
			}
			key := fmt.Sprint(w)
			if seen[key] {
				continue
			}
			seen[key] = true
			ws = append(ws, w)
		}
		rk := [][3]string{{"rbac.authorization.k8s.io", "v1", "RoleBinding"}, {"rbac.authorization.k8s.io", "v1", "RoleBinding"},
			{"rbac.authorization.k8s.io", "v1", "ClusterRoleBinding"}, {"apps", "v1", "Deployment"}}[r.Intn(4)]
		ref := wid{rk[0], rk[1], rk[2], "referrer", pickS(r, nss)}
		if rk[2] == "ClusterRoleBinding" {
			ref.NS = ""
		}
		type subj struct {
			kind string
			ns   *string
		}
		var subjects []subj
		var wsub []interface{}
		for i := r.Intn(4); i > 0; i-- {
			s := subj{kind: pickS(r, []string{"ServiceAccount", "ServiceAccount", "User", "Group"})}
			if r.Intn(4) != 0 {
				n := pickS(r, []string{"default", "ns1", "ns2", "ns3", ""})
				s.ns = &n
			}
			subjects = append(subjects, s)
			if s.ns == nil {
				wsub = append(wsub, []interface{}{s.kind, nil})
			} else {
				wsub = append(wsub, []interface{}{s.kind, *s.ns})
			}
		}
		if wsub == nil {
			wsub = []interface{}{}
		}
		all := append(append([]wid{}, ws...), ref)
		args := map[string]interface{}{"referrer": ref.json(), "subjects": wsub, "m": widList(ws), "cs": csGraph(all...)}
		return args, func() (interface{}, string) {
			mk := func(w wid, extra string) (*resource.Resource, error) {
				var sb strings.Builder
				fmt.Fprintf(&sb, "apiVersion: %s\nkind: %s\nmetadata:\n  name: %s\n", w.apiVersion(), w.Kind, w.Name)
				if w.NS != "" {
					fmt.Fprintf(&sb, "  namespace: %s\n", w.NS)
				}
				sb.WriteString(extra)
				return rf().FromBytes([]byte(sb.String()))
			}
			m := resmap.New()
			for _, w := range ws {
				res, err := mk(w, "")
				if err != nil {
					return map[string]interface{}{"err": "load"}, "err-load"
				}
				if err := m.Append(res); err != nil {
					return map[string]interface{}{"err": "unmodelled"}, "skip-collision"
				}
			}
			extra := ""
			if len(subjects) > 0 {
				extra = "subjects:\n"
				for _, s := range subjects {
					extra += "- kind: " + s.kind + "\n  name: someone\n"
					if s.ns != nil {
						extra += fmt.Sprintf("  namespace: %q\n", *s.ns)
					}
				}
			}
			refRes, err := mk(ref, extra)
			if err != nil {
				return map[string]interface{}{"err": "load"}, "err-load"
			}
			sub, err := m.SubsetThatCouldBeReferencedByResource(refRes)
			if err != nil {
				return map[string]interface{}{"err": "other:" + err.Error()}, "err-other"
			}
			var out []interface{}
			for _, x := range sub.Resources() {
				id := x.CurId()
				out = append(out, wid{id.Group, id.Version, id.Kind, id.Name, id.Namespace}.json())
			}
			if out == nil {
				out = []interface{}{}
			}
			cl := fmt.Sprintf("kept-%d-of-%d", len(out), len(ws))
			if len(out) > 3 {
				cl = "kept-many"
			}
			return map[string]interface{}{"ok": out}, ref.Kind + ":" + cl
		}
	}
}
