package main

import (
	"flag"
	"fmt"
	"math/rand"
	"os"
	"os/exec"
	"runtime"
	"strings"
	"sync"

	"sigs.k8s.io/kustomize/kyaml/openapi"
)

// C16: independent builds (built-in schema only) run concurrently without interfering.
// The concurrent part runs in a child process built with -race (work/bin/vh-race); the race detector's
// report and a concurrent-vs-sequential comparison are the oracle.

func c16Tree(cs int64) *Tree {
	r := rand.New(rand.NewSource(cs))
	f := allFeat()
	f.Dense = r.Intn(2) == 0
	t := genTree(r, f)
	addGenerators(r, t)
	// bias towards the two code paths that touch the schema: scope checks of unknown kinds (namespace directive on
	// a custom kind) and strategic-merge patches (schema lookups by the merge walker)
	L := t.Layers[0]
	if r.Intn(2) == 0 {
		g := t.mkSimple(r, 0, "MyKind", "custom-"+t.newID(), "")
		L.ResF = append(L.ResF, "custom.yaml")
		L.Docs["custom.yaml"] = []Obj{g.Obj}
		if L.NS == "" {
			L.NS = "ns-c16"
			L.Kust["namespace"] = L.NS
		}
	} else {
		g := t.mkWorkload(r, 0, "Deployment", "dep-"+t.newID(), "", map[string]string{"app": "x"})
		L.ResF = append(L.ResF, "dep.yaml")
		L.Docs["dep.yaml"] = []Obj{g.Obj}
		pl, _ := L.Kust["patches"].([]interface{})
		pl = append(pl, Obj{"patch": "apiVersion: apps/v1\nkind: Deployment\nmetadata:\n  name: " + g.Name + "\nspec:\n  template:\n    spec:\n      containers:\n      - name: main\n        env:\n        - name: A\n          value: b\n"})
		L.Kust["patches"] = pl
	}
	// generators fed from env files (line scanning of each build's own input)
	if r.Intn(2) == 0 {
		var sb strings.Builder
		for i := 0; i < 20+r.Intn(40); i++ {
			sb.WriteString(fmt.Sprintf("KEY_%d_%d=%s\n", cs%1000, i, strings.Repeat(string(rune('a'+int(cs%26))), 10+r.Intn(60))))
		}
		L.Files["c16.env"] = sb.String()
		gs, _ := L.Kust["configMapGenerator"].([]interface{})
		L.Kust["configMapGenerator"] = append(gs, Obj{"name": "c16-env-" + t.newID(), "envs": []interface{}{"c16.env"}})
	}
	// crds: name references derived from a CRD are merged into (what must be a private copy of) the default
	// transformer configuration; a custom resource then refers to a ConfigMap of its layer
	if r.Intn(2) == 0 {
		cmName := "crd-cm-" + t.newID()
		cm := t.mkSimple(r, 0, "ConfigMap", cmName, "")
		ref := t.mkSimple(r, 0, "MyKind", "crd-ref-"+t.newID(), "")
		ref.Obj["spec"].(Obj)["cmRef"] = Obj{"name": cmName}
		L.ResF = append(L.ResF, "crdres.yaml")
		L.Docs["crdres.yaml"] = []Obj{cm.Obj, ref.Obj}
		L.Files["crd.json"] = strings.Replace(`{"example.com/v1.MyKind": {"Schema": {"properties": {"apiVersion": {"type": "string"}, "kind": {"type": "string"}, "metadata": {"$ref": "k8s.io/apimachinery/pkg/apis/meta/v1.ObjectMeta"}, "spec": {"$ref": "example.com/v1.MyKindSpec"}}}, "Dependencies": ["example.com/v1.MyKindSpec", "k8s.io/apimachinery/pkg/apis/meta/v1.ObjectMeta"]}, "example.com/v1.MyKindSpec": {"Schema": {"properties": {"cmRef": {"x-kubernetes-object-ref-api-version": "v1", "x-kubernetes-object-ref-kind": "KIND", "$ref": "example.com/v1.Ref"}}}, "Dependencies": ["example.com/v1.Ref"]}, "example.com/v1.Ref": {"Schema": {"properties": {"name": {"type": "string"}}}}}`, "KIND", pickS(r, []string{"ConfigMap", "ConfigMap", "Secret", "ServiceAccount"}), 1)
		L.Kust["crds"] = []interface{}{"crd.json"}
		if L.Prefix == "" {
			L.Prefix = "c16-"
			L.Kust["namePrefix"] = L.Prefix
		}
	}
	return t
}

func init() {
	extraCmds["c16run"] = func(args []string) {
		fs := flag.NewFlagSet("c16run", flag.ExitOnError)
		seed := fs.Int64("seed", 1, "")
		k := fs.Int("k", 4, "number of concurrent builds")
		rounds := fs.Int("rounds", 5, "")
		fs.Parse(args)
		bad := 0
		master := rand.New(rand.NewSource(*seed))
		for rd := 0; rd < *rounds; rd++ {
			seeds := make([]int64, *k)
			for i := range seeds {
				seeds[i] = master.Int63()
			}
			conc := make([][2]string, *k)
			trees := make([]*Tree, *k)
			for i := range seeds {
				trees[i] = c16Tree(seeds[i]) // generated sequentially: only the builds run concurrently
			}
			var wg sync.WaitGroup
			start := make(chan struct{})
			for i := range seeds {
				wg.Add(1)
				go func(i int) {
					defer wg.Done()
					t := trees[i]
					<-start
					// several builds in a row per goroutine: later builds START while the other goroutines are in the middle of
					// theirs (a lock-step start alone never overlaps the beginning of one build with the body of another)
					var o, e string
					for rep := 0; rep < 1+i%3; rep++ {
						o, e = buildTreeMem(t)
					}
					conc[i] = [2]string{o, e}
				}(i)
			}
			close(start)
			wg.Wait()
			for i := range seeds {
				o, e := buildTreeMem(c16Tree(seeds[i]))
				e1, e2 := rePtr.ReplaceAllString(e, "PTR"), rePtr.ReplaceAllString(conc[i][1], "PTR")
				if o != conc[i][0] || e1 != e2 {
					bad++
					fmt.Printf("MISMATCH seed=%d round=%d\n", seeds[i], rd)
				}
			}
		}
		fmt.Printf("DONE mismatches=%d\n", bad)
	}
	// c16probe: the assumption behind "readers need no lock after initialisation", probed directly under -race: one
	// goroutine starts default builds' schema selections (what every Kustomizer.Run does first) while another holds the
	// root schema and reads it, as a merge walker does in the middle of a build.  A reset from the default schema to the
	// default schema must not WRITE the shared schema.
	extraCmds["c16probe"] = func(args []string) {
		openapi.ResetOpenAPI()
		s := openapi.Schema() // initialised; the walker's view
		_ = len(s.Definitions)
		var wg sync.WaitGroup
		wg.Add(2)
		go func() {
			defer wg.Done()
			for i := 0; i < 200; i++ {
				_ = openapi.SetSchema(nil, nil, true)
				runtime.Gosched()
			}
		}()
		go func() {
			defer wg.Done()
			n := 0
			for i := 0; i < 2000; i++ {
				n += len(s.Definitions)
				if i%10 == 0 {
					n += len(openapi.Schema().Definitions)
				}
				runtime.Gosched()
			}
			fmt.Println("READ", n > 0)
		}()
		wg.Wait()
		fmt.Println("DONE mismatches=0")
	}
	oracles["C16"] = func(seed int64, n int, tier, work string) *oracleReport {
		o := newOracleRun("C16", seed)
		self, _ := os.Executable()
		race := self + "-race"
		if _, err := os.Stat(race); err != nil {
			o.rep.Notes = append(o.rep.Notes, "race-enabled harness binary missing: "+race)
			return o.rep
		}
		ks := []int{2, 4, 8}
		if tier == "thorough" {
			ks = []int{2, 4, 8, 16}
		}
		for i := -1; i < n; i++ {
			k := ks[(i+len(ks))%len(ks)]
			sd := seed*1000 + int64(i)
			cmd := exec.Command(race, "c16run", "--seed", fmt.Sprint(sd), "--k", fmt.Sprint(k), "--rounds", "3")
			if i == -1 {
				cmd = exec.Command(race, "c16probe")
			}
			cmd.Env = append(os.Environ(), "GORACE=halt_on_error=0 exitcode=0")
			var errb strings.Builder
			cmd.Stderr = &errb
			out, err := cmd.Output()
			in := map[string]interface{}{"seed": sd, "k": k, "rounds": 3}
			o.note(fmt.Sprintf("k=%d", k), in)
			if err != nil && !strings.Contains(string(out), "DONE") {
				o.fail("concurrent-run-crashed", "concurrent builds crashed: "+err.Error()+" "+tailStr(errb.String(), 400), sd, in, nil, nil)
				continue
			}
			if strings.Contains(string(out), "MISMATCH") {
				o.fail("concurrent-output-differs", "a concurrent build produced a different result than the same build run alone", sd, in, tailStr(string(out), 300), nil)
			}
			for _, blk := range strings.Split(errb.String(), "==================") {
				if !strings.Contains(blk, "WARNING: DATA RACE") || !strings.Contains(blk, "sigs.k8s.io/kustomize/") {
					continue // only races with a kustomize frame count (the harness itself is not the subject)
				}
				// classify by the first kustomize function named in the report
				site := "unknown"
				for _, l := range strings.Split(blk, "\n") {
					l = strings.TrimSpace(l)
					if strings.HasPrefix(l, "sigs.k8s.io/kustomize/") {
						site = strings.TrimPrefix(l, "sigs.k8s.io/kustomize/")
						if j := strings.LastIndex(site, "("); j > 0 {
							site = site[:j]
						}
						break
					}
				}
				o.fail("data-race:"+site, "the race detector reports unsynchronised access at "+site, sd, in, tailStr(blk, 1500), nil)
			}
		}
		return o.rep
	}
}

func tailStr(s string, n int) string {
	if len(s) > n {
		return s[:n]
	}
	return s
}
