package main

import (
	"bufio"
	"encoding/json"
	"flag"
	"fmt"
	"math/rand"
	"os"
	"os/exec"
	"runtime/debug"
	"sort"
	"strings"
	"time"

	"sigs.k8s.io/kustomize/kyaml/filesys"
	"sigs.k8s.io/kustomize/kyaml/kio"
	"sigs.k8s.io/kustomize/kyaml/openapi"
	"sigs.k8s.io/yaml"
)

var metaStrings = []string{"a(", "[", "*", "-", "..", "{{", "a|b)", "\\", "x\ny", "$(X)", "~", "[name=", "0", "-1", "a/b/../../..", "%s", "\x00"}

// collectNodes gathers (container, key/index) slots of a generic YAML value.
type slot struct {
	m map[string]interface{}
	l []interface{}
	k string
	i int
	// parent slot to write back a modified list
	set func(v interface{})
	get func() interface{}
}

func slotsOf(v interface{}, set func(interface{})) []slot {
	var out []slot
	switch x := v.(type) {
	case map[string]interface{}:
		keys := make([]string, 0, len(x))
		for k := range x {
			keys = append(keys, k)
		}
		sort.Strings(keys)
		for _, k := range keys {
			k := k
			s := slot{m: x, k: k, set: func(nv interface{}) { x[k] = nv }, get: func() interface{} { return x[k] }}
			out = append(out, s)
			out = append(out, slotsOf(x[k], s.set)...)
		}
	case []interface{}:
		for i := range x {
			i := i
			s := slot{l: x, i: i, set: func(nv interface{}) { x[i] = nv }, get: func() interface{} { return x[i] }}
			out = append(out, s)
			out = append(out, slotsOf(x[i], s.set)...)
		}
	}
	return out
}

func mutateValue(r *rand.Rand, root interface{}) (interface{}, string) {
	var newRoot = root
	ss := slotsOf(root, func(v interface{}) { newRoot = v })
	if len(ss) == 0 {
		return pickS(r, metaStrings), "root-retype"
	}
	s := ss[r.Intn(len(ss))]
	switch r.Intn(10) {
	case 9:
		if l, ok := s.get().([]interface{}); ok {
			i := r.Intn(len(l) + 1)
			nl := append(append(append([]interface{}{}, l[:i]...), nil), l[i:]...)
			s.set(nl)
			return newRoot, "null-element"
		}
		s.set(nil)
		return newRoot, "null"
	case 0:
		s.set(nil)
		return newRoot, "null"
	case 1:
		s.set(map[string]interface{}{})
		return newRoot, "empty-map"
	case 2:
		s.set([]interface{}{})
		return newRoot, "empty-list"
	case 3:
		s.set(pickS(r, metaStrings))
		return newRoot, "meta-string"
	case 4:
		s.set(float64(r.Intn(3)))
		return newRoot, "number"
	case 5:
		if s.m != nil {
			delete(s.m, s.k)
			return newRoot, "delete"
		}
		s.set([]interface{}{s.get(), s.get()})
		return newRoot, "wrap-dup"
	case 6:
		o := ss[r.Intn(len(ss))]
		s.set(deepCopy(o.get()))
		return newRoot, "splice"
	case 7:
		if str, ok := s.get().(string); ok {
			s.set(str + pickS(r, metaStrings))
			return newRoot, "extend-string"
		}
		s.set([]interface{}{"foo", float64(1), nil})
		return newRoot, "scalar-list"
	default:
		s.set(map[string]interface{}{"kind": float64(1), "name": []interface{}{}, pickS(r, metaStrings): "x"})
		return newRoot, "odd-map"
	}
}

func deepCopy(v interface{}) interface{} {
	b, _ := json.Marshal(v)
	var o interface{}
	json.Unmarshal(b, &o)
	return o
}

// c12Case builds the mutated file set of case seed cs. Returns files, top dir, mutation label.
func c12Case(cs int64) (map[string]string, string, string) {
	r := rand.New(rand.NewSource(cs))
	if ws := weakSpot(r); ws != nil && r.Intn(4) == 0 {
		return ws, "/w", "weak-spot-template"
	}
	if r.Intn(3) == 0 {
		// ONE structural fault at a uniformly chosen position of a kustomization that uses every native field
		files := richTemplate()
		fn := pickS(r, []string{"/w/kustomization.yaml", "/w/kustomization.yaml", "/w/kustomization.yaml", "/w/res.yaml", "/w/list.yaml", "/w/comp/kustomization.yaml"})
		if r.Intn(12) == 0 {
			files["/w/res.yaml"] += pickS(r, []string{"---\napiVersion: v1\nkind: ConfigMap\nmetadata:\n  name: cyc\ndata: &x {a: *x}\n",
				"---\napiVersion: v1\nkind: ConfigMap\nmetadata: &m\n  name: cyc2\n  labels: {<<: *m}\n", "---\na: &a [*a]\n"})
			return files, "/w", "rich:alias-cycle"
		}
		if r.Intn(8) == 0 {
			// a referenced file that is empty, blank (white space only), truncated or a bare null
			files[pickS(r, []string{"/w/crd.json", "/w/cfg.yaml", "/w/f.txt", "/w/e.env", "/w/p.yaml", "/w/jp.json", "/w/jp.yaml", "/w/jp.json", "/w/list.yaml"})] =
				pickS(r, []string{"", "\n", "{", "null", " ", "\t", "\r\n", "  \n\n", "[", "- ", "---\n"})
			return files, "/w", "rich:empty-file"
		}
		docs := splitYAMLDocs(files[fn])
		di := r.Intn(len(docs))
		var v interface{}
		if err := yaml.Unmarshal([]byte(docs[di]), &v); err == nil {
			nv, l := mutateValue(r, v)
			b, _ := yaml.Marshal(nv)
			docs[di] = string(b)
			files[fn] = strings.Join(docs, "---\n")
			return files, "/w", "rich:" + l
		}
	}
	f := allFeat()
	f.Dense = r.Intn(2) == 0
	f.Replacements = true
	t := genTree(r, f)
	addGenerators(r, t)
	fs := filesys.MakeFsInMemory()
	t.Write(fs, "/w")
	files := dumpFS(fs, "/w")
	names := make([]string, 0, len(files))
	for k := range files {
		names = append(names, k)
	}
	sort.Strings(names)
	nm := 1 + r.Intn(2)
	label := ""
	for m := 0; m < nm; m++ {
		fn := names[r.Intn(len(names))]
		if r.Intn(5) == 0 { // byte-level
			b := []byte(files[fn])
			if len(b) > 0 {
				for k := 0; k < 1+r.Intn(3); k++ {
					p := r.Intn(len(b))
					switch r.Intn(3) {
					case 0:
						b[p] = byte(r.Intn(256))
					case 1:
						b = append(b[:p], b[p+1:]...)
						if len(b) == 0 {
							b = []byte("x")
						}
					default:
						b = append(b[:p], append([]byte(pickS(r, []string{"\n---\n", ": ", "- ", "  ", "\t", "&a ", "*a", "!!", "|"})), b[p:]...)...)
					}
				}
			}
			files[fn] = string(b)
			label += "bytes;"
			continue
		}
		docs := splitYAMLDocs(files[fn])
		di := r.Intn(len(docs))
		var v interface{}
		if err := yaml.Unmarshal([]byte(docs[di]), &v); err != nil {
			continue
		}
		nv, l := mutateValue(r, v)
		b, _ := yaml.Marshal(nv)
		docs[di] = string(b)
		files[fn] = strings.Join(docs, "---\n")
		label += l + ";"
	}
	return files, t.TopDir("/w"), label
}

// weakSpot: templates around the partial operations the property's anchors name (run with random fillers).
func weakSpot(r *rand.Rand) map[string]string {
	res := `apiVersion: apps/v1
kind: Deployment
metadata:
  name: d
spec:
  template:
    spec:
      containers:
      - name: main
        image: nginx
---
apiVersion: rbac.authorization.k8s.io/v1
kind: RoleBinding
metadata:
  name: rb
roleRef: {apiGroup: rbac.authorization.k8s.io, kind: Role, name: r}
subjects: SUBJECTS
---
apiVersion: v1
kind: ServiceAccount
metadata:
  name: sa
---
apiVersion: v1
kind: ConfigMap
metadata:
  name: cm
data:
  k: v
  list: "a,b"
  empty: ""
  other: cm2
---
apiVersion: v1
kind: ConfigMap
metadata:
  name: cm2
`
	res = strings.Replace(res, "SUBJECTS", pickS(r, []string{"[foo]", "[{kind: 1, name: sa}]", "[{kind: ServiceAccount, name: sa, namespace: default}]", "{}", "[[]]", "[null]", "[{kind: ServiceAccount}]"}), 1)
	var k string
	switch r.Intn(17) {
	case 15, 16:
		// a patch target whose name / kind / group / version / namespace is not a valid regular expression
		fld := pickS(r, []string{"name", "kind", "group", "version", "namespace", "name"})
		bad := pickS(r, []string{"web(", "*", "Deploy[ment", "(?", "a{2,1}"})
		k = "resources: [res.yaml]\n" + pickS(r, []string{"patches", "patches", "patchesJson6902"}) + ":\n- target:\n    " + fld + ": \"" + bad + "\"\n" + pickS(r, []string{"", "    name: d\n", "    kind: Deployment\n"}) +
			"  patch: |-\n    - op: add\n      path: /metadata/annotations/x\n      value: y\n"
	case 12:
		// a replacement by VALUE (no source selector) whose targets are missing, null or empty
		k = "resources: [res.yaml]\nreplacements:\n- sourceValue: " + pickS(r, []string{"x", "\"\"", "1"}) + "\n" +
			pickS(r, []string{"", "  targets: null\n", "  targets: []\n", "  targets: [null]\n", "  targets: {}\n", "  source: null\n  targets: []\n"})
	case 13, 14:
		// CRD definition files: types that refer to themselves or to each other (recursive types are ordinary OpenAPI), references
		// to types that do not exist, definitions without a schema
		k = "resources: [res.yaml]\ncrds: [crd.json]\n"
	case 0:
		k = "resources: [res.yaml]\nimages:\n- name: \"" + pickS(r, []string{"a(", "*", "[", "nginx", "+"}) + "\"\n  newTag: x\n"
	case 1, 10, 11:
		k = "resources: [res.yaml]\nreplacements:\n- source: {kind: ConfigMap, name: cm, fieldPath: " + pickS(r, []string{"data.k", "data.k", "data.k", "data.k", "data.list.-", "spec.-", "data.[x", "metadata.name.0", "data.*"}) + "}\n  targets:\n  - select: {kind: Deployment}\n    fieldPaths:\n    - \"" + pickS(r, []string{"metadata.annotations.x", "spec.template.spec.containers.-.image", "spec.template.spec.containers.[name=main].image", "spec.template.spec.volumes.-", "metadata.labels.[a=b]",
			"spec.template.spec.containers.[name=nginx", "data.[image", "spec.[", "spec.template.spec.containers.[name=x^].image", "spec.template.spec.containers.[name=^123$].image", "metadata.finalizers.[=$a]", "spec.template.spec.containers.[name=^main$].image"}) + "\"\n    options: {create: true}\n"
	case 2:
		k = "resources: [res.yaml]\nnamePrefix: p-\npatches:\n- target: {kind: " + pickS(r, []string{"ConfigMap", "Deployment", "RoleBinding"}) + "}\n  patch: |-\n    - op: remove\n      path: " + pickS(r, []string{"/metadata/name", "/metadata", "/kind", "/apiVersion"}) + "\n"
	case 3:
		k = "resources: [res.yaml]\nnamespace: x\nnamePrefix: p-\n"
	case 4:
		k = "resources: [res.yaml]\nopenapi:\n  path: schema.json\n"
	case 5:
		k = "resources: [res.yaml]\nreplacements:\n- source: {}\n  targets: [{}]\n"
	case 6:
		k = "resources: [res.yaml]\nreplacements:\n- targets:\n  - fieldPaths: [a]\n"
	case 7, 8:
		// a late transformer rewrites an identity field: to nothing, to a value already taken, to another type
		k = "resources: [res.yaml]\n" + pickS(r, []string{"", "namePrefix: p-\n", "sortOptions: {order: fifo}\n"}) + "replacements:\n- source: {kind: ConfigMap, name: cm, fieldPath: " +
			pickS(r, []string{"data.empty", "data.other", "data.k", "metadata.name", "data"}) + "}\n  targets:\n  - select: {kind: " + pickS(r, []string{"ConfigMap", "ConfigMap", "Deployment", "ServiceAccount"}) +
			"}\n    fieldPaths: [" + pickS(r, []string{"metadata.name", "kind", "apiVersion", "metadata.namespace", "metadata"}) + "]\n"
	default:
		k = "resources: [res.yaml]\nconfigurations: [cfg.yaml]\n"
	}
	files := map[string]string{"/w/res.yaml": res, "/w/kustomization.yaml": k}
	k8sType := func(extra string) string {
		return `{"Schema": {"properties": {"apiVersion": {"type": "string"}, "kind": {"type": "string"}, "metadata": {"type": "object"}` + extra + `}}}`
	}
	files["/w/crd.json"] = pickS(r, []string{
		`{"example.com/v1.Tree": ` + k8sType(`, "spec": {"$ref": "example.com/v1.Node"}`) + `, "example.com/v1.Node": {"Schema": {"properties": {"value": {"type": "string"}, "child": {"$ref": "example.com/v1.Node"}}}}}`,
		`{"example.com/v1.Tree": ` + k8sType(`, "parent": {"$ref": "example.com/v1.Tree"}`) + `}`,
		`{"example.com/v1.A": ` + k8sType(`, "b": {"$ref": "example.com/v1.B"}`) + `, "example.com/v1.B": {"Schema": {"properties": {"a": {"$ref": "example.com/v1.A"}}}}}`,
		`{"example.com/v1.Tree": ` + k8sType(`, "spec": {"$ref": "example.com/v1.Missing"}`) + `}`,
		"", " \n", "# nothing\n", `{"example.com/v1.Tree": {}}`, `{"example.com/v1.Tree": null}`, `{"example.com/v1.Tree": ` + k8sType(`, "spec": {"$ref": 1}`) + `}`,
		`{"example.com/v1.Tree": ` + k8sType(`, "ref": {"x-kubernetes-object-ref-api-version": "v1", "x-kubernetes-object-ref-kind": "ConfigMap", "$ref": "example.com/v1.Tree"}`) + `}`,
	})
	files["/w/schema.json"] = pickS(r, []string{"{", "{}", `{"definitions": {"x": {"x-kubernetes-group-version-kind": [{"kind": "Deployment", "group": "apps"}]}}}`, "definitions: 1"})
	files["/w/cfg.yaml"] = pickS(r, []string{"nameReference:\n- kind: ConfigMap\n  fieldSpecs:\n  - path: spec/x\n", "images: 1\n", "namePrefix:\n- path: metadata/name/x\n", "commonLabels:\n- path: spec/template/spec/containers[]/name\n  create: true\n"})
	return files
}


// richTemplate: a kustomization that uses every native field with a valid entry (it builds as it is)
func richTemplate() map[string]string {
	return map[string]string{
		"/w/kustomization.yaml": `resources:
- res.yaml
- list.yaml
components:
- comp
namePrefix: p-
nameSuffix: -s
namespace: ns
commonLabels:
  a: b
labels:
- pairs:
    c: d
  includeSelectors: true
  fields:
  - path: spec/x
    kind: MyKind
    create: true
commonAnnotations:
  note: m
images:
- name: nginx
  newTag: "2"
replicas:
- name: d
  count: 2
configMapGenerator:
- name: g
  literals:
  - a=b
  files:
  - f.txt
  envs:
  - e.env
  options:
    labels:
      x: val
- name: g2
  literals:
  - a=b
  options:
    disableNameSuffixHash: true
secretGenerator:
- name: s
  literals:
  - a=b
  type: Opaque
- name: s2
  literals:
  - a=b
  options:
    annotations:
      only: annos
generatorOptions:
  disableNameSuffixHash: false
  labels:
    q: r
patches:
- path: p.yaml
  target:
    kind: Deployment
- patch: |-
    - op: add
      path: /data/z
      value: z
  target:
    kind: ConfigMap
    name: cm
patchesStrategicMerge:
- p.yaml
patchesJson6902:
- target:
    version: v1
    kind: ConfigMap
    name: cm
  patch: |-
    - op: add
      path: /data/j
      value: j
- target:
    version: v1
    kind: ConfigMap
    name: cm
  path: jp.json
- target:
    version: v1
    kind: ConfigMap
    name: cm
  path: jp.yaml
replacements:
- source:
    kind: ConfigMap
    name: cm
    fieldPath: data.k
  targets:
  - select:
      kind: Deployment
    reject:
    - name: zz
    fieldPaths:
    - metadata.annotations.r
    options:
      create: true
vars:
- name: V
  objref:
    kind: ConfigMap
    name: cm
    apiVersion: v1
  fieldref:
    fieldpath: data.k
configurations:
- cfg.yaml
crds:
- crd.json
sortOptions:
  order: legacy
  legacySortOptions:
    orderFirst:
    - ConfigMap
    orderLast:
    - Deployment
buildMetadata:
- originAnnotations
`,
		"/w/res.yaml": `apiVersion: apps/v1
kind: Deployment
metadata:
  name: d
  labels:
    app: d
spec:
  replicas: 1
  selector:
    matchLabels:
      app: d
  template:
    metadata:
      labels:
        app: d
    spec:
      containers:
      - name: main
        image: nginx:1
        env:
        - name: E
          value: $(V)
        ports:
        - containerPort: 80
      volumes:
      - name: v
        configMap:
          name: cm
---
apiVersion: v1
kind: ConfigMap
metadata:
  name: cm
data:
  k: v
---
apiVersion: rbac.authorization.k8s.io/v1
kind: RoleBinding
metadata:
  name: rb
roleRef:
  apiGroup: rbac.authorization.k8s.io
  kind: Role
  name: r
subjects:
- kind: ServiceAccount
  name: sa
---
apiVersion: v1
kind: ServiceAccount
metadata:
  name: sa
`,
		"/w/list.yaml": `apiVersion: v1
kind: ConfigMapList
items:
- apiVersion: v1
  kind: ConfigMap
  metadata:
    name: l1
  data:
    a: b
- apiVersion: v1
  kind: ConfigMap
  metadata:
    name: l2
`,
		"/w/comp/kustomization.yaml": "apiVersion: kustomize.config.k8s.io/v1alpha1\nkind: Component\nconfigMapGenerator:\n- name: cg\n  literals:\n  - c=d\n",
		"/w/p.yaml":                  "apiVersion: apps/v1\nkind: Deployment\nmetadata:\n  name: d\nspec:\n  template:\n    spec:\n      containers:\n      - name: main\n        env:\n        - name: P\n          value: q\n",
		"/w/jp.json":                 `[{"op": "add", "path": "/data/jf", "value": "jf"}]`,
		"/w/jp.yaml":                 "- op: add\n  path: /data/jy\n  value: jy\n",
		"/w/f.txt":                   "file content\n",
		"/w/e.env":                   "K=V\n",
		"/w/cfg.yaml":                "nameReference:\n- kind: ConfigMap\n  fieldSpecs:\n  - path: spec/cmRef\n    kind: MyKind\n",
		"/w/crd.json":                `{"example.com/v1.MyKind": {"Schema": {"properties": {"apiVersion": {"type": "string"}, "kind": {"type": "string"}, "metadata": {"$ref": "k8s.io/apimachinery/pkg/apis/meta/v1.ObjectMeta"}, "spec": {"$ref": "example.com/v1.MyKindSpec"}}}, "Dependencies": ["example.com/v1.MyKindSpec", "k8s.io/apimachinery/pkg/apis/meta/v1.ObjectMeta"]}, "example.com/v1.MyKindSpec": {"Schema": {"properties": {"cmRef": {"x-kubernetes-object-ref-api-version": "v1", "x-kubernetes-object-ref-kind": "ConfigMap", "$ref": "example.com/v1.Ref"}}}, "Dependencies": ["example.com/v1.Ref"]}, "example.com/v1.Ref": {"Schema": {"properties": {"name": {"type": "string"}}}}}`,
	}
}

func panicSite(stack string) string {
	// first kustomize frame below the panic machinery
	lines := strings.Split(stack, "\n")
	seenPanic := false
	for _, l := range lines {
		if strings.HasPrefix(l, "panic(") {
			seenPanic = true
			continue
		}
		if !seenPanic {
			continue
		}
		if strings.HasPrefix(l, "sigs.k8s.io/kustomize/") {
			s := l
			if i := strings.LastIndex(s, "("); i > 0 {
				s = s[:i]
			}
			s = strings.TrimPrefix(s, "sigs.k8s.io/kustomize/")
			return s
		}
	}
	return "unknown"
}

func runC12Case(cs int64) map[string]interface{} {
	files, top, label := c12Case(cs)
	fs := filesys.MakeFsInMemory()
	for p, c := range files {
		fs.MkdirAll(p[:strings.LastIndex(p, "/")])
		fs.WriteFile(p, []byte(c))
	}
	t0 := time.Now()
	openapi.ResetOpenAPI() // every case starts from the initial schema state (history effects are C01's business)
	res := map[string]interface{}{"seed": cs, "label": label}
	func() {
		defer func() {
			if p := recover(); p != nil {
				res["status"] = "panic"
				res["site"] = panicSite(string(debug.Stack()))
				res["value"] = fmt.Sprint(p)
				if os.Getenv("VERIF_STACK") != "" {
					res["stack"] = string(debug.Stack())
				}
			}
		}()
		_, err := runBuild(fs, top, nil)
		if err != nil {
			res["status"] = "err"
		} else {
			res["status"] = "ok"
		}
	}()
	// the byte readers on one of the files
	func() {
		defer func() {
			if p := recover(); p != nil {
				res["status"] = "panic"
				res["site"] = "reader:" + panicSite(string(debug.Stack()))
				res["value"] = fmt.Sprint(p)
			}
		}()
		for p, c := range files {
			if strings.Contains(p, "res") {
				rd := kio.ByteReader{Reader: strings.NewReader(c)}
				rd.Read()
			}
		}
	}()
	bytesN := 0
	for _, c := range files {
		bytesN += len(c)
	}
	res["ms"] = time.Since(t0).Milliseconds()
	res["bytes"] = bytesN
	return res
}

// confirmSlow re-runs ONE case alone in a fresh process: a time limit that was hit while the machine was busy with other
// work says nothing about the library.  It reports the case as slow / hanging only when it is so by itself, twice.
var slowConfirmed bool // once a case was confirmed alone, later time-outs of the run are taken at face value

func confirmSlow(self string, caseSeed int64, limit time.Duration) (hang bool, ms float64) {
	if slowConfirmed {
		return true, 0
	}
	defer func() {
		if hang || ms > 5000 {
			slowConfirmed = true
		}
	}()
	worst := 0.0
	for try := 0; try < 2; try++ {
		cmd := exec.Command(self, "c12case", "--case", fmt.Sprint(caseSeed))
		cmd.Env = append(os.Environ(), "GOMEMLIMIT=2GiB")
		done := make(chan []byte, 1)
		go func() { b, _ := cmd.Output(); done <- b }()
		select {
		case b := <-done:
			var m map[string]interface{}
			json.Unmarshal(b, &m)
			res, _ := m["result"].(map[string]interface{})
			t, _ := res["ms"].(float64)
			if t < 5000 {
				return false, t // fast when run alone: the limit was hit under load
			}
			if t > worst {
				worst = t
			}
		case <-time.After(limit):
			if cmd.Process != nil {
				cmd.Process.Kill()
			}
			if try == 1 {
				return true, 0
			}
		}
	}
	return false, worst
}

func init() {
	extraCmds["c12worker"] = func(args []string) {
		fs := flag.NewFlagSet("c12worker", flag.ExitOnError)
		seed := fs.Int64("seed", 1, "")
		n := fs.Int("n", 1, "")
		from := fs.Int("from", 0, "")
		fs.Parse(args)
		seeds := caseSeeds(*seed, *n, "C12")
		w := bufio.NewWriter(os.Stdout)
		for i := *from; i < len(seeds); i++ {
			fmt.Fprintf(w, "{\"start\":%d}\n", i)
			w.Flush()
			b, _ := json.Marshal(runC12Case(seeds[i]))
			w.Write(b)
			w.WriteByte('\n')
			w.Flush()
		}
	}
	extraCmds["c12case"] = func(args []string) {
		fs := flag.NewFlagSet("c12case", flag.ExitOnError)
		cs := fs.Int64("case", 1, "")
		fs.Parse(args)
		files, top, label := c12Case(*cs)
		b, _ := json.MarshalIndent(map[string]interface{}{"files": files, "top": top, "label": label, "result": runC12Case(*cs)}, "", " ")
		os.Stdout.Write(b)
	}
	oracles["C12"] = func(seed int64, n int, tier, work string) *oracleReport {
		o := newOracleRun("C12", seed)
		self, _ := os.Executable()
		seeds := caseSeeds(seed, n, "C12")
		from := 0
		perCaseLimit := 20 * time.Second
		for from < n {
			cmd := exec.Command(self, "c12worker", "--seed", fmt.Sprint(seed), "--n", fmt.Sprint(n), "--from", fmt.Sprint(from))
			cmd.Env = append(os.Environ(), "GOMEMLIMIT=2GiB")
			stdout, _ := cmd.StdoutPipe()
			cmd.Start()
			lines := make(chan string)
			go func() {
				sc := bufio.NewScanner(stdout)
				sc.Buffer(make([]byte, 1<<20), 1<<26)
				for sc.Scan() {
					lines <- sc.Text()
				}
				close(lines)
			}()
			cur := -1
			done := false
			for !done {
				select {
				case l, ok := <-lines:
					if !ok {
						done = true
						break
					}
					var m map[string]interface{}
					json.Unmarshal([]byte(l), &m)
					if s, ok := m["start"]; ok {
						cur = int(s.(float64))
						continue
					}
					st, _ := m["status"].(string)
					files, _, label := c12Case(seeds[cur])
					o.note(st, map[string]interface{}{"seed": seeds[cur], "mutation": label})
					if st == "panic" {
						site, _ := m["site"].(string)
						o.fail("panic:"+site, fmt.Sprintf("build panics (%v) at %s", m["value"], site), seeds[cur], map[string]interface{}{"files": files, "mutation": label}, m["value"], nil)
					}
					if ms, _ := m["ms"].(float64); ms > 5000 {
						if hang, ms2 := confirmSlow(self, seeds[cur], 30*time.Second); hang || ms2 > 5000 {
							o.fail("slow", fmt.Sprintf("case took %v ms (alone: %v ms, hang=%v) for %v bytes", ms, ms2, hang, m["bytes"]), seeds[cur], map[string]interface{}{"files": files}, ms, nil)
						} else {
							o.note("slow-under-load-only", seeds[cur])
						}
					}
					from = cur + 1
					cur = -1
				case <-time.After(perCaseLimit):
					cmd.Process.Kill()
					if cur >= 0 {
						files, _, label := c12Case(seeds[cur])
						if hang, ms2 := confirmSlow(self, seeds[cur], 30*time.Second); hang || ms2 > 5000 {
							o.note("hang", seeds[cur])
							o.fail("hang", fmt.Sprintf("build did not return within the time limit (alone: hang=%v, %v ms)", hang, ms2), seeds[cur], map[string]interface{}{"files": files, "mutation": label}, nil, nil)
						} else {
							o.note("time-limit-under-load-only", seeds[cur])
						}
						from = cur + 1
					}
					done = true
				}
			}
			err := cmd.Wait()
			if cur >= 0 && from <= cur {
				// the worker died while case cur was running: process exit (os.Exit / log.Fatal / fatal error)
				files, _, label := c12Case(seeds[cur])
				o.note("process-exit", seeds[cur])
				o.fail("process-exit", fmt.Sprintf("the library terminated the process (%v)", err), seeds[cur], map[string]interface{}{"files": files, "mutation": label}, nil, nil)
				from = cur + 1
			}
		}
		return o.rep
	}
}
