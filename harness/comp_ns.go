package main

import (
	"math/rand"
	"strings"

	nsfilter "sigs.k8s.io/kustomize/api/filters/namespace"
	"sigs.k8s.io/kustomize/api/types"
	"sigs.k8s.io/kustomize/kyaml/resid"
	"sigs.k8s.io/kustomize/kyaml/yaml"
)

// ns.filter: the namespace transformer's filter on ONE resource (metadata.namespace, role-binding subjects in the three
// subject modes, remaining field specs) against the model Kust.NsFilter.run
func init() {
	components["ns.filter"] = func(r *rand.Rand, tier string) (map[string]interface{}, func() (interface{}, string)) {
		ka := [][2]string{{"Deployment", "apps/v1"}, {"ConfigMap", "v1"}, {"Namespace", "v1"}, {"ClusterRole", "rbac.authorization.k8s.io/v1"},
			{"RoleBinding", "rbac.authorization.k8s.io/v1"}, {"ClusterRoleBinding", "rbac.authorization.k8s.io/v1"}, {"RoleBinding", "rbac.authorization.k8s.io/v1"},
			{"MyKind", "example.com/v1"}, {"Namespace", "example.com/v1"}, {"APIService", "apiregistration.k8s.io/v1"}, {"RoleBinding", "v1"}}[r.Intn(11)]
		meta := [][]interface{}{wF("name", wS("!!str", pick(r, []string{"obj", "default", "ns1"})))}
		docNs := ""
		switch r.Intn(6) {
		case 0, 5:
			docNs = pick(r, []string{"old", "kube-system", "target"})
			meta = append(meta, wF("namespace", wS("!!str", docNs)))
		case 1:
			meta = append(meta, wF("namespace", wS("!!str", "")))
		case 2:
			meta = append(meta, wF("namespace", wS("!!null", pick(r, []string{"null", "~", ""}))))
		case 3:
			meta = append([][]interface{}{wF("namespace", wS("!!str", "first"))}, meta...)
		}
		if r.Intn(3) == 0 {
			meta = append(meta, wF("labels", wM(wF("app", wStr(r)))))
		}
		fields := [][]interface{}{wF("apiVersion", wS("!!str", ka[1])), wF("kind", wS("!!str", ka[0])), wF("metadata", wM(meta...))}
		if r.Intn(12) == 0 {
			fields[2] = wF("metadata", wS("!!null", "null"))
		}
		subject := func() interface{} {
			var fs [][]interface{}
			if r.Intn(8) != 0 {
				fs = append(fs, wF("kind", wS("!!str", pick(r, []string{"ServiceAccount", "ServiceAccount", "User", "Group", "serviceaccount"}))))
			}
			if r.Intn(8) != 0 {
				fs = append(fs, wF("name", wS("!!str", pick(r, []string{"default", "default", "sa1", "builder", "Default", ""}))))
			}
			switch r.Intn(6) {
			case 0, 1:
				sns := pick(r, []string{"old", "other", "target"})
				if docNs != "" && r.Intn(2) == 0 {
					sns = docNs // a subject in the namespace the binding itself is in (and may be leaving)
				}
				fs = append(fs, wF("namespace", wS("!!str", sns)))
			case 2:
				fs = append(fs, wF("namespace", wS("!!str", "")))
			case 3:
				fs = append(fs, wF("namespace", wS("!!null", "null")))
			}
			if r.Intn(10) == 0 {
				fs = append(fs, wF("apiGroup", wS("!!str", "rbac.authorization.k8s.io")))
			}
			if r.Intn(5) == 0 { // the fields in another order
				for i, j := 0, len(fs)-1; i < j; i, j = i+1, j-1 {
					fs[i], fs[j] = fs[j], fs[i]
				}
			}
			return wM(fs...)
		}
		if strings.HasSuffix(ka[0], "RoleBinding") || r.Intn(6) == 0 {
			switch r.Intn(14) {
			case 0:
				fields = append(fields, wF("subjects", wS("!!null", "null")))
			case 1:
				fields = append(fields, wF("subjects", wS("!!str", "nobody")))
			case 2:
				fields = append(fields, wF("subjects", wQ()))
			case 3:
				fields = append(fields, wF("subjects", wQ(subject(), wS("!!str", "stray"), subject())))
			case 4:
				fields = append(fields, wF("subjects", wQ(subject(), wS("!!null", "null"), subject())))
			case 5:
				fields = append(fields, wF("subjects", wQ(wM(wF("kind", wM(wF("x", wS("!!str", "y")))), wF("name", wQ(wS("!!str", "default")))))))
			case 6:
				fields = append(fields, wF("subjects", subject())) // a mapping where a list is expected
			case 7:
			default:
				var ss []interface{}
				for i := 0; i < 1+r.Intn(4); i++ {
					ss = append(ss, subject())
				}
				fields = append(fields, wF("subjects", wQ(ss...)))
			}
			fields = append(fields, wF("roleRef", wM(wF("kind", wS("!!str", "Role")), wF("name", wS("!!str", "r")))))
		}
		if ka[0] == "APIService" || r.Intn(8) == 0 {
			svc := [][]interface{}{wF("name", wS("!!str", "svc"))}
			if r.Intn(2) == 0 {
				svc = append(svc, wF("namespace", wS("!!str", pick(r, []string{"old", ""}))))
			}
			fields = append(fields, wF("spec", wM(wF("service", wM(svc...)), wF("target", wM(wF("namespace", wS("!!str", "t")))))))
		}
		doc := wM(fields...)
		specs := types.FsSlice{
			{Gvk: resid.Gvk{Kind: "Namespace"}, Path: "metadata/name", CreateIfNotPresent: true},
			{Gvk: resid.Gvk{Group: "apiregistration.k8s.io", Kind: "APIService"}, Path: "spec/service/namespace", CreateIfNotPresent: true},
			{Gvk: resid.Gvk{Group: "apiextensions.k8s.io", Kind: "CustomResourceDefinition"}, Path: "spec/conversion/webhook/clientConfig/service/namespace"},
		}
		if r.Intn(3) == 0 {
			specs = append(specs, types.FieldSpec{Gvk: resid.Gvk{Kind: "RoleBinding"}, Path: "subjects/namespace", CreateIfNotPresent: true})
			specs = append(specs, types.FieldSpec{Gvk: resid.Gvk{Kind: "ClusterRoleBinding"}, Path: "subjects/namespace", CreateIfNotPresent: r.Intn(2) == 0})
		}
		if r.Intn(3) == 0 {
			specs = append(specs, types.FieldSpec{Path: pick(r, []string{"metadata/namespace", "spec/target/namespace", "subjects/namespace", "metadata/name", "spec/service/namespace"}),
				CreateIfNotPresent: r.Intn(2) == 0})
		}
		if r.Intn(4) == 0 {
			r.Shuffle(len(specs), func(i, j int) { specs[i], specs[j] = specs[j], specs[i] })
		}
		mode := r.Intn(7)
		if mode > 3 {
			mode = 0
		}
		modeV := []nsfilter.RoleBindingSubjectMode{nsfilter.SubjectModeUnspecified, nsfilter.NoSubjects, nsfilter.AllServiceAccountSubjects, "bogus"}[mode]
		if mode == 0 && r.Intn(2) == 0 {
			modeV = nsfilter.DefaultSubjectsOnly
		}
		target := pick(r, []string{"target", "target", "prod", "123", "true", "n-s"})
		unsetOnly := r.Intn(3) == 0
		rn := optRNode(doc)
		gvk := resid.GvkFromNode(rn)
		var jspecs []interface{}
		for _, s := range specs {
			jspecs = append(jspecs, map[string]interface{}{"group": s.Group, "version": s.Version, "kind": s.Kind, "path": s.Path, "create": s.CreateIfNotPresent})
		}
		args := map[string]interface{}{"doc": doc, "ns": nsGraph(doc, target), "namespace": target, "unsetOnly": unsetOnly, "mode": mode, "specs": jspecs,
			"cluster": gvk.IsClusterScoped(), "apiVersion": rn.GetApiVersion(), "group": gvk.Group, "version": gvk.Version, "kind": gvk.Kind}
		return args, func() (interface{}, string) {
			node := optRNode(doc)
			f := nsfilter.Filter{Namespace: target, FsSlice: append(types.FsSlice{}, specs...), UnsetOnly: unsetOnly, SetRoleBindingSubjects: modeV}
			_, err := f.Filter([]*yaml.RNode{node})
			tag := "ns-" + ka[0]
			if err != nil {
				c := "other"
				m := err.Error()
				switch {
				case strings.Contains(m, "invalid value") && strings.Contains(m, "setRoleBindingSubjects"):
					c = "mode"
				case strings.Contains(m, "wrong node kind") || strings.Contains(m, "wrong Node Kind"):
					c = "kind"
				case strings.Contains(m, "expected sequence or mapping"):
					c = "expected"
				case strings.Contains(m, "empty field name"):
					c = "emptyfield"
				}
				return map[string]interface{}{"err": c}, tag + "-err-" + c
			}
			return map[string]interface{}{"ok": rnodeToWire(node)}, tag + "-ok"
		}
	}
}
