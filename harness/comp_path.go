package main

import (
	"math/rand"
	"path/filepath"
	"sort"
	"strings"

	"sigs.k8s.io/kustomize/api/ifc"
	pkgloader "sigs.k8s.io/kustomize/api/pkg/loader"
	"sigs.k8s.io/kustomize/kyaml/filesys"
)

var pathSegs = []string{".", "..", "a", "b", "c", "", "f.yaml", "a-evil", "ab"}

func genPathExpr(r *rand.Rand, max int, absP int) string {
	n := 1 + r.Intn(max)
	var ps []string
	for i := 0; i < n; i++ {
		ps = append(ps, pick(r, pathSegs))
	}
	s := strings.Join(ps, "/")
	if r.Intn(absP) == 0 {
		s = "/" + s
	}
	return s
}

func init() {
	components["path.clean"] = func(r *rand.Rand, tier string) (map[string]interface{}, func() (interface{}, string)) {
		p := genPathExpr(r, 5, 3)
		a, b := genPathExpr(r, 3, 2), genPathExpr(r, 3, 6)
		if r.Intn(8) == 0 {
			a = ""
		}
		if r.Intn(8) == 0 {
			b = ""
		}
		if r.Intn(12) == 0 {
			p = ""
		}
		args := map[string]interface{}{"path": p, "a": a, "b": b}
		return args, func() (interface{}, string) {
			return map[string]interface{}{"ok": []interface{}{filepath.Clean(p), filepath.Join(a, b)}}, "ok"
		}
	}
	components["path.hasprefix"] = func(r *rand.Rand, tier string) (map[string]interface{}, func() (interface{}, string)) {
		mk := func() string {
			n := r.Intn(4)
			var cs []string
			for i := 0; i < n; i++ {
				cs = append(cs, pick(r, []string{"root", "root-evil", "ro", "a", "ab", "b", "root2", "Root", "ROOT", "A", "aB", "roſt"}))
			}
			return "/" + strings.Join(cs, "/")
		}
		d, p := mk(), mk()
		if r.Intn(3) == 0 { // make real prefixes frequent
			p = d
			if i := strings.LastIndex(d, "/"); i > 0 && r.Intn(2) == 0 {
				p = d[:i]
			}
		}
		args := map[string]interface{}{"d": d, "p": p}
		return args, func() (interface{}, string) {
			res := filesys.ConfirmedDir(d).HasPrefix(filesys.ConfirmedDir(p))
			cls := "no"
			if res {
				cls = "yes"
			}
			return map[string]interface{}{"ok": res}, cls
		}
	}
	components["path.loader"] = func(r *rand.Rand, tier string) (map[string]interface{}, func() (interface{}, string)) {
		// a small tree: /a, /a/b, /a-evil, /c with files
		dirs := []string{"/a", "/a/b", "/a-evil", "/c", "/a/b/c"}
		files := map[string]string{"/a/f.yaml": "A", "/a/b/f.yaml": "AB", "/a-evil/f.yaml": "EVIL", "/c/f.yaml": "C", "/f.yaml": "ROOT", "/a/b/c/f.yaml": "ABC"}
		fsw := []interface{}{}
		var ds []string
		for _, d := range dirs {
			if r.Intn(6) != 0 {
				ds = append(ds, d)
			}
		}
		sort.Strings(ds)
		present := map[string]bool{"/": true}
		for _, d := range ds {
			if present[filepath.Dir(d)] {
				present[d] = true
				fsw = append(fsw, []interface{}{d, "\x00dir"})
			}
		}
		var fl []string
		for f := range files {
			fl = append(fl, f)
		}
		sort.Strings(fl)
		for _, f := range fl {
			if present[filepath.Dir(f)] && r.Intn(5) != 0 {
				fsw = append(fsw, []interface{}{f, files[f]})
			}
		}
		ops := []interface{}{}
		type op struct{ k, p string }
		var opl []op
		for i := 0; i < 1+r.Intn(5); i++ {
			k := "load"
			p := genPathExpr(r, 4, 8)
			if r.Intn(2) == 0 {
				k = "new"
				p = pick(r, []string{"a", "b", "../a", "..", ".", "a/b", "../c", "../a-evil", "/a", "c", "a/../a/b", "f.yaml", "",
					"a/b", "../../c", "../a", "../../a", "../a/b", "../c"})
			} else if r.Intn(2) == 0 {
				p = pick(r, []string{"f.yaml", "b/f.yaml", "../f.yaml", "../a-evil/f.yaml", "/a/f.yaml", "./b/../f.yaml", "../../f.yaml", "c/f.yaml", "b"})
			}
			opl = append(opl, op{k, p})
			ops = append(ops, []interface{}{k, p})
		}
		if r.Intn(6) == 0 {
			// down, sideways, and back above the FIRST root (not the current one)
			opl = []op{{"new", "a/b"}, {"new", "../../c"}, {"new", pick(r, []string{"../a", "../a/b", "../a-evil", "../a/b/c"})}, {"load", "f.yaml"}}
			ops = []interface{}{}
			for _, o := range opl {
				ops = append(ops, []interface{}{o.k, o.p})
			}
		}
		args := map[string]interface{}{"fs": fsw, "ops": ops}
		return args, func() (interface{}, string) {
			fs := filesys.MakeFsInMemory()
			for _, e := range fsw {
				x := e.([]interface{})
				if x[1] == "\x00dir" {
					fs.MkdirAll(x[0].(string))
				} else {
					fs.WriteFile(x[0].(string), []byte(x[1].(string)))
				}
			}
			var cur ifc.Loader = pkgloader.NewFileLoaderAtRoot(fs)
			var out []interface{}
			cls := "all-ok"
			for _, o := range opl {
				if o.k == "new" {
					nl, err := cur.New(o.p)
					if err != nil {
						c := "other"
						m := err.Error()
						switch {
						case strings.Contains(m, "cannot be empty"):
							c = "empty"
						case strings.Contains(m, "cannot be absolute"):
							c = "absolute"
						case strings.Contains(m, "cycle detected"):
							c = "cycle"
						case strings.Contains(m, "must build at directory"):
							c = "notdir"
						}
						out = append(out, map[string]interface{}{"err": c})
						cls = "some-err"
						continue
					}
					cur = nl
					out = append(out, map[string]interface{}{"ok": nl.Root()})
				} else {
					b, err := cur.Load(o.p)
					if err != nil {
						c := "other"
						m := err.Error()
						switch {
						case strings.Contains(m, "security;"):
							c = "security"
						case strings.Contains(m, "must resolve to a file"):
							c = "notfile"
						case strings.Contains(m, "doesn't exist") || strings.Contains(m, "unable to clean") || strings.Contains(m, "no such file"):
							c = "notfound"
						}
						out = append(out, map[string]interface{}{"err": c})
						cls = "some-err"
						continue
					}
					out = append(out, map[string]interface{}{"ok": string(b)})
				}
			}
			return map[string]interface{}{"ok": out}, cls
		}
	}
}
