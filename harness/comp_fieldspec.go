package main

import (
	"math/rand"
	"strings"

	"sigs.k8s.io/kustomize/api/filters/fieldspec"
	"sigs.k8s.io/kustomize/api/filters/filtersutil"
	"sigs.k8s.io/kustomize/api/types"
	"sigs.k8s.io/kustomize/kyaml/resid"
	"sigs.k8s.io/kustomize/kyaml/yaml"
)

var fsPaths = []string{"metadata/labels", "metadata/annotations", "spec/template/metadata/labels", "spec/template/spec/containers/image",
	"spec/template/spec/containers[]/image", "metadata/name", "spec/replicas", "spec/template/spec/containers/env/value",
	"spec/template/spec/nodeSelector", "spec/template/spec/volumes/configMap/name", "spec/selector/matchLabels", "/metadata/name",
	"spec/paused", "metadata/labels/app", "spec/new/deep/field", "spec/template/spec/containers/args", "spec//x", "spec/template[]/spec", "metadata/a\\/b",
	// keys that contain the delimiter several times: every escaped delimiter belongs to the element
	"metadata/annotations/a\\/b\\/c", "metadata/labels/app\\/kubernetes\\/io\\/name", "spec/x\\/y\\/z/w"}

func init() {
	components["fieldspec.apply"] = func(r *rand.Rand, tier string) (map[string]interface{}, func() (interface{}, string)) {
		// the resource's group / version / kind and the spec's are also near misses of each other (one a proper prefix of the
		// other: `v1` / `v1beta2`, `apps` / `app`, `Deployment` / `Deploy`): a selector is an equality per field (seed C02i)
		ka := [][2]string{{"Deployment", "apps/v1"}, {"MyKind", "example.com/v1"}, {"StatefulSet", "apps/v1"},
			{"Deployment", "apps/v1beta2"}, {"MyKind", "example.com/v1alpha1"}, {"Service", "serving.knative.dev/v1alpha1"}}[r.Intn(6)]
		doc := genObject(r, ka[0], ka[1])
		g, v := resid.ParseGroupVersion(ka[1])
		spec := types.FieldSpec{Path: pick(r, fsPaths), CreateIfNotPresent: r.Intn(2) == 0}
		if r.Intn(6) == 0 {
			// a path that crosses a sequence whose elements are sequences themselves (a grid), or a list mixing maps, lists
			// and scalars: the traversal fans out through every level
			cell := func(v string) interface{} {
				return []interface{}{"m", 0, []interface{}{[]interface{}{"image", wS("!!str", v)}, []interface{}{"name", wS("!!str", "c"+v)}}}
			}
			row := func(vs ...string) interface{} {
				var is []interface{}
				for _, v := range vs {
					is = append(is, cell(v))
				}
				return []interface{}{"q", 0, is}
			}
			grid := []interface{}{"q", 0, []interface{}{row("a", "b"), row("c"), []interface{}{"q", 0, []interface{}{}}}}
			mixed := []interface{}{"q", 0, []interface{}{cell("m"), row("n"), wS("!!null", "null")}}
			if sp := wGet(doc, "spec"); sp != nil {
				wSet(sp, "grid", grid)
				wSet(sp, "mixed", mixed)
				spec.Path = pick(r, []string{"spec/grid/image", "spec/grid[]/image", "spec/mixed/image", "spec/grid/name", "spec/grid[]/fresh"})
			}
		}
		if r.Intn(3) == 0 {
			// an INTERMEDIATE element of the path that exists but is null (`metadata:` with nothing under it)
			segs := strings.Split(strings.Trim(spec.Path, "/"), "/")
			if len(segs) >= 2 {
				k := 1 + r.Intn(len(segs)-1)
				cur := doc
				ok := true
				for _, sg := range segs[:k-1] {
					nx := wGet(cur, strings.TrimSuffix(sg, "[]"))
					if nx == nil {
						ok = false
						break
					}
					cur = nx
				}
				if a, isM := cur.([]interface{}); ok && isM && len(a) > 0 && a[0] == "m" {
					wSet(cur, strings.TrimSuffix(segs[k-1], "[]"), wS("!!null", pick(r, []string{"null", "~", ""})))
				}
			}
		}
		switch r.Intn(5) {
		case 0:
			spec.Kind = pick(r, []string{"Deployment", "Service", "Deploy", "My", "Deployments"})
		case 1:
			spec.Group = pick(r, []string{"apps", "batch", "app", "example", "apps.v1"})
		case 2:
			spec.Version = pick(r, []string{"v1", "v1", "v1beta", "v1beta2", "v", "v1alpha1x"})
		}
		ck := r.Intn(4)
		createKind := map[int]yaml.Kind{0: 0, 1: yaml.ScalarNode, 2: yaml.MappingNode, 3: yaml.SequenceNode}[ck]
		createTag := ""
		if ck == 1 && r.Intn(2) == 0 {
			createTag = yaml.NodeTagString
		}
		setName, setVal, setTag := "", pick(r, []string{"SET", "yes", "123", "x y"}), ""
		if r.Intn(2) == 0 {
			setName, setTag = pick(r, []string{"env", "k"}), yaml.NodeTagString
		}
		args := map[string]interface{}{"doc": doc, "group": g, "version": v, "kind": ka[0], "path": spec.Path, "create": spec.CreateIfNotPresent,
			"skind": spec.Kind, "sgroup": spec.Group, "sversion": spec.Version, "createKind": ck, "createTag": createTag,
			"setName": setName, "setValue": setVal, "setTag": setTag, "ns": nsGraph(doc, setVal)}
		return args, func() (interface{}, string) {
			rn := optRNode(doc)
			var set filtersutil.SetFn
			if setName == "" {
				set = filtersutil.SetEntry("", setVal, setTag)
			} else {
				set = filtersutil.SetEntry(setName, setVal, setTag)
			}
			_, err := fieldspec.Filter{FieldSpec: spec, SetValue: set, CreateKind: createKind, CreateTag: createTag}.Filter(rn)
			if err != nil {
				c := "other"
				m := err.Error()
				switch {
				case strings.Contains(m, "wrong node kind"):
					c = "kind"
				case strings.Contains(m, "expected sequence or mapping"):
					c = "expected"
				case strings.Contains(m, "empty field name"):
					c = "emptyfield"
				case strings.Contains(m, "array index") || strings.Contains(m, "wildcard") || strings.Contains(m, "list path element"):
					c = "arg"
				}
				return map[string]interface{}{"err": c}, "err-" + c
			}
			return map[string]interface{}{"ok": rnodeToWire(rn)}, "ok"
		}
	}
}
