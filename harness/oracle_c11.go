package main

import (
	"fmt"
	"math/rand"
	"sort"
	"strings"

	"sigs.k8s.io/kustomize/kyaml/filesys"
)

func docMultiset(out string) []string {
	ds := splitYAMLDocs(out)
	var xs []string
	for _, d := range ds {
		if strings.TrimSpace(d) != "" {
			xs = append(xs, d)
		}
	}
	sort.Strings(xs)
	return xs
}

func eqStrs(a, b []string) bool {
	if len(a) != len(b) {
		return false
	}
	for i := range a {
		if a[i] != b[i] {
			return false
		}
	}
	return true
}

// permuted returns a copy of the tree whose resource-file lists are permuted (the base entry included).
func (t *Tree) writePermuted(fs filesys.FileSystem, root string, r *rand.Rand) {
	t.Write(fs, root)
	for _, L := range t.Layers {
		p := root + "/" + L.Dir + "/kustomization.yaml"
		b, _ := fs.ReadFile(p)
		lines := strings.Split(string(b), "\n")
		// the marshalled kustomization has a `resources:` block of `- item` lines
		start, end := -1, -1
		for i, l := range lines {
			if l == "resources:" {
				start = i + 1
				end = start
				for end < len(lines) && strings.HasPrefix(lines[end], "- ") {
					end++
				}
			}
		}
		if start < 0 || end-start < 2 {
			continue
		}
		items := append([]string{}, lines[start:end]...)
		r.Shuffle(len(items), func(i, j int) { items[i], items[j] = items[j], items[i] })
		copy(lines[start:end], items)
		fs.WriteFile(p, []byte(strings.Join(lines, "\n")))
	}
}

func init() {
	oracles["C11"] = func(seed int64, n int, tier, work string) *oracleReport {
		o := newOracleRun("C11", seed)
		for _, cs := range caseSeeds(seed, n, "C11") {
			r := rand.New(rand.NewSource(cs))
			f := allFeat()
			f.Dense = r.Intn(2) == 0
			t := genTree(r, f)
			addGenerators(r, t)
			if len(t.Layers) > 1 && r.Intn(4) == 0 {
				// a configuration-only child (no resources: a shared nameReference configuration for a custom kind) listed
				// FIRST among the top's resources, and a custom resource whose reference only follows the rename of a generated
				// ConfigMap if that configuration is merged in — in every order of the list
				top := t.Layers[len(t.Layers)-1]
				top.ResF = append(top.ResF, "cfgdemo.yaml")
				top.Docs["cfgdemo.yaml"] = []Obj{{"apiVersion": "example.com/v1", "kind": "CfgDemo", "metadata": Obj{"name": "cfgdemo"}, "spec": Obj{"settingsRef": Obj{"name": "cfgdemo-cm"}}}}
				gens, _ := top.Kust["configMapGenerator"].([]interface{})
				top.Kust["configMapGenerator"] = append(gens, Obj{"name": "cfgdemo-cm", "literals": []interface{}{"a=b"}})
				topDir := top.Dir
				t.PostWrite = func(fs filesys.FileSystem, root string) {
					fs.MkdirAll(root + "/cfgonly")
					fs.WriteFile(root+"/cfgonly/kustomization.yaml", []byte("configurations:\n- c.yaml\n"))
					fs.WriteFile(root+"/cfgonly/c.yaml", []byte("nameReference:\n- kind: ConfigMap\n  fieldSpecs:\n  - path: spec/settingsRef/name\n    kind: CfgDemo\n"))
					p := root + "/" + topDir + "/kustomization.yaml"
					b, _ := fs.ReadFile(p)
					fs.WriteFile(p, []byte(strings.Replace(string(b), "resources:\n", "resources:\n- ../cfgonly\n", 1)))
				}
			}
			if r.Intn(4) == 0 {
				// a resource that others refer to is marked local-config: it takes part in the build (name references, variables,
				// hashes) wherever its kustomization sits in the tree, and is dropped from the output at the very end only
				for _, e := range t.Edges {
					for _, g := range t.Res {
						if g.ID == e.To && !g.Gen && (g.Kind == "ConfigMap" || g.Kind == "Secret") {
							md, _ := g.Obj["metadata"].(Obj)
							an, _ := md["annotations"].(Obj)
							if an != nil {
								an["config.kubernetes.io/local-config"] = "true"
							}
						}
					}
					if r.Intn(2) == 0 {
						break
					}
				}
			}
			if t.PostWrite == nil && r.Intn(4) == 0 {
				// a Component (its own resource, an annotation for everything accumulated so far, a generator that merges
				// into nothing) used by one layer: part of the tree that is wrapped, moved and permuted
				li := r.Intn(len(t.Layers))
				t.Layers[li].Kust["components"] = []interface{}{"../comp1"}
				t.PostWrite = func(fs filesys.FileSystem, root string) {
					fs.MkdirAll(root + "/comp1")
					fs.WriteFile(root+"/comp1/kustomization.yaml", []byte("apiVersion: kustomize.config.k8s.io/v1alpha1\nkind: Component\nresources:\n- extra.yaml\ncommonAnnotations:\n  fromcomp: \"yes\"\nconfigMapGenerator:\n- name: comp-cm\n  literals:\n  - c=d\n"))
					fs.WriteFile(root+"/comp1/extra.yaml", []byte("apiVersion: v1\nkind: ConfigMap\nmetadata:\n  name: comp-extra\ndata:\n  k: v\n"))
				}
			}
			fs := filesys.MakeFsInMemory()
			t.Write(fs, "/w")
			base, err, pnc := safeBuild(func() (string, error) { return runBuild(fs, t.TopDir("/w"), nil) })
			if pnc != nil {
				o.note("panic", cs)
				continue
			}
			o.note(errClass(err), cs)
			baseErr := err != nil
			// --- wrap
			fs.MkdirAll("/w/wrap")
			fs.WriteFile("/w/wrap/kustomization.yaml", []byte("resources:\n- ../"+t.Layers[len(t.Layers)-1].Dir+"\n"))
			w, werr, _ := safeBuild(func() (string, error) { return runBuild(fs, "/w/wrap", nil) })
			if (werr != nil) != baseErr {
				o.fail("wrap-changes-success", "wrapping changes success/failure of the build", cs, t.Describe(), fmt.Sprint(werr), fmt.Sprint(err))
			} else if !baseErr && w != base {
				o.fail("wrap-changes-output", "build(wrap(T)) != build(T)", cs, t.Describe(), firstDiff(base, w), nil)
			}
			// --- move
			fs2 := filesys.MakeFsInMemory()
			t.Write(fs2, "/some/other/place")
			m, merr, _ := safeBuild(func() (string, error) { return runBuild(fs2, t.TopDir("/some/other/place"), nil) })
			if (merr != nil) != baseErr {
				o.fail("move-changes-success", "moving the tree changes success/failure", cs, t.Describe(), fmt.Sprint(merr), fmt.Sprint(err))
			} else if !baseErr && m != base {
				o.fail("move-changes-output", "build(move(T)) != build(T)", cs, t.Describe(), firstDiff(base, m), nil)
			}
			if baseErr {
				continue
			}
			// --- permutation: multiset equality under FIFO, byte equality under legacy
			fs3 := filesys.MakeFsInMemory()
			t.writePermuted(fs3, "/w", r)
			p, perr, _ := safeBuild(func() (string, error) { return runBuild(fs3, t.TopDir("/w"), nil) })
			if perr != nil {
				o.fail("perm-changes-success", "permuting resources lists makes the build fail: "+perr.Error(), cs, t.Describe(), nil, nil)
			} else if !eqStrs(docMultiset(p), docMultiset(base)) {
				o.fail("perm-changes-multiset", "permuting resources lists changes the set of output documents", cs, t.Describe(), firstDiff(strings.Join(docMultiset(base), "---\n"), strings.Join(docMultiset(p), "---\n")), nil)
			}
			top := t.Layers[len(t.Layers)-1]
			top.Kust["sortOptions"] = Obj{"order": "legacy"}
			fs4, fs5 := filesys.MakeFsInMemory(), filesys.MakeFsInMemory()
			t.Write(fs4, "/w")
			t.writePermuted(fs5, "/w", r)
			delete(top.Kust, "sortOptions")
			l1, e1, _ := safeBuild(func() (string, error) { return runBuild(fs4, t.TopDir("/w"), nil) })
			l2, e2, _ := safeBuild(func() (string, error) { return runBuild(fs5, t.TopDir("/w"), nil) })
			if e1 != nil || e2 != nil {
				o.fail("legacy-build-fails", fmt.Sprintf("legacy-sorted build fails: %v / %v", e1, e2), cs, t.Describe(), nil, nil)
			} else if l1 != l2 {
				o.fail("legacy-order-depends-on-input-order", "legacy(build(perm(T))) != legacy(build(T))", cs, t.Describe(), firstDiff(l1, l2), nil)
			} else if !eqStrs(docMultiset(l1), docMultiset(base)) {
				o.fail("legacy-changes-documents", "legacy ordering changes documents, not only their order", cs, t.Describe(), nil, nil)
			}
			// --- affix accumulation
			docs, _ := parseDocs(base)
			bt := byTracer(docs)
			for _, g := range t.Res {
				if g.Gen || len(bt[g.ID]) != 1 {
					continue
				}
				if got, want := outName(bt[g.ID][0]), t.predictedName(g); got != want {
					o.fail("affix-accumulation", fmt.Sprintf("%s %s is named %q, nesting prescribes %q", g.Kind, g.Name, got, want), cs, t.Describe(), got, want)
				}
			}
		}
		return o.rep
	}
}
