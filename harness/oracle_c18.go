package main

import (
	"bufio"
	"encoding/json"
	"flag"
	"fmt"
	"log"
	"math/rand"
	"os"
	"os/exec"
	"path/filepath"
	"reflect"
	"sort"
	"strings"

	"sigs.k8s.io/kustomize/api/krusty"
	"sigs.k8s.io/kustomize/api/krusty/localizer"
	"sigs.k8s.io/kustomize/kyaml/filesys"
)

// C18 oracle: exhaustive fault sweep of `localize` on real directories.
// A child process (`vh loc-child`) runs the sweep; log.Fatalf inside the localizer kills the child, the parent then
// inspects the directory the child left behind and restarts the sweep behind the fatal index.

type locChildLine struct {
	Index   int    `json:"index"`   // index of the failing file-system call (-1: none)
	Call    string `json:"call"`    // the call that was made to fail
	Outcome string `json:"outcome"` // success | error | panic
	Class   string `json:"class"`   // "" or the failure class
	What    string `json:"what"`
	NAll    int    `json:"nAll"`
}

func diskSnapshot(root string, skip string) map[string]string {
	out := map[string]string{}
	filepath.Walk(root, func(p string, info os.FileInfo, err error) error {
		if err != nil {
			return nil
		}
		if skip != "" && (p == skip || strings.HasPrefix(p, skip+"/")) {
			return nil
		}
		if info.IsDir() {
			out[p] = "dir"
		} else {
			b, _ := os.ReadFile(p)
			out[p] = "file:" + string(b)
		}
		return nil
	})
	return out
}

func locBuild(dir string) (string, error) {
	return safeBuildErr(func() (string, error) {
		k := krusty.MakeKustomizer(krusty.MakeDefaultOptions())
		m, err := k.Run(filesys.MakeFsOnDisk(), dir)
		if err != nil {
			return "", err
		}
		y, err := m.AsYaml()
		return string(y), err
	})
}

func safeBuildErr(f func() (string, error)) (s string, err error) {
	defer func() {
		if p := recover(); p != nil {
			err = fmt.Errorf("PANIC: %v", p)
		}
	}()
	return f()
}

func locChild(args []string) {
	fl := flag.NewFlagSet("loc-child", flag.ExitOnError)
	base := fl.String("base", "", "scenario directory (already populated)")
	seed := fl.Int64("seed", 0, "scenario seed")
	from := fl.Int("from", -1, "first fault index (-1: start with the fault-free run)")
	fl.Parse(args)
	lf, _ := os.OpenFile(filepath.Join(*base, "..", filepath.Base(*base)+".log"), os.O_CREATE|os.O_WRONLY|os.O_TRUNC, 0o644)
	log.SetOutput(lf)
	sc := genLocScenario(rand.New(rand.NewSource(*seed)), *base, true)
	w := bufio.NewWriter(os.Stdout)
	emit := func(l locChildLine) {
		b, _ := json.Marshal(l)
		w.Write(b)
		w.WriteString("\n")
		w.Flush()
	}
	source := diskSnapshot(*base, sc.newDir)
	run := func(failAll int) (fs *locFS, err error, panicked interface{}) {
		os.RemoveAll(sc.newDir)
		fs = &locFS{FileSystem: filesys.MakeFsOnDisk(), failMut: -1, failAll: failAll, trace: []interface{}{}}
		defer func() {
			if p := recover(); p != nil {
				panicked = p
			}
		}()
		_, err = localizer.Run(fs, sc.target, sc.scope, sc.newDir)
		return
	}
	// fault-free reference
	fs0, err0, p0 := run(-1)
	if p0 != nil {
		emit(locChildLine{Index: -1, Outcome: "panic", Class: "localize-panics", What: fmt.Sprint(p0)})
		return
	}
	ref := diskSnapshot(sc.newDir, "")
	n := fs0.nAll
	if *from < 0 {
		l := locChildLine{Index: -1, Outcome: "success", NAll: n}
		if err0 != nil {
			l.Outcome = "error"
			if _, e := os.Stat(sc.newDir); e == nil && !(strings.Contains(err0.Error(), "already exists")) {
				l.Class, l.What = "destination-left-behind", "fault-free failing run ("+errClass(err0)+") leaves the destination"
			}
		}
		if now := diskSnapshot(*base, sc.newDir); !reflect.DeepEqual(now, source) {
			l.Class, l.What = "source-modified", "the source tree differs after localize"
		}
		if err0 == nil {
			// every write was below the destination
			for _, t := range fs0.trace {
				p := "/" + strings.Join(toStrs(t.([]interface{})[1:]), "/")
				if p != sc.newDir && !strings.HasPrefix(p, sc.newDir+"/") {
					l.Class, l.What = "write-outside-destination", t.([]interface{})[0].(string)+" "+p
				}
			}
			// the copy builds to the same output
			scope := sc.scope
			if scope == "" {
				scope = sc.target
			}
			rel, _ := filepath.Rel(scope, sc.target)
			a, ea := locBuild(sc.target)
			if ea == nil {
				b, eb := locBuild(filepath.Join(sc.newDir, rel))
				if eb != nil {
					l.Class, l.What = "copy-does-not-build", errClass(eb)
				} else if a != b {
					l.Class, l.What = "build-differs", firstDiff(a, b)
				} else {
					l.Call = "build-equal"
				}
			} else {
				l.Call = "original-does-not-build"
			}
		}
		emit(l)
		*from = 0
	}
	for i := *from; i < n; i++ {
		fs, err, pan := run(i)
		call := ""
		if i < len(fs.all) {
			call = fs.all[i]
		}
		l := locChildLine{Index: i, Call: call, NAll: n}
		_, statErr := os.Stat(sc.newDir)
		left := statErr == nil
		op := strings.SplitN(call, " ", 2)[0]
		switch {
		case pan != nil:
			l.Outcome = "panic"
			if left {
				l.Class = "panic-leaves-destination:" + op
				l.What = fmt.Sprint(pan)
			}
		case err == nil:
			l.Outcome = "success"
			if err0 != nil {
				l.Class, l.What = "fault-turns-failure-into-success", call
			} else if now := diskSnapshot(sc.newDir, ""); !reflect.DeepEqual(now, ref) {
				l.Class, l.What = "success-with-incomplete-destination", "a failing "+op+" was swallowed: the destination differs from the fault-free one"
			}
		default:
			l.Outcome = "error"
			if left && op == "RemoveAll" {
				l.Outcome = "error-cleanup-failed" // the clean-up itself was made to fail: nothing can be expected
			} else if left && !(err0 != nil && strings.Contains(err0.Error(), "already exists")) {
				l.Class, l.What = "destination-left-behind:"+op, "failing "+call+" — "+errClass(err)
			}
		}
		if l.Class == "" {
			if now := diskSnapshot(*base, sc.newDir); !reflect.DeepEqual(now, source) {
				l.Class, l.What = "source-modified", "after failing "+call
			}
		}
		emit(l)
	}
}

func toStrs(l []interface{}) []string {
	var out []string
	for _, x := range l {
		out = append(out, fmt.Sprint(x))
	}
	return out
}

func init() {
	extraCmds["loc-child"] = locChild
	oracles["C18"] = func(seed int64, n int, tier, work string) *oracleReport {
		o := newOracleRun("C18", seed)
		if work == "" {
			work = filepath.Join(os.TempDir(), fmt.Sprintf("vh-c18-%d", os.Getpid()))
		}
		os.MkdirAll(work, 0o755)
		defer os.RemoveAll(work)
		self, _ := os.Executable()
		for ci, cs := range caseSeeds(seed, n, "C18") {
			base, _ := filepath.Abs(filepath.Join(work, fmt.Sprintf("s%d", ci)))
			os.RemoveAll(base)
			sc := genLocScenario(rand.New(rand.NewSource(cs)), base, true)
			sc.populate(filesys.MakeFsOnDisk())
			in := map[string]interface{}{"seed": cs, "target": strings.TrimPrefix(sc.target, base), "scope": strings.TrimPrefix(sc.scope, base),
				"newDir": strings.TrimPrefix(sc.newDir, base), "kustomizations": locKustDump(sc, base)}
			from := -1
			total := -1
			for guard := 0; guard < 400; guard++ {
				cmd := exec.Command(self, "loc-child", "--base", base, "--seed", fmt.Sprint(cs), "--from", fmt.Sprint(from))
				out, _ := cmd.Output()
				last := from - 1
				for _, line := range strings.Split(string(out), "\n") {
					if strings.TrimSpace(line) == "" {
						continue
					}
					var l locChildLine
					if json.Unmarshal([]byte(line), &l) != nil {
						continue
					}
					total = l.NAll
					last = l.Index
					key := l.Outcome
					if l.Index < 0 {
						key = "fault-free-" + l.Outcome
						if l.Call != "" {
							o.rep.Classes[l.Call]++
						}
					} else {
						key = "fault:" + strings.SplitN(l.Call, " ", 2)[0] + ":" + l.Outcome
					}
					fin := map[string]interface{}{"scenario": in, "failIndex": l.Index, "failCall": strings.ReplaceAll(l.Call, base, "")}
					o.note(key, fin)
					if l.Class != "" {
						o.fail(l.Class, strings.ReplaceAll(l.What, base, ""), cs, fin, nil, nil)
					}
				}
				if from < 0 && last < -1+0 && total < 0 {
					// the fault-free run itself died
					o.fail("localize-process-exit", "the fault-free run killed the process", cs, in, nil, nil)
					break
				}
				if total >= 0 && last >= total-1 {
					break
				}
				// the child died while index last+1 was failing: log.Fatalf (or a crash) inside the localizer
				idx := last + 1
				if from < 0 && last < 0 {
					idx = 0
				}
				logb, _ := os.ReadFile(base + ".log")
				msg := strings.TrimSpace(string(logb))
				if i := strings.LastIndex(msg, "\n"); i >= 0 {
					msg = msg[i+1:]
				}
				site := "unknown"
				switch {
				case strings.Contains(msg, "cannot clean validated file path"):
					site = "cleanedRelativePath"
				case strings.Contains(msg, "cannot find path from parent"):
					site = "cleanedRelativePath-rel"
				}
				_, statErr := os.Stat(sc.newDir)
				fin := map[string]interface{}{"scenario": in, "failIndex": idx, "log": strings.ReplaceAll(msg, base, "")}
				o.note("fault:process-exit", fin)
				if statErr == nil {
					o.fail("process-exit-leaves-destination:"+site, "log.Fatalf ends the process with the destination in place: "+strings.ReplaceAll(msg, base, ""), cs, fin, nil, nil)
				}
				from = idx + 1
				if total >= 0 && from >= total {
					break
				}
			}
			os.RemoveAll(base)
			os.Remove(base + ".log")
		}
		return o.rep
	}
}

func locKustDump(sc *locScenario, base string) interface{} {
	out := map[string]interface{}{}
	var ks []string
	for p := range sc.files {
		if isKustName(filepath.Base(p)) {
			ks = append(ks, p)
		}
	}
	sort.Strings(ks)
	for _, p := range ks {
		out[strings.TrimPrefix(p, base)] = sc.files[p]
	}
	return out
}
