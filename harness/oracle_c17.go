package main

import (
	"encoding/json"
	"math/rand"
	"reflect"
	"strings"

	"sigs.k8s.io/kustomize/kyaml/filesys"
)

// the view field an edit operation addresses
var editAddr = map[string]string{
	"addResource": "resources", "removeResource": "resources", "addComponent": "components",
	"addBuildMeta": "buildMetadata", "removeBuildMeta": "buildMetadata", "setBuildMeta": "buildMetadata",
	"addAnnotation": "commonAnnotations", "setLabel": "commonLabels", "setAnnotation": "commonAnnotations",
	"removeLabel": "commonLabels", "removeAnnotation": "commonAnnotations",
	"setNamespace": "namespace", "setNamePrefix": "namePrefix", "setNameSuffix": "nameSuffix",
	"setReplicas": "replicas", "setImage": "images", "addConfigMap": "cms", "removeConfigMap": "cms",
	"addSecret": "secrets", "removeSecret": "secrets", "addPatch": "patches", "removePatch": "patches",
}

// normView: what reading the file does to the view (deprecated spellings move, defaults are filled in)
func normView(v map[string]interface{}) map[string]interface{} {
	out := map[string]interface{}{}
	for k, x := range v {
		out[k] = x
	}
	if out["kind"] == "" {
		out["kind"] = "Kustomization"
	}
	if out["apiVersion"] == "" {
		out["apiVersion"] = "kustomize.config.k8s.io/v1beta1"
		if out["kind"] == "Component" {
			out["apiVersion"] = "kustomize.config.k8s.io/v1alpha1"
		}
	}
	out["resources"] = append(append([]interface{}{}, v["resources"].([]interface{})...), v["bases"].([]interface{})...)
	out["bases"] = []interface{}{}
	out["images"] = append(append([]interface{}{}, v["images"].([]interface{})...), v["imageTags"].([]interface{})...)
	out["imageTags"] = []interface{}{}
	for _, gk := range []string{"cms", "secrets"} {
		gs := []interface{}{}
		for _, g := range v[gk].([]interface{}) {
			gm := map[string]interface{}{}
			for a, b := range g.(map[string]interface{}) {
				gm[a] = b
			}
			if gm["env"] != "" {
				gm["envs"] = append(append([]interface{}{}, gm["envs"].([]interface{})...), gm["env"])
				gm["env"] = ""
			}
			gs = append(gs, gm)
		}
		out[gk] = gs
	}
	return out
}

func wholeLineComments(text string) []string {
	var out []string
	for _, l := range strings.Split(text, "\n") {
		if strings.HasPrefix(strings.TrimLeft(l, " "), "#") {
			out = append(out, l)
		}
	}
	return out
}

// addedLinesAreScalarContent: the comment lines in c2 but not in c1 (as multisets) all occur as whole lines of some
// string value of the parsed view.
func addedLinesAreScalarContent(c1, c2 []string, view map[string]interface{}) bool {
	have := map[string]int{}
	for _, l := range c1 {
		have[l]++
	}
	var added []string
	for _, l := range c2 {
		if have[l] > 0 {
			have[l]--
			continue
		}
		added = append(added, strings.TrimSpace(l))
	}
	if len(added) == 0 {
		return false
	}
	lines := map[string]bool{}
	var walk func(v interface{})
	walk = func(v interface{}) {
		switch x := v.(type) {
		case string:
			for _, l := range strings.Split(x, "\n") {
				lines[strings.TrimSpace(l)] = true
			}
		case map[string]interface{}:
			for _, e := range x {
				walk(e)
			}
		case []interface{}:
			for _, e := range x {
				walk(e)
			}
		}
	}
	walk(view)
	for _, l := range added {
		if !lines[l] {
			return false
		}
	}
	return true
}

func viewOfFS(fs filesys.FileSystem) (map[string]interface{}, string, error) {
	b, _ := fs.ReadFile("/kustomization.yaml")
	k, err := editParse(b)
	if err != nil {
		return nil, string(b), err
	}
	return editView(k), string(b), nil
}

func init() {
	oracles["C17"] = func(seed int64, n int, tier, work string) *oracleReport {
		o := newOracleRun("C17", seed)
		maxOps := 6
		if tier == "thorough" {
			maxOps = 12
		}
		for _, cs := range caseSeeds(seed, n, "C17") {
			r := rand.New(rand.NewSource(cs))
			var f editFile
			for {
				f = genEditFile(r, false)
				if _, err := editParse([]byte(f.text)); err == nil {
					break
				}
			}
			fs := editFS(f.text)
			origComments := wholeLineComments(f.text)
			before, _, _ := viewOfFS(fs)
			nops := 1 + r.Intn(maxOps)
			var hist []interface{}
			in := map[string]interface{}{"file": f.text, "ops": &hist}
			ok := true
			for i := 0; i < nops && ok; i++ {
				op := genEditOp(r, true)
				hist = append(hist, op.argv)
				name := op.wire["op"].(string)
				prevBytes, _ := fs.ReadFile("/kustomization.yaml")
				err := runEditCmd(fs, op.argv)
				if err != nil && strings.HasPrefix(err.Error(), "PANIC") {
					o.fail("edit-panics", err.Error(), cs, in, nil, nil)
					ok = false
					break
				}
				after, text, perr := viewOfFS(fs)
				if perr != nil {
					o.fail("file-unparsable", "after the command the kustomization file no longer parses: "+perr.Error(), cs, in, text, nil)
					ok = false
					break
				}
				if err != nil && text != string(prevBytes) {
					o.fail("failed-command-wrote", "a command that reported an error modified the file", cs, in, text, string(prevBytes))
				}
				// comments
				have := map[string]int{}
				for _, c := range wholeLineComments(text) {
					have[c]++
				}
				for _, c := range origComments {
					if have[c] == 0 {
						o.fail("comment-lost", "whole-line comment of the original file is gone: "+c, cs, in, text, nil)
						break
					}
					have[c]--
				}
				// frame
				if text != string(prevBytes) {
					addr := editAddr[name]
					if name == "addLabel" {
						addr = "commonLabels"
						if op.wire["wosel"] == true {
							addr = "labels"
						}
					}
					exp := normView(before)
					for k := range exp {
						if k == addr {
							continue
						}
						if !reflect.DeepEqual(jnorm(exp[k]), jnorm(after[k])) {
							class := "unaddressed-field-changed"
							if strings.Contains(jstr(after[k]), "# comment") {
								class = "indented-comment-absorbed-by-block-scalar"
							}
							o.fail(class, "`edit "+strings.Join(op.argv, " ")+"` changed the field "+k, cs, in, after[k], exp[k])
							break
						}
					}
				}
				// set is idempotent (bytes)
				if err == nil && strings.HasPrefix(name, "set") {
					if err2 := runEditCmd(fs, op.argv); err2 != nil {
						o.fail("set-not-idempotent", "repeating a successful set command fails: "+err2.Error(), cs, in, nil, nil)
					} else if v2, text2, _ := viewOfFS(fs); !reflect.DeepEqual(jnorm(v2), jnorm(after)) {
						class := "set-not-idempotent"
						if strings.Contains(jstr(v2), "# comment") {
							class = "indented-comment-absorbed-by-block-scalar"
						}
						o.fail(class, "repeating a set command changes the content again", cs, in, firstDiff(text, text2), nil)
					} else if c1, c2 := wholeLineComments(text), wholeLineComments(text2); !reflect.DeepEqual(c1, c2) {
						// (blank lines inside a block scalar are re-emitted as "comment" lines too: the file grows by one blank
						// line per edit; that is a byte-level blemish only and is not counted)
						class := "set-not-idempotent"
						if strings.Contains(text, "# inside") || addedLinesAreScalarContent(c1, c2, v2) {
							// recogniser of C17-K2: every comment line the repetition added is a line of a block scalar's CONTENT
							// (written there by the user, or absorbed earlier through C17-K1): the line-based comment pass
							// re-emits it as a comment as well, once more per edit
							class = "block-scalar-comment-duplicated"
						}
						o.fail(class, "repeating a set command adds comment lines", cs, in, firstDiff(text, text2), nil)
					}
				}
				before, _, _ = viewOfFS(fs)
			}
			if !ok {
				continue
			}
			o.note("sequence", in)
			// ---- add followed by the matching remove
			cur, _, _ := viewOfFS(fs)
			cur = normView(cur)
			type pair struct{ add, remove []string }
			res := pickS(r, []string{"n1.yaml", "n2.yaml"})
			lk := pickS(r, []string{"fresh", "fresh2"})
			pairs := []pair{
				{[]string{"add", "resource", "--no-verify", res}, []string{"remove", "resource", res}},
				{[]string{"add", "label", lk + ":v"}, []string{"remove", "label", lk}},
				{[]string{"add", "annotation", lk + ":v"}, []string{"remove", "annotation", lk}},
				{[]string{"add", "configmap", "freshcm", "--from-literal=k=v"}, []string{"remove", "configmap", "freshcm"}},
				{[]string{"add", "secret", "freshsec", "--from-literal=k=v", "--namespace=ns9"}, []string{"remove", "secret", "freshsec", "--namespace=ns9"}},
				{[]string{"add", "patch", "--path=fresh.yaml", "--name=web"}, []string{"remove", "patch", "--path=fresh.yaml", "--name=web"}},
			}
			if len(cur["buildMetadata"].([]interface{})) == 0 {
				pairs = append(pairs, pair{[]string{"add", "buildmetadata", "managedByLabel"}, []string{"remove", "buildmetadata", "managedByLabel"}})
			}
			p := pairs[r.Intn(len(pairs))]
			hist = append(hist, p.add, p.remove)
			if err := runEditCmd(fs, p.add); err != nil {
				o.note("inverse-add-rejected", in)
				continue
			}
			if err := runEditCmd(fs, p.remove); err != nil {
				o.fail("add-remove-not-inverse", "the matching remove fails: "+err.Error(), cs, in, nil, nil)
				continue
			}
			back, text, perr := viewOfFS(fs)
			if perr != nil {
				o.fail("file-unparsable", perr.Error(), cs, in, text, nil)
				continue
			}
			if !reflect.DeepEqual(jnorm(back), jnorm(cur)) {
				class := "add-remove-not-inverse"
				if strings.Contains(jstr(back), "# comment") {
					class = "indented-comment-absorbed-by-block-scalar"
				}
				o.fail(class, "add then remove does not restore the content", cs, in, back, cur)
			}
			o.note("inverse", in)
		}
		return o.rep
	}
}

// jnorm: through JSON, so that int64/float64 and typed slices compare equal
func jnorm(v interface{}) interface{} {
	var out interface{}
	_ = json.Unmarshal([]byte(jstr(v)), &out)
	return out
}
