package main

import (
	"math/rand"

	"k8s.io/kube-openapi/pkg/validation/spec"

	"sigs.k8s.io/kustomize/kyaml/kio/filters"
	"sigs.k8s.io/kustomize/kyaml/yaml"
)

var fmtKeys = []string{"apiVersion", "kind", "metadata", "name", "namespace", "spec", "template", "containers", "image", "zzz", "aaa", "labels",
	"replicas", "env", "data", "webhooks", "rules", "operations", "b", "status", "args", "command", "ports"}

func genFmtMap(r *rand.Rand, depth int, dup bool) interface{} {
	n := r.Intn(5)
	fs := []interface{}{}
	used := map[string]bool{}
	for i := 0; i < n; i++ {
		k := pick(r, fmtKeys)
		if used[k] && !dup {
			continue
		}
		used[k] = true
		fs = append(fs, []interface{}{k, genFmtNode(r, depth-1, dup)})
	}
	return []interface{}{"m", 0, fs}
}

func genFmtNode(r *rand.Rand, depth int, dup bool) interface{} {
	k := r.Intn(10)
	if depth <= 0 || k < 3 {
		return genScalar(r)
	}
	if k < 7 {
		return genFmtMap(r, depth, dup)
	}
	n := r.Intn(4)
	is := []interface{}{}
	for i := 0; i < n; i++ {
		if r.Intn(2) == 0 {
			is = append(is, genScalar(r))
		} else {
			is = append(is, genFmtMap(r, depth-1, dup))
		}
	}
	return []interface{}{"q", 0, is}
}

var fmtScalarValues = []string{"8080", "on", "yes", "true", "1.5", "0x1F", "null", "~", "abc", "", "1e3", "012", "a b", "no", "NO", "Off", "2020-01-01", "1_000", "25%", "http", "-1", "+1", ".5", "y"}

func init() {
	// fmt.nonstring: yaml.FormatNonStringStyle (the schema-aware quoting step of FormatFilter{UseSchema: true}) on one
	// scalar under one schema: every tag, adversarial texts, every quoting style, every schema type/format.
	components["fmt.nonstring"] = func(r *rand.Rand, tier string) (map[string]interface{}, func() (interface{}, string)) {
		tag := pick(r, []string{"!!str", "!!str", "!!int", "!!bool", "!!float", "!!null", ""})
		val := pick(r, fmtScalarValues)
		style := []int{0, 0, 2, 4, 8, 16, 1, 3}[r.Intn(8)]
		types := [][]string{{}, {"string"}, {"string"}, {"string"}, {"integer"}, {"integer"}, {"boolean"}, {"number"}, {"object"}, {"array"}, {"string", "null"}}[r.Intn(11)]
		format := pick(r, []string{"", "", "int-or-string", "int-or-string", "date-time", "int32"})
		tl := []interface{}{}
		for _, t := range types {
			tl = append(tl, t)
		}
		args := map[string]interface{}{"tag": tag, "value": val, "style": style, "types": tl, "format": format, "ns": nsGraph(val)}
		return args, func() (interface{}, string) {
			n := &yaml.Node{Kind: yaml.ScalarNode, Tag: tag, Value: val, Style: yaml.Style(style)}
			yaml.FormatNonStringStyle(n, spec.Schema{SchemaProps: spec.SchemaProps{Type: types, Format: format}})
			cl := "unchanged"
			if n.Tag != tag || int(n.Style) != style || n.Value != val {
				cl = "changed"
				if len(types) == 1 {
					cl += "-" + types[0]
				}
			}
			return map[string]interface{}{"ok": map[string]interface{}{"tag": n.Tag, "value": n.Value, "style": int(n.Style)}}, cl
		}
	}
	components["fmt.node"] = func(r *rand.Rand, tier string) (map[string]interface{}, func() (interface{}, string)) {
		kind := pick(r, []string{"Deployment", "Deployment", "ConfigMap", "MyKind", "ValidatingWebhookConfiguration", "StatefulSet"})
		apiv := pick(r, []string{"apps/v1", "apps/v1", "v1", "example.com/v1", "admissionregistration.k8s.io/v1"})
		dup := r.Intn(10) == 0
		// containers list (whitelisted path .spec.template.spec.containers, sorted by name)
		conts := []interface{}{}
		for i := 0; i < r.Intn(4); i++ {
			c := genFmtMap(r, 1, dup).([]interface{})
			fs := c[2].([]interface{})
			var nfs []interface{}
			for _, f := range fs {
				if f.([]interface{})[0] != "name" || dup {
					nfs = append(nfs, f)
				}
			}
			nfs = append(nfs, []interface{}{"name", []interface{}{"s", "!!str", pick(r, []string{"b", "a", "c", "ab", ""}), 0}})
			r.Shuffle(len(nfs), func(i, j int) { nfs[i], nfs[j] = nfs[j], nfs[i] })
			c[2] = nfs
			conts = append(conts, c)
		}
		inits := []interface{}{}
		for _, nm := range [][]string{{}, {"wait-for-db", "migrate"}, {"b", "a", "c"}, {"only"}}[r.Intn(4)] {
			inits = append(inits, []interface{}{"m", 0, []interface{}{[]interface{}{"name", []interface{}{"s", "!!str", nm, 0}}, []interface{}{"image", []interface{}{"s", "!!str", "busybox", 0}}}})
		}
		ops := []interface{}{}
		for i := 0; i < r.Intn(4); i++ {
			ops = append(ops, []interface{}{"s", "!!str", pick(r, []string{"CREATE", "UPDATE", "DELETE", "*"}), 0})
		}
		top := []interface{}{
			[]interface{}{"spec", []interface{}{"m", 0, []interface{}{
				[]interface{}{"template", []interface{}{"m", 0, []interface{}{[]interface{}{"spec", []interface{}{"m", 0, []interface{}{[]interface{}{"containers", []interface{}{"q", 0, conts}},
					// lists whose order MEANS something (init containers run one after the other): never reordered
					[]interface{}{"initContainers", []interface{}{"q", 0, inits}}}}}}}},
				[]interface{}{"zzz", genFmtNode(r, 2, dup)}, []interface{}{"replicas", genScalar(r)}}}},
			[]interface{}{"webhooks", []interface{}{"q", 0, []interface{}{[]interface{}{"m", 0, []interface{}{[]interface{}{"rules", []interface{}{"q", 0, []interface{}{
				[]interface{}{"m", 0, []interface{}{[]interface{}{"operations", []interface{}{"q", 0, ops}}}}}}}}}}}},
			[]interface{}{"kind", []interface{}{"s", "!!str", kind, 0}},
			[]interface{}{"extra", genFmtNode(r, depthFor(tier), dup)},
			[]interface{}{"metadata", []interface{}{"m", 0, []interface{}{[]interface{}{"name", []interface{}{"s", "!!str", "x", 0}}, []interface{}{"labels", genFmtMap(r, 1, dup)}}}},
			[]interface{}{"apiVersion", []interface{}{"s", "!!str", apiv, 0}},
		}
		r.Shuffle(len(top), func(i, j int) { top[i], top[j] = top[j], top[i] })
		doc := []interface{}{"m", 0, top}
		args := map[string]interface{}{"doc": doc, "kind": kind, "apiVersion": apiv}
		return args, func() (interface{}, string) {
			rn := yaml.NewRNode(wireToNode(doc))
			out, err := filters.FormatFilter{}.Filter([]*yaml.RNode{rn})
			if err != nil {
				return map[string]interface{}{"err": "fmt"}, "err"
			}
			cls := "plain"
			if yaml.WhitelistedListSortKinds.Has(kind) && yaml.WhitelistedListSortApis.Has(apiv) {
				cls = "whitelisted"
			}
			if dup {
				cls += "+dupkeys"
			}
			return map[string]interface{}{"ok": rnodeToWire(out[0])}, cls
		}
	}
}
