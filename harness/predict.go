package main

// Independent predictions written from the property texts (never calling kustomize code).

var affixSkipKinds = map[string]bool{"CustomResourceDefinition": true, "APIService": true, "Namespace": true}

// predictedName: P_outer..P_inner + name + S_inner..S_outer along the layer chain of r (C11), hash suffix excluded.
func (t *Tree) predictedName(r *GenRes) string {
	name := r.Name
	if r.Kind == "Namespace" {
		// the namespace directive renames Namespace objects (documented field spec metadata/name of kind Namespace)
		for _, li := range t.Chain(r.Layer) {
			if t.Layers[li].NS != "" {
				name = t.Layers[li].NS
			}
		}
		return name
	}
	if affixSkipKinds[r.Kind] {
		return name
	}
	for _, li := range t.Chain(r.Layer) {
		L := t.Layers[li]
		name = L.Prefix + name + L.Suffix
	}
	return name
}

// predictedNS: outermost namespace directive on r's chain (C09); cluster-scoped kinds get none.
func (t *Tree) predictedNS(r *GenRes) string {
	if r.clusterScoped() {
		return ""
	}
	ns := r.NS
	for _, li := range t.Chain(r.Layer) {
		if t.Layers[li].NS != "" {
			ns = t.Layers[li].NS
		}
	}
	return ns
}

func (t *Tree) resByID(id string) *GenRes {
	for _, r := range t.Res {
		if r.ID == id {
			return r
		}
	}
	return nil
}

func outName(o Obj) string {
	md, _ := o["metadata"].(map[string]interface{})
	n, _ := md["name"].(string)
	return n
}

func outNS(o Obj) string {
	md, _ := o["metadata"].(map[string]interface{})
	n, _ := md["namespace"].(string)
	return n
}

// chainNames: every name r has on its way through the layers (original, after each layer's affixes).
func (t *Tree) chainNames(r *GenRes) map[string]bool {
	out := map[string]bool{r.Name: true}
	name := r.Name
	if affixSkipKinds[r.Kind] {
		return out
	}
	for _, li := range t.Chain(r.Layer) {
		L := t.Layers[li]
		name = L.Prefix + name
		out[name] = true
		name = name + L.Suffix
		out[name] = true
	}
	return out
}
