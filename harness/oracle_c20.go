package main

import (
	"bytes"
	"fmt"
	"math/rand"
	"reflect"
	"sort"
	"strconv"
	"strings"

	"sigs.k8s.io/kustomize/kyaml/kio/filters"
	"sigs.k8s.io/kustomize/kyaml/yaml"
	k8syaml "sigs.k8s.io/yaml"
)

func addComments(r *rand.Rand, n *yaml.Node, cnt *int) {
	if n == nil {
		return
	}
	if n.Kind == yaml.MappingNode {
		for i := 0; i+1 < len(n.Content); i += 2 {
			if r.Intn(5) == 0 {
				*cnt++
				n.Content[i].HeadComment = fmt.Sprintf("# head %d", *cnt)
			}
			if r.Intn(6) == 0 && n.Content[i+1].Kind == yaml.ScalarNode {
				*cnt++
				n.Content[i+1].LineComment = fmt.Sprintf("# line %d", *cnt)
			}
			addComments(r, n.Content[i+1], cnt)
		}
	}
	if n.Kind == yaml.SequenceNode {
		for _, c := range n.Content {
			if r.Intn(6) == 0 && c.Kind == yaml.ScalarNode {
				*cnt++
				c.LineComment = fmt.Sprintf("# elem %d", *cnt)
			}
			addComments(r, c, cnt)
		}
	}
}

func commentLines(s string) []string {
	var out []string
	for _, l := range strings.Split(s, "\n") {
		if i := strings.Index(l, "# "); i >= 0 {
			out = append(out, strings.TrimSpace(l[i:]))
		}
	}
	sort.Strings(out)
	return out
}

// normalise sorts the two whitelisted lists so that values compare "up to order of the whitelisted lists"
func normaliseWL(v interface{}, path string) interface{} {
	switch x := v.(type) {
	case map[string]interface{}:
		o := map[string]interface{}{}
		for k, c := range x {
			o[k] = normaliseWL(c, path+"."+k)
		}
		return o
	case []interface{}:
		var o []interface{}
		for _, c := range x {
			o = append(o, normaliseWL(c, path))
		}
		if path == ".spec.template.spec.containers" || path == ".webhooks.rules.operations" {
			sort.SliceStable(o, func(i, j int) bool { return fmt.Sprint(o[i]) < fmt.Sprint(o[j]) })
		}
		return o
	}
	return v
}

func init() {
	oracles["C20"] = func(seed int64, n int, tier, work string) *oracleReport {
		o := newOracleRun("C20", seed)
		gen := components["fmt.node"]
		for _, cs := range caseSeeds(seed, n, "C20") {
			r := rand.New(rand.NewSource(cs))
			if r.Intn(5) == 0 {
				c20Schema(o, r, cs)
				continue
			}
			ndocs := 1 + r.Intn(3)
			var sb strings.Builder
			cnt := 0
			for d := 0; d < ndocs; d++ {
				args, _ := gen(r, tier)
				node := wireToNode(args["doc"])
				// the generator's 10% duplicate-key stream is outside "mapping documents"; skip those
				addComments(r, node, &cnt)
				s, err := yaml.NewRNode(node).String()
				if err != nil {
					continue
				}
				if d > 0 {
					sb.WriteString("---\n")
				}
				sb.WriteString(s)
			}
			in := sb.String()
			if strings.TrimSpace(in) == "" {
				continue
			}
			var b1 bytes.Buffer
			b1b, err := filters.FormatInput(strings.NewReader(in))
			if err != nil {
				o.note("err", in)
				continue
			}
			b1.Write(b1b.Bytes())
			out1 := b1.String()
			b2b, err2 := filters.FormatInput(strings.NewReader(out1))
			if err2 != nil {
				o.fail("format-of-formatted-fails", err2.Error(), cs, in, nil, nil)
				continue
			}
			out2 := b2b.String()
			o.note("ok", in)
			if out1 != out2 {
				cls := "not-idempotent"
				if hasDupKeys(in) {
					cls = "not-idempotent-duplicate-keys"
				}
				o.fail(cls, "fmt(fmt(x)) != fmt(x)", cs, in, firstDiff(out1, out2), nil)
			}
			din, e1 := parseDocs(in)
			dout, e2 := parseDocs(out1)
			if e1 == nil && e2 == nil {
				if len(din) != len(dout) {
					o.fail("document-count", "formatting changes the number of documents", cs, in, len(dout), len(din))
				} else {
					for i := range din {
						// the order of the whitelisted lists is free ONLY in documents of a whitelisted kind and apiVersion
						// (the tables are pinned by T-gen `whitelist_expected`); every other document keeps every list as it is
						kd, _ := din[i]["kind"].(string)
						av, _ := din[i]["apiVersion"].(string)
						var a, b interface{} = map[string]interface{}(din[i]), map[string]interface{}(dout[i])
						if yaml.WhitelistedListSortKinds.Has(kd) && yaml.WhitelistedListSortApis.Has(av) {
							a, b = normaliseWL(a, ""), normaliseWL(b, "")
						}
						if !reflect.DeepEqual(a, b) && !hasDupKeys(in) {
							o.fail("value-changed", "formatting changes a document's data or scalar types", cs, in, jstr(b), jstr(a))
						}
					}
				}
			}
			if c1, c2 := commentLines(in), commentLines(out1); !reflect.DeepEqual(c1, c2) {
				o.fail("comments-changed", "formatting loses or duplicates comments", cs, in, c2, c1)
			}
		}
		return o.rep
	}
}

func hasDupKeys(s string) bool {
	for _, d := range splitYAMLDocs(s) {
		var m map[string]interface{}
		if err := k8syaml.UnmarshalStrict([]byte(d), &m); err != nil && strings.Contains(err.Error(), "already") {
			return true
		}
	}
	return false
}

// c20Schema: FormatFilter{UseSchema: true} on built-in kinds.  A table of fields with their schema types, filled with
// adversarial scalars in every quoting style; the expectation comes from reading the scalar as a YAML 1.1 reader
// (sigs.k8s.io/yaml) does before and after:
//   int-or-string  the parsed value is unchanged (a quoted "8080" stays a string, a plain 8080 stays a number);
//   string         the parsed value is the string with that text;
//   integer/boolean/number  a text of that type is read as that type afterwards (quotes removed), other text that
//                  is not a YAML 1.1 keyword is unchanged.
func c20Schema(o *oracleRun, r *rand.Rand, cs int64) {
	type fld struct{ path, typ string }
	quote := func(v string) string {
		switch r.Intn(3) {
		case 0:
			return "\"" + v + "\""
		case 1:
			return "'" + v + "'"
		}
		if v == "" {
			return "\"\""
		}
		return v
	}
	vals := map[string][]string{
		"int-or-string": {"8080", "80", "http", "25%", "1", "metrics"},
		"string": {"8080", "on", "true", "abc", "1.5", "012", "no", "x-y", "1e3", "yes",
			// numbers have no maximum length: a 128-bit and a 256-bit integer, a long decimal fraction
			"340282366920938463463374607431768211455", "115792089237316195423570985008687907853269984665640564039457584007913129639935",
			"3.14159265358979323846264338327950288419716939937510"},
		"integer":       {"3", "8080", "0"},
		"boolean":       {"true", "false", "on", "no"},
	}
	var doc string
	var fields []fld
	set := map[string]string{}
	put := func(path, typ string) string {
		v := quote(pickS(r, vals[typ]))
		fields = append(fields, fld{path, typ})
		set[path] = v
		return v
	}
	if r.Intn(4) == 0 {
		// a kind WITHOUT a schema (a custom resource, an API version the built-in data does not have): the formatter only
		// re-orders; every scalar — in metadata too — reads after formatting as it read before
		vals["none"] = []string{"2048", "7", "true", "0.5", "abc", "012", "yes", "1e3", "x-y"}
		av := pickS(r, []string{"example.com/v1\nkind: Widget", "extensions/v1beta1\nkind: Deployment", "v1\nkind: Foo"})
		doc = "apiVersion: " + av + "\nmetadata:\n  name: " + put("metadata.name", "none") + "\n  labels:\n    shard: " + put("metadata.labels.shard", "none") +
			"\n    canary: " + put("metadata.labels.canary", "none") + "\n  annotations:\n    weight: " + put("metadata.annotations.weight", "none") +
			"\nspec:\n  replicas: " + put("spec.replicas", "none") + "\n  paused: " + put("spec.paused", "none") + "\n"
	} else if r.Intn(2) == 0 {
		doc = "apiVersion: v1\nkind: Service\nmetadata:\n  name: s\n  labels:\n    l: " + put("metadata.labels.l", "string") +
			"\n  annotations:\n    a: " + put("metadata.annotations.a", "string") +
			"\nspec:\n  publishNotReadyAddresses: " + put("spec.publishNotReadyAddresses", "boolean") +
			"\n  ports:\n  - name: " + put("spec.ports.0.name", "string") + "\n    port: " + put("spec.ports.0.port", "integer") +
			"\n    targetPort: " + put("spec.ports.0.targetPort", "int-or-string") +
			"\n  - port: " + put("spec.ports.1.port", "integer") + "\n    targetPort: " + put("spec.ports.1.targetPort", "int-or-string") + "\n"
	} else {
		doc = "apiVersion: apps/v1\nkind: Deployment\nmetadata:\n  name: d\n  labels:\n    l: " + put("metadata.labels.l", "string") +
			"\nspec:\n  replicas: " + put("spec.replicas", "integer") + "\n  paused: " + put("spec.paused", "boolean") +
			"\n  strategy:\n    rollingUpdate:\n      maxUnavailable: " + put("spec.strategy.rollingUpdate.maxUnavailable", "int-or-string") +
			"\n  template:\n    spec:\n      containers:\n      - name: c\n        image: " + put("spec.template.spec.containers.0.image", "string") +
			"\n        args:\n        - " + put("spec.template.spec.containers.0.args.0", "string") +
			"\n        env:\n        - name: E\n          value: " + put("spec.template.spec.containers.0.env.0.value", "string") +
			"\n        livenessProbe:\n          httpGet:\n            port: " + put("spec.template.spec.containers.0.livenessProbe.httpGet.port", "int-or-string") + "\n"
	}
	rn, err := yaml.Parse(doc)
	if err != nil {
		o.note("schema-unparsable-input", doc)
		return
	}
	if _, err := (filters.FormatFilter{UseSchema: true}).Filter([]*yaml.RNode{rn}); err != nil {
		o.note("schema-err", doc)
		return
	}
	out, _ := rn.String()
	// idempotence with the schema on
	rn2, _ := yaml.Parse(out)
	filters.FormatFilter{UseSchema: true}.Filter([]*yaml.RNode{rn2})
	if out2, _ := rn2.String(); out2 != out {
		o.fail("not-idempotent", "schema-aware fmt(fmt(x)) != fmt(x)", cs, doc, firstDiff(out, out2), nil)
	}
	o.note("schema-ok", doc)
	din, e1 := parseDocs(doc)
	dout, e2 := parseDocs(out)
	if e1 != nil || e2 != nil || len(din) != 1 || len(dout) != 1 {
		o.fail("output-unparsable", "schema-aware formatting output does not parse", cs, doc, out, nil)
		return
	}
	for _, f := range fields {
		var p []interface{}
		for _, st := range strings.Split(f.path, ".") {
			if i, err := strconv.Atoi(st); err == nil {
				p = append(p, i)
			} else {
				p = append(p, st)
			}
		}
		before, _ := getPath(map[string]interface{}(din[0]), p)
		after, _ := getPath(map[string]interface{}(dout[0]), p)
		text := strings.Trim(set[f.path], "\"'")
		var plain interface{}
		k8syaml.Unmarshal([]byte(text), &plain)
		want := before
		switch f.typ {
		case "string":
			want = text
		case "integer":
			if _, isNum := plain.(float64); isNum {
				want = plain
			}
		case "boolean":
			if _, isB := plain.(bool); isB {
				want = plain
			}
		}
		if !reflect.DeepEqual(after, want) {
			o.fail("schema-typed-value-changed:"+f.typ, fmt.Sprintf("field %s (%s) written %s: read as %#v before, %#v after formatting with the schema; expected %#v", f.path, f.typ, set[f.path], before, after, want), cs, doc, after, want)
		}
	}
}
