package main

import (
	"bytes"
	"fmt"
	"math/rand"
	"reflect"
	"sort"
	"strings"

	"sigs.k8s.io/kustomize/kyaml/kio/filters"
	"sigs.k8s.io/kustomize/kyaml/yaml"
	k8syaml "sigs.k8s.io/yaml"
)

func addComments(r *rand.Rand, n *yaml.Node, cnt *int) {
	if n == nil {
		return
	}
	if n.Kind == yaml.MappingNode {
		for i := 0; i+1 < len(n.Content); i += 2 {
			if r.Intn(5) == 0 {
				*cnt++
				n.Content[i].HeadComment = fmt.Sprintf("# head %d", *cnt)
			}
			if r.Intn(6) == 0 && n.Content[i+1].Kind == yaml.ScalarNode {
				*cnt++
				n.Content[i+1].LineComment = fmt.Sprintf("# line %d", *cnt)
			}
			addComments(r, n.Content[i+1], cnt)
		}
	}
	if n.Kind == yaml.SequenceNode {
		for _, c := range n.Content {
			if r.Intn(6) == 0 && c.Kind == yaml.ScalarNode {
				*cnt++
				c.LineComment = fmt.Sprintf("# elem %d", *cnt)
			}
			addComments(r, c, cnt)
		}
	}
}

func commentLines(s string) []string {
	var out []string
	for _, l := range strings.Split(s, "\n") {
		if i := strings.Index(l, "# "); i >= 0 {
			out = append(out, strings.TrimSpace(l[i:]))
		}
	}
	sort.Strings(out)
	return out
}

// normalise sorts the two whitelisted lists so that values compare "up to order of the whitelisted lists"
func normaliseWL(v interface{}, path string) interface{} {
	switch x := v.(type) {
	case map[string]interface{}:
		o := map[string]interface{}{}
		for k, c := range x {
			o[k] = normaliseWL(c, path+"."+k)
		}
		return o
	case []interface{}:
		var o []interface{}
		for _, c := range x {
			o = append(o, normaliseWL(c, path))
		}
		if path == ".spec.template.spec.containers" || path == ".webhooks.rules.operations" {
			sort.SliceStable(o, func(i, j int) bool { return fmt.Sprint(o[i]) < fmt.Sprint(o[j]) })
		}
		return o
	}
	return v
}

func init() {
	oracles["C20"] = func(seed int64, n int, tier, work string) *oracleReport {
		o := newOracleRun("C20", seed)
		gen := components["fmt.node"]
		for _, cs := range caseSeeds(seed, n, "C20") {
			r := rand.New(rand.NewSource(cs))
			ndocs := 1 + r.Intn(3)
			var sb strings.Builder
			cnt := 0
			for d := 0; d < ndocs; d++ {
				args, _ := gen(r, tier)
				node := wireToNode(args["doc"])
				// the generator's 10% duplicate-key stream is outside "mapping documents"; skip those
				addComments(r, node, &cnt)
				s, err := yaml.NewRNode(node).String()
				if err != nil {
					continue
				}
				if d > 0 {
					sb.WriteString("---\n")
				}
				sb.WriteString(s)
			}
			in := sb.String()
			if strings.TrimSpace(in) == "" {
				continue
			}
			var b1 bytes.Buffer
			b1b, err := filters.FormatInput(strings.NewReader(in))
			if err != nil {
				o.note("err", in)
				continue
			}
			b1.Write(b1b.Bytes())
			out1 := b1.String()
			b2b, err2 := filters.FormatInput(strings.NewReader(out1))
			if err2 != nil {
				o.fail("format-of-formatted-fails", err2.Error(), cs, in, nil, nil)
				continue
			}
			out2 := b2b.String()
			o.note("ok", in)
			if out1 != out2 {
				cls := "not-idempotent"
				if hasDupKeys(in) {
					cls = "not-idempotent-duplicate-keys"
				}
				o.fail(cls, "fmt(fmt(x)) != fmt(x)", cs, in, firstDiff(out1, out2), nil)
			}
			din, e1 := parseDocs(in)
			dout, e2 := parseDocs(out1)
			if e1 == nil && e2 == nil {
				if len(din) != len(dout) {
					o.fail("document-count", "formatting changes the number of documents", cs, in, len(dout), len(din))
				} else {
					for i := range din {
						a := normaliseWL(map[string]interface{}(din[i]), "")
						b := normaliseWL(map[string]interface{}(dout[i]), "")
						if !reflect.DeepEqual(a, b) && !hasDupKeys(in) {
							o.fail("value-changed", "formatting changes a document's data or scalar types", cs, in, jstr(b), jstr(a))
						}
					}
				}
			}
			if c1, c2 := commentLines(in), commentLines(out1); !reflect.DeepEqual(c1, c2) {
				o.fail("comments-changed", "formatting loses or duplicates comments", cs, in, c2, c1)
			}
		}
		return o.rep
	}
}

func hasDupKeys(s string) bool {
	for _, d := range splitYAMLDocs(s) {
		var m map[string]interface{}
		if err := k8syaml.UnmarshalStrict([]byte(d), &m); err != nil && strings.Contains(err.Error(), "already") {
			return true
		}
	}
	return false
}
