package main

import (
	"bytes"
	"fmt"
	"log"
	"io"
	"math/rand"
	"reflect"
	"sort"
	"strings"

	"sigs.k8s.io/kustomize/api/provider"
	"sigs.k8s.io/kustomize/api/types"
	"sigs.k8s.io/kustomize/kustomize/v5/commands/edit"
	editset "sigs.k8s.io/kustomize/kustomize/v5/commands/edit/set"
	"sigs.k8s.io/kustomize/kyaml/filesys"
	syaml "sigs.k8s.io/yaml"
)

// ---- the view of a kustomization the Edit model works on

func editImgs(l []types.Image) []interface{} {
	out := []interface{}{}
	for _, i := range l {
		out = append(out, map[string]interface{}{"name": i.Name, "newName": i.NewName, "newTag": i.NewTag, "digest": i.Digest, "tagSuffix": i.TagSuffix})
	}
	return out
}

func editGen(g types.GeneratorArgs, typ string) interface{} {
	return map[string]interface{}{"name": g.Name, "ns": g.Namespace, "literals": fixStrs(g.LiteralSources), "envs": fixStrs(g.EnvSources),
		"env": g.EnvSource, "behavior": g.Behavior, "noHash": g.Options != nil && g.Options.DisableNameSuffixHash, "typ": typ}
}

func editView(k *types.Kustomization) map[string]interface{} {
	labels := []interface{}{}
	for _, l := range k.Labels {
		labels = append(labels, map[string]interface{}{"pairs": fixPairs(l.Pairs), "incSel": l.IncludeSelectors, "incTpl": l.IncludeTemplates})
	}
	reps := []interface{}{}
	for _, r := range k.Replicas {
		reps = append(reps, []interface{}{r.Name, r.Count})
	}
	cms, secs := []interface{}{}, []interface{}{}
	for _, g := range k.ConfigMapGenerator {
		cms = append(cms, editGen(g.GeneratorArgs, ""))
	}
	for _, g := range k.SecretGenerator {
		secs = append(secs, editGen(g.GeneratorArgs, g.Type))
	}
	pats := []interface{}{}
	for _, p := range k.Patches {
		t := ""
		if p.Target != nil {
			// name and namespace of the target, as written (no namespace and `default` are different targets: the first selects
			// in every namespace)
			t = p.Target.Name
			if p.Target.Namespace != "" {
				t += "@" + p.Target.Namespace
			}
		}
		pats = append(pats, map[string]interface{}{"path": p.Path, "patch": p.Patch, "target": t})
	}
	return map[string]interface{}{
		"kind": k.Kind, "apiVersion": k.APIVersion, "resources": fixStrs(k.Resources), "bases": fixStrs(k.Bases),
		"components": fixStrs(k.Components), "buildMetadata": fixStrs(k.BuildMetadata),
		"commonLabels": fixPairs(k.CommonLabels), "commonAnnotations": fixPairs(k.CommonAnnotations), "labels": labels,
		"namespace": k.Namespace, "namePrefix": k.NamePrefix, "nameSuffix": k.NameSuffix,
		"images": editImgs(k.Images), "imageTags": editImgs(k.ImageTags), "replicas": reps, "cms": cms, "secrets": secs, "patches": pats,
	}
}

func editParse(b []byte) (*types.Kustomization, error) {
	var k types.Kustomization
	if err := k.Unmarshal(b); err != nil {
		return nil, err
	}
	return &k, nil
}

// ---- generated kustomization files: field order, comments, blank lines, deprecated spellings, odd capitalisation

type editFile struct {
	text     string
	comments []string // the whole-line comments and blank lines, in order
}

// safe: no indented comment in a file that has a literal block scalar (finding C17-K1: such a comment, relocated
// behind the block scalar, is absorbed by it) — the typed-level correspondence stays clear of it, the oracle does not.
func genEditFile(r *rand.Rand, safe bool) editFile {
	type block struct{ lines []string }
	var blocks []block
	add := func(ls ...string) { blocks = append(blocks, block{ls}) }
	key := func(k string) string {
		switch r.Intn(12) {
		case 0:
			return strings.ToUpper(k)
		case 1:
			return strings.ToUpper(k[:1]) + k[1:]
		}
		return k
	}
	if r.Intn(3) == 0 {
		add(key("apiVersion") + ": kustomize.config.k8s.io/v1beta1")
		add(key("kind") + ": Kustomization")
	}
	if r.Intn(4) > 0 {
		ls := []string{key("resources") + ":"}
		for _, f := range []string{"a.yaml", "b.yaml", "c.yaml"} {
			if r.Intn(2) == 0 {
				ls = append(ls, "- "+f)
			}
		}
		if len(ls) > 1 {
			add(ls...)
		}
	}
	if r.Intn(4) == 0 {
		add(key("bases")+":", "- comp2")
	}
	if r.Intn(4) == 0 {
		add(key("components")+":", "- comp1")
	}
	if r.Intn(3) == 0 {
		add(key("namePrefix") + ": " + pickS(r, []string{"p-", "dev-"}))
	}
	if r.Intn(4) == 0 {
		add(key("nameSuffix") + ": -s")
	}
	if r.Intn(3) == 0 {
		add(key("namespace") + ": " + pickS(r, []string{"ns1", "prod"}))
	}
	if r.Intn(3) == 0 {
		ls := []string{key("commonLabels") + ":"}
		for _, k := range []string{"app", "env", "tier"} {
			if r.Intn(2) == 0 {
				ls = append(ls, "  "+k+": "+pickS(r, []string{"x", "y", `"1"`}))
			}
		}
		if len(ls) > 1 {
			add(ls...)
		}
	}
	if r.Intn(4) == 0 {
		add(key("commonAnnotations")+":", "  note: hello", "  example.com/owner: me")
	}
	if r.Intn(4) == 0 {
		ls := []string{key("labels") + ":"}
		for i := 0; i < 1+r.Intn(2); i++ {
			switch r.Intn(3) {
			case 0:
				ls = append(ls, "- pairs:", "    team: a")
			case 1:
				ls = append(ls, "- includeTemplates: true", "  pairs:", "    team: b", "    tier: db")
			default:
				ls = append(ls, "- includeSelectors: true", "  pairs:", "    sel: s")
			}
		}
		add(ls...)
	}
	if r.Intn(3) == 0 {
		ls := []string{key("images") + ":"}
		if r.Intn(2) == 0 {
			ls = append(ls, "- name: nginx", "  newTag: 1.2.3")
		}
		if r.Intn(2) == 0 {
			ls = append(ls, "- name: busybox", "  newName: registry/bb", "  digest: sha256:abc")
		}
		if r.Intn(3) == 0 {
			ls = append(ls, "- name: alpine", "  newTag: v1", "  tagSuffix: -dev")
		}
		if r.Intn(5) == 0 {
			ls = append(ls, "- name: nginx", "  newTag: dup")
		}
		if len(ls) > 1 {
			add(ls...)
		}
	}
	if r.Intn(6) == 0 {
		add(key("imageTags")+":", "- name: redis", "  newTag: old")
	}
	if r.Intn(4) == 0 {
		ls := []string{key("replicas") + ":"}
		for _, n := range []string{"web", "db"} {
			if r.Intn(2) == 0 {
				ls = append(ls, "- name: "+n, fmt.Sprintf("  count: %d", r.Intn(4)))
			}
		}
		if len(ls) > 1 {
			add(ls...)
		}
	}
	gen := func(field string) {
		ls := []string{key(field) + ":"}
		for gi, n := range []string{"cm1", "cm2", "cm1"} {
			if r.Intn(2) == 0 {
				continue
			}
			ls = append(ls, "- name: "+n)
			if gi == 2 {
				// the same NAME once more, in a namespace of its own: a generator is identified by name and namespace
				ls = append(ls, "  namespace: ns2")
			} else if r.Intn(3) == 0 {
				ls = append(ls, "  namespace: "+pickS(r, []string{"default", "ns1"}))
			}
			if r.Intn(3) == 0 {
				ls = append(ls, "  behavior: "+pickS(r, []string{"create", "merge"}))
			}
			switch r.Intn(4) {
			case 0:
				ls = append(ls, "  env: e.env")
			case 1:
				ls = append(ls, "  envs:", "  - e.env")
			}
			ls = append(ls, "  literals:", "  - a=1")
			if r.Intn(2) == 0 {
				ls = append(ls, "  - b=2")
			}
			if r.Intn(4) == 0 {
				ls = append(ls, "  options:", "    disableNameSuffixHash: true")
			}
		}
		if len(ls) > 1 {
			add(ls...)
		}
	}
	if r.Intn(3) == 0 {
		gen("configMapGenerator")
	}
	if r.Intn(4) == 0 {
		gen("secretGenerator")
	}
	if r.Intn(4) == 0 {
		ls := []string{key("patches") + ":"}
		if r.Intn(2) == 0 {
			ls = append(ls, "- path: p1.yaml", "  target:", "    name: web")
		}
		if r.Intn(2) == 0 {
			if !safe && r.Intn(3) == 0 {
				ls = append(ls, "- patch: |-", "    kind: Deployment", "    # inside", "    metadata:", "      name: web")
			} else {
				ls = append(ls, "- patch: |-", "    kind: Deployment", "", "    metadata:", "      name: web")
			}
		}
		if len(ls) > 1 {
			add(ls...)
		}
	}
	if r.Intn(5) == 0 {
		add(key("buildMetadata")+":", "- "+pickS(r, []string{"originAnnotations", "managedByLabel"}))
	}
	r.Shuffle(len(blocks), func(i, j int) { blocks[i], blocks[j] = blocks[j], blocks[i] })
	var sb strings.Builder
	var comments []string
	nc := 0
	cmt := func(indent string) {
		if r.Intn(3) == 0 {
			sb.WriteString("\n")
			comments = append(comments, "\n")
			return
		}
		nc++
		c := fmt.Sprintf("%s# comment %d\n", indent, nc)
		sb.WriteString(c)
		comments = append(comments, c)
	}
	hasBlock := false
	for _, b := range blocks {
		if strings.Contains(strings.Join(b.lines, "\n"), "|-") {
			hasBlock = true
		}
	}
	for _, b := range blocks {
		for i := r.Intn(3); i > 0 && r.Intn(2) == 0; i-- {
			cmt("")
		}
		for i, l := range b.lines {
			if i > 0 && r.Intn(8) == 0 && !strings.Contains(strings.Join(b.lines, "\n"), "|-") {
				if safe && hasBlock {
					cmt("")
				} else {
					cmt(pickS(r, []string{"", "  ", "    "}))
				}
			}
			sb.WriteString(l + "\n")
			if l == "" {
				comments = append(comments, "\n")
			}
		}
	}
	for i := r.Intn(3); i > 0 && r.Intn(2) == 0; i-- {
		cmt("")
	}
	text := sb.String()
	if r.Intn(6) == 0 && strings.HasSuffix(text, "\n") && len(comments) > 0 && strings.HasPrefix(comments[len(comments)-1], "#") && strings.HasSuffix(text, comments[len(comments)-1]) {
		text = text[:len(text)-1] // last comment line without newline
	}
	return editFile{text, comments}
}

// ---- generated operations

type editOp struct {
	wire map[string]interface{} // for the model
	argv []string               // for cobra
}

func genEditOp(r *rand.Rand, multiline bool) editOp {
	strs := func(pool []string, min, max int) []string {
		var l []string
		for i := min + r.Intn(max-min+1); i > 0; i-- {
			l = append(l, pickS(r, pool))
		}
		return l
	}
	ifs := func(l []string) []interface{} { return fixStrs(l) }
	files := []string{"a.yaml", "b.yaml", "c.yaml", "d.yaml", "sub/e.yaml", "kustomization.yaml",
		// spellings a command must store as given (with --no-verify): not clean, a directory with a slash, a remote target
		"./a.yaml", "sub/../b.yaml", "comp1/", "https://github.com/org/repo//sub?ref=v1", "./kustomization.yaml"}
	pairs := []string{"app:x", "app:z", "env:prod", "tier", `q:"quoted"`, "team:a", "example.com/owner:me", ":bad", "k:v:w"}
	keys := []string{"app", "env", "tier", "team", "note", "q", "nope"}
	dash := func(a []string) []string { return append([]string{"--"}, a...) }
	switch r.Intn(23) {
	case 0:
		a := strs(files, 0, 3)
		return editOp{map[string]interface{}{"op": "addResource", "args": ifs(a)}, append([]string{"add", "resource", "--no-verify"}, a...)}
	case 1:
		a := strs(files, 0, 2)
		return editOp{map[string]interface{}{"op": "removeResource", "args": ifs(a)}, append([]string{"remove", "resource"}, a...)}
	case 2:
		a := strs([]string{"comp1", "comp2"}, 0, 2)
		return editOp{map[string]interface{}{"op": "addComponent", "args": ifs(a)}, append([]string{"add", "component"}, a...)}
	case 3, 4, 5:
		opts := []string{"originAnnotations", "transformerAnnotations", "managedByLabel", "bogus", "originAnnotations,managedByLabel", "managedByLabel,managedByLabel",
			// several options in one call, neighbours in the file among them
			"originAnnotations,transformerAnnotations", "transformerAnnotations,managedByLabel", "originAnnotations,transformerAnnotations,managedByLabel", "managedByLabel,originAnnotations"}
		a := strs(opts, 0, 2)
		if r.Intn(3) > 0 && len(a) > 1 {
			a = a[:1]
		}
		name := []string{"addBuildMeta", "removeBuildMeta", "setBuildMeta"}[r.Intn(3)]
		verb := map[string]string{"addBuildMeta": "add", "removeBuildMeta": "remove", "setBuildMeta": "set"}[name]
		return editOp{map[string]interface{}{"op": name, "args": ifs(a)}, append([]string{verb, "buildmetadata"}, a...)}
	case 6, 7:
		a := strs(pairs[:8], 0, 3)
		force, wosel, tpl := r.Intn(3) == 0, r.Intn(2) == 0, r.Intn(3) == 0
		argv := []string{"add", "label"}
		if force {
			argv = append(argv, "-f")
		}
		if wosel {
			argv = append(argv, "--without-selector")
		}
		if tpl {
			argv = append(argv, "--include-templates")
		}
		return editOp{map[string]interface{}{"op": "addLabel", "args": ifs(a), "force": force, "wosel": wosel, "tpl": tpl}, append(argv, dash(a)...)}
	case 8:
		a := strs(pairs, 0, 3)
		force := r.Intn(3) == 0
		argv := []string{"add", "annotation"}
		if force {
			argv = append(argv, "-f")
		}
		return editOp{map[string]interface{}{"op": "addAnnotation", "args": ifs(a), "force": force}, append(argv, dash(a)...)}
	case 9:
		a := strs(pairs, 0, 3)
		return editOp{map[string]interface{}{"op": "setLabel", "args": ifs(a)}, append([]string{"set", "label"}, dash(a)...)}
	case 10:
		a := strs(append(pairs, "bad key:1", "-x:1"), 0, 3)
		return editOp{map[string]interface{}{"op": "setAnnotation", "args": ifs(a)}, append([]string{"set", "annotation"}, dash(a)...)}
	case 11, 12:
		a := []string{strings.Join(strs(keys, 1, 3), ",")}
		if r.Intn(8) == 0 {
			a = append(a, "extra")
		}
		if r.Intn(10) == 0 {
			a = []string{"app,,env"}
		}
		ignore := r.Intn(3) == 0
		name := pickS(r, []string{"removeLabel", "removeAnnotation"})
		argv := []string{"remove", map[string]string{"removeLabel": "label", "removeAnnotation": "annotation"}[name]}
		if ignore {
			argv = append(argv, "-i")
		}
		return editOp{map[string]interface{}{"op": name, "args": ifs(a), "ignore": ignore}, append(argv, dash(a)...)}
	case 13:
		a := strs([]string{"ns1", "prod", "default", ""}, 0, 2)
		if r.Intn(3) > 0 {
			a = strs([]string{"ns1", "prod", "default"}, 1, 1)
		}
		which := r.Intn(3)
		name := []string{"setNamespace", "setNamePrefix", "setNameSuffix"}[which]
		sub := []string{"namespace", "nameprefix", "namesuffix"}[which]
		if which > 0 && len(a) == 1 {
			a = []string{pickS(r, []string{"p-", "-s", "dev-", ""})}
		}
		return editOp{map[string]interface{}{"op": name, "args": ifs(a)}, append([]string{"set", sub}, dash(a)...)}
	case 14, 15:
		a := strs([]string{"web=3", "db=1", "web=0", "cache=+2", "db=-1", "web=x", "web", "a=1=2", "big=9223372036854775808", "z=007"}, 0, 3)
		return editOp{map[string]interface{}{"op": "setReplicas", "args": ifs(a)}, append([]string{"set", "replicas"}, dash(a)...)}
	case 16, 17:
		a := strs([]string{"nginx:1.9", "nginx=my/nginx:*", "busybox=*:2", "busybox@sha256:ffff", "alpine:*", "alpine=*", "redis=r.io:5000/redis:7@sha256:1234",
			"nginx", "nginx=*@*", "new=other:*", "x=y", "localhost:5000/img:tag", "redis:*@*"}, 0, 3)
		return editOp{map[string]interface{}{"op": "setImage", "args": ifs(a)}, append([]string{"set", "image"}, dash(a)...)}
	case 18, 19:
		secret := r.Intn(3) == 0
		names := strs([]string{"cm1", "cm2", "cm3"}, 0, 2)
		if r.Intn(4) > 0 {
			names = names[:min(len(names), 1)]
			if len(names) == 0 {
				names = []string{"cm1"}
			}
		}
		ns := pickS(r, []string{"", "", "default", "ns1"})
		lits := strs([]string{"a=1", "b=2", "c=3", "d=x=y", "novalue", "=v"}, 0, 2)
		behavior := pickS(r, []string{"", "", "merge", "create", "bogus"})
		noHash := r.Intn(4) == 0
		argv := []string{"add", "configmap"}
		w := map[string]interface{}{"op": "addConfigMap", "args": ifs(names), "ns": ns, "lits": ifs(lits), "behavior": behavior, "noHash": noHash}
		if secret {
			argv = []string{"add", "secret"}
			behavior = ""
			w = map[string]interface{}{"op": "addSecret", "args": ifs(names), "ns": ns, "lits": ifs(lits), "noHash": noHash}
		}
		for _, l := range lits {
			argv = append(argv, "--from-literal="+l)
		}
		if ns != "" {
			argv = append(argv, "--namespace="+ns)
		}
		if behavior != "" {
			argv = append(argv, "--behavior="+behavior)
		}
		if noHash {
			argv = append(argv, "--disableNameSuffixHash")
		}
		return editOp{w, append(argv, dash(names)...)}
	case 20:
		secret := r.Intn(3) == 0
		a := []string{strings.Join(strs([]string{"cm1", "cm2", "cm3"}, 1, 2), ",")}
		if r.Intn(8) == 0 {
			a = append(a, "x")
		}
		ns := pickS(r, []string{"", "", "default", "ns1", "ns2"})
		argv := []string{"remove", "configmap"}
		name := "removeConfigMap"
		if secret {
			argv, name = []string{"remove", "secret"}, "removeSecret"
		}
		if ns != "" {
			argv = append(argv, "--namespace="+ns)
		}
		return editOp{map[string]interface{}{"op": name, "args": ifs(a), "ns": ns}, append(argv, dash(a)...)}
	default:
		p := map[string]interface{}{"path": "", "patch": "", "target": ""}
		var argv []string
		switch r.Intn(6) {
		case 0:
		case 1:
			p["path"], p["patch"] = "p1.yaml", "kind: X"
		case 2, 3:
			p["path"] = pickS(r, []string{"p1.yaml", "p2.yaml"})
		default:
			p["patch"] = pickS(r, []string{"kind: Deployment\n\nmetadata:\n  name: web", "kind: X"})
			if !multiline {
				p["patch"] = "kind: X"
			}
		}
		if r.Intn(2) == 0 {
			p["target"] = pickS(r, []string{"web", "db"})
		}
		if p["path"] != "" {
			argv = append(argv, "--path="+p["path"].(string))
		}
		if p["patch"] != "" {
			argv = append(argv, "--patch="+p["patch"].(string))
		}
		if p["target"] != "" {
			argv = append(argv, "--name="+p["target"].(string))
			if tns := pickS(r, []string{"", "", "default", "prod"}); tns != "" {
				argv = append(argv, "--namespace="+tns)
				p["target"] = p["target"].(string) + "@" + tns
			}
		}
		if r.Intn(2) == 0 {
			return editOp{map[string]interface{}{"op": "addPatch", "p": p}, append([]string{"add", "patch"}, argv...)}
		}
		return editOp{map[string]interface{}{"op": "removePatch", "p": p}, append([]string{"remove", "patch"}, argv...)}
	}
}

func editFS(text string) filesys.FileSystem {
	fs := filesys.MakeFsInMemory()
	fs.WriteFile("/kustomization.yaml", []byte(text))
	for _, f := range []string{"a.yaml", "b.yaml", "c.yaml", "d.yaml", "sub/e.yaml", "p1.yaml", "p2.yaml"} {
		fs.WriteFile("/"+f, []byte("apiVersion: v1\nkind: ConfigMap\nmetadata:\n  name: "+strings.ReplaceAll(strings.TrimSuffix(f, ".yaml"), "/", "-")+"\n"))
	}
	fs.WriteFile("/e.env", []byte("ENVK=1\n"))
	for _, c := range []string{"comp1", "comp2"} {
		fs.WriteFile("/"+c+"/kustomization.yaml", []byte("apiVersion: kustomize.config.k8s.io/v1alpha1\nkind: Component\n"))
	}
	return fs
}

func runEditCmd(fs filesys.FileSystem, argv []string) (err error) {
	defer func() {
		if p := recover(); p != nil {
			err = fmt.Errorf("PANIC: %v", p)
		}
	}()
	log.SetOutput(io.Discard)
	pvd := provider.NewDefaultDepProvider()
	var w bytes.Buffer
	c := edit.NewCmdEdit(fs, pvd.GetFieldValidator(), pvd.GetResourceFactory(), &w)
	c.SetArgs(argv)
	c.SetOut(io.Discard)
	c.SetErr(io.Discard)
	c.SilenceUsage, c.SilenceErrors = true, true
	return c.Execute()
}

// marshalFieldRef: the YAML of one field of a kustomization, the way the third-party marshaller renders it
func marshalFieldRef(k *types.Kustomization, field string) string {
	v := reflect.ValueOf(*k).FieldByName(field)
	if !v.IsValid() {
		return ""
	}
	if v.Kind() == reflect.Struct {
		return ""
	}
	if v.Kind() == reflect.Ptr {
		if v.IsNil() {
			return ""
		}
	} else if v.Len() == 0 {
		return ""
	}
	one := &types.Kustomization{}
	reflect.ValueOf(one).Elem().FieldByName(field).Set(v)
	b, err := syaml.Marshal(one)
	if err != nil {
		return ""
	}
	return string(b)
}

func init() {
	components["edit.seq"] = func(r *rand.Rand, tier string) (map[string]interface{}, func() (interface{}, string)) {
		var f editFile
		var k0 *types.Kustomization
		for {
			f = genEditFile(r, true)
			var err error
			if k0, err = editParse([]byte(f.text)); err == nil {
				break
			}
		}
		n := 1 + r.Intn(6)
		if tier == "thorough" {
			n = 1 + r.Intn(12)
		}
		var ops []editOp
		var wops []interface{}
		keys := map[string]bool{}
		for i := 0; i < n; i++ {
			o := genEditOp(r, !strings.Contains(f.text, " #")) // see genEditFile: keep clear of finding C17-K1
			ops = append(ops, o)
			wops = append(wops, o.wire)
			if o.wire["op"] == "setAnnotation" {
				for _, a := range o.wire["args"].([]interface{}) {
					s := a.(string)
					if c := strings.Index(s, ":"); c > 0 {
						s = s[:c]
					}
					keys[s] = true
				}
			}
		}
		valid := []string{}
		for kk := range keys {
			if editset.IsValidKey(kk) {
				valid = append(valid, kk)
			}
		}
		sort.Strings(valid)
		args := map[string]interface{}{"init": editView(k0), "ops": wops, "validKeys": fixStrs(valid), "file": f.text}
		return args, func() (interface{}, string) {
			fs := editFS(f.text)
			outs := []interface{}{}
			nerr := 0
			for _, o := range ops {
				err := runEditCmd(fs, o.argv)
				if err != nil && strings.HasPrefix(err.Error(), "PANIC") {
					return map[string]interface{}{"panic": err.Error()}, "panic"
				}
				b, _ := fs.ReadFile("/kustomization.yaml")
				k, perr := editParse(b)
				if perr != nil {
					return map[string]interface{}{"err": "file no longer parses: " + perr.Error()}, "unparsable"
				}
				res := "ok"
				if err != nil {
					res = "err"
					nerr++
				}
				outs = append(outs, map[string]interface{}{"r": res, "view": editView(k)})
			}
			cl := "all-ok"
			if nerr == len(ops) {
				cl = "all-err"
			} else if nerr > 0 {
				cl = "mixed"
			}
			return map[string]interface{}{"ok": outs}, cl
		}
	}
	components["edit.rewrite"] = func(r *rand.Rand, tier string) (map[string]interface{}, func() (interface{}, string)) {
		for {
			f := genEditFile(r, true)
			if _, err := editParse([]byte(f.text)); err != nil {
				continue
			}
			// what the fields render to after the command: computed from the typed result by the reference marshaller
			fs := editFS(f.text)
			if err := runEditCmd(fs, []string{"set", "namesuffix", "--", "-sfx"}); err != nil {
				continue
			}
			out, _ := fs.ReadFile("/kustomization.yaml")
			k, perr := editParse([]byte(f.text))
			if perr != nil {
				continue
			}
			k.FixKustomization()
			k.NameSuffix = "-sfx"
			fields := []interface{}{}
			t := reflect.TypeOf(*k)
			for i := 0; i < t.NumField(); i++ {
				fields = append(fields, []interface{}{t.Field(i).Name, marshalFieldRef(k, t.Field(i).Name)})
			}
			fields = append(fields, []interface{}{"APIVersion", marshalFieldRef(k, "APIVersion")}, []interface{}{"Kind", marshalFieldRef(k, "Kind")})
			args := map[string]interface{}{"file": f.text, "fields": fields}
			return args, func() (interface{}, string) {
				cl := "plain"
				if len(f.comments) > 0 {
					cl = "comments"
				}
				return map[string]interface{}{"ok": string(out)}, cl
			}
		}
	}
}
