package main

import (
	"errors"
	"fmt"
	"math/rand"
	"os"
	"path/filepath"
	"sort"
	"strings"

	"sigs.k8s.io/kustomize/api/krusty/localizer"
	"sigs.k8s.io/kustomize/api/provider"
	"sigs.k8s.io/kustomize/api/resmap"
	"sigs.k8s.io/kustomize/kyaml/filesys"
)

// ---- a file system that numbers its calls and lets one of them fail

type locFS struct {
	filesys.FileSystem
	nMut, nAll       int
	failMut, failAll int // index of the failing mutating call / of the failing call of any kind (-1: none)
	trace            []interface{}
	all              []string
}

var errInjected = errors.New("injected file-system failure")

func (f *locFS) any(op, p string) error {
	i := f.nAll
	f.nAll++
	f.all = append(f.all, op+" "+p)
	if i == f.failAll {
		return errInjected
	}
	return nil
}

func (f *locFS) mut(op, p string) error {
	if err := f.any(op, p); err != nil {
		f.trace = append(f.trace, append([]interface{}{op}, compsIf(p)...))
		f.nMut++
		return err
	}
	i := f.nMut
	f.nMut++
	f.trace = append(f.trace, append([]interface{}{op}, compsIf(p)...))
	if i == f.failMut {
		return errInjected
	}
	return nil
}

func compsIf(p string) []interface{} {
	out := []interface{}{}
	for _, c := range strings.Split(filepath.Clean(p), "/") {
		if c != "" {
			out = append(out, c)
		}
	}
	return out
}

func (f *locFS) Mkdir(p string) error {
	if e := f.mut("Mkdir", p); e != nil {
		return e
	}
	return f.FileSystem.Mkdir(p)
}
func (f *locFS) MkdirAll(p string) error {
	if e := f.mut("MkdirAll", p); e != nil {
		return e
	}
	return f.FileSystem.MkdirAll(p)
}
func (f *locFS) RemoveAll(p string) error {
	if e := f.mut("RemoveAll", p); e != nil {
		return e
	}
	return f.FileSystem.RemoveAll(p)
}
func (f *locFS) WriteFile(p string, d []byte) error {
	if e := f.mut("WriteFile", p); e != nil {
		return e
	}
	return f.FileSystem.WriteFile(p, d)
}
func (f *locFS) ReadFile(p string) ([]byte, error) {
	if e := f.any("ReadFile", p); e != nil {
		return nil, e
	}
	return f.FileSystem.ReadFile(p)
}
func (f *locFS) CleanedAbs(p string) (filesys.ConfirmedDir, string, error) {
	if e := f.any("CleanedAbs", p); e != nil {
		return "", "", e
	}
	return f.FileSystem.CleanedAbs(p)
}
func (f *locFS) ReadDir(p string) ([]string, error) {
	if e := f.any("ReadDir", p); e != nil {
		return nil, e
	}
	return f.FileSystem.ReadDir(p)
}

// ---- scenarios

type locKust struct {
	root string
	name string
	refs [][2]string // kind (file|root|res), raw
	yaml string
}

type locScenario struct {
	base                   string // everything lives below base
	files                  map[string]string
	dirs                   []string
	kusts                  []*locKust
	target, scope, newDir  string
	resContents            []string
	multiMapFields         bool // some kustomization uses more than one of the fields Go iterates in map order
}

const cmYAML = "apiVersion: v1\nkind: ConfigMap\nmetadata:\n  name: %s\n"

func genLocScenario(r *rand.Rand, base string, full bool) *locScenario {
	sc := &locScenario{base: base, files: map[string]string{}}
	buildable := full && r.Intn(2) == 0
	innerKind := pickS(r, []string{"", "Component"})
	if buildable {
		innerKind = ""
	}
	clean := buildable || r.Intn(5) < 3 // most scenarios have only valid references: the interesting failures are the injected ones
	good := func(valid []string, all []string) []string {
		if clean {
			return valid
		}
		return all
	}
	scopeDir := base + "/scope"
	appRel := pickS(r, []string{"app", "app", "teams/app"})
	app := scopeDir + "/" + appRel
	lib := scopeDir + "/lib"
	inner := app + "/inner"
	outside := base + "/outside"
	sc.target = app
	switch r.Intn(4) {
	case 0:
		sc.scope = ""
	case 1:
		sc.scope = app
	default:
		sc.scope = scopeDir
	}
	sc.newDir = pickS(r, []string{base + "/out", base + "/out", scopeDir + "/out", base + "/deep/out"})
	if !clean && r.Intn(12) == 0 {
		sc.newDir = lib // exists already
	}
	resFile := func(dir, rel, name string) {
		c := fmt.Sprintf(cmYAML, name)
		sc.files[dir+"/"+rel] = c
		sc.resContents = append(sc.resContents, c)
	}
	up := strings.Repeat("../", strings.Count(appRel, "/")+1)
	var build func(dir string, depth int, kind string)
	build = func(dir string, depth int, kind string) {
		k := &locKust{root: dir, name: pickS(r, []string{"kustomization.yaml", "kustomization.yaml", "kustomization.yml", "Kustomization"})}
		sc.kusts = append(sc.kusts, k)
		var y strings.Builder
		if kind == "Component" {
			y.WriteString("apiVersion: kustomize.config.k8s.io/v1alpha1\nkind: Component\n")
		}
		base := filepath.Base(dir)
		resFile(dir, "dep.yaml", base+"-dep")
		resFile(dir, "sub/cm.yaml", base+"-cm")
		sc.files[dir+"/data/f.txt"] = "hello " + base
		sc.files[dir+"/data/e.env"] = "K=V\n"
		resFile(dir, "p.yaml", base+"-dep")
		sc.files[dir+"/r.yaml"] = "source:\n  kind: ConfigMap\n  name: " + base + "-dep\n  fieldPath: metadata.name\ntargets:\n- select:\n    name: " + base + "-cm\n  fieldPaths:\n  - metadata.labels.from\n  options:\n    create: true\n"
		fileSp := []string{"dep.yaml", "./dep.yaml", "sub/cm.yaml", "sub/../dep.yaml", "sub//cm.yaml", "data/../sub/./cm.yaml"}
		badFile := []string{"missing.yaml", "../lib/l.yaml", dir + "/dep.yaml", "data/f.txt", up + "../out/x.yaml"}
		var roots, badRoots []string
		if dir == app {
			roots = []string{up + "lib", "inner", "./inner/", up + "lib/../lib"}
			badRoots = []string{up + "../outside", ".", "..", "nonexistent", up + "../out", "dep.yaml"}
		} else {
			badRoots = []string{".", "nonexistent"}
			// a root OUTSIDE the scope referenced from a nested root (the scope binds every loader, not only the target's)
			if dir == lib {
				badRoots = append(badRoots, "../../outside", "../../outside")
			} else {
				badRoots = append(badRoots, "../"+up+"../outside", "../"+up+"../outside")
			}
			if dir == lib && r.Intn(3) == 0 {
				roots = []string{"../" + appRel + "/inner"}
			}
			if r.Intn(4) == 0 {
				badRoots = append(badRoots, "../"+appRel) // cycle
			}
			if dir == lib && r.Intn(3) == 0 && !clean {
				roots = append(roots, "../"+appRel) // cycle through a valid-looking entry
			}
		}
		nMap := 0
		emitList := func(field, kind string, pool, bad []string, n int) {
			var items []string
			for i := 0; i < n; i++ {
				if !clean && len(bad) > 0 && r.Intn(9) == 0 {
					items = append(items, pickS(r, bad))
				} else if len(pool) > 0 {
					items = append(items, pickS(r, pool))
				}
			}
			if len(items) == 0 {
				return
			}
			nMap++
			y.WriteString(field + ":\n")
			for _, it := range items {
				y.WriteString("- " + it + "\n")
				k.refs = append(k.refs, [2]string{kind, it})
			}
		}
		// the fields Go walks in map order: bases, components, configurations, crds, resources — one of them only,
		// unless the scenario is for the outcome sweep (no trace comparison)
		choice := r.Intn(4)
		if buildable {
			// a tree that `kustomize build` accepts: every resource once, the inner root through exactly one field
			choice = -1
			items := []string{pickS(r, []string{"dep.yaml", "./dep.yaml", "sub/../dep.yaml"}), pickS(r, []string{"sub/cm.yaml", "sub//cm.yaml", "data/../sub/./cm.yaml"})}
			via := r.Intn(3)
			if dir == app {
				items = append(items, pickS(r, []string{up + "lib", up + "lib/../lib"}))
				if via == 0 {
					items = append(items, pickS(r, []string{"inner", "./inner/"}))
				}
			}
			r.Shuffle(len(items), func(i, j int) { items[i], items[j] = items[j], items[i] })
			y.WriteString("resources:\n")
			for _, it := range items {
				y.WriteString("- " + it + "\n")
				k.refs = append(k.refs, [2]string{"res", it})
			}
			if dir == app && via == 1 {
				y.WriteString("bases:\n- inner\n")
				k.refs = append(k.refs, [2]string{"root", "inner"})
				sc.multiMapFields = true
			}
			if dir == app && via == 2 {
				y.WriteString("components:\n- inner\n")
				k.refs = append(k.refs, [2]string{"root", "inner"})
				sc.multiMapFields = true
				innerKind = "Component"
			}
		}
		if choice >= 0 && (choice <= 1 || full) {
			var pool, bad []string
			pool = append(append(pool, fileSp...), roots...)
			bad = append(append(bad, badFile...), badRoots...)
			emitList("resources", "res", pool, bad, 1+r.Intn(4))
		}
		if choice == 2 || (full && !buildable && r.Intn(3) == 0) {
			emitList("bases", "root", roots, badRoots, 1+r.Intn(2))
		}
		if choice == 3 || (full && !buildable && r.Intn(3) == 0) {
			emitList("components", "root", roots, badRoots, 1+r.Intn(2))
		}
		if nMap > 1 {
			sc.multiMapFields = true
		}
		gen := func(field string) {
			y.WriteString(field + ":\n- name: g-" + base + "\n")
			if r.Intn(3) == 0 {
				e := pickS(r, good([]string{"data/e.env", "./data/e.env"}, []string{"data/e.env", "./data/e.env", "data/none.env"}))
				y.WriteString("  env: " + e + "\n")
				k.refs = append(k.refs, [2]string{"file", e})
			}
			if r.Intn(3) == 0 {
				y.WriteString("  envs:\n  - data/e.env\n")
				k.refs = append(k.refs, [2]string{"file", "data/e.env"})
			}
			if r.Intn(2) == 0 {
				y.WriteString("  files:\n")
				for i := 0; i < 1+r.Intn(2); i++ {
					src := pickS(r, good([]string{"data/f.txt", "k=data/f.txt", "k2=./data/../data/f.txt"}, []string{"data/f.txt", "k=data/f.txt", "k2=./data/../data/f.txt", "data/missing.txt"}))
					y.WriteString("  - " + src + "\n")
					f := src
					if i := strings.Index(src, "="); i >= 0 {
						f = src[i+1:]
					}
					k.refs = append(k.refs, [2]string{"file", f})
				}
			} else {
				y.WriteString("  literals:\n  - a=b\n")
			}
		}
		if r.Intn(2) == 0 {
			gen("configMapGenerator")
		}
		if r.Intn(5) == 0 {
			gen("secretGenerator")
		}
		if r.Intn(3) == 0 {
			p := pickS(r, good([]string{"p.yaml", "./p.yaml", "sub/../p.yaml"}, []string{"p.yaml", "./p.yaml", "sub/../p.yaml", "nope.yaml"}))
			y.WriteString("patches:\n- path: " + p + "\n")
			k.refs = append(k.refs, [2]string{"file", p})
			if r.Intn(3) == 0 {
				y.WriteString("- patch: |-\n    apiVersion: v1\n    kind: ConfigMap\n    metadata:\n      name: " + base + "-dep\n    data:\n      x: y\n")
				k.refs = append(k.refs, [2]string{"file", ""})
			}
		}
		if r.Intn(6) == 0 {
			y.WriteString("patchesStrategicMerge:\n- p.yaml\n")
			k.refs = append(k.refs, [2]string{"file", "p.yaml"})
		}
		if r.Intn(5) == 0 || (buildable && r.Intn(2) == 0) {
			// (unclean and absolute spellings: the copy's kustomization must name the COPIED file)
			rsp := []string{"r.yaml", "./r.yaml", "sub/../r.yaml", "data/.././r.yaml", dir + "/r.yaml", "../" + filepath.Base(dir) + "/r.yaml"}
			p := pickS(r, good(rsp, append(append([]string{}, rsp...), "gone.yaml")))
			y.WriteString("replacements:\n- path: " + p + "\n")
			k.refs = append(k.refs, [2]string{"file", p})
		}
		if r.Intn(4) == 0 {
			// builtin plugin configuration listed under generators / transformers / validators (processed after every
			// native field): a configuration FILE is localized; a DIRECTORY there is an error, as for any file-typed field
			field := pickS(r, []string{"transformers", "generators"})
			sc.files[dir+"/plug-t.yaml"] = "apiVersion: builtin\nfieldSpecs:\n- create: true\n  path: metadata/labels\nkind: LabelTransformer\nlabels:\n  plug: in\nmetadata:\n  name: lt-" + base + "\n" // key-sorted: the localizer re-serialises plugin configurations
			sc.files[dir+"/plug-g.yaml"] = "apiVersion: builtin\nkind: ConfigMapGenerator\nliterals:\n- a=b\nmetadata:\n  name: pg-" + base + "\n"
			entry := "plug-t.yaml"
			if field == "generators" {
				entry = "plug-g.yaml"
			}
			if !clean && r.Intn(2) == 0 {
				field = pickS(r, []string{"transformers", "generators", "validators"})
				entry = pickS(r, append([]string{"sub", "data"}, roots...))
			}
			y.WriteString(field + ":\n- " + entry + "\n")
			k.refs = append(k.refs, [2]string{"file", entry})
		}
		k.yaml = y.String()
		sc.files[dir+"/"+k.name] = k.yaml
	}
	build(app, 0, "")
	build(lib, 1, "")
	build(inner, 1, innerKind)
	resFile(lib, "l.yaml", "lib-l")
	sc.files[outside+"/kustomization.yaml"] = "resources: []\n"
	sc.dirs = append(sc.dirs, base+"/deep")
	if !clean && r.Intn(8) == 0 {
		for i, k := range sc.kusts {
			if k.root == inner && k.name != "kustomization.yml" {
				sc.files[inner+"/kustomization.yml"] = "resources: []\n" // two kustomization files: an error
				sc.kusts = append(sc.kusts[:i], sc.kusts[i+1:]...)       // … so the root has no usable kustomization
				break
			}
		}
	}
	return sc
}

func (sc *locScenario) populate(fs filesys.FileSystem) {
	for _, d := range sc.dirs {
		fs.MkdirAll(d)
	}
	for p, c := range sc.files {
		fs.MkdirAll(filepath.Dir(p))
		fs.WriteFile(p, []byte(c))
	}
}

// snapshot: every directory and file of fs below root ("dir" or the content)
func snapshotFS(fs filesys.FileSystem, root string) map[string]string {
	out := map[string]string{}
	fs.Walk(root, func(p string, info os.FileInfo, err error) error {
		if err != nil {
			return nil
		}
		if info.IsDir() {
			out[p] = "dir"
		} else {
			b, _ := fs.ReadFile(p)
			out[p] = "file:" + string(b)
		}
		return nil
	})
	return out
}

func isKustName(n string) bool { return n == "kustomization.yaml" || n == "kustomization.yml" || n == "Kustomization" }

func locWire(sc *locScenario, fs0 map[string]string, failMut int) map[string]interface{} {
	ents := []interface{}{}
	var ps []string
	for p := range fs0 {
		ps = append(ps, p)
	}
	sort.Strings(ps)
	for _, p := range ps {
		v := fs0[p]
		if v == "dir" {
			ents = append(ents, []interface{}{compsIf(p), "dir"})
		} else {
			ents = append(ents, []interface{}{compsIf(p), "f", strings.TrimPrefix(v, "file:")})
		}
	}
	kusts := []interface{}{}
	for _, k := range sc.kusts {
		refs := []interface{}{}
		for _, rf := range k.refs {
			refs = append(refs, []interface{}{rf[0], rf[1]})
		}
		kusts = append(kusts, map[string]interface{}{"root": compsIf(k.root), "name": k.name, "refs": refs})
	}
	scope := sc.scope
	if scope == "" {
		scope = sc.target
	}
	return map[string]interface{}{"fs": ents, "kust": kusts, "scope": compsIf(scope), "newDir": compsIf(sc.newDir), "target": compsIf(sc.target),
		"resContents": fixStrs(sc.resContents), "bad": []interface{}{}, "fail": failMut}
}

func init() {
	_ = resmap.NewFactory
	_ = provider.NewDefaultDepProvider
	components["loc.run"] = func(r *rand.Rand, tier string) (map[string]interface{}, func() (interface{}, string)) {
		sc := genLocScenario(r, "/w", false)
		mem := filesys.MakeFsInMemory()
		sc.populate(mem)
		fs0 := snapshotFS(mem, "/")
		// how many mutating calls does the fault-free run make?
		probe := &locFS{FileSystem: mem, failMut: -1, failAll: -1}
		_, _ = localizer.Run(probe, sc.target, sc.scope, sc.newDir)
		n := probe.nMut
		failMut := -1
		if n > 0 && r.Intn(3) > 0 {
			failMut = r.Intn(n)
		}
		wireFail := failMut
		if failMut < 0 {
			wireFail = 1000000
		}
		args := locWire(sc, fs0, wireFail)
		return args, func() (interface{}, string) {
			mem := filesys.MakeFsInMemory()
			sc.populate(mem)
			fs := &locFS{FileSystem: mem, failMut: failMut, failAll: -1, trace: []interface{}{}}
			_, err := localizer.Run(fs, sc.target, sc.scope, sc.newDir)
			if err != nil && os.Getenv("VH_DEBUG") != "" {
				fmt.Fprintln(realStderr, "localize error:", err)
			}
			final := snapshotFS(mem, "/")
			ents := []interface{}{}
			var ps []string
			for p := range final {
				ps = append(ps, p)
			}
			sort.Strings(ps)
			for _, p := range ps {
				v := final[p]
				if v == "dir" {
					ents = append(ents, []interface{}{compsIf(p), "dir"})
				} else {
					c := strings.TrimPrefix(v, "file:")
					if _, was := fs0[p]; !was && isKustName(filepath.Base(p)) && strings.HasPrefix(p, sc.newDir+"/") {
						c = "<localized kustomization>"
					}
					ents = append(ents, []interface{}{compsIf(p), c})
				}
			}
			cl := "success"
			if err != nil {
				cl = "error"
				if failMut >= 0 {
					cl = "error-injected"
				}
			} else if failMut >= 0 {
				cl = "success-despite-fault"
			}
			return map[string]interface{}{"ok": map[string]interface{}{"success": err == nil, "trace": fs.trace, "fs": ents}}, cl
		}
	}
}
