package main

import (
	"math/rand"
	"sort"

	"sigs.k8s.io/kustomize/api/types"
	"sigs.k8s.io/kustomize/kyaml/filesys"
	"sigs.k8s.io/kustomize/kyaml/resid"
)

// JSON view of a types.Kustomization restricted to the fields the fix functions touch (C19 model `Fix.K`).

func fixPairs(m map[string]string) []interface{} {
	ks := make([]string, 0, len(m))
	for k := range m {
		ks = append(ks, k)
	}
	sort.Strings(ks)
	out := []interface{}{}
	for _, k := range ks {
		out = append(out, []interface{}{k, m[k]})
	}
	return out
}

func fixStrs(l []string) []interface{} {
	out := []interface{}{}
	for _, s := range l {
		out = append(out, s)
	}
	return out
}

func fixFS(f types.FieldSpec) interface{} {
	return map[string]interface{}{"group": f.Group, "version": f.Version, "kind": f.Kind, "path": f.Path, "create": f.CreateIfNotPresent}
}

func fixFSs(l []types.FieldSpec) []interface{} {
	out := []interface{}{}
	for _, f := range l {
		out = append(out, fixFS(f))
	}
	return out
}

func fixPatches(l []types.Patch) []interface{} {
	out := []interface{}{}
	for _, p := range l {
		t := ""
		if p.Target != nil {
			t = p.Target.Name
		}
		out = append(out, map[string]interface{}{"path": p.Path, "patch": p.Patch, "target": t})
	}
	return out
}

func fixKView(k *types.Kustomization) map[string]interface{} {
	imgs := func(l []types.Image) []interface{} {
		out := []interface{}{}
		for _, i := range l {
			out = append(out, i.Name)
		}
		return out
	}
	cms := []interface{}{}
	for _, g := range k.ConfigMapGenerator {
		cms = append(cms, map[string]interface{}{"body": g.Name, "envs": fixStrs(g.EnvSources), "env": g.EnvSource})
	}
	secs := []interface{}{}
	for _, g := range k.SecretGenerator {
		secs = append(secs, map[string]interface{}{"body": g.Name, "envs": fixStrs(g.EnvSources), "env": g.EnvSource})
	}
	labels := []interface{}{}
	for _, l := range k.Labels {
		labels = append(labels, map[string]interface{}{"pairs": fixPairs(l.Pairs), "incSel": l.IncludeSelectors, "incTpl": l.IncludeTemplates, "fields": fixFSs(l.FieldSpecs)})
	}
	psm := []string{}
	for _, p := range k.PatchesStrategicMerge {
		psm = append(psm, string(p))
	}
	return map[string]interface{}{
		"kind": k.Kind, "apiVersion": k.APIVersion, "resources": fixStrs(k.Resources), "bases": fixStrs(k.Bases),
		"images": imgs(k.Images), "imageTags": imgs(k.ImageTags), "cms": cms, "secrets": secs,
		"commonLabels": fixPairs(k.CommonLabels), "labels": labels, "psm": fixStrs(psm),
		"patches": fixPatches(k.Patches), "pj": fixPatches(k.PatchesJson6902),
	}
}

func genFixK(r *rand.Rand) (*types.Kustomization, []string) {
	names := []string{"a.yaml", "b.yaml", "../base", "dir", "p1.yaml", "p2.yaml", "kind: X\nmetadata:\n  name: y\n", ""}
	strs := func(max int) []string {
		var l []string
		for i := r.Intn(max + 1); i > 0; i-- {
			l = append(l, pickS(r, names))
		}
		return l
	}
	imgs := func() []types.Image {
		var l []types.Image
		for _, s := range strs(2) {
			l = append(l, types.Image{Name: s})
		}
		return l
	}
	pairs := func() map[string]string {
		if r.Intn(3) == 0 {
			return nil
		}
		m := map[string]string{}
		for i := r.Intn(3); i > 0; i-- {
			m[pickS(r, []string{"app", "tier", "env", "team"})] = pickS(r, []string{"x", "y", ""})
		}
		return m
	}
	patches := func() []types.Patch {
		var l []types.Patch
		for i := r.Intn(3); i > 0; i-- {
			p := types.Patch{}
			if r.Intn(2) == 0 {
				p.Path = pickS(r, names)
			} else {
				p.Patch = pickS(r, names)
			}
			if r.Intn(2) == 0 {
				p.Target = &types.Selector{ResId: resid.ResId{Name: pickS(r, []string{"t1", "t2"})}}
			}
			l = append(l, p)
		}
		return l
	}
	gens := func() []types.GeneratorArgs {
		var l []types.GeneratorArgs
		for i := r.Intn(3); i > 0; i-- {
			g := types.GeneratorArgs{Name: pickS(r, []string{"g1", "g2"})}
			g.EnvSources = strs(2)
			if r.Intn(2) == 0 {
				g.EnvSource = pickS(r, []string{"e.env", "f.env", ""})
			}
			l = append(l, g)
		}
		return l
	}
	k := &types.Kustomization{}
	k.Kind = pickS(r, []string{"", "", "Kustomization", "Component", "Other"})
	k.APIVersion = pickS(r, []string{"", "", "kustomize.config.k8s.io/v1beta1", "v9"})
	k.Resources, k.Bases = strs(3), strs(2)
	k.Images, k.ImageTags = imgs(), imgs()
	for _, g := range gens() {
		k.ConfigMapGenerator = append(k.ConfigMapGenerator, types.ConfigMapArgs{GeneratorArgs: g})
	}
	for _, g := range gens() {
		k.SecretGenerator = append(k.SecretGenerator, types.SecretArgs{GeneratorArgs: g})
	}
	k.CommonLabels = pairs()
	for i := r.Intn(3); i > 0; i-- {
		l := types.Label{Pairs: pairs(), IncludeSelectors: r.Intn(2) == 0, IncludeTemplates: r.Intn(2) == 0}
		if r.Intn(3) == 0 {
			l.FieldSpecs = []types.FieldSpec{{Path: "spec/x", CreateIfNotPresent: r.Intn(2) == 0}}
		}
		k.Labels = append(k.Labels, l)
	}
	if r.Intn(3) > 0 {
		for _, s := range strs(3) {
			k.PatchesStrategicMerge = append(k.PatchesStrategicMerge, types.PatchStrategicMerge(s))
		}
	}
	k.Patches, k.PatchesJson6902 = patches(), patches()
	var files []string
	probe := filesys.MakeFsInMemory()
	for _, n := range names[:6] {
		if r.Intn(2) == 0 {
			probe.WriteFile(n, []byte("x"))
			if _, err := probe.ReadFile(n); err == nil { // the in-memory FS cannot address `../base`
				files = append(files, n)
			}
		}
	}
	return k, files
}

func genFS(r *rand.Rand) types.FieldSpec {
	return types.FieldSpec{
		Gvk:                resid.Gvk{Group: pickS(r, []string{"", "", "apps"}), Version: pickS(r, []string{"", "", "v1"}), Kind: pickS(r, []string{"", "Deployment", "Service"})},
		Path:               pickS(r, []string{"metadata/labels", "spec/selector", "spec/x"}),
		CreateIfNotPresent: r.Intn(4) != 0,
	}
}

func init() {
	components["fix.load"] = func(r *rand.Rand, tier string) (map[string]interface{}, func() (interface{}, string)) {
		k, _ := genFixK(r)
		args := map[string]interface{}{"k": fixKView(k)}
		return args, func() (interface{}, string) {
			k.FixKustomization()
			cl := "plain"
			if len(args["k"].(map[string]interface{})["bases"].([]interface{})) > 0 {
				cl = "bases"
			}
			return map[string]interface{}{"ok": fixKView(k)}, cl
		}
	}
	components["fix.pre"] = func(r *rand.Rand, tier string) (map[string]interface{}, func() (interface{}, string)) {
		k, files := genFixK(r)
		args := map[string]interface{}{"k": fixKView(k), "files": fixStrs(files)}
		return args, func() (interface{}, string) {
			fs := filesys.MakeFsInMemory()
			for _, f := range files {
				fs.WriteFile(f, []byte("x"))
			}
			if err := k.FixKustomizationPreMarshalling(fs); err != nil {
				return map[string]interface{}{"err": "label-clash"}, "label-clash"
			}
			cl := "fixed"
			if len(k.Labels) > 0 && k.Labels[len(k.Labels)-1].IncludeSelectors {
				cl = "fixed-labels"
			}
			return map[string]interface{}{"ok": fixKView(k)}, cl
		}
	}
	components["fix.mergeall"] = func(r *rand.Rand, tier string) (map[string]interface{}, func() (interface{}, string)) {
		var a, b []types.FieldSpec
		for i := r.Intn(4); i > 0; i-- {
			a = append(a, genFS(r))
		}
		for i := r.Intn(5); i > 0; i-- {
			b = append(b, genFS(r))
		}
		args := map[string]interface{}{"a": fixFSs(a), "b": fixFSs(b)}
		return args, func() (interface{}, string) {
			res, err := types.FsSlice(a).MergeAll(b)
			if err != nil {
				return map[string]interface{}{"err": "conflict"}, "conflict"
			}
			cl := "merged"
			if len(res) < len(a)+len(b) {
				cl = "merged-dedup"
			}
			return map[string]interface{}{"ok": fixFSs(res)}, cl
		}
	}
}
