package main

import (
	"math/rand"
	"regexp"
	"strings"

	"sigs.k8s.io/kustomize/api/resmap"
	"sigs.k8s.io/kustomize/api/types"
	"sigs.k8s.io/kustomize/kyaml/resid"
)

// resmap.select: which resources a selector designates (`target:` of patches, select/reject of replacements, …) —
// resWrangler.Select + SelectorRegex against the model Kust.Select.select.  Resources carry rename AND move histories, so
// that original and current name / namespace differ independently.
func init() {
	type req struct {
		key, op string
		vals    []string
	}
	render := func(q req) string {
		switch q.op {
		case "eq":
			return q.key + "=" + q.vals[0]
		case "neq":
			return q.key + "!=" + q.vals[0]
		case "in":
			return q.key + " in (" + strings.Join(q.vals, ",") + ")"
		case "notin":
			return q.key + " notin (" + strings.Join(q.vals, ",") + ")"
		case "has":
			return q.key
		}
		return "!" + q.key
	}
	components["resmap.select"] = func(r *rand.Rand, tier string) (map[string]interface{}, func() (interface{}, string)) {
		names := []string{"app", "web", "app-1", "a-app", "xapp"}
		nss := []string{"", "", "default", "ns1", "prod"}
		kinds := [][3]string{{"apps", "v1", "Deployment"}, {"apps", "v1", "StatefulSet"}, {"", "v1", "ConfigMap"}, {"example.com", "v1beta1", "Widget"},
			{"rbac.authorization.k8s.io", "v1", "ClusterRole"}}
		type sres struct {
			c      nrCand
			labels map[string]string
			annos  map[string]string
		}
		var rs []sres
		var ws []wid
		for i := 0; i < 2+r.Intn(5); i++ {
			k := kinds[r.Intn(len(kinds))]
			ns := pickS(r, nss)
			orig := pickS(r, names)
			c := nrCand{w: wid{k[0], k[1], k[2], orig, ns}}
			cur, curNs := orig, ns
			for st := r.Intn(3); st > 0; st-- {
				eff := curNs
				if eff == "" {
					eff = "default"
				}
				if k[2] == "ClusterRole" {
					eff = "_non_namespaceable_"
				}
				c.prev = append(c.prev, [3]string{k[2], cur, eff})
				switch r.Intn(3) {
				case 0:
					p := pickS(r, []string{"a-", "x"})
					cur = p + cur
					c.pre = append(c.pre, p)
				case 1:
					cur += "-1"
					c.suf = append(c.suf, "-1")
				default:
					if k[2] != "ClusterRole" {
						curNs = pickS(r, []string{"prod", "ns1", "stage"})
					}
				}
			}
			c.w.Name, c.w.NS = cur, curNs
			dup := false
			for _, o := range rs {
				if o.c.w == c.w {
					dup = true
				}
			}
			if dup {
				continue
			}
			x := sres{c: c, labels: map[string]string{}, annos: map[string]string{}}
			if r.Intn(2) == 0 {
				x.labels["tier"] = pickS(r, []string{"fe", "be"})
			}
			if r.Intn(3) == 0 {
				x.labels["app"] = pickS(r, []string{"x", "y"})
			}
			if r.Intn(3) == 0 {
				x.annos["team"] = pickS(r, []string{"a", "b"})
			}
			rs = append(rs, x)
			ws = append(ws, c.w)
		}
		pick := func(pool []string) string {
			if r.Intn(3) != 0 {
				return ""
			}
			if r.Intn(25) == 0 {
				return pickS(r, []string{"(", "[", "*", "(?"}) // does not compile
			}
			return pickS(r, pool)
		}
		sel := types.Selector{ResId: resid.ResId{Gvk: resid.Gvk{
			Group:   pick([]string{"apps", "app.*", "", "example.com", "rbac.*", "apps|example.com"}),
			Version: pick([]string{"v1", "v1.*", "v2", ""}),
			Kind:    pick([]string{"Deployment", "Deploy", "Deployment|StatefulSet", ".*Set", "ConfigMap", "Widget", "ClusterRole"})},
			Name:      pick([]string{"app", "web", "app.*", "a-app", "xapp", "app-1", ".*-1", "a.p", "app|web", "a-.*"}),
			Namespace: pick([]string{"default", "prod", "ns1", "pr.*", "stage", "_non_namespaceable_", "de", ".*"})}}
		mkReqs := func(keys []string, vals []string) ([]req, string, bool) {
			if r.Intn(3) != 0 {
				return nil, "", true
			}
			if r.Intn(12) == 0 {
				return nil, pickS(r, []string{"tier in", "a=b=c", "tier notin (", "=x"}), false
			}
			var qs []req
			var parts []string
			for i := 0; i < 1+r.Intn(2); i++ {
				q := req{key: pickS(r, keys), op: pickS(r, []string{"eq", "eq", "neq", "in", "notin", "has", "hasnot"})}
				switch q.op {
				case "eq", "neq":
					q.vals = []string{pickS(r, vals)}
				case "in", "notin":
					q.vals = []string{pickS(r, vals), pickS(r, vals)}
				}
				qs = append(qs, q)
				parts = append(parts, render(q))
			}
			return qs, strings.Join(parts, ","), true
		}
		lq, ltext, lok := mkReqs([]string{"tier", "app", "missing"}, []string{"fe", "be", "x", "zz"})
		aq, atext, aok := mkReqs([]string{"team", "nokey"}, []string{"a", "b", "c"})
		sel.LabelSelector, sel.AnnotationSelector = ltext, atext
		reqJ := func(qs []req, ok bool) interface{} {
			if !ok {
				return nil
			}
			out := []interface{}{}
			for _, q := range qs {
				out = append(out, map[string]interface{}{"key": q.key, "op": q.op, "vals": fixStrs(q.vals)})
			}
			return out
		}
		// the regular-expression oracle: Go's own regexp on the anchored pattern, for every pattern and every string it may meet
		var cand []string
		for _, x := range rs {
			cand = append(cand, x.c.w.Name, x.c.w.Group, x.c.w.Version, x.c.w.Kind)
			eff := func(ns, kind string) string {
				if kind == "ClusterRole" {
					return "_non_namespaceable_"
				}
				if ns == "" {
					return "default"
				}
				return ns
			}
			cand = append(cand, eff(x.c.w.NS, x.c.w.Kind))
			for _, p := range x.c.prev {
				cand = append(cand, p[1], p[2])
			}
		}
		hit := map[string]interface{}{}
		bad := []string{}
		for _, p := range []string{sel.Group, sel.Version, sel.Kind, sel.Name, sel.Namespace} {
			if p == "" {
				continue
			}
			re, err := regexp.Compile("^(?:" + p + ")$")
			if err != nil {
				bad = append(bad, p)
				continue
			}
			m := map[string]interface{}{}
			for _, v := range cand {
				if re.MatchString(v) {
					m[v] = true
				}
			}
			hit[p] = m
		}
		var jres []interface{}
		for _, x := range rs {
			j := x.c.wire()
			var lp, ap []interface{}
			for k, v := range x.labels {
				lp = append(lp, []interface{}{k, v})
			}
			for k, v := range x.annos {
				ap = append(ap, []interface{}{k, v})
			}
			if lp == nil {
				lp = []interface{}{}
			}
			if ap == nil {
				ap = []interface{}{}
			}
			j["labels"], j["annos"] = lp, ap
			jres = append(jres, j)
		}
		args := map[string]interface{}{"cs": csGraph(ws...), "hit": hit, "bad": bad, "res": jres,
			"sel": map[string]interface{}{"group": sel.Group, "version": sel.Version, "kind": sel.Kind, "name": sel.Name, "ns": sel.Namespace,
				"lsel": reqJ(lq, lok), "asel": reqJ(aq, aok)}}
		return args, func() (interface{}, string) {
			m := resmap.New()
			for _, x := range rs {
				extra := map[string]interface{}{}
				res, err := x.c.resource(extra)
				if err != nil {
					return map[string]interface{}{"err": "unmodelled"}, "skip-load"
				}
				if len(x.labels) > 0 {
					res.SetLabels(x.labels)
				}
				if len(x.annos) > 0 {
					an := res.GetAnnotations()
					for k, v := range x.annos {
						an[k] = v
					}
					res.SetAnnotations(an)
				}
				if err := m.Append(res); err != nil {
					return map[string]interface{}{"err": "unmodelled"}, "skip-collision"
				}
			}
			got, err := m.Select(sel)
			if err != nil {
				c := "selector"
				if strings.Contains(err.Error(), "error parsing regexp") {
					c = "regex"
				}
				return map[string]interface{}{"err": c}, "err-" + c
			}
			out := []interface{}{}
			for _, g := range got {
				out = append(out, widOf(g.CurId()).json())
			}
			cl := "none"
			if len(got) > 0 {
				cl = "some"
			}
			if len(got) == len(rs) {
				cl = "all"
			}
			return map[string]interface{}{"ok": out}, cl
		}
	}
}
